(* Hs engine — proofs about the symbolic handshake model (C15). *)
From Ergo Require Import Common.Base Hs.Model.
Local Open Scope N_scope.

(* ------------------------------------------------------------------------------------------------ *)
(* induction on terms through the list in [H]                                                        *)

Lemma term_ind' (P : term -> Prop) :
  (forall n, P (Salt n)) -> (forall c, P (Cookie c)) -> (forall s, P (Str s)) -> (forall z, P (Num z)) ->
  (forall a b, P a -> P b -> P (Pair a b)) ->
  (forall l, Forall P l -> P (H l)) ->
  forall t, P t.
Proof.
  intros HS HC HSt HN HP HH.
  fix IH 1. intros [n|c|s|z|a b|l].
  - apply HS. - apply HC. - apply HSt. - apply HN.
  - apply HP; apply IH.
  - apply HH. induction l as [|x l IHl]; constructor; [apply IH | exact IHl].
Qed.

Lemma term_eqb_refl t : term_eqb t t = true.
Proof.
  induction t as [n|c|s|z|a b IHa IHb|l IHl] using term_ind'; cbn [term_eqb];
    try apply N.eqb_refl; try apply Z.eqb_refl.
  - rewrite IHa, IHb. reflexivity.
  - induction IHl as [|x l Hx _ IH]; [reflexivity|]. rewrite Hx. exact IH.
Qed.

Lemma term_eqb_eq a b : term_eqb a b = true <-> a = b.
Proof.
  split; [|intros ->; apply term_eqb_refl].
  revert b. induction a as [n|c|s|z|a1 a2 IH1 IH2|l IHl] using term_ind'; intros [m|m|m|m|b1 b2|l'];
    cbn [term_eqb]; intros E; try discriminate.
  - apply N.eqb_eq in E. congruence.
  - apply N.eqb_eq in E. congruence.
  - apply N.eqb_eq in E. congruence.
  - apply Z.eqb_eq in E. congruence.
  - apply andb_true_iff in E as [E1 E2]. apply IH1 in E1. apply IH2 in E2. congruence.
  - f_equal. revert l' E. induction IHl as [|x l Hx _ IH]; intros [|y l'] E; try discriminate; [reflexivity|].
    apply andb_true_iff in E as [E1 E2]. apply Hx in E1. apply IH in E2. congruence.
Qed.

Lemma term_eqb_neq a b : term_eqb a b = false <-> a <> b.
Proof.
  split.
  - intros E ->. rewrite term_eqb_refl in E. discriminate.
  - intros N. destruct (term_eqb a b) eqn:E; [|reflexivity]. apply term_eqb_eq in E. contradiction.
Qed.

(* ------------------------------------------------------------------------------------------------ *)
(* induction on derivations                                                                          *)

Scheme derives_mind := Minimality for derives Sort Prop
  with derives_all_mind := Minimality for derives_all Sort Prop.

Lemma derives_all_Forall K l : derives_all K l <-> Forall (derives K) l.
Proof.
  split.
  - induction 1; constructor; assumption.
  - induction 1; constructor; assumption.
Qed.

(* a property closed under the attacker's operations holds of everything derivable *)
Lemma derives_inv K (P : term -> Prop) :
  (forall t, In t K -> P t) ->
  (forall s, P (Str s)) -> (forall z, P (Num z)) ->
  (forall a b, P a -> P b -> P (Pair a b)) ->
  (forall a b, P (Pair a b) -> P a) -> (forall a b, P (Pair a b) -> P b) ->
  (forall l, Forall P l -> P (mkH l)) ->
  forall t, derives K t -> P t.
Proof.
  intros HK HS HN HP H1 H2 HH.
  apply (derives_mind K P (Forall P)); eauto.
Qed.

(* ------------------------------------------------------------------------------------------------ *)
(* facts about flat / exposed / occurs / sechashes                                                   *)

Lemma flat_nonempty t : flat t <> [].
Proof.
  induction t as [n|c|s|z|a b IHa IHb|l _] using term_ind'; cbn [flat]; try discriminate.
  destruct (flat a); [contradiction|discriminate].
Qed.

Lemma flat_no_pair t x : In x (flat t) -> forall a b, x <> Pair a b.
Proof.
  induction t as [n|c|s|z|a b IHa IHb|l _] using term_ind'; cbn [flat]; intros Hin p q;
    try (destruct Hin as [<-|[]]; discriminate).
  apply in_app_or in Hin as [Hin|Hin]; [apply IHa|apply IHb]; assumption.
Qed.

Lemma exposed_flat c t : exposed c t = existsb (term_eqb (Cookie c)) (flat t).
Proof.
  induction t as [n|c'|s|z|a b IHa IHb|l _] using term_ind'; cbn [exposed flat existsb term_eqb];
    try reflexivity.
  - rewrite orb_false_r. reflexivity.
  - rewrite existsb_app, IHa, IHb. reflexivity.
Qed.

Lemma existsb_flat_map {A B} (f : B -> bool) (g : A -> list B) l :
  existsb f (flat_map g l) = existsb (fun x => existsb f (g x)) l.
Proof.
  induction l as [|x l IH]; [reflexivity|]. cbn [flat_map existsb]. rewrite existsb_app, IH. reflexivity.
Qed.

Lemma existsb_ext' {A} (f g : A -> bool) l : (forall x, f x = g x) -> existsb f l = existsb g l.
Proof. intros E. induction l as [|x l IH]; [reflexivity|]. cbn [existsb]. rewrite E, IH. reflexivity. Qed.

Lemma cookie_in_mkH c l :
  existsb (term_eqb (Cookie c)) (flat_map flat l) = existsb (exposed c) l.
Proof.
  rewrite existsb_flat_map. apply existsb_ext'. intros x. symmetry. apply exposed_flat.
Qed.

Lemma occurs_flat n t : existsb (occurs n) (flat t) = occurs n t.
Proof.
  induction t as [m|c'|s|z|a b IHa IHb|l _] using term_ind'; cbn [occurs flat existsb];
    try (rewrite orb_false_r; reflexivity).
  rewrite existsb_app, IHa, IHb. reflexivity.
Qed.

Lemma occurs_mkH n l : occurs n (mkH l) = existsb (occurs n) l.
Proof.
  unfold mkH. cbn [occurs]. rewrite existsb_flat_map. apply existsb_ext'. intros x. apply occurs_flat.
Qed.

Lemma sechashes_flat c t x : In x (flat_map (sechashes c) (flat t)) <-> In x (sechashes c t).
Proof.
  induction t as [m|c'|s|z|a b IHa IHb|l _] using term_ind'; cbn [flat flat_map sechashes];
    try (rewrite app_nil_r; reflexivity).
  rewrite flat_map_app, !in_app_iff, IHa, IHb. reflexivity.
Qed.

Lemma sechashes_occurs c n t x : In x (sechashes c t) -> occurs n x = true -> occurs n t = true.
Proof.
  induction t as [m|c'|s|z|a b IHa IHb|l IHl] using term_ind'; cbn [sechashes]; intros Hin Ho;
    try contradiction.
  - cbn [occurs]. apply in_app_or in Hin as [Hin|Hin]; apply orb_true_iff; [left; apply IHa|right; apply IHb]; assumption.
  - apply in_app_or in Hin as [Hin|Hin].
    + destruct (existsb _ l); [|contradiction]. destruct Hin as [<-|[]]. exact Ho.
    + cbn [occurs]. apply in_flat_map in Hin as (y & Hy & Hin). apply existsb_exists. exists y. split; [exact Hy|].
      rewrite Forall_forall in IHl. apply IHl; assumption.
Qed.

(* ------------------------------------------------------------------------------------------------ *)
(* The attacker lemma.  If the cookie is not exposed in what the attacker holds, then
   (1) it is not exposed in anything derivable, (2) every hash over the cookie inside a derivable term
   already occurs inside the attacker's knowledge (it was computed by somebody who knows the cookie),
   (3) salts the attacker never saw do not occur in derivable terms.                                  *)

Definition guarded (c : N) (K : list term) : Prop := forall t, In t K -> exposed c t = false.
Definition sec_in (c : N) (K : list term) (x : term) : Prop := exists k, In k K /\ In x (sechashes c k).

Lemma derives_not_exposed c K : guarded c K -> forall t, derives K t -> exposed c t = false.
Proof.
  intros G. apply derives_inv; cbn [exposed]; auto.
  - intros a b Ha Hb. rewrite Ha, Hb. reflexivity.
  - intros a b Hab. apply orb_false_iff in Hab. tauto.
  - intros a b Hab. apply orb_false_iff in Hab. tauto.
Qed.

Theorem cookie_secret c K : guarded c K -> ~ derives K (Cookie c).
Proof.
  intros G D. apply (derives_not_exposed c K G) in D. cbn [exposed] in D. rewrite N.eqb_refl in D. discriminate.
Qed.

Lemma derives_sechashes c K : guarded c K ->
  forall t, derives K t -> exposed c t = false /\ forall x, In x (sechashes c t) -> sec_in c K x.
Proof.
  intros G. apply derives_inv.
  - intros t Hin. split; [apply G; exact Hin|]. intros x Hx. exists t. tauto.
  - intros s. split; [reflexivity|intros x []].
  - intros z. split; [reflexivity|intros x []].
  - intros a b [Ea Ha] [Eb Hb]. cbn [exposed sechashes]. rewrite Ea, Eb. split; [reflexivity|].
    intros x Hx. apply in_app_or in Hx as [Hx|Hx]; auto.
  - intros a b [E Hs]. cbn [exposed sechashes] in *. apply orb_false_iff in E. split; [tauto|].
    intros x Hx. apply Hs. apply in_or_app. tauto.
  - intros a b [E Hs]. cbn [exposed sechashes] in *. apply orb_false_iff in E. split; [tauto|].
    intros x Hx. apply Hs. apply in_or_app. tauto.
  - intros l Hl. split; [reflexivity|]. unfold mkH. cbn [sechashes]. rewrite cookie_in_mkH.
    assert (E : existsb (exposed c) l = false).
    { apply not_true_is_false. intros E. apply existsb_exists in E as (y & Hy & Ey).
      rewrite Forall_forall in Hl. destruct (Hl y Hy) as [Ey' _]. congruence. }
    rewrite E. cbn [app]. intros x Hx.
    apply in_flat_map in Hx as (y & Hy & Hx). apply in_flat_map in Hy as (z & Hz & Hy).
    rewrite Forall_forall in Hl. destruct (Hl z Hz) as [_ Hs]. apply Hs.
    apply sechashes_flat. apply in_flat_map. exists y. tauto.
Qed.

(* a hash over the cookie is derivable only if it already occurs in the knowledge *)
Theorem secret_hash_not_forgeable c K l : guarded c K ->
  existsb (term_eqb (Cookie c)) l = true -> derives K (H l) -> sec_in c K (H l).
Proof.
  intros G E D. destruct (derives_sechashes c K G _ D) as [_ Hs]. apply Hs.
  cbn [sechashes]. rewrite E. left. reflexivity.
Qed.

Definition unseen (n : N) (K : list term) : Prop := forall t, In t K -> occurs n t = false.

Lemma derives_unseen n K : unseen n K -> forall t, derives K t -> occurs n t = false.
Proof.
  intros U. apply derives_inv; cbn [occurs]; auto.
  - intros a b Ha Hb. rewrite Ha, Hb. reflexivity.
  - intros a b Hab. apply orb_false_iff in Hab. tauto.
  - intros a b Hab. apply orb_false_iff in Hab. tauto.
  - intros l Hl. rewrite occurs_mkH. apply not_true_is_false. intros E.
    apply existsb_exists in E as (y & Hy & Ey). rewrite Forall_forall in Hl. rewrite (Hl y Hy) in Ey. discriminate.
Qed.

Lemma sec_in_unseen c n K x : unseen n K -> sec_in c K x -> occurs n x = false.
Proof.
  intros U (k & Hk & Hx). apply not_true_is_false. intros E.
  pose proof (U k Hk) as Uk. rewrite (sechashes_occurs c n k x Hx E) in Uk. discriminate Uk.
Qed.

(* ------------------------------------------------------------------------------------------------ *)
(* C15_hello_auth — acceptor side.
   The adversary feeds the acceptor frame after frame; each frame is derivable from what it held
   before the session (K: transcripts of any earlier sessions, other cookies, ...) plus what the
   acceptor has written so far in this session.                                                      *)

Fixpoint adv_feeds_acc (p : party) (nB nID : N) (ps : Z) (K : list term) (st : astate) (ins : list msg) : Prop :=
  match ins with
  | [] => True
  | m :: tl => msg_derivable K m /\
               adv_feeds_acc p nB nID ps (K ++ wire_terms (snd (acc_step p nB nID ps st m)))
                             (fst (acc_step p nB nID ps st m)) tl
  end.

Definition hello_accepted (st : astate) : bool :=
  match st with A2 _ _ _ _ | ADone _ => true | _ => false end.

Lemma acc_run_absorb p nB nID ps st ins :
  match st with AFail _ | AJoined _ _ | ADone _ => True | _ => False end ->
  acc_run p nB nID ps st ins = (st, []).
Proof.
  intros Hst. induction ins as [|m tl IH]; [reflexivity|]. cbn [acc_run].
  assert (E : acc_step p nB nID ps st m = (st, [])) by (destruct st; try contradiction; reflexivity).
  rewrite E, IH. reflexivity.
Qed.

Lemma guarded_app c K K' : guarded c K -> guarded c K' -> guarded c (K ++ K').
Proof. intros G G' t Hin. apply in_app_or in Hin as [Hin|Hin]; auto. Qed.

Lemma mkH_cons_H l : exists l', mkH l = H l'.
Proof. eexists. reflexivity. Qed.

Lemma length_flat_ge1 t : (1 <= length (flat t))%nat.
Proof. pose proof (flat_nonempty t). destruct (flat t); [contradiction|cbn; lia]. Qed.

(* the Introduce digest the acceptor expects is not derivable *)
Lemma intro_digest_underivable p nB K d1 :
  let c := p_cookie p in
  guarded c K -> unseen nB K -> derives K d1 ->
  ~ derives (K ++ [Salt nB; acc_digest p nB d1]) (mkH [Salt nB; Cookie c]).
Proof.
  intros c G U D1 D.
  assert (G1 : guarded c (K ++ [Salt nB; acc_digest p nB d1])).
  { apply guarded_app; [exact G|]. intros t [<-|[<-|[]]]; reflexivity. }
  unfold mkH in D. cbn [flat_map flat app] in D.
  apply (secret_hash_not_forgeable c _ _ G1) in D;
    [|cbn [existsb term_eqb]; rewrite N.eqb_refl; apply orb_true_r].
  destruct D as (k & Hk & Hx).
  apply in_app_or in Hk as [Hk|Hk].
  - assert (E : occurs nB (H [Salt nB; Cookie c]) = false) by (apply (sec_in_unseen c nB K); [exact U|exists k; tauto]).
    cbn [occurs existsb] in E. rewrite N.eqb_refl in E. discriminate.
  - destruct Hk as [<-|[<-|[]]]; [contradiction Hx|].
    unfold acc_digest, mkH in Hx. cbn [flat_map flat sechashes app] in Hx.
    apply in_app_or in Hx as [Hx|Hx].
    + destruct (existsb _ _); [|contradiction]. destruct Hx as [Hx|[]].
      injection Hx as Hx. pose proof (length_flat_ge1 d1) as L.
      apply (f_equal (@length term)) in Hx. rewrite app_length in Hx. cbn [length] in Hx. lia.
    + rewrite flat_map_app in Hx. apply in_app_or in Hx as [Hx|Hx]; [|cbn in Hx; contradiction].
      apply sechashes_flat in Hx.
      pose proof (derives_unseen nB K U d1 D1) as O1.
      rewrite (sechashes_occurs c nB d1 _ Hx) in O1; [discriminate|].
      cbn [occurs existsb]. rewrite N.eqb_refl. reflexivity.
Qed.

Theorem hello_auth_acceptor p nB nID ps K ins :
  let c := p_cookie p in
  guarded c K -> unseen nB K ->
  adv_feeds_acc p nB nID ps K A0 ins ->
  hello_accepted (fst (acc_run p nB nID ps A0 ins)) = false.
Proof.
  intros c G U F.
  destruct ins as [|m1 tl]; [reflexivity|].
  cbn [acc_run adv_feeds_acc] in *. destruct F as [D1 F].
  destruct (acc_step p nB nID ps A0 m1) as [st1 o1] eqn:E1. cbn [fst snd] in F.
  assert (Hcases : (st1 = A1 /\ exists s1 d1, m1 = MHello s1 d1 /\ o1 = [MHello (Salt nB) (acc_digest p nB d1)])
                   \/ match st1 with AFail _ | AJoined _ _ => True | _ => False end).
  { cbn [acc_step] in E1. destruct (frame_err m1) eqn:Ef.
    - injection E1 as <- <-. right. exact I.
    - destruct m1; cbn [frame_err] in Ef; try discriminate;
        try (injection E1 as <- <-; right; exact I).
      + destruct (term_eqb _ _); injection E1 as <- <-; [left; split; [reflexivity|eauto]|right; exact I].
      + destruct (term_eqb _ _); injection E1 as <- <-; right; exact I. }
  destruct Hcases as [(-> & s1 & d1 & -> & ->)|Habs].
  2:{ rewrite acc_run_absorb by (destruct st1; tauto). cbn [fst]. destruct st1; try contradiction; reflexivity. }
  destruct tl as [|m2 tl]; [reflexivity|].
  cbn [acc_run adv_feeds_acc wire_terms flat_map msg_terms app] in *. destruct F as [D2 _].
  assert (Dd1 : derives K d1) by (apply D1; cbn [msg_terms]; right; left; reflexivity).
  assert (E2 : exists e, acc_step p nB nID ps A1 m2 = (AFail e, [])).
  { cbn [acc_step]. destruct (frame_err m2) eqn:Ef; [eauto|].
    destruct m2; cbn [frame_err] in Ef; try discriminate; eauto.
    destruct (term_eqb node (p_name p)); [eauto|].
    destruct (term_eqb digest _) eqn:Ed; [|eauto]. exfalso.
    apply term_eqb_eq in Ed. subst digest.
    apply (intro_digest_underivable p nB K d1 G U Dd1).
    apply D2. cbn [msg_terms]. right. left. reflexivity. }
  destruct E2 as [e ->]. rewrite acc_run_absorb by exact I. reflexivity.
Qed.

(* ------------------------------------------------------------------------------------------------ *)
(* C15_hello_auth — initiator side (dual): a peer without the cookie never gets the initiator past
   its Hello check, so the initiator never sends its Introduce and never returns a result.           *)

Fixpoint adv_feeds_init (p : party) (nA : N) (K : list term) (st : istate) (ins : list msg) : Prop :=
  match ins with
  | [] => True
  | m :: tl => msg_derivable K m /\
               adv_feeds_init p nA (K ++ wire_terms (snd (init_step p nA st m))) (fst (init_step p nA st m)) tl
  end.

Definition init_passed_hello (st : istate) : bool :=
  match st with I2 _ | I3 _ _ | IDone _ _ => true | _ => false end.

Lemma init_run_absorb p nA st ins :
  match st with IFail _ | IDone _ _ => True | _ => False end -> init_run p nA st ins = (st, []).
Proof.
  intros Hst. induction ins as [|m tl IH]; [reflexivity|]. cbn [init_run].
  assert (E : init_step p nA st m = (st, [])) by (destruct st; try contradiction; reflexivity).
  rewrite E, IH. reflexivity.
Qed.

Lemma hello2_digest_underivable p nA K s2 :
  guarded (p_cookie p) K -> unseen nA K ->
  ~ derives (K ++ [Salt nA; init_digest p nA]) (mkH [s2; init_digest p nA; Cookie (p_cookie p)]).
Proof.
  intros G U D.
  unfold init_digest, mkH in D. cbn [flat_map flat app] in D.
  remember (p_cookie p) as c eqn:Ec.
  remember (H [Salt nA; Cookie c]) as dA eqn:EdA.
  assert (G1 : guarded c (K ++ [Salt nA; dA])).
  { apply guarded_app; [exact G|]. intros t [<-|[<-|[]]]; [reflexivity|subst dA; reflexivity]. }
  apply (secret_hash_not_forgeable c _ _ G1) in D.
  2:{ rewrite existsb_app. apply orb_true_iff. right. subst dA. cbn [existsb term_eqb]. rewrite N.eqb_refl. reflexivity. }
  assert (Occ : occurs nA (H (flat s2 ++ [dA; Cookie c])) = true).
  { cbn [occurs]. rewrite existsb_app. apply orb_true_iff. right. subst dA. cbn [existsb occurs]. rewrite N.eqb_refl. reflexivity. }
  destruct D as (k & Hk & Hx).
  apply in_app_or in Hk as [Hk|Hk].
  - rewrite (sec_in_unseen c nA K _ U) in Occ; [discriminate|exists k; tauto].
  - destruct Hk as [<-|[<-|[]]]; [contradiction Hx|].
    subst dA. cbn [flat_map flat app sechashes existsb term_eqb] in Hx.
    rewrite N.eqb_refl in Hx. cbn [orb app] in Hx.
    destruct Hx as [Hx|[]]. injection Hx as Hx.
    pose proof (length_flat_ge1 s2) as L. apply (f_equal (@length term)) in Hx.
    rewrite app_length in Hx. cbn [length] in Hx. lia.
Qed.

Theorem hello_auth_initiator p nA K ins :
  guarded (p_cookie p) K -> unseen nA K ->
  adv_feeds_init p nA (K ++ wire_terms [init_hello p nA]) I1 ins ->
  init_passed_hello (fst (init_run p nA I1 ins)) = false /\ snd (init_run p nA I1 ins) = [].
Proof.
  intros G U F.
  destruct ins as [|m1 tl]; [split; reflexivity|].
  cbn [init_run adv_feeds_init] in *. destruct F as [D1 _].
  assert (E : exists e, init_step p nA I1 m1 = (IFail e, [])).
  { cbn [init_step]. destruct (frame_err m1) eqn:Ef; [eauto|].
    destruct m1; cbn [frame_err] in Ef; try discriminate; eauto.
    destruct (term_eqb digest _) eqn:Ed; [|eauto]. exfalso.
    apply term_eqb_eq in Ed. subst digest.
    apply (hello2_digest_underivable p nA K salt G U).
    apply D1. cbn [msg_terms]. right. left. reflexivity. }
  destruct E as [e ->]. rewrite init_run_absorb by exact I. split; reflexivity.
Qed.

(* ------------------------------------------------------------------------------------------------ *)
(* Join.  Initiator side: the Accept digest sha256(join.Digest:cookie) covers the fresh salt, so it is
   authenticated.  Acceptor side: nothing fresh from the acceptor enters the Join digest.            *)

Theorem join_initiator_auth p cid nJ K ins :
  guarded (p_cookie p) K -> unseen nJ K -> In cid K ->
  (forall m, In m ins -> msg_derivable (K ++ [Salt nJ; join_digest p cid nJ]) m) ->
  join_final p cid nJ ins <> JDone.
Proof.
  intros G U Hcid F.
  assert (Hstep : forall m, msg_derivable (K ++ [Salt nJ; join_digest p cid nJ]) m ->
                            exists e, join_step p cid nJ J1 m = JFail e).
  { intros m Dm. cbn [join_step]. destruct (frame_err m) eqn:Ef; [eauto|].
    destruct m; cbn [frame_err] in Ef; try discriminate; eauto.
    destruct (term_eqb digest _) eqn:Ed; [|eauto]. exfalso.
    apply term_eqb_eq in Ed. subst digest.
    assert (D : derives (K ++ [Salt nJ; join_digest p cid nJ]) (mkH [join_digest p cid nJ; Cookie (p_cookie p)]))
      by (apply Dm; cbn [msg_terms]; right; left; reflexivity).
    clear Dm F. unfold join_digest, mkH in D. cbn [flat_map flat app] in D. rewrite ?app_nil_r in D.
    remember (p_cookie p) as c eqn:Ec.
    remember (H (flat cid ++ [Salt nJ; Cookie c])) as dJ eqn:EdJ.
    assert (G1 : guarded c (K ++ [Salt nJ; dJ])).
    { apply guarded_app; [exact G|]. intros t [<-|[<-|[]]]; [reflexivity|subst dJ; reflexivity]. }
    apply (secret_hash_not_forgeable c _ _ G1) in D;
      [|cbn [existsb term_eqb]; rewrite N.eqb_refl; subst dJ; reflexivity].
    assert (OdJ : occurs nJ dJ = true).
    { subst dJ. cbn [occurs]. rewrite existsb_app. apply orb_true_iff. right. cbn [existsb occurs]. rewrite N.eqb_refl. reflexivity. }
    assert (Occ : occurs nJ (H [dJ; Cookie c]) = true) by (cbn [occurs existsb]; rewrite OdJ; reflexivity).
    destruct D as (k & Hk & Hx).
    apply in_app_or in Hk as [Hk|Hk].
    - rewrite (sec_in_unseen c nJ K _ U) in Occ; [discriminate|exists k; tauto].
    - destruct Hk as [<-|[<-|[]]]; [contradiction Hx|].
      pose proof Occ as Occ'. clear Occ. rename Occ' into Occ.
      remember (H [dJ; Cookie c]) as tgt eqn:Etgt.
      rewrite EdJ in Hx. cbn [sechashes] in Hx.
      apply in_app_or in Hx as [Hx|Hx].
      + destruct (existsb _ _); [|contradiction]. destruct Hx as [Hx|[]]. rewrite Etgt in Hx. injection Hx as Hx.
        pose proof (length_flat_ge1 cid) as L. apply (f_equal (@length term)) in Hx.
        rewrite app_length in Hx. cbn [length] in Hx. lia.
      + rewrite flat_map_app in Hx. apply in_app_or in Hx as [Hx|Hx]; [|cbn in Hx; contradiction].
        apply sechashes_flat in Hx.
        pose proof (U cid Hcid) as O1.
        rewrite (sechashes_occurs c nJ cid _ Hx Occ) in O1. discriminate. }
  unfold join_final.
  destruct ins as [|m1 tl].
  - cbn. discriminate.
  - cbn [app fold_left]. destruct (Hstep m1 (F m1 (or_introl eq_refl))) as [e ->].
    assert (Habs : forall l, fold_left (join_step p cid nJ) l (JFail e) = JFail e)
      by (induction l as [|x l IH]; [reflexivity|exact IH]).
    rewrite Habs. discriminate.
Qed.

(* the replay: everything the adversary sends was on the wire of one earlier honest Join *)
Definition replay_party := mk_party 1 (Str 2) 7%Z (mk_flags true true true false false true true) 0%Z.
Definition replay_peer := mk_party 1 (Str 1) 5%Z (mk_flags true true true false false true true) 0%Z.
Definition replay_recorded : list msg := [join_msg replay_peer (Salt 13) 21].
Definition replay_K : list term := wire_terms replay_recorded.

Definition join_replay_b : bool :=
  negb (derivable_b replay_K (Cookie 1)) &&
  forallb (msg_derivable_b replay_K) replay_recorded &&
  forallb (fun t => negb (exposed 1 t) && negb (occurs 901 t)) replay_K &&
  acc_accepted (acc_final replay_party 901 902 3%Z replay_recorded) &&
  (* ... and with the Node field rewritten *)
  acc_accepted (acc_final replay_party 901 902 3%Z [MJoin (Str 66) (Salt 13) (Salt 21) (join_digest replay_peer (Salt 13) 21)]).

Lemma join_replay_b_true : join_replay_b = true.
Proof. vm_compute. reflexivity. Qed.


Theorem join_replay_refuted : exists (p : party) (K : list term) (ins : list msg) (nB nID : N) (ps : Z),
  guarded (p_cookie p) K /\ unseen nB K /\ ~ derives K (Cookie (p_cookie p)) /\
  (forall m, In m ins -> msg_derivable K m) /\
  acc_accepted (acc_final p nB nID ps ins) = true.
Proof.
  exists replay_party, replay_K, replay_recorded, 901, 902, 3%Z.
  pose proof join_replay_b_true as B. unfold join_replay_b in B.
  repeat (apply andb_true_iff in B as [B ?]).
  assert (G : guarded 1 replay_K).
  { intros t Hin. match goal with H : forallb _ replay_K = true |- _ => rewrite forallb_forall in H; specialize (H t Hin);
      apply andb_true_iff in H as [H _]; apply negb_true_iff in H; exact H end. }
  split; [exact G|]. split.
  { intros t Hin. match goal with H : forallb _ replay_K = true |- _ => rewrite forallb_forall in H; specialize (H t Hin);
      apply andb_true_iff in H as [_ H]; apply negb_true_iff in H; exact H end. }
  split; [apply cookie_secret; exact G|]. split.
  - intros m Hm t Ht. apply d_known. unfold replay_K, wire_terms. apply in_flat_map. exists m. tauto.
  - assumption.
Qed.

(* what does hold on the Join path: the digest was computed by a holder of the cookie (it occurs in
   the adversary's knowledge) — the adversary cannot choose a new connection id or salt *)
Theorem join_accept_partial p nB nID ps K node cid s d :
  guarded (p_cookie p) K -> derives K d ->
  fst (acc_step p nB nID ps A0 (MJoin node cid s d)) = AJoined node cid ->
  d = mkH [cid; s; Cookie (p_cookie p)] /\ sec_in (p_cookie p) K d.
Proof.
  intros G D E. cbn [acc_step frame_err] in E.
  destruct (term_eqb d _) eqn:Ed; [|discriminate]. apply term_eqb_eq in Ed. split; [exact Ed|].
  rewrite Ed in D |- *. unfold mkH in *. apply secret_hash_not_forgeable; [exact G| |exact D].
  cbn [flat_map flat]. rewrite !existsb_app. cbn [existsb term_eqb]. rewrite N.eqb_refl. rewrite !orb_true_r. reflexivity.
Qed.

Lemma acc_run_no_join_later p nB nID ps st ins :
  match st with A1 | A2 _ _ _ _ | AFail _ | ADone _ => True | _ => False end ->
  match fst (acc_run p nB nID ps st ins) with AJoined _ _ => False | _ => True end.
Proof.
  revert st. induction ins as [|m tl IH]; intros st Hst.
  - cbn. destruct st; tauto.
  - cbn [acc_run]. destruct (acc_step p nB nID ps st m) as [st' o] eqn:E.
    specialize (IH st'). destruct (acc_run p nB nID ps st' tl) as [st'' o'] eqn:E'. cbn [fst] in *.
    apply IH. clear IH E'.
    destruct st; try contradiction; cbn [acc_step] in E;
      try (injection E as <- <-; exact I);
      destruct (frame_err m); try (injection E as <- <-; exact I);
      destruct m; try (injection E as <- <-; exact I).
    destruct (term_eqb node (p_name p)); [injection E as <- <-; exact I|].
    destruct (term_eqb digest _); injection E as <- <-; exact I.
Qed.

(* the full acceptor statement with its guard: under an adversary, acceptance happens only through a
   first frame that is a Join carrying a digest computed by a cookie holder *)
Theorem accept_partial p nB nID ps K ins :
  guarded (p_cookie p) K -> unseen nB K ->
  adv_feeds_acc p nB nID ps K A0 ins ->
  acc_accepted (fst (acc_run p nB nID ps A0 ins)) = true ->
  exists node cid s d tl, ins = MJoin node cid s d :: tl /\ sec_in (p_cookie p) K d.
Proof.
  intros G U F Acc.
  pose proof (hello_auth_acceptor p nB nID ps K ins G U F) as HA.
  destruct ins as [|m1 tl]; [discriminate Acc|].
  cbn [adv_feeds_acc] in F. destruct F as [D1 _].
  cbn [acc_run] in *. destruct (acc_step p nB nID ps A0 m1) as [st1 o1] eqn:E1.
  destruct (acc_run p nB nID ps st1 tl) as [st2 o2] eqn:E2. cbn [fst] in *.
  destruct st1.
  - (* A0: impossible *) cbn [acc_step] in E1. destruct (frame_err m1); [discriminate|].
    destruct m1; try discriminate; destruct (term_eqb _ _); discriminate.
  - pose proof (acc_run_no_join_later p nB nID ps A1 tl I) as NJ. rewrite E2 in NJ. cbn [fst] in NJ.
    destruct st2; try discriminate Acc; try discriminate HA; contradiction.
  - cbn [acc_step] in E1. destruct (frame_err m1); [discriminate|].
    destruct m1; try discriminate; destruct (term_eqb _ _); discriminate.
  - cbn [acc_step] in E1. destruct (frame_err m1); [discriminate|].
    destruct m1; try discriminate; destruct (term_eqb _ _); discriminate.
  - (* AJoined *) cbn [acc_step] in E1. destruct (frame_err m1) eqn:Ef; [discriminate|].
    destruct m1; try discriminate; try (destruct (term_eqb _ _); discriminate).
    match type of E1 with context[term_eqb ?d (mkH [?c; ?sl; _])] =>
      match type of D1 with msg_derivable _ (MJoin ?nd _ _ _) =>
        exists nd, c, sl, d, tl; split; [reflexivity|];
        assert (Dd : derives K d) by (apply D1; cbn [msg_terms]; do 3 right; left; reflexivity);
        eapply (join_accept_partial p nB nID ps K nd c sl d G Dd);
        cbn [acc_step frame_err]; destruct (term_eqb d _); [reflexivity|discriminate]
      end end.
  - rewrite acc_run_absorb in E2 by exact I. injection E2 as <- <-. discriminate Acc.
Qed.

(* ------------------------------------------------------------------------------------------------ *)
(* C15_agreement and cookie choice on the faithful link                                              *)

Theorem pair_same_cookie pa pb nA nB nID ps :
  p_cookie pa = p_cookie pb -> p_name pa <> p_name pb ->
  let s := run_pair pa pb nA nB nID ps in
  s_init s = IDone (mk_res (p_name pb) (Salt nID) (p_creation pb) (wire_flags (p_flags pb)) (p_mms pb) (p_flags pa) (p_mms pa)) ps /\
  s_acc s = ADone (mk_res (p_name pa) (Salt nID) (p_creation pa) (wire_flags (p_flags pa)) (p_mms pa) (p_flags pb) (p_mms pb)).
Proof.
  intros Ec En.
  assert (En1 : term_eqb (p_name pa) (p_name pb) = false) by (apply term_eqb_neq; exact En).
  assert (En2 : term_eqb (p_name pb) (p_name pa) = false) by (apply term_eqb_neq; congruence).
  unfold run_pair, init_hello, init_digest, acc_digest, intro_of.
  cbn [acc_step frame_err]. rewrite <- Ec.
  rewrite (term_eqb_refl (mkH [Salt nA; Cookie (p_cookie pa)])).
  cbn [init_run init_step frame_err app]. unfold init_digest, acc_digest. rewrite <- ?Ec.
  rewrite (term_eqb_refl (mkH [Salt nB; mkH [Salt nA; Cookie (p_cookie pa)]; Cookie (p_cookie pa)])).
  cbn [acc_run acc_step frame_err app intro_of]. rewrite En1. rewrite <- ?Ec.
  rewrite (term_eqb_refl (mkH [Salt nB; Cookie (p_cookie pa)])).
  cbn [init_run init_step frame_err app intro_of]. rewrite En2.
  cbn [acc_run acc_step frame_err app]. split; reflexivity.
Qed.

Theorem pair_different_cookie pa pb nA nB nID ps :
  p_cookie pa <> p_cookie pb ->
  let s := run_pair pa pb nA nB nID ps in
  s_init s = IFail EIO /\ s_acc s = AFail EDigest.
Proof.
  intros Ec.
  assert (E : term_eqb (init_digest pa nA) (mkH [Salt nA; Cookie (p_cookie pb)]) = false).
  { apply term_eqb_neq. unfold init_digest, mkH. cbn [flat_map flat app]. intros Hq. injection Hq as Hq. contradiction. }
  unfold run_pair, init_hello. cbn [acc_step frame_err]. rewrite E. cbn [init_step frame_err fst]. split; reflexivity.
Qed.

Definition connected (s : session) : bool := init_accepted (s_init s) && acc_accepted (s_acc s).

(* connected iff the cookie of the endpoint in use is the same on both sides *)
Theorem cookie_choice node_a route_a node_b acc_b pa pb nA nB nID ps :
  p_cookie pa = route_cookie node_a route_a -> p_cookie pb = acceptor_cookie node_b acc_b ->
  p_name pa <> p_name pb ->
  connected (run_pair pa pb nA nB nID ps) =
  N.eqb (if N.eqb route_a 0 then node_a else route_a) (if N.eqb acc_b 0 then node_b else acc_b).
Proof.
  intros Ea Eb En. unfold route_cookie, acceptor_cookie, or_node in *.
  destruct (N.eqb_spec (if N.eqb route_a 0 then node_a else route_a) (if N.eqb acc_b 0 then node_b else acc_b)) as [E|E].
  - destruct (pair_same_cookie pa pb nA nB nID ps) as [H1 H2]; [congruence|exact En|].
    unfold connected. rewrite H1, H2. reflexivity.
  - destruct (pair_different_cookie pa pb nA nB nID ps) as [H1 H2]; [congruence|].
    unfold connected. rewrite H1. reflexivity.
Qed.

(* active network: the Introduce body is not covered by any digest.  A relay between a live honest
   initiator and the acceptor rewrites name and creation; the acceptor completes with the forged peer. *)
Definition live_relay_b : bool :=
  let pa := replay_peer in let pb := replay_party in
  let h1 := init_hello pa 1 in
  let '(a1, o1) := acc_step pb 2 3 3%Z A0 h1 in
  let '(i2, o2) := init_run pa 1 I1 o1 in
  match o2 with
  | [MIntro n cr fl mms d] =>
      let forged := MIntro (Str 66) 999%Z fl mms d in
      let seen := wire_terms (h1 :: o1 ++ o2) in
      let '(a3, o3) := acc_step pb 2 3 3%Z a1 forged in
      match fst (acc_run pb 2 3 3%Z a3 [MAccept tempty 0%Z tempty]) with
      | ADone r => term_eqb (r_peer r) (Str 66) && Z.eqb (r_peer_creation r) 999 &&
                   msg_derivable_b seen forged && negb (derivable_b seen (Cookie 1)) &&
                   forallb (fun t => negb (exposed 1 t)) seen
      | _ => false
      end
  | _ => false
  end.

Theorem live_relay_refuted : live_relay_b = true.
Proof. vm_compute. reflexivity. Qed.

(* ------------------------------------------------------------------------------------------------ *)
(* Permission tables                                                                                 *)

Lemma tget_tset_same n e t : tget n (tset n e t) = Some e.
Proof.
  induction t as [|[k e'] t IH]; cbn [tset tget].
  - rewrite N.eqb_refl. reflexivity.
  - destruct (N.eqb_spec n k); cbn [tget]; [rewrite N.eqb_refl; reflexivity|].
    destruct (N.eqb_spec n k); [contradiction|exact IH].
Qed.

Lemma tget_tset_other n n' e t : n <> n' -> tget n (tset n' e t) = tget n t.
Proof.
  intros Hn. induction t as [|[k e'] t IH]; cbn [tset tget].
  - destruct (N.eqb_spec n n'); [contradiction|reflexivity].
  - destruct (N.eqb_spec n' k); cbn [tget].
    + subst k. destruct (N.eqb_spec n n'); [contradiction|reflexivity].
    + destruct (N.eqb_spec n k); [reflexivity|exact IH].
Qed.

Lemma tget_tdel_same n t : tget n (tdel n t) = None.
Proof.
  induction t as [|[k e'] t IH]; cbn [tdel tget]; [reflexivity|].
  destruct (N.eqb_spec n k); [exact IH|]. cbn [tget]. destruct (N.eqb_spec n k); [contradiction|exact IH].
Qed.

Lemma tget_tdel_other n n' t : n <> n' -> tget n (tdel n' t) = tget n t.
Proof.
  intros Hn. induction t as [|[k e'] t IH]; cbn [tdel tget]; [reflexivity|].
  destruct (N.eqb_spec n' k).
  - subst k. destruct (N.eqb_spec n n'); [contradiction|exact IH].
  - cbn [tget]. destruct (N.eqb_spec n k); [reflexivity|exact IH].
Qed.

Lemma mget_mset k k' v m : mget k (mset k' v m) = if N.eqb k k' then v else mget k m.
Proof.
  induction m as [|[j w] m IH]; cbn [mset mget]; [reflexivity|].
  destruct (N.eqb_spec k' j); cbn [mget].
  - subst j. destruct (N.eqb_spec k k'); reflexivity.
  - destruct (N.eqb_spec k j); [|exact IH]. subst j. destruct (N.eqb_spec k k'); [congruence|reflexivity].
Qed.

Lemma mget_mset_all k ks v m : mget k (mset_all ks v m) = if existsb (N.eqb k) ks then v else mget k m.
Proof.
  unfold mset_all. revert m. induction ks as [|j ks IH]; intros m; cbn [fold_left existsb]; [reflexivity|].
  rewrite IH, mget_mset. destruct (N.eqb k j); cbn [orb]; [|reflexivity]. destruct (existsb _ ks); reflexivity.
Qed.

Lemma mset_nonnil k v m : is_nil (mset k v m) = false.
Proof. destruct m as [|[j w] m]; cbn [mset]; [reflexivity|]. destruct (N.eqb k j); reflexivity. Qed.

Lemma mset_all_nonnil ks v m : is_nil ks = false -> is_nil (mset_all ks v m) = false.
Proof.
  unfold mset_all. intros Hks. destruct ks as [|j ks]; [discriminate|]. cbn [fold_left].
  assert (Hg : forall ks m, is_nil m = false -> is_nil (fold_left (fun m k => mset k v m) ks m) = false).
  { induction ks0 as [|i ks0 IH]; intros m0 Hm; cbn [fold_left]; [exact Hm|]. apply IH. apply mset_nonnil. }
  apply Hg. apply mset_nonnil.
Qed.

Lemma trun_snoc h op : trun (h ++ [op]) = fst (tapply (trun h) op).
Proof. unfold trun. rewrite fold_left_app. reflexivity. Qed.

Lemma existsb_snoc {A} (f : A -> bool) l x : existsb f (l ++ [x]) = existsb f l || f x.
Proof. rewrite existsb_app. cbn [existsb]. rewrite orb_false_r. reflexivity. Qed.

Lemma spec_allowed_snoc h op name peer :
  spec_allowed (h ++ [op]) name peer =
  (spec_allowed h name peer && negb (op_disables name peer op)) || op_enables name peer op.
Proof.
  induction h as [|o h IH]; cbn [app spec_allowed existsb].
  - cbn. rewrite !orb_false_r, andb_true_r. reflexivity.
  - rewrite IH, existsb_snoc.
    destruct (op_enables name peer o), (existsb (op_disables name peer) h), (op_disables name peer op),
      (spec_allowed h name peer), (op_enables name peer op); reflexivity.
Qed.

Definition is_allowed (a : access) : bool := match a with AAllowed _ => true | _ => false end.

Lemma access_allowed_inv t name peer :
  is_allowed (access_of t name peer) = true ->
  exists fid m, tget name t = Some (fid, m) /\ (is_nil m || mget peer m) = true.
Proof.
  unfold access_of. destruct (tget name t) as [[fid m]|]; [|discriminate].
  destruct (is_nil m || mget peer m) eqn:E; [|discriminate]. eauto.
Qed.

Lemma access_allowed_intro t name peer fid m :
  tget name t = Some (fid, m) -> mget peer m = true -> is_allowed (access_of t name peer) = true.
Proof. intros E Hm. unfold access_of. rewrite E, Hm, orb_true_r. reflexivity. Qed.

Lemma table_step_safe t op name peer (sp : bool) :
  (is_allowed (access_of t name peer) = true -> sp = true) ->
  is_allowed (access_of (fst (tapply t op)) name peer) = true ->
  ((sp && negb (op_disables name peer op)) || op_enables name peer op) = true.
Proof.
  intros IH Hal.
  destruct op as [n fid ns|n ns]; cbn [tapply op_enables op_disables] in *.
  - (* Enable *) rewrite andb_true_r.
    destruct (N.eqb_spec n name) as [->|Hn].
    2:{ cbn [andb]. rewrite orb_false_r. apply IH.
        destruct (tget n t) as [[fid' m]|]; [destruct (negb (N.eqb fid fid'))|]; cbn [fst] in Hal;
          try exact Hal; unfold access_of in *; rewrite tget_tset_other in Hal by congruence; exact Hal. }
    cbn [andb]. unfold covers.
    destruct (tget name t) as [[fid' m]|] eqn:Et.
    + destruct (negb (N.eqb fid fid')); cbn [fst] in Hal; [rewrite (IH Hal); reflexivity|].
      apply access_allowed_inv in Hal as (f2 & m2 & E2 & Hm2). rewrite tget_tset_same in E2. injection E2 as <- <-.
      destruct (is_nil ns) eqn:Ens; [apply orb_true_r|]. cbn [orb].
      rewrite mset_all_nonnil in Hm2 by exact Ens. cbn [orb] in Hm2. rewrite mget_mset_all in Hm2.
      destruct (existsb (N.eqb peer) ns); [apply orb_true_r|]. rewrite orb_false_r. apply IH.
      eapply access_allowed_intro; eauto.
    + cbn [fst] in Hal. apply access_allowed_inv in Hal as (f2 & m2 & E2 & Hm2). rewrite tget_tset_same in E2. injection E2 as <- <-.
      destruct (is_nil ns) eqn:Ens; [apply orb_true_r|]. cbn [orb].
      rewrite mset_all_nonnil in Hm2 by exact Ens. cbn [orb] in Hm2. rewrite mget_mset_all in Hm2.
      destruct (existsb (N.eqb peer) ns); [apply orb_true_r|]. cbn [mget] in Hm2. discriminate.
  - (* Disable *) rewrite orb_false_r.
    destruct (N.eqb_spec n name) as [->|Hn].
    2:{ cbn [andb negb]. rewrite andb_true_r. apply IH.
        destruct (tget n t) as [[fid' m]|]; [destruct (is_nil ns)|]; cbn [fst] in Hal; try exact Hal;
          unfold access_of in *; [rewrite tget_tdel_other in Hal by congruence|rewrite tget_tset_other in Hal by congruence]; exact Hal. }
    cbn [andb]. unfold covers.
    destruct (tget name t) as [[fid' m]|] eqn:Et.
    + destruct (is_nil ns) eqn:Ens; cbn [fst] in Hal.
      * unfold access_of in Hal. rewrite tget_tdel_same in Hal. discriminate.
      * apply access_allowed_inv in Hal as (f2 & m2 & E2 & Hm2). rewrite tget_tset_same in E2. injection E2 as <- <-.
        rewrite mset_all_nonnil in Hm2 by exact Ens. cbn [orb] in Hm2. rewrite mget_mset_all in Hm2.
        destruct (existsb (N.eqb peer) ns); [discriminate|]. cbn [orb negb]. rewrite andb_true_r. apply IH.
        eapply access_allowed_intro; eauto.
    + cbn [fst] in Hal. unfold access_of in Hal. rewrite Et in Hal. discriminate.
Qed.

(* allowed after any history => some Enable(name, ns) with ns=[] \/ peer in ns that no later
   Disable(name, ms) with ms=[] \/ peer in ms follows *)
Theorem table_safe h name peer : allowed h name peer = true -> spec_allowed h name peer = true.
Proof.
  unfold allowed. change (is_allowed (access_of (trun h) name peer) = true -> spec_allowed h name peer = true).
  induction h as [|op h IH] using rev_ind; [discriminate|].
  rewrite trun_snoc, spec_allowed_snoc. apply table_step_safe. exact IH.
Qed.

(* the specification unfolded: what spec_allowed says *)
Lemma spec_allowed_exists h name peer :
  spec_allowed h name peer = true <->
  exists h1 op h2, h = h1 ++ op :: h2 /\ op_enables name peer op = true /\
                   forall o, In o h2 -> op_disables name peer o = false.
Proof.
  split.
  - induction h as [|o h IH]; cbn [spec_allowed]; [discriminate|]. intros E. apply orb_true_iff in E as [E|E].
    + apply andb_true_iff in E as [E1 E2]. exists [], o, h. split; [reflexivity|]. split; [exact E1|].
      intros x Hx. apply negb_true_iff in E2. destruct (op_disables name peer x) eqn:Ex; [|reflexivity].
      rewrite <- E2. symmetry. apply existsb_exists. eauto.
    + destruct (IH E) as (h1 & op & h2 & -> & H1 & H2). exists (o :: h1), op, h2. auto.
  - intros (h1 & op & h2 & -> & H1 & H2). induction h1 as [|o h1 IH]; cbn [app spec_allowed].
    + rewrite H1. cbn [andb]. apply orb_true_iff. left. apply negb_true_iff. apply not_true_is_false. intros E.
      apply existsb_exists in E as (x & Hx & Ex). rewrite (H2 x Hx) in Ex. discriminate.
    + rewrite IH. apply orb_true_r.
Qed.

(* the converse is not a security property and fails: narrowing "any node" by a later Enable with nodes *)
Definition table_converse_b : bool :=
  let h := [Enable 1 0 []; Enable 1 0 [5]] in spec_allowed h 1 6 && negb (allowed h 1 6).
Theorem table_converse_refuted : table_converse_b = true.
Proof. vm_compute. reflexivity. Qed.

(* the defect repaired by a542016, kept as a regression witness: with Disable deleting map entries the
   history Enable(n,[a]); Disable(n,[a]) left an empty map = "any node" *)
Definition appstart_regression_b : bool :=
  let h := [Enable 1 0 [5]; Disable 1 [5]] in negb (allowed h 1 5) && negb (allowed h 1 6) && negb (spec_allowed h 1 6).
Theorem appstart_regression : appstart_regression_b = true.
Proof. vm_compute. reflexivity. Qed.

(* ------------------------------------------------------------------------------------------------ *)
(* Flags and env                                                                                     *)

Theorem flags_gate field peer_fl node_fl h name source :
  granted (remote_request field peer_fl node_fl (trun h) name source) = true ->
  flag_ok node_fl field = true /\ flag_ok peer_fl field = true /\ spec_allowed h name source = true.
Proof.
  unfold remote_request. destruct (flag_ok peer_fl field); cbn [negb]; [|discriminate].
  destruct (flag_ok node_fl field); cbn [negb]; [|discriminate]. cbn [granted]. intros G.
  repeat split. apply table_safe. unfold allowed. destruct (access_of (trun h) name source); try discriminate. reflexivity.
Qed.

(* a target that switched the capability off never runs the request, whatever the requester does *)
Theorem flags_off_never field peer_fl node_fl t name source :
  f_enable node_fl = true -> field node_fl = false ->
  granted (remote_request field peer_fl node_fl t name source) = false.
Proof.
  intros E F. unfold remote_request, flag_ok. rewrite E, F. cbn. destruct (negb _); reflexivity.
Qed.

(* both ends take the same decision from the flags exchanged in the handshake *)
Theorem flags_agree f field : flag_ok (wire_flags f) field = flag_ok f field \/ (f_enable f = false /\ flag_ok (wire_flags f) field = true /\ flag_ok f field = true).
Proof.
  unfold wire_flags, flag_ok. destruct (f_enable f) eqn:E; [left; rewrite E; reflexivity|].
  right. cbn. repeat split.
Qed.

Theorem env_only_when_exposed {A} expose (env : list A) : env_sent expose env <> [] -> expose = true.
Proof. unfold env_sent. destruct expose; [reflexivity|intros Hn; contradiction Hn; reflexivity]. Qed.
