(* Hs engine — records for observed cases (written by go/harness/cmd/hs) and the boolean checkers
   evaluated on them: corr_* (model = implementation), spec_* (the property on what the
   implementation did), premise_* (non-vacuity). *)
From Ergo Require Import Common.Base Hs.Model.
Local Open Scope N_scope.

Definition msg_eqb (a b : msg) : bool :=
  match a, b with
  | MHello s d, MHello s' d' => term_eqb s s' && term_eqb d d'
  | MJoin n c s d, MJoin n' c' s' d' => term_eqb n n' && term_eqb c c' && term_eqb s s' && term_eqb d d'
  | MIntro n cr fl mm d, MIntro n' cr' fl' mm' d' =>
      term_eqb n n' && Z.eqb cr cr' && flags_eqb fl fl' && Z.eqb mm mm' && term_eqb d d'
  | MAccept i p d, MAccept i' p' d' => term_eqb i i' && Z.eqb p p' && term_eqb d d'
  | MOther, MOther | MBad, MBad | MEof, MEof => true
  | _, _ => false
  end.

Definition res_eqb (a b : hresult) : bool :=
  term_eqb (r_peer a) (r_peer b) && term_eqb (r_cid a) (r_cid b) &&
  Z.eqb (r_peer_creation a) (r_peer_creation b) && flags_eqb (r_peer_flags a) (r_peer_flags b) &&
  Z.eqb (r_peer_mms a) (r_peer_mms b) && flags_eqb (r_node_flags a) (r_node_flags b) &&
  Z.eqb (r_node_mms a) (r_node_mms b).

Fixpoint list_eqb {A} (eqb : A -> A -> bool) (a b : list A) : bool :=
  match a, b with
  | [], [] => true
  | x :: a', y :: b' => eqb x y && list_eqb eqb a' b'
  | _, _ => false
  end.

Definition wmsg_eqb (a b : bool * msg) : bool := Bool.eqb (fst a) (fst b) && msg_eqb (snd a) (snd b).

(* what a real Start / Accept / Join call returned *)
Inductive oresult := OOk (r : hresult) | OJoined (peer cid : term) | OErr (e : herr).

Definition ores_eqb (a b : oresult) : bool :=
  match a, b with
  | OOk r, OOk r' => res_eqb r r'
  | OJoined p c, OJoined p' c' => term_eqb p p' && term_eqb c c'
  | OErr e, OErr e' => herr_eqb e e'
  | _, _ => false
  end.

Definition ores_ok (a : oresult) : bool := match a with OErr _ => false | _ => true end.

Definition ores_of_istate (s : istate) : oresult :=
  match s with IDone r _ => OOk r | IFail e => OErr e | _ => OErr EIO end.
Definition ores_of_astate (s : astate) : oresult :=
  match s with ADone r => OOk r | AJoined p c => OJoined p c | AFail e => OErr e | _ => OErr EIO end.
Definition ores_of_jstate (s : jstate) : oresult :=
  match s with JDone => OJoined tempty tempty | JFail e => OErr e | J1 => OErr EIO end.

(* ------------------------------------------------------------------------------------------------ *)
(* pair: real Start against real Accept over pipes, wire tapped and abstracted                       *)

Record pcase := mk_pcase {
  pc_a : party; pc_b : party; pc_ps : Z;
  pc_wire : list (bool * msg);
  pc_ra : oresult; pc_rb : oresult }.

(* the harness numbers the random strings by role: 1 = Start's salt, 2 = Accept's salt, 3 = connection id *)
Definition corr_pair (c : pcase) : bool :=
  let s := run_pair (pc_a c) (pc_b c) 1 2 3 (pc_ps c) in
  list_eqb wmsg_eqb (s_wire s) (pc_wire c) &&
  ores_eqb (ores_of_istate (s_init s)) (pc_ra c) &&
  ores_eqb (ores_of_astate (s_acc s)) (pc_rb c).

Definition agree (pa pb : party) (ra rb : hresult) : bool :=
  term_eqb (r_peer ra) (p_name pb) && term_eqb (r_peer rb) (p_name pa) &&
  Z.eqb (r_peer_creation ra) (p_creation pb) && Z.eqb (r_peer_creation rb) (p_creation pa) &&
  flags_eqb (r_peer_flags ra) (wire_flags (p_flags pb)) && flags_eqb (r_peer_flags rb) (wire_flags (p_flags pa)) &&
  flags_eqb (r_node_flags ra) (p_flags pa) && flags_eqb (r_node_flags rb) (p_flags pb) &&
  Z.eqb (r_peer_mms ra) (p_mms pb) && Z.eqb (r_peer_mms rb) (p_mms pa) &&
  Z.eqb (r_node_mms ra) (p_mms pa) && Z.eqb (r_node_mms rb) (p_mms pb) &&
  term_eqb (r_cid ra) (r_cid rb).

(* the property on the observation: connected on either side only with equal cookies; with equal
   cookies (and different names) both connect and agree *)
Definition spec_pair (c : pcase) : bool :=
  let same := N.eqb (p_cookie (pc_a c)) (p_cookie (pc_b c)) in
  let diffname := negb (term_eqb (p_name (pc_a c)) (p_name (pc_b c))) in
  match pc_ra c, pc_rb c with
  | OOk ra, OOk rb => same && diffname && agree (pc_a c) (pc_b c) ra rb
  | OErr _, OErr _ => negb (same && diffname)
  | _, _ => false
  end.

Definition premise_pair (c : pcase) : bool := negb (term_eqb (p_name (pc_a c)) (p_name (pc_b c))).

(* ------------------------------------------------------------------------------------------------ *)
(* jpair: real Join against real Accept                                                              *)

Record jcase := mk_jcase {
  jc_a : party; jc_b : party; jc_cid : term;
  jc_wire : list (bool * msg);
  jc_ra : oresult; jc_rb : oresult }.

Definition corr_jpair (c : jcase) : bool :=
  let '(j, a, w) := run_join (jc_a c) (jc_b c) (jc_cid c) 1 2 3 0 in
  list_eqb wmsg_eqb w (jc_wire c) &&
  ores_eqb (ores_of_jstate j) (jc_ra c) && ores_eqb (ores_of_astate a) (jc_rb c).

Definition spec_jpair (c : jcase) : bool :=
  let same := N.eqb (p_cookie (jc_a c)) (p_cookie (jc_b c)) in
  match jc_ra c, jc_rb c with
  | OJoined _ _, OJoined p cid => same && term_eqb p (p_name (jc_a c)) && term_eqb cid (jc_cid c)
  | OErr _, OErr _ => negb same
  | _, _ => false
  end.

(* ------------------------------------------------------------------------------------------------ *)
(* adv: an adversary that does not know the cookie drives a real Accept / Start / Join.
   [ac_known]: every term of every frame recorded in the earlier honest sessions of the case;
   [ac_in]: the frames the adversary sent (abstracted); [ac_out]: what the honest party wrote;
   [ac_res]: what the real call returned.  Random strings of the party under attack are numbered
   [ac_n1] (salt) and [ac_n2] (connection id), beyond every number used in the recording.            *)

Inductive role := RAccept | RStart | RJoin (cid : term).

Record acase := mk_acase {
  ac_role : role; ac_p : party; ac_ps : Z; ac_n1 : N; ac_n2 : N;
  ac_known : list term;
  ac_in : list msg; ac_out : list msg;
  ac_res : oresult }.

Definition adv_model (c : acase) : oresult * list msg :=
  match ac_role c with
  | RAccept =>
      let '(s, o) := acc_run (ac_p c) (ac_n1 c) (ac_n2 c) (ac_ps c) A0 (ac_in c ++ [MEof]) in (ores_of_astate s, o)
  | RStart =>
      let '(s, o) := init_run (ac_p c) (ac_n1 c) I1 (ac_in c ++ [MEof]) in
      (ores_of_istate s, init_hello (ac_p c) (ac_n1 c) :: o)
  | RJoin cid =>
      (ores_of_jstate (join_final (ac_p c) cid (ac_n1 c) (ac_in c)), [join_msg (ac_p c) cid (ac_n1 c)])
  end.

Definition corr_adv (c : acase) : bool :=
  let '(r, o) := adv_model c in
  ores_eqb r (ac_res c) && list_eqb msg_eqb o (ac_out c).

(* the adversary really is one: the cookie is not derivable from what it holds, and what it sent is
   derivable from that plus what the party wrote in this session *)
Definition adv_knowledge (c : acase) : list term := ac_known c ++ wire_terms (ac_out c).
Definition premise_adv (c : acase) : bool :=
  negb (derivable_b (adv_knowledge c) (Cookie (p_cookie (ac_p c)))) &&
  forallb (msg_derivable_b (adv_knowledge c)) (ac_in c).

(* the property: a party that does not know the cookie never completes a handshake *)
Definition spec_adv (c : acase) : bool := negb (premise_adv c) || negb (ores_ok (ac_res c)).

(* ------------------------------------------------------------------------------------------------ *)
(* tab: a history of Enable/Disable calls on a real node, then the real decision for every (name, peer) *)

Record tquery := mk_tquery { q_name : N; q_peer : N; q_access : access }.
Record tcase := mk_tcase { tc_hist : list top; tc_res : list tres; tc_queries : list tquery }.

Definition tres_eqb (a b : tres) : bool :=
  match a, b with TOk, TOk | TErrOther, TErrOther | TErrUnknown, TErrUnknown => true | _, _ => false end.
Definition access_eqb (a b : access) : bool :=
  match a, b with
  | AUnknown, AUnknown | ADenied, ADenied => true
  | AAllowed f, AAllowed f' => N.eqb f f'
  | _, _ => false
  end.

Fixpoint tresults (t : table) (h : list top) : list tres :=
  match h with [] => [] | op :: tl => let '(t', r) := tapply t op in r :: tresults t' tl end.

Definition corr_tab (c : tcase) : bool :=
  list_eqb tres_eqb (tresults [] (tc_hist c)) (tc_res c) &&
  forallb (fun q => access_eqb (access_of (trun (tc_hist c)) (q_name q) (q_peer q)) (q_access q)) (tc_queries c).

(* the implementation grants only what the specification grants *)
Definition spec_tab (c : tcase) : bool :=
  forallb (fun q => match q_access q with
                    | AAllowed _ => spec_allowed (tc_hist c) (q_name q) (q_peer q)
                    | _ => true end) (tc_queries c).

Definition premise_tab (c : tcase) : bool :=
  existsb (fun q => match q_access q with AAllowed _ => true | _ => false end) (tc_queries c) &&
  existsb (fun q => match q_access q with ADenied => true | _ => false end) (tc_queries c).

(* ------------------------------------------------------------------------------------------------ *)
(* req: a remote spawn / application start between two real nodes                                    *)

Inductive rkind := KSpawn | KAppStart.
Inductive robs := ObsGranted | ObsRefusedLocally | ObsNoAnswer | ObsDenied | ObsUnknown.

Record rcase := mk_rcase {
  rc_kind : rkind;
  rc_target_flags : flags;          (* the target's flags for this connection *)
  rc_believed_flags : flags;        (* the target's flags as the requester's connection holds them
                                       (honest: what the handshake delivered; rogue: everything on) *)
  rc_hist : list top; rc_name : N; rc_source : N;
  rc_expose : bool; rc_env_seen : bool;   (* requester's exposure switch; did its env arrive *)
  rc_obs : robs }.

Definition field_of (k : rkind) : flags -> bool := match k with KSpawn => f_spawn | KAppStart => f_appstart end.

Definition robs_of (d : rdecision) : robs :=
  match d with
  | RRefusedLocally => ObsDenied   (* both surface as gen.ErrNotAllowed at the caller *)
  | RDropped => ObsNoAnswer
  | RAccess AUnknown => ObsUnknown
  | RAccess ADenied => ObsDenied
  | RAccess (AAllowed _) => ObsGranted
  end.
Definition robs_eqb (a b : robs) : bool :=
  match a, b with
  | ObsGranted, ObsGranted | ObsRefusedLocally, ObsRefusedLocally | ObsNoAnswer, ObsNoAnswer
  | ObsDenied, ObsDenied | ObsUnknown, ObsUnknown => true
  | _, _ => false
  end.

Definition corr_req (c : rcase) : bool :=
  robs_eqb (robs_of (remote_request (field_of (rc_kind c)) (rc_believed_flags c) (rc_target_flags c)
                       (trun (rc_hist c)) (rc_name c) (rc_source c))) (rc_obs c) &&
  Bool.eqb (rc_env_seen c) (match rc_obs c with ObsGranted => rc_expose c | _ => false end).

Definition spec_req (c : rcase) : bool :=
  (match rc_obs c with
   | ObsGranted => flag_ok (rc_target_flags c) (field_of (rc_kind c)) &&
                   spec_allowed (rc_hist c) (rc_name c) (rc_source c)
   | _ => true end) &&
  (negb (rc_env_seen c) || rc_expose c).

(* an honest requester believes what the handshake delivered *)
Definition premise_req (c : rcase) : bool := flags_eqb (rc_believed_flags c) (wire_flags (rc_target_flags c)).

(* ------------------------------------------------------------------------------------------------ *)
(* conn: GetNode between two real nodes with node / acceptor / route cookies                          *)

Record ccase := mk_ccase {
  cc_node_a : N; cc_route_a : N;       (* initiator: node cookie, route's own cookie (0 = none) *)
  cc_node_b : N; cc_acc_b : N;         (* acceptor side: node cookie, acceptor's own cookie (0 = none) *)
  cc_connected_a : bool; cc_connected_b : bool }.

Definition conn_expected (c : ccase) : bool :=
  N.eqb (route_cookie (cc_node_a c) (cc_route_a c)) (acceptor_cookie (cc_node_b c) (cc_acc_b c)).

Definition corr_conn (c : ccase) : bool :=
  Bool.eqb (cc_connected_a c) (conn_expected c) && Bool.eqb (cc_connected_b c) (conn_expected c).

(* stated without the model's selection functions: the cookie "for the endpoint in use" *)
Definition spec_conn (c : ccase) : bool :=
  let ca := if N.eqb (cc_route_a c) 0 then cc_node_a c else cc_route_a c in
  let cb := if N.eqb (cc_acc_b c) 0 then cc_node_b c else cc_acc_b c in
  Bool.eqb (cc_connected_a c) (N.eqb ca cb) && Bool.eqb (cc_connected_b c) (N.eqb ca cb).

Definition premise_conn (c : ccase) : bool := true.
