(* Edf/Model.v — Gallina model of ergo's EDF codec (net/edf/{edf,encode,decode,register}.go),
   transcribed function by function from the code AFTER the repairs
     622a4d5 (decodeString: 2+len computed in int),
     486e516 (decodeError: errors.New instead of fmt.Errorf(text)),
     f56c5c2 (decodeBinary: 4+len computed in int),
     d8d802b (Marshaler encoder: length written through b.B after MarshalEDF, not through a
              slice taken before it).
   Definitions only (no proofs).  [decode] is a standalone total function on arbitrary byte
   lists (reused by C16).

   Modelling decisions
   * a byte is an N, byte strings are lists (Common/Bytes.v); results are [res] with an error
     class (Common/Codec.v); recursion is by fuel [o_fuel] with the explicit error [EFuel].
   * Go values are typed: [ty] is the Go type, [val] the value.  An ill-typed (ty, val) pair
     (no Go value corresponds to it) makes the encoder answer [Err EType].
   * one [opts] record describes both directions of a connection: the encoder looks caches up by
     key, the decoder by id; [dual] swaps the atom mapping (net/proto/enp.go:73-79 installs k->v
     in encodeOptions and v->k in decodeOptions).
   * the registry ([o_reg]) stands for the global encoders/decoders tables filled by
     RegisterTypeOf: type name "#pkg/Name" -> definition.
   * options.Cache (memoisation of encoders/decoders) is semantically transparent and not modelled.
   * edf.Marshaler / encoding.BinaryMarshaler types: the registry entry [RMarsh m u] carries the
     user's two methods as functions on an abstract state (a byte string): [m] = MarshalEDF /
     MarshalBinary (state -> payload), [u] = UnmarshalEDF / UnmarshalBinary (payload -> state);
     a value is [VMarsh state].  Nothing is assumed about [m] and [u] in this file; the round-trip
     theorems take "u inverts m" as the explicit hypothesis [marsh_inv].
   * not modelled: pointer types (rejected by the code). *)
From Ergo Require Import Common.Base Common.Bytes Common.Codec.
Local Open Scope N_scope.

(* ---- edf.go: type tags --------------------------------------------------------------------------- *)
Definition edtType := 130.  Definition edtReg := 131.  Definition edtAny := 132.
Definition edtAtom := 140.  Definition edtString := 141.  Definition edtBinary := 142.
Definition edtFloat32 := 143.  Definition edtFloat64 := 144.  Definition edtBool := 145.
Definition edtInt8 := 146.  Definition edtInt16 := 147.  Definition edtInt32 := 148.
Definition edtInt64 := 149.  Definition edtInt := 150.  Definition edtUint8 := 151.
Definition edtUint16 := 152.  Definition edtUint32 := 153.  Definition edtUint64 := 154.
Definition edtUint := 155.  Definition edtError := 156.  Definition edtSlice := 157.
Definition edtArray := 158.  Definition edtMap := 159.
Definition edtPID := 170.  Definition edtProcessID := 171.  Definition edtAlias := 172.
Definition edtEvent := 173.  Definition edtRef := 174.  Definition edtTime := 175.
Definition edtNil := 255.

(* limits *)
Definition maxAtom := 255.              (* encode.go: len(atom) > 255 -> ErrAtomTooLong; cache ids > 255 *)
Definition maxString := 65535.          (* math.MaxUint16 *)
Definition maxError := 32767.           (* math.MaxInt16; error cache ids > 32767, 65535 = nil *)
Definition maxBinary := 4294967295.     (* math.MaxUint32 *)
Definition maxRegName := 4095.          (* register.go: reg cache ids > 4095 *)
Definition maxMarsh := 4294967294.      (* register.go: lenBinary > math.MaxUint32-1 -> ErrBinaryTooLong *)

Inductive prim :=
| PBool | PInt | PInt8 | PInt16 | PInt32 | PInt64 | PUint | PUint8 | PUint16 | PUint32 | PUint64
| PFloat32 | PFloat64 | PString | PBinary | PAtom | PError
| PPid | PProcessID | PRef | PAlias | PEvent | PTime.

Inductive ty :=
| TPrim (p : prim)
| TAny
| TSlice (t : ty)
| TArray (n : N) (t : ty)
| TMap (k v : ty)
| TReg (name : bytes).          (* registered struct / named type, by its registered name *)

(* body of a registered type (register.go registerType) *)
Inductive rdef :=
| RPrim (p : prim)              (* named bool / int* / uint* / float* / string *)
| RStruct (fs : list ty)
| RSlice (t : ty)
| RArray (n : N) (t : ty)
| RMap (k v : ty)
| RMarsh (m u : bytes -> res bytes).   (* edf.Marshaler / encoding.BinaryMarshaler type: the user's
                                          Marshal (state -> payload) and Unmarshal (payload -> state) *)

Inductive val :=
| VBool (b : bool)
| VInt (z : Z)                                   (* every integer kind *)
| VF32 (bits : N) | VF64 (bits : N)              (* floats by bit pattern *)
| VBytes (b : bytes)                             (* string, []byte, gen.Atom, time.Time (MarshalBinary form) *)
| VBinNil                                        (* nil []byte *)
| VErrNil                                        (* nil error *)
| VErr (sentinel : option N) (text : bytes)      (* Some k = k-th registered sentinel error object *)
| VPid (node : bytes) (id : N) (creation : Z)
| VNames (node name : bytes)                     (* gen.ProcessID, gen.Event *)
| VRef (node : bytes) (creation : Z) (i0 i1 i2 : N)   (* gen.Ref, gen.Alias *)
| VAnyNil                                        (* nil interface *)
| VAny (t : ty) (v : val)                        (* interface holding a value of dynamic type t *)
| VNil                                           (* nil slice / nil map *)
| VList (l : list val)                           (* slice, array, struct fields *)
| VMap (l : list (val * val))                    (* map entries in wire order *)
| VMarsh (x : bytes).                            (* value of a Marshaler type, by its abstract state *)

Record opts := mk_opts {
  o_fuel : nat;
  o_reg : list (bytes * rdef);
  o_atom_cache : option (list (bytes * N));         (* Options.AtomCache: atom <-> id *)
  o_atom_map : option (list (bytes * bytes));       (* Options.AtomMapping *)
  o_reg_cache : option (list (bytes * N));          (* Options.RegCache: type name <-> id *)
  o_err_cache : option (list (N * bytes * N))       (* Options.ErrCache: (sentinel, its text, id) *)
}.

Definition dual (o : opts) : opts :=
  mk_opts (o_fuel o) (o_reg o) (o_atom_cache o)
          (option_map (map (fun p => (snd p, fst p))) (o_atom_map o))
          (o_reg_cache o) (o_err_cache o).

(* ---- tables ------------------------------------------------------------------------------------------ *)
Definition tag_of (p : prim) : N :=
  match p with
  | PBool => edtBool | PInt => edtInt | PInt8 => edtInt8 | PInt16 => edtInt16 | PInt32 => edtInt32
  | PInt64 => edtInt64 | PUint => edtUint | PUint8 => edtUint8 | PUint16 => edtUint16
  | PUint32 => edtUint32 | PUint64 => edtUint64 | PFloat32 => edtFloat32 | PFloat64 => edtFloat64
  | PString => edtString | PBinary => edtBinary | PAtom => edtAtom | PError => edtError
  | PPid => edtPID | PProcessID => edtProcessID | PRef => edtRef | PAlias => edtAlias
  | PEvent => edtEvent | PTime => edtTime
  end.

Definition all_prims : list prim :=
  [PBool; PInt; PInt8; PInt16; PInt32; PInt64; PUint; PUint8; PUint16; PUint32; PUint64;
   PFloat32; PFloat64; PString; PBinary; PAtom; PError; PPid; PProcessID; PRef; PAlias; PEvent; PTime].

(* init.go: decoders.Store(edtXxx, ...) *)
Definition prim_of_tag (t : N) : option prim := find (fun p => tag_of p =? t) all_prims.

Fixpoint assoc {B} (k : bytes) (l : list (bytes * B)) : option B :=
  match l with
  | [] => None
  | (k', b) :: l' => if bytes_eqb k k' then Some b else assoc k l'
  end.

Fixpoint assoc_id (id : N) (l : list (bytes * N)) : option bytes :=
  match l with
  | [] => None
  | (k, i) :: l' => if i =? id then Some k else assoc_id id l'
  end.

Fixpoint err_by_key (k : N) (l : list (N * bytes * N)) : option (bytes * N) :=
  match l with
  | [] => None
  | (k', txt, id) :: l' => if k' =? k then Some (txt, id) else err_by_key k l'
  end.

Fixpoint err_by_id (id : N) (l : list (N * bytes * N)) : option (N * bytes) :=
  match l with
  | [] => None
  | (k, txt, i) :: l' => if i =? id then Some (k, txt) else err_by_id id l'
  end.

Definition lookup_reg (o : opts) (name : bytes) : option rdef := assoc name (o_reg o).

(* ---- atoms (encode.go writeAtom, decode.go readAtom) ---------------------------------------------- *)
Definition map_atom (m : option (list (bytes * bytes))) (a : bytes) : bytes :=
  match m with
  | Some l => match assoc a l with Some b => b | None => a end
  | None => a
  end.

(* func writeAtom: mapping, then cache (id must be > 255), else uint16 length + bytes
   (the length of a MAPPED atom is not checked: uint16(lenAtom)) *)
Definition write_atom (o : opts) (a : bytes) : bytes :=
  let a' := map_atom (o_atom_map o) a in
  match match o_atom_cache o with Some c => assoc a' c | None => None end with
  | Some id => if maxAtom <? id then put_be 2 id else put_lp 2 a'
  | None => put_lp 2 a'
  end.

(* func readAtom *)
Definition read_atom (o : opts) : dec bytes :=
  fun b =>
    '(id, r) <- rd_be 2 b ;;
    '(a, r') <- (if maxAtom <? id then
                   match o_atom_cache o with
                   | None => Err EData
                   | Some c => match assoc_id id c with Some a => Ok (a, r) | None => Err EData end
                   end
                 else if blen r <? id then Err EData
                 else Ok (btake id r, bdrop id r)) ;;
    Ok (map_atom (o_atom_map o) a, r').

(* ---- floats -------------------------------------------------------------------------------------------- *)
(* encodeFloat32: math.Float32bits(float32(value.Float())): the float32->float64->float32
   conversion turns a signalling NaN into the quiet NaN with the same payload (bit 22 set). *)
Definition is_nan32 (n : N) : bool :=
  ((n / 8388608) mod 256 =? 255) && negb (n mod 8388608 =? 0).
Definition quiet32 (n : N) : N :=
  if is_nan32 n && ((n / 4194304) mod 2 =? 0) then n + 4194304 else n.

(* ---- time.Time: value = MarshalBinary bytes; UnmarshalBinary accepts version 1 (15 bytes) or
   2 (16 bytes) ----------------------------------------------------------------------------------------- *)
Definition time_valid (b : bytes) : bool :=
  match b with
  | v :: _ => ((v =? 1) && (blen b =? 15)) || ((v =? 2) && (blen b =? 16))
  | [] => false
  end.

(* ---- integer kinds: (signed?, bytes) ------------------------------------------------------------------ *)
Definition int_kind (p : prim) : option (bool * nat) :=
  match p with
  | PInt => Some (true, 8%nat) | PInt8 => Some (true, 1%nat) | PInt16 => Some (true, 2%nat)
  | PInt32 => Some (true, 4%nat) | PInt64 => Some (true, 8%nat)
  | PUint => Some (false, 8%nat) | PUint8 => Some (false, 1%nat) | PUint16 => Some (false, 2%nat)
  | PUint32 => Some (false, 4%nat) | PUint64 => Some (false, 8%nat)
  | _ => None
  end.

Definition bits_of (k : nat) : N := 8 * N.of_nat k.

(* register.go registerType: kinds a named non-composite type may have *)
Definition regable (p : prim) : bool :=
  match p with
  | PBool | PFloat32 | PFloat64 | PString => true
  | _ => match int_kind p with Some _ => true | None => false end
  end.

(* ---- primitive encoders (encode.go encodeXxx without the type byte) -------------------------------- *)
Definition enc_error (o : opts) (k : option N) (txt : bytes) : res bytes :=
  let text := if maxError <? blen txt then Err ETooLong else Ok (put_lp 2 txt) in
  match k, o_err_cache o with
  | Some key, Some c =>
    match err_by_key key c with
    | Some (txt', id) =>
      if negb (bytes_eqb txt txt') then Err EType          (* a sentinel has one text *)
      else if maxError <? id then Ok (put_be 2 id) else text
    | None => text
    end
  | _, _ => text
  end.

Definition enc_prim (o : opts) (p : prim) (v : val) : res bytes :=
  match int_kind p with
  | Some (sg, k) =>
    match v with
    | VInt z =>
      if (if sg then in_signed (bits_of k) z else in_unsigned (bits_of k) z)
      then Ok (put_be k (to_unsigned (bits_of k) z)) else Err EType
    | _ => Err EType
    end
  | None =>
    match p, v with
    | PBool, VBool b => Ok [if b then 1 else 0]
    | PFloat32, VF32 n => if n <? 2 ^ 32 then Ok (put_be 4 (quiet32 n)) else Err EType
    | PFloat64, VF64 n => if n <? 2 ^ 64 then Ok (put_be 8 n) else Err EType
    | PString, VBytes s => if maxString <? blen s then Err ETooLong else Ok (put_lp 2 s)
    | PBinary, VBytes s => if maxBinary <? blen s then Err ETooLong else Ok (put_lp 4 s)
    | PBinary, VBinNil => Ok (put_lp 4 [])
    | PAtom, VBytes a => if maxAtom <? blen a then Err ETooLong else Ok (write_atom o a)
    | PError, VErrNil => Ok [255; 255]
    | PError, VErr k txt => enc_error o k txt
    | PPid, VPid node id cr =>
      if maxAtom <? blen node then Err ETooLong
      else if (id <? 2 ^ 64) && in_signed 64 cr
      then Ok (write_atom o node ++ put_be 8 id ++ put_be 8 (to_unsigned 64 cr)) else Err EType
    | PProcessID, VNames node name | PEvent, VNames node name =>
      if maxAtom <? blen node then Err ETooLong
      else if maxAtom <? blen name then Err ETooLong
      else Ok (write_atom o node ++ write_atom o name)
    | PRef, VRef node cr i0 i1 i2 | PAlias, VRef node cr i0 i1 i2 =>
      if maxAtom <? blen node then Err ETooLong
      else if in_signed 64 cr && (i0 <? 2 ^ 64) && (i1 <? 2 ^ 64) && (i2 <? 2 ^ 64)
      then Ok (write_atom o node ++ put_be 8 (to_unsigned 64 cr) ++ put_be 8 i0 ++ put_be 8 i1 ++ put_be 8 i2)
      else Err EType
    | PTime, VBytes b => if time_valid b then Ok (blen b :: b) else Err EType
    | _, _ => Err EType
    end
  end.

(* ---- primitive decoders (decode.go decodeXxx; [et] = state.decodeType: a type byte is expected) -- *)
Definition dec_error (o : opts) : dec val :=
  fun b =>
    '(id, r) <- rd_be 2 b ;;
    if id =? 65535 then Ok (VErrNil, r)
    else if maxError <? id then
      match o_err_cache o with
      | None => Err EData
      | Some c => match err_by_id id c with Some (k, txt) => Ok (VErr (Some k) txt, r) | None => Err EData end
      end
    else if blen r <? id then Err EData
    else Ok (VErr None (btake id r), bdrop id r).

Definition dec_prim_body (o : opts) (p : prim) : dec val :=
  fun b =>
    match int_kind p with
    | Some (sg, k) =>
      '(n, r) <- rd_be k b ;;
      Ok (VInt (if sg then to_signed (bits_of k) n else Z.of_N n), r)
    | None =>
      match p with
      | PBool => '(x, r) <- rd_u8 b ;; Ok (VBool (x =? 1), r)
      | PFloat32 => '(n, r) <- rd_be 4 b ;; Ok (VF32 n, r)
      | PFloat64 => '(n, r) <- rd_be 8 b ;; Ok (VF64 n, r)
      | PString => '(s, r) <- get_lp 2 64 b ;; Ok (VBytes s, r)
      | PBinary => '(s, r) <- get_lp 4 64 b ;; Ok (VBytes s, r)
      | PAtom => '(a, r) <- read_atom o b ;; Ok (VBytes a, r)
      | PError => dec_error o b
      | PPid =>
        '(node, r) <- read_atom o b ;; '(id, r1) <- rd_be 8 r ;; '(cr, r2) <- rd_be 8 r1 ;;
        Ok (VPid node id (to_signed 64 cr), r2)
      | PProcessID | PEvent =>
        '(node, r) <- read_atom o b ;; '(name, r1) <- read_atom o r ;; Ok (VNames node name, r1)
      | PRef | PAlias =>
        '(node, r) <- read_atom o b ;; '(cr, r1) <- rd_be 8 r ;; '(i0, r2) <- rd_be 8 r1 ;;
        '(i1, r3) <- rd_be 8 r2 ;; '(i2, r4) <- rd_be 8 r3 ;;
        Ok (VRef node (to_signed 64 cr) i0 i1 i2, r4)
      | PTime =>
        '(l, r) <- rd_u8 b ;;
        if blen r <? l then Err EData
        else if time_valid (btake l r) then Ok (VBytes (btake l r), bdrop l r) else Err EData
      | _ => Err EData
      end
    end.

Definition dec_prim (o : opts) (et : bool) (p : prim) : dec val :=
  fun b =>
    if et then
      match b with
      | x :: r => if x =? tag_of p then dec_prim_body o p r else Err EData
      | [] => Err EData
      end
    else dec_prim_body o p b.

(* ---- type descriptors (encode.go getEncoder: Prefix) ------------------------------------------------ *)
Fixpoint prefix (o : opts) (t : ty) : bytes :=
  match t with
  | TPrim p => [tag_of p]
  | TAny => [edtAny]
  | TSlice t' => edtSlice :: prefix o t'
  | TArray n t' => edtArray :: put_be 4 n ++ prefix o t'
  | TMap k v => edtMap :: prefix o k ++ prefix o v
  | TReg name =>
    match match o_reg_cache o with Some c => assoc name c | None => None end with
    | Some id => edtReg :: put_be 2 id                    (* cached: 3 bytes *)
    | None => edtReg :: put_lp 2 name                     (* regEncoder: edtReg, uint16 len, name *)
    end
  end.

Definition is_reg (t : ty) : bool := match t with TReg _ => true | _ => false end.

(* what the callee of encodeAny writes in encodeType mode *)
Definition ty_hdr (o : opts) (t : ty) : bytes :=
  match t with
  | TPrim p => [tag_of p]
  | TAny => []
  | TReg _ => prefix o t
  | _ => edtType :: put_be 2 (blen (prefix o t)) ++ prefix o t
  end.

(* Encode(): edtType + uint16(len(prefix)) if len(prefix) > 1 and not a registered type; prefix *)
Definition top_hdr (o : opts) (t : ty) : bytes :=
  let p := prefix o t in
  (if (1 <? blen p) && negb (is_reg t) then edtType :: put_be 2 (blen p) else []) ++ p.

(* getEncoder fails for unknown named types and for arrays longer than MaxUint32 *)
Fixpoint ty_enc_ok (o : opts) (t : ty) : bool :=
  match t with
  | TPrim _ | TAny => true
  | TSlice t' => ty_enc_ok o t'
  | TArray n t' => (n <=? maxBinary) && ty_enc_ok o t'
  | TMap k v => ty_enc_ok o k && ty_enc_ok o v
  | TReg name => match lookup_reg o name with Some _ => true | None => false end
  end.

(* ---- values: encoder ---------------------------------------------------------------------------------- *)
Fixpoint enc_fields (g : ty -> val -> res bytes) (ts : list ty) (vs : list val) : res bytes :=
  match ts, vs with
  | [], [] => Ok []
  | t :: ts', v :: vs' => x <- g t v ;; y <- enc_fields g ts' vs' ;; Ok (x ++ y)
  | _, _ => Err EType
  end.

Definition enc_pair (gk gv : val -> res bytes) : enc (val * val) :=
  fun kv => x <- gk (fst kv) ;; y <- gv (snd kv) ;; Ok (x ++ y).

Definition vlen {A} (l : list A) : N := N.of_nat (length l).

Definition is_errnil (v : val) : bool := match v with VErrNil => true | _ => false end.

(* [et] = state.encodeType (true only for the dynamic value of an interface) *)
Fixpoint enc_val (f : nat) (o : opts) (et : bool) (t : ty) (v : val) {struct f} : res bytes :=
  match f with
  | O => Err EFuel
  | S f' =>
    let h := if et then ty_hdr o t else [] in
    match t with
    | TPrim p =>
      if et && is_errnil v then Err EType       (* an interface never holds a nil error *)
      else b <- enc_prim o p v ;; Ok (h ++ b)
    | TAny =>                                    (* encodeAny *)
      if et then Err EType else
      match v with
      | VAnyNil => Ok [edtNil]
      | VAny TAny _ => Err EType
      | VAny t' v' => if ty_enc_ok o t' then enc_val f' o true t' v' else Err EType
      | _ => Err EType
      end
    | TSlice t' =>                               (* getEncoder, case reflect.Slice *)
      match v with
      | VNil => Ok (h ++ [edtNil])
      | VList l => b <- enc_all (enc_val f' o false t') l ;;
                   Ok (h ++ edtSlice :: put_be 4 (vlen l) ++ b)
      | _ => Err EType
      end
    | TArray n t' =>                             (* case reflect.Array *)
      match v with
      | VList l => if vlen l =? n
                   then b <- enc_all (enc_val f' o false t') l ;; Ok (h ++ b) else Err EType
      | _ => Err EType
      end
    | TMap tk tv =>                              (* case reflect.Map *)
      match v with
      | VNil => Ok (h ++ [edtNil])
      | VMap l => b <- enc_all (enc_pair (enc_val f' o false tk) (enc_val f' o false tv)) l ;;
                  Ok (h ++ edtMap :: put_be 4 (vlen l) ++ b)
      | _ => Err EType
      end
    | TReg name =>                               (* regEncoder closure + registerType bodies *)
      match lookup_reg o name with
      | None => Err EType
      | Some d =>
        match d with
        | RPrim p => if regable p then b <- enc_prim o p v ;; Ok (h ++ b) else Err EType
        | RStruct fs =>
          match v with
          | VList l => b <- enc_fields (enc_val f' o false) fs l ;; Ok (h ++ b)
          | _ => Err EType
          end
        | RSlice t' =>
          match v with
          | VNil => Ok (h ++ [edtNil])
          | VList l => b <- enc_all (enc_val f' o false t') l ;;
                       Ok (h ++ edtReg :: put_be 4 (vlen l) ++ b)
          | _ => Err EType
          end
        | RArray n t' =>
          match v with
          | VList l => if vlen l =? n
                       then b <- enc_all (enc_val f' o false t') l ;; Ok (h ++ b) else Err EType
          | _ => Err EType
          end
        | RMap tk tv =>
          match v with
          | VNil => Ok (h ++ [edtNil])
          | VMap l => b <- enc_all (enc_pair (enc_val f' o false tk) (enc_val f' o false tv)) l ;;
                      Ok (h ++ edtReg :: put_be 4 (vlen l) ++ b)
          | _ => Err EType
          end
        | RMarsh m _ =>
          (* register.go fenc (case Marshaler): b.Extend(4); l := b.Len(); v.MarshalEDF(b);
             lenBinary := b.Len() - l; if lenBinary > MaxUint32-1 { return ErrBinaryTooLong };
             PutUint32(b.B[l-4:l], lenBinary)          -- and (case encoding.BinaryMarshaler):
             buf := b.Extend(4); bin, err := v.MarshalBinary(); same check; PutUint32(buf, len(bin));
             b.Append(bin).  An error of the user's method is Encode's error. *)
          match v with
          | VMarsh x => p <- m x ;; if maxMarsh <? blen p then Err ETooLong else Ok (h ++ put_lp 4 p)
          | _ => Err EType
          end
        end
      end
    end
  end.

(* func Encode *)
Definition encode (o : opts) (t : ty) (v : val) : res bytes :=
  if ty_enc_ok o t then b <- enc_val (o_fuel o) o false t v ;; Ok (top_hdr o t ++ b) else Err EType.

(* ---- type descriptors: decoder (decode.go getRegDecoder, decodeType) ------------------------------ *)
Definition get_reg (o : opts) : dec bytes :=
  fun b =>
    '(n, r) <- rd_be 2 b ;;
    '(name, r') <- (if maxRegName <? n then
                      match o_reg_cache o with
                      | None => Err EData
                      | Some c => match assoc_id n c with Some nm => Ok (nm, r) | None => Err EData end
                      end
                    else if blen r <? n then Err EData
                    else Ok (btake n r, bdrop n r)) ;;
    match lookup_reg o name with Some _ => Ok (name, r') | None => Err EData end.

(* decodeType(fold): composites demand that nothing follows them inside the fold and return an
   empty remainder; primitives and registered types return the remainder *)
Fixpoint dec_type (o : opts) (f : nat) (fold : bytes) {struct f} : res (ty * bytes) :=
  match f with
  | O => Err EFuel
  | S f' =>
    match fold with
    | [] => Err EData
    | x :: r =>
      if x =? edtMap then
        '(k, r1) <- dec_type o f' r ;; '(v, r2) <- dec_type o f' r1 ;;
        match r2 with [] => Ok (TMap k v, []) | _ => Err EData end
      else if x =? edtSlice then
        '(t, r1) <- dec_type o f' r ;;
        match r1 with [] => Ok (TSlice t, []) | _ => Err EData end
      else if x =? edtArray then
        if blen fold <? 6 then Err EData else
        '(n, r0) <- rd_be 4 r ;; '(t, r1) <- dec_type o f' r0 ;;
        match r1 with [] => Ok (TArray n t, []) | _ => Err EData end
      else if x =? edtReg then
        '(name, r1) <- get_reg o r ;; Ok (TReg name, r1)
      else if x =? edtAny then Ok (TAny, r)
      else match prim_of_tag x with Some p => Ok (TPrim p, r) | None => Err EData end
    end
  end.

Definition dec_type_fold (o : opts) (fold : bytes) : res (ty * bytes) :=
  dec_type o (S (length fold)) fold.

(* ---- values: decoder ---------------------------------------------------------------------------------- *)
Fixpoint dec_fields (g : ty -> dec val) (ts : list ty) (b : bytes) : res (list val * bytes) :=
  match ts with
  | [] => Ok ([], b)
  | t :: ts' => '(v, r) <- g t b ;; '(l, r') <- dec_fields g ts' r ;; Ok (v :: l, r')
  end.

Definition dec_pair (dk dv : dec val) : dec (val * val) :=
  fun b => '(k, r) <- dk b ;; '(v, r') <- dv r ;; Ok ((k, v), r').

(* decodeAny: what ends up in the interface *)
Definition wrap_any (t : ty) (v : val) : val :=
  match t, v with
  | TAny, _ => v
  | _, VErrNil => VAnyNil
  | _, _ => VAny t v
  end.

(* slice-like body shared by unnamed slices (tag edtSlice) and registered slices (tag edtReg) *)
Definition dec_seq (tagb : N) (d : dec val) : dec val :=
  fun b =>
    match b with
    | [] => Err EData
    | x :: p =>
      if x =? edtNil then Ok (VNil, p)
      else if x =? tagb then
        '(n, p1) <- rd_be 4 p ;;
        if n =? 0 then Ok (VList [], p1)
        else if blen p1 <? n then Err EData            (* "incorrect data length" *)
        else '(l, r) <- dec_n d (N.to_nat n) p1 ;; Ok (VList l, r)
      else Err EData
    end.

Definition dec_mapb (tagb : N) (dk dv : dec val) : dec val :=
  fun b =>
    match b with
    | [] => Err EData
    | x :: p =>
      if x =? edtNil then Ok (VNil, p)
      else if x =? tagb then
        '(n, p1) <- rd_be 4 p ;;
        if n =? 0 then Ok (VMap [], p1)
        else if blen p1 <? n then Err EData
        else '(l, r) <- dec_n (dec_pair dk dv) (N.to_nat n) p1 ;; Ok (VMap l, r)
      else Err EData
    end.

Definition dec_arr (n : N) (d : dec val) : dec val :=
  fun b =>
    match b with
    | [] => if n =? 0 then Ok (VList [], []) else Err EData
    | _ => '(l, r) <- dec_n d (N.to_nat n) b ;; Ok (VList l, r)
    end.

Fixpoint dec_val (f : nat) (o : opts) (t : ty) (b : bytes) {struct f} : res (val * bytes) :=
  match f with
  | O => Err EFuel
  | S f' =>
    match t with
    | TPrim p => dec_prim o false p b
    | TAny =>                                     (* decodeAny + getDecoder *)
      match b with
      | [] => Err EData
      | id :: p =>
        if id =? edtNil then Ok (VAnyNil, p)
        else if id =? edtReg then
          '(name, p1) <- get_reg o p ;; '(v, r) <- dec_val f' o (TReg name) p1 ;;
          Ok (wrap_any (TReg name) v, r)
        else if id =? edtType then
          '(n, p1) <- rd_be 2 p ;;
          if blen p1 <? n then Err EData else
          '(t', _) <- dec_type_fold o (btake n p1) ;;
          '(v, r) <- dec_val f' o t' (bdrop n p1) ;; Ok (wrap_any t' v, r)
        else if id =? edtAny then dec_val f' o TAny p
        else match prim_of_tag id with
             | Some pr => '(v, r) <- dec_prim o false pr p ;; Ok (wrap_any (TPrim pr) v, r)
             | None => Err EData
             end
      end
    | TSlice t' => dec_seq edtSlice (dec_val f' o t') b
    | TArray n t' => dec_arr n (dec_val f' o t') b
    | TMap tk tv => dec_mapb edtMap (dec_val f' o tk) (dec_val f' o tv) b
    | TReg name =>
      match lookup_reg o name with
      | None => Err EData
      | Some d =>
        match d with
        | RPrim p => if regable p then dec_prim o false p b else Err EData
        | RStruct fs => '(l, r) <- dec_fields (dec_val f' o) fs b ;; Ok (VList l, r)
        | RSlice t' => dec_seq edtReg (dec_val f' o t') b
        | RArray n t' => dec_arr n (dec_val f' o t') b
        | RMap tk tv => dec_mapb edtReg (dec_val f' o tk) (dec_val f' o tv) b
        | RMarsh _ u =>
          (* register.go fdec: l := int(Uint32(packet)); if len(packet) < l+4 -> errDecodeEOD;
             v.UnmarshalEDF(packet[4:l+4]) (its error is Decode's error); packet[l+4:].  The sum is
             computed in int (64 bit; /repo does not build for 32-bit targets: lib/compress.go). *)
          '(p, r) <- get_lp 4 64 b ;; x <- u p ;; Ok (VMarsh x, r)
        end
      end
    end
  end.

(* func Decode: (type, value, tail).  A nil result is reported as (TAny, VAnyNil); an interface
   result as (TAny, v) - [Cases.norm_top] turns that into the dynamic type the caller sees.
   After "edtType n fold" state.decodeType stays true, so a primitive fold expects its tag again;
   the remainder of the fold is ignored. *)
Definition decode (o : opts) (b : bytes) : res (ty * val * bytes) :=
  match b with
  | [] => Err EData
  | id :: p =>
    if id =? edtReg then
      '(name, p1) <- get_reg o p ;; '(v, r) <- dec_val (o_fuel o) o (TReg name) p1 ;;
      Ok (TReg name, v, r)
    else if id =? edtType then
      '(n, p1) <- rd_be 2 p ;;
      if blen p1 <? n then Err EData else
      '(t, _) <- dec_type_fold o (btake n p1) ;;
      match t with
      | TPrim pr => '(v, r) <- dec_prim o true pr (bdrop n p1) ;; Ok (t, v, r)
      | _ => '(v, r) <- dec_val (o_fuel o) o t (bdrop n p1) ;; Ok (t, v, r)
      end
    else if id =? edtNil then Ok (TAny, VAnyNil, p)
    else if id =? edtAny then '(v, r) <- dec_val (o_fuel o) o TAny p ;; Ok (TAny, v, r)
    else match prim_of_tag id with
         | Some pr => '(v, r) <- dec_prim o false pr p ;; Ok (TPrim pr, v, r)
         | None => Err EData
         end
  end.

(* ---- canonical form of a value: what the property allows to differ ---------------------------------
   nil []byte comes back empty; a float32 signalling NaN comes back quiet; a sentinel error that
   the connection's error cache does not carry comes back as a plain error with the same text. *)
Definition err_cached (o : opts) (k : N) : bool :=
  match o_err_cache o with
  | Some c => match err_by_key k c with Some (_, id) => maxError <? id | None => false end
  | None => false
  end.

Fixpoint canon (o : opts) (v : val) : val :=
  match v with
  | VF32 n => VF32 (quiet32 n)
  | VBinNil => VBytes []
  | VErr (Some k) txt => if err_cached o k then v else VErr None txt
  | VAny t v' => VAny t (canon o v')
  | VList l => VList (map (canon o) l)
  | VMap l => VMap (map (fun kv => match kv with (k, x) => (canon o k, canon o x) end) l)
  | _ => v
  end.

(* ---- well-formed options: what the handshake guarantees -------------------------------------------
   cache ids are unique 16-bit numbers (reg ids above 4095, error ids never 65535 = nil),
   registered names are at most 4095 bytes (regEncoder panics otherwise) *)
Fixpoint nodupb (l : list N) : bool :=
  match l with
  | [] => true
  | x :: r => negb (existsb (N.eqb x) r) && nodupb r
  end.

Definition cache_ok {A} (lo hi : N) (c : option (list (A * N))) : bool :=
  match c with
  | None => true
  | Some l => nodupb (map snd l) && forallb (fun p => (lo <? snd p) && (snd p <? hi)) l
  end.

Definition wf_opts_b (o : opts) : bool :=
  match o_atom_cache o with
  | None => true
  | Some l => nodupb (map snd l) && forallb (fun p => snd p <? 65536) l
  end &&
  cache_ok maxRegName 65536 (o_reg_cache o) &&
  match o_err_cache o with
  | None => true
  | Some l => nodupb (map snd l) && forallb (fun p => snd p <? 65535) l
  end &&
  forallb (fun e => blen (fst e) <=? maxRegName) (o_reg o).

Definition wf_opts (o : opts) : Prop := wf_opts_b o = true.

(* ---- guards: inputs on which the unchanged code is known NOT to round-trip (findings/C11.md) -------
   (1) zero-width elements: an element type whose encoding may be empty ([0]T, struct{} types)
       inside a non-empty slice / array / map - the decoders' "n > len(packet)" / "len(packet) == 0" checks
       reject the encoder's own output;
   (2) unnamed array types as map keys - decodeType wants a composite to end the fold;
   (3) atoms: a mapping target longer than 255 bytes is written with a uint16 length the reader
       takes for a cache id; and an atom only round-trips if the reverse mapping brings it back. *)
Fixpoint minw_pos (f : nat) (o : opts) (t : ty) {struct f} : bool :=
  match f with
  | O => false
  | S f' =>
    match t with
    | TArray n t' => (0 <? n) && minw_pos f' o t'
    | TReg name =>
      match lookup_reg o name with
      | Some (RStruct fs) => existsb (minw_pos f' o) fs
      | Some (RArray n t') => (0 <? n) && minw_pos f' o t'
      | Some _ => true
      | None => false
      end
    | _ => true
    end
  end.

Definition atom_ok (o : opts) (a : bytes) : bool :=
  let a' := map_atom (o_atom_map o) a in
  (blen a' <=? maxAtom) && bytes_eqb (map_atom (o_atom_map (dual o)) a') a.

Definition pguard (o : opts) (p : prim) (v : val) : bool :=
  match p, v with
  | PAtom, VBytes a => atom_ok o a
  | PPid, VPid node _ _ => atom_ok o node
  | PProcessID, VNames node name | PEvent, VNames node name => atom_ok o node && atom_ok o name
  | PRef, VRef node _ _ _ _ | PAlias, VRef node _ _ _ _ => atom_ok o node
  | _, _ => true
  end.

Definition key_ty_ok (t : ty) : bool :=
  match t with TSlice _ | TArray _ _ | TMap _ _ => false | _ => true end.

(* type-level part of the guards: map keys inside a type descriptor *)
Fixpoint ty_guard (t : ty) : bool :=
  match t with
  | TSlice t' | TArray _ t' => ty_guard t'
  | TMap k v => key_ty_ok k && ty_guard k && ty_guard v
  | _ => true
  end.

(* a descriptor the peer can unfold: no unnamed composite map key, length fits the uint16 field *)
Definition desc_ok (o : opts) (t : ty) : bool := ty_guard t && (blen (prefix o t) <? 65536).

Definition is_nil {A} (l : list A) : bool := match l with [] => true | _ => false end.

Fixpoint guard_fields (g : ty -> val -> bool) (ts : list ty) (vs : list val) : bool :=
  match ts, vs with
  | t :: ts', v :: vs' => g t v && guard_fields g ts' vs'
  | _, _ => true
  end.

Fixpoint guard (f : nat) (o : opts) (t : ty) (v : val) {struct f} : bool :=
  match f with
  | O => false
  | S f' =>
    match t with
    | TPrim p => pguard o p v
    | TAny => match v with VAny t' v' => desc_ok o t' && guard f' o t' v' | _ => true end
    | TSlice t' =>
      match v with VList l => (vlen l <? 4294967296) && (is_nil l || minw_pos f' o t') && forallb (guard f' o t') l | _ => true end
    | TArray n t' =>
      match v with VList l => ((n =? 0) || minw_pos f' o t') && forallb (guard f' o t') l | _ => true end
    | TMap tk tv =>
      match v with
      | VMap l => (vlen l <? 4294967296) && (is_nil l || minw_pos f' o tk || minw_pos f' o tv) &&
                  forallb (fun kv => guard f' o tk (fst kv) && guard f' o tv (snd kv)) l
      | _ => true
      end
    | TReg name =>
      match lookup_reg o name with
      | Some (RPrim _) | Some (RMarsh _ _) => true
      | Some (RStruct fs) => match v with VList l => guard_fields (guard f' o) fs l | _ => true end
      | Some (RSlice t') =>
        match v with VList l => (vlen l <? 4294967296) && (is_nil l || minw_pos f' o t') && forallb (guard f' o t') l | _ => true end
      | Some (RArray n t') =>
        match v with VList l => ((n =? 0) || minw_pos f' o t') && forallb (guard f' o t') l | _ => true end
      | Some (RMap tk tv) =>
        match v with
        | VMap l => (vlen l <? 4294967296) && (is_nil l || minw_pos f' o tk || minw_pos f' o tv) &&
                    forallb (fun kv => guard f' o tk (fst kv) && guard f' o tv (snd kv)) l
        | _ => true
        end
      | None => true
      end
    end
  end.

Definition supported (o : opts) (t : ty) (v : val) : bool := desc_ok o t && guard (o_fuel o) o t v.

(* ---- Marshaler types: the hypothesis of the round trip, and the harness's own marshalers ------------
   "the user's Unmarshal inverts the user's Marshal", for every Marshaler type of the registry *)
Definition marsh_inv (o : opts) : Prop :=
  forall name m u x p, lookup_reg o name = Some (RMarsh m u) -> m x = Ok p -> u p = Ok x.

Definition is_marsh (d : rdef) : bool := match d with RMarsh _ _ => true | _ => false end.

(* the states of the marshaler values inside a value (for the sampled form of [marsh_inv]) *)
Fixpoint marsh_states (v : val) : list bytes :=
  match v with
  | VMarsh x => [x]
  | VAny _ v' => marsh_states v'
  | VList l => flat_map marsh_states l
  | VMap l => flat_map (fun kv => marsh_states (fst kv) ++ marsh_states (snd kv)) l
  | _ => []
  end.

(* [marsh_inv] evaluated on the states that occur in a value *)
Definition marsh_inv_on (o : opts) (v : val) : bool :=
  forallb (fun e =>
    match snd e with
    | RMarsh m u =>
      forallb (fun x => match m x with
                        | Ok p => match u p with Ok x' => bytes_eqb x' x | Err _ => false end
                        | Err _ => true
                        end) (marsh_states v)
    | _ => true
    end) (o_reg o).

(* go/harness/cmd/edf/types.go
   HMar (edf.Marshaler): state = Data; MarshalEDF writes every byte xor 0x5a, UnmarshalEDF undoes it
   HBin (encoding.BinaryMarshaler): state = S; MarshalBinary returns S reversed, UnmarshalBinary
   reverses again *)
Definition mar_xor (x : bytes) : res bytes := Ok (map (N.lxor 90) x).
Definition unmar_xor (p : bytes) : res bytes := Ok (map (N.lxor 90) p).
Definition mar_rev (x : bytes) : res bytes := Ok (rev_append x []).
Definition unmar_rev (p : bytes) : res bytes := Ok (rev_append p []).
