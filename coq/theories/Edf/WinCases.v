(* Edf/WinCases.v — checkers for the harness family `window` (go/harness/cmd/edf/window.go): the real
   handshake.Start / handshake.Accept over a pipe while atoms, registered types and sentinel errors are
   registered during the handshake. *)
From Ergo Require Import Common.Base Common.Bytes Common.Codec Edf.Model Edf.Negotiate Edf.NegCases Edf.Window.
Local Open Scope N_scope.

Definition tables3 := (table * table * table)%type.                               (* atoms, type names, error texts *)
Definition caches3 := (list (bytes * N) * list (bytes * N) * list (bytes * N))%type.

Record wcase := mk_wcase {
  w_ok : bool;                  (* both ends completed the handshake *)
  w_snapA : tables3;            (* the dialing party's MessageIntroduce as seen on the wire (sorted by id) *)
  w_snapB : tables3;            (* the accepting party's *)
  w_encA : caches3;             (* implementation: Encode*Cache of the dialing party (name, id), sorted by id *)
  w_decA : caches3;             (* implementation: Decode*Cache of the dialing party *)
  w_encB : caches3;
  w_decB : caches3;
  w_window : N;                 (* registrations that happened during the handshake *)
  w_probes : list (N * N * bool * bool)   (* kind, phase (0 before / 1 during / 2 after), direction, round trip ok *)
}.

Definition t1 {A B C} (x : A * B * C) := fst (fst x).
Definition t2 {A B C} (x : A * B * C) := snd (fst x).
Definition t3 {A B C} (x : A * B * C) := snd x.

Definition names_eqb := list_eqb name_eqb.

(* the implementation's caches are the model's: built from the ANNOUNCED snapshot *)
Definition corr_side (snap : tables3) (enc dec_peer : caches3) : bool :=
  names_eqb (hs_encode_cache (t1 snap) []) (t1 enc) && names_eqb (hs_peer_decode_cache (t1 snap)) (t1 dec_peer) &&
  names_eqb (hs_encode_cache (t2 snap) []) (t2 enc) && names_eqb (hs_peer_decode_cache (t2 snap)) (t2 dec_peer) &&
  names_eqb (hs_encode_cache (t3 snap) []) (t3 enc) && names_eqb (hs_peer_decode_cache (t3 snap)) (t3 dec_peer).

Definition corr_window (c : wcase) : bool :=
  negb (w_ok c) || (corr_side (w_snapA c) (w_encA c) (w_decB c) && corr_side (w_snapB c) (w_encB c) (w_decA c)).

(* the property on what the implementation did: every id an encoder may emit resolves to the same name at
   the peer, and every registered item travels unharmed in both directions *)
Definition agree3 (enc dec : caches3) : bool :=
  agree_b (t1 enc) (t1 dec) && agree_b (t2 enc) (t2 dec) && agree_b (t3 enc) (t3 dec).

Definition spec_window (c : wcase) : bool :=
  w_ok c && agree3 (w_encA c) (w_decB c) && agree3 (w_encB c) (w_decA c) &&
  forallb (fun p => snd p) (w_probes c).

(* hypotheses of window_agree hold and the case is not trivial: something was registered in the window *)
Definition premise_window (c : wcase) : bool :=
  w_ok c && (0 <? w_window c) &&
  nodup_ids (t1 (w_snapA c)) && nodup_ids (t2 (w_snapA c)) && nodup_ids (t3 (w_snapA c)) &&
  nodup_ids (t1 (w_snapB c)) && nodup_ids (t2 (w_snapB c)) && nodup_ids (t3 (w_snapB c)).
