(* Edf/Cases.v — checkers evaluated (vm_compute) on observations of the real edf.Encode /
   edf.Decode written by go/harness/cmd/edf.  One case = one typed value under one option set. *)
From Ergo Require Import Common.Base Common.Bytes Common.Codec Edf.Model.
Local Open Scope N_scope.

Record ecase := mk_ecase {
  c_opts : opts;                       (* encoder side; the decoder ran with [dual c_opts] *)
  c_ty : ty;
  c_val : val;
  c_exact : bool;                      (* no map with >= 2 entries: bytes are order independent *)
  c_enc : option bytes;                (* implementation: Encode's bytes, None = error *)
  c_dec : option (ty * val * N)        (* implementation: Decode of those bytes: dynamic type, value,
                                          length of the tail; None = error *)
}.

(* n copies of a short list: large element counts are printed as [lrep 65536 [x]] *)
Definition lrep {A} (n : N) (l : list A) : list A := N.iter n (fun acc => l ++ acc) [].

(* ---- decidable equality (maps up to the order of their entries) -------------------------------- *)
Definition prim_eqb (a b : prim) : bool := tag_of a =? tag_of b.

Fixpoint ty_eqb (a b : ty) : bool :=
  match a, b with
  | TPrim p, TPrim q => prim_eqb p q
  | TAny, TAny => true
  | TSlice x, TSlice y => ty_eqb x y
  | TArray n x, TArray m y => (n =? m) && ty_eqb x y
  | TMap k v, TMap k' v' => ty_eqb k k' && ty_eqb v v'
  | TReg n, TReg m => bytes_eqb n m
  | _, _ => false
  end.

Definition optN_eqb (a b : option N) : bool :=
  match a, b with Some x, Some y => x =? y | None, None => true | _, _ => false end.

Fixpoint val_eqb (a b : val) {struct a} : bool :=
  match a, b with
  | VBool x, VBool y => Bool.eqb x y
  | VInt x, VInt y => Z.eqb x y
  | VF32 x, VF32 y => x =? y
  | VF64 x, VF64 y => x =? y
  | VBytes x, VBytes y => bytes_eqb x y
  | VBinNil, VBinNil => true
  | VErrNil, VErrNil => true
  | VErr k x, VErr k' y => optN_eqb k k' && bytes_eqb x y
  | VPid n i c, VPid n' i' c' => bytes_eqb n n' && (i =? i') && Z.eqb c c'
  | VNames n m, VNames n' m' => bytes_eqb n n' && bytes_eqb m m'
  | VRef n c x y z, VRef n' c' x' y' z' => bytes_eqb n n' && Z.eqb c c' && (x =? x') && (y =? y') && (z =? z')
  | VAnyNil, VAnyNil => true
  | VAny t x, VAny t' y => ty_eqb t t' && val_eqb x y
  | VNil, VNil => true
  | VMarsh x, VMarsh y => bytes_eqb x y
  | VList l, VList l' =>
    (fix go (l l' : list val) : bool :=
       match l, l' with
       | [], [] => true
       | x :: r, y :: r' => val_eqb x y && go r r'
       | _, _ => false
       end) l l'
  | VMap m, VMap m' =>
    (length m =? length m')%nat &&
    (fix all (m : list (val * val)) : bool :=
       match m with
       | [] => true
       | (k, x) :: r =>
         (fix any (m' : list (val * val)) : bool :=
            match m' with
            | [] => false
            | (k', y) :: r' => (val_eqb k k' && val_eqb x y) || any r'
            end) m' && all r
       end) m
  | _, _ => false
  end.

Definition norm_top (t : ty) (v : val) : ty * val :=
  match t, v with
  | TAny, VAny t' v' => (t', v')
  | _, _ => (t, v)
  end.

(* ---- correspondence: model = implementation ------------------------------------------------------ *)
(* encoder: same accept/reject; same bytes (for multi-entry maps, whose order Go randomises: same
   length and the model decodes the implementation's bytes to the value) *)
Definition corr_enc (c : ecase) : bool :=
  let o := c_opts c in
  match encode o (c_ty c) (c_val c), c_enc c with
  | Ok bs, Some ib =>
    if c_exact c then bytes_eqb bs ib
    else (blen bs =? blen ib) &&
         match decode (dual o) ib with
         | Ok (t, v, r) => ty_eqb t (c_ty c) && val_eqb v (canon o (c_val c)) && (blen r =? 0)
         | Err _ => match c_dec c with None => true | Some _ => false end   (* corr_dec compares further *)
         end
  | Err ETooLong, None => true
  | _, _ => false
  end.

(* decoder on the implementation's own bytes: same accept/reject, type, value and tail *)
Definition corr_dec (c : ecase) : bool :=
  match c_enc c with
  | None => true
  | Some ib =>
    match decode (dual (c_opts c)) ib, c_dec c with
    | Ok (t, v, r), Some (it, iv, tail) =>
      let '(t', v') := norm_top t v in ty_eqb t' it && val_eqb v' iv && (blen r =? tail)
    | Err e, None => match e with EData => true | _ => false end
    | _, _ => false
    end
  end.

(* ---- the property on what the implementation did ------------------------------------------------- *)
(* whatever Encode accepted, Decode returns as an equal value of the same type with an empty tail *)
Definition spec_roundtrip (c : ecase) : bool :=
  match c_enc c with
  | None => true
  | Some _ =>
    match c_dec c with
    | Some (it, iv, tail) => ty_eqb it (c_ty c) && val_eqb iv (canon (c_opts c) (c_val c)) && (tail =? 0)
    | None => false
    end
  end.

(* ---- non-vacuity: the hypotheses of C11_roundtrip_partial hold on the case ---------------------- *)
Definition premise_ok (c : ecase) : bool :=
  wf_opts_b (c_opts c) && is_ok (encode (c_opts c) (c_ty c) (c_val c)) && supported (c_opts c) (c_ty c) (c_val c) &&
  marsh_inv_on (c_opts c) (c_val c).      (* the hypothesis marsh_inv, on the marshaler states of the case *)

(* the case has a value of a Marshaler type somewhere (coverage counter) *)
Definition has_marsh (c : ecase) : bool := negb (is_nil (marsh_states (c_val c))).
