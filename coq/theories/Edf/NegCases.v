(* Edf/NegCases.v — checkers for the harness family `negotiated` (go/harness/cmd/edf/negotiated.go):
   two nodes with different registries; the announced tables travel through the real handshake framing
   (MessageIntroduce EDF-encoded), the caches are built by the real net/handshake helpers, a value is
   encoded with A's encode caches and decoded with B's decode caches. *)
From Ergo Require Import Common.Base Common.Bytes Common.Codec Edf.Model Edf.Cases Edf.Negotiate.
Local Open Scope N_scope.

Record ncase := mk_ncase {
  n_g : nego;                                (* registry, A's announced tables, both error registries *)
  n_enc_cache : list (N * bytes * N);        (* implementation: A's EncodeErrCache (object, text, id), by id *)
  n_dec_cache : list (N * bytes * N);        (* implementation: B's DecodeErrCache (object, text, id), by id *)
  n_dec_atoms : list (bytes * N);            (* implementation: B's DecodeAtomCache (atom, id), by id *)
  n_dec_regs : list (bytes * N);             (* implementation: B's DecodeRegCache (name, id), by id *)
  n_ty : ty;
  n_val : val;
  n_exact : bool;
  n_enc : option bytes;                      (* implementation: Encode with A's options *)
  n_dec : option (ty * val * N)              (* implementation: Decode with B's options *)
}.

Definition ent_eqb (a b : N * bytes * N) : bool :=
  match a, b with (k, t, i), (k', t', i') => (k =? k') && bytes_eqb t t' && (i =? i') end.
Definition name_eqb (a b : bytes * N) : bool := bytes_eqb (fst a) (fst b) && (snd a =? snd b).

Fixpoint list_eqb {A} (eq : A -> A -> bool) (a b : list A) : bool :=
  match a, b with
  | [], [] => true
  | x :: a', y :: b' => eq x y && list_eqb eq a' b'
  | _, _ => false
  end.

(* the model's caches are the implementation's caches (tables are printed sorted by id) *)
Definition corr_neg_cache (c : ncase) : bool :=
  let g := n_g c in
  list_eqb ent_eqb (make_encode_err_cache (g_ta g)) (n_enc_cache c) &&
  list_eqb ent_eqb (make_decode_err_cache (g_tb g) (announce (g_ta g))) (n_dec_cache c) &&
  list_eqb name_eqb (make_decode_name_cache (g_atoms g)) (n_dec_atoms c) &&
  list_eqb name_eqb (make_decode_name_cache (g_regs g)) (n_dec_regs c).

(* the codec model under the MODEL's caches reproduces the implementation under the real caches *)
Definition corr_neg_enc (c : ncase) : bool :=
  match encode (enc_opts (n_g c)) (n_ty c) (n_val c), n_enc c with
  | Ok bs, Some ib => if n_exact c then bytes_eqb bs ib else blen bs =? blen ib
  | Err ETooLong, None => true
  | _, _ => false
  end.

Definition corr_neg_dec (c : ncase) : bool :=
  match n_enc c with
  | None => true
  | Some ib =>
    match decode (dec_opts (n_g c)) ib, n_dec c with
    | Ok (t, v, r), Some (it, iv, tail) =>
      let '(t', v') := norm_top t v in ty_eqb t' it && val_eqb (strip_foreign v') iv && (blen r =? tail)
    | Err e, None => match e with EData => true | _ => false end
    | _, _ => false
    end
  end.

(* the property on what the implementation did: same type, the value with every cached sentinel
   replaced by B's sentinel of the same text (or a plain error of that text), empty tail *)
Definition spec_negotiated (c : ncase) : bool :=
  match n_enc c with
  | None => true
  | Some _ =>
    match n_dec c with
    | Some (it, iv, tail) =>
      ty_eqb it (n_ty c) && val_eqb iv (strip_foreign (neg_expect (n_g c) (n_val c))) && (tail =? 0)
    | None => false
    end
  end.

(* hypotheses of NegotiateProofs.neg_sentinel_spec hold, the options are well formed, Encode accepts *)
Definition premise_neg (c : ncase) : bool :=
  let g := n_g c in
  wf_etable_b (g_ta g) && wf_etable_b (g_tb g) && texts_injb (g_tb g) &&
  wf_opts_b (enc_opts g) && wf_opts_b (dec_opts g) &&
  is_ok (encode (enc_opts g) (n_ty c) (n_val c)) && supported (enc_opts g) (n_ty c) (n_val c).
