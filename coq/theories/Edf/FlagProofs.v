(* Edf/FlagProofs.v — the reset discipline of the encodeType flag (model: Edf/Flag.v).

   flag_refines       : with all nine resets in place, the bytes the stateful encoder appends depend on the
                        state object it is given only through that object's own flag - not on what previous
                        siblings left in state.child, state.child.child, ... - and equal those of the
                        functional model [enc_val] the round-trip theorem is about;
   encode_s_encode    : hence Encode = [Edf.Model.encode];
   sibling_independent: two states with the same own flag give the same bytes;
   own_flag_restored  : every encoder except encodeAny leaves the flag of its state as it found it,
   any_leaks          : encodeAny leaves it set;
   reset_needed_*     : for each of the nine resets, the code without it produces bytes its own decoder
                        rejects or decodes to a different value (the registered map with an interface key
                        turns M{"k": 5} into M{"k": -110} and leaves a byte unread). *)
From Ergo Require Import Common.Base Common.Bytes Common.Codec Edf.Model Edf.Flag.
Local Open Scope N_scope.

Lemma fl_reset c : fl (reset true c) = false.
Proof. reflexivity. Qed.

(* the three loops, when every call gets a clean flag *)
Lemma loop_s_out (g : val -> fstate -> sres) (g0 : val -> res bytes) :
  (forall v c, fl c = false -> out (g v c) = g0 v) ->
  forall l c, out (loop_s true g l c) = enc_all g0 l.
Proof.
  intros Hg l. induction l as [|v l IH]; intro c; [reflexivity|].
  cbn [loop_s enc_all]. rewrite <- (Hg v (reset true c) (fl_reset c)).
  destruct (g v (reset true c)) as [[x c1]|e]; [|reflexivity].
  cbn [out bind]. rewrite <- (IH c1). destruct (loop_s true g l c1) as [[y c2]|e]; reflexivity.
Qed.

Lemma fields_s_out (g : ty -> val -> fstate -> sres) (g0 : ty -> val -> res bytes) :
  (forall t v c, fl c = false -> out (g t v c) = g0 t v) ->
  forall ts vs c, out (fields_s true g ts vs c) = enc_fields g0 ts vs.
Proof.
  intros Hg ts. induction ts as [|t ts IH]; intros [|v vs] c; try reflexivity.
  cbn [fields_s enc_fields]. rewrite <- (Hg t v (reset true c) (fl_reset c)).
  destruct (g t v (reset true c)) as [[x c1]|e]; [|reflexivity].
  cbn [out bind]. rewrite <- (IH vs c1). destruct (fields_s true g ts vs c1) as [[y c2]|e]; reflexivity.
Qed.

Lemma pairs_s_out (gk gv : val -> fstate -> sres) (k0 v0 : val -> res bytes) :
  (forall v c, fl c = false -> out (gk v c) = k0 v) ->
  (forall v c, fl c = false -> out (gv v c) = v0 v) ->
  forall l c, out (pairs_s true true gk gv l c) = enc_all (enc_pair k0 v0) l.
Proof.
  intros Hk Hv l. induction l as [|[k v] l IH]; intro c; [reflexivity|].
  cbn [pairs_s enc_all]. unfold enc_pair at 1. cbn [fst snd]. rewrite <- (Hk k (reset true c) (fl_reset c)).
  destruct (gk k (reset true c)) as [[x c1]|e]; [|reflexivity].
  cbn [out bind]. rewrite <- (Hv v (reset true c1) (fl_reset c1)).
  destruct (gv v (reset true c1)) as [[y c2]|e]; [|reflexivity].
  cbn [out bind]. rewrite <- (IH c2). destruct (pairs_s true true gk gv l c2) as [[z c3]|e]; reflexivity.
Qed.

(* [out] through the final "Ok (bytes, state)" of a container *)
Lemma out_bind (r : sres) (F : bytes -> bytes) (G : fstate -> fstate) :
  out ('(b, c) <- r ;; Ok (F b, G c)) = (b <- out r ;; Ok (F b)).
Proof. destruct r as [[b c]|e]; reflexivity. Qed.

Lemma out_bind2 (r : sres) (F1 F2 : bytes -> bytes) (G1 G2 : fstate -> fstate) :
  out ('(b, s2) <- ('(b, c) <- r ;; Ok (F1 b, G1 c)) ;; Ok (F2 b, G2 s2)) = (b <- out r ;; Ok (F2 (F1 b))).
Proof. destruct r as [[b c]|e]; reflexivity. Qed.

(* the flag of the state the body of a registered type runs on is clear *)
Lemma regenc_state s : fl (if fl s then set_fl false s else s) = false.
Proof. destruct s as [|[|] c]; reflexivity. Qed.

Theorem flag_refines : forall f o t v s,
  fl s = false \/ t <> TAny ->
  out (enc_s all_resets f o t v s) = enc_val f o (fl s) t v.
Proof.
  induction f as [|f IH]; intros o t v s Hw; [reflexivity|].
  assert (IHc : forall t' v' c, fl c = false -> out (enc_s all_resets f o t' v' c) = enc_val f o false t' v').
  { intros t' v' c Hc. rewrite <- Hc. apply IH. now left. }
  cbn [enc_s enc_val].
  destruct t as [p| |t'|n t'|tk tv|name].
  - (* primitive *)
    destruct (fl s && is_errnil v); [reflexivity|]. destruct (enc_prim o p v); reflexivity.
  - (* interface *)
    destruct Hw as [Hw|Hw]; [|congruence]. rewrite Hw.
    destruct v as [| | | | | | | | | | | |t' v'| | | |]; try reflexivity.
    destruct t'; try reflexivity;
      (destruct (ty_enc_ok o _); [|reflexivity]; apply (IH o _ v' [true]); right; discriminate).
  - (* unnamed slice *)
    destruct v as [| | | | | | | | | | | | | |l| |]; try reflexivity.
    cbn [r_slice all_resets].
    rewrite (out_bind _ (fun b => (if fl s then ty_hdr o (TSlice t') else []) ++ edtSlice :: put_be 4 (vlen l) ++ b) (fun c => set_child c s)).
    now rewrite (loop_s_out _ (enc_val f o false t') (IHc t')).
  - (* unnamed array *)
    destruct v as [| | | | | | | | | | | | | |l| |]; try reflexivity.
    destruct (vlen l =? n); [|reflexivity]. cbn [r_array all_resets].
    rewrite (out_bind _ (fun b => (if fl s then ty_hdr o (TArray n t') else []) ++ b) (fun c => set_child c s)).
    now rewrite (loop_s_out _ (enc_val f o false t') (IHc t')).
  - (* unnamed map *)
    destruct v as [| | | | | | | | | | | | | | |l|]; try reflexivity.
    cbn [r_mapkey r_mapval all_resets].
    rewrite (out_bind _ (fun b => (if fl s then ty_hdr o (TMap tk tv) else []) ++ edtMap :: put_be 4 (vlen l) ++ b) (fun c => set_child c s)).
    now rewrite (pairs_s_out _ _ (enc_val f o false tk) (enc_val f o false tv) (IHc tk) (IHc tv)).
  - (* registered type *)
    destruct (lookup_reg o name) as [rd|]; [|reflexivity].
    set (s1 := if fl s then set_fl false s else s).
    set (h := if fl s then ty_hdr o (TReg name) else []).
    destruct rd as [p|fs|t'|n t'|tk tv|m u].
    + assert (H1 : fl s1 = false) by apply regenc_state. rewrite H1.
      destruct (regable p); [|reflexivity]. destruct (enc_prim o p v); reflexivity.
    + destruct v as [| | | | | | | | | | | | | |l| |]; try reflexivity.
      cbn [r_field all_resets].
      rewrite (out_bind2 _ (fun b => b) (fun b => h ++ b) (fun c => set_child c s1) (fun s2 => set_fl (fl s) s2)).
      now rewrite (fields_s_out _ (enc_val f o false) IHc).
    + destruct v as [| | | | | | | | | | | | | |l| |]; try reflexivity.
      cbn [r_rslice all_resets].
      rewrite (out_bind2 _ (fun b => edtReg :: put_be 4 (vlen l) ++ b) (fun b => h ++ b) (fun c => set_child c s1) (fun s2 => set_fl (fl s) s2)).
      now rewrite (loop_s_out _ (enc_val f o false t') (IHc t')).
    + destruct v as [| | | | | | | | | | | | | |l| |]; try reflexivity.
      destruct (vlen l =? n); [|reflexivity]. cbn [r_rarray all_resets].
      rewrite (out_bind2 _ (fun b => b) (fun b => h ++ b) (fun c => set_child c s1) (fun s2 => set_fl (fl s) s2)).
      now rewrite (loop_s_out _ (enc_val f o false t') (IHc t')).
    + destruct v as [| | | | | | | | | | | | | | |l|]; try reflexivity.
      cbn [r_rmapkey r_rmapval all_resets].
      rewrite (out_bind2 _ (fun b => edtReg :: put_be 4 (vlen l) ++ b) (fun b => h ++ b) (fun c => set_child c s1) (fun s2 => set_fl (fl s) s2)).
      now rewrite (pairs_s_out _ _ (enc_val f o false tk) (enc_val f o false tv) (IHc tk) (IHc tv)).
    + destruct v as [| | | | | | | | | | | | | | | |x]; try reflexivity.
      destruct (m x) as [p|e]; [|reflexivity]. cbn [bind]. destruct (maxMarsh <? blen p); reflexivity.
Qed.

(* Encode of the stateful model = Encode of the functional model (a top-level value is never of
   static type any: Encode takes the dynamic type of its argument) *)
Theorem encode_s_encode : forall o t v, t <> TAny -> encode_s all_resets o t v = encode o t v.
Proof.
  intros o t v Ht. unfold encode_s, encode. destruct (ty_enc_ok o t); [|reflexivity].
  rewrite flag_refines by now right. reflexivity.
Qed.

(* what a previous sibling left in the state object (its own flag apart) does not matter *)
Theorem sibling_independent : forall f o t v s1 s2,
  fl s1 = fl s2 -> fl s1 = false \/ t <> TAny ->
  out (enc_s all_resets f o t v s1) = out (enc_s all_resets f o t v s2).
Proof.
  intros f o t v s1 s2 He Hw. rewrite !flag_refines; [now rewrite He|rewrite <- He; exact Hw|exact Hw].
Qed.

(* a container's items: whatever flags the shared child chain carries when the container starts,
   the items are encoded as with a clean one - e.g. after a sibling []any left the flag set *)
Theorem container_items_clean : forall f o t l c,
  out (loop_s true (enc_s all_resets f o t) l c) = enc_all (enc_val f o false t) l.
Proof.
  intros. apply loop_s_out. intros v c' Hc. rewrite <- Hc. apply flag_refines. now left.
Qed.

(* every encoder except encodeAny hands the state back with its own flag unchanged ... *)
Theorem own_flag_restored : forall d f o t v s b s',
  t <> TAny -> enc_s d f o t v s = Ok (b, s') -> fl s' = fl s.
Proof.
  intros d [|f] o t v s b s' Ht H; [discriminate|]. cbn [enc_s] in H.
  destruct t as [p| |t'|n t'|tk tv|name]; [| congruence | | | |].
  - destruct (fl s && is_errnil v); [discriminate|]. destruct (enc_prim o p v); [|discriminate].
    cbn [bind] in H. now inversion H.
  - destruct v; try discriminate; [now inversion H|].
    destruct (loop_s _ _ _ _) as [[x c]|e]; [|discriminate]. cbn [bind] in H. now inversion H.
  - destruct v; try discriminate. destruct (_ =? _); [|discriminate].
    destruct (loop_s _ _ _ _) as [[x c]|e]; [|discriminate]. cbn [bind] in H. now inversion H.
  - destruct v; try discriminate; [now inversion H|].
    destruct (pairs_s _ _ _ _ _ _) as [[x c]|e]; [|discriminate]. cbn [bind] in H. now inversion H.
  - destruct (lookup_reg o name) as [rd|]; [|discriminate].
    match type of H with bind ?r _ = _ => destruct r as [[x s2]|e]; [|discriminate] end.
    cbn [bind] in H. now inversion H.
Qed.

(* ... and encodeAny hands it back set: the reason every loop position needs its reset *)
Theorem any_leaks : forall d f o p v s b s',
  enc_s d (S (S f)) o TAny (VAny (TPrim p) v) s = Ok (b, s') -> fl s' = true.
Proof.
  intros d f o p v s b s' H. cbn [enc_s ty_enc_ok] in H. cbn [fl andb] in H.
  destruct (is_errnil v); [discriminate|]. destruct (enc_prim o p v); [|discriminate].
  cbn [bind] in H. now inversion H.
Qed.

(* ---- each reset is needed ----------------------------------------------------------------------------- *)
(* the variant's Encode accepts the value, the guard of the round-trip theorem holds, the code with
   all resets round-trips it, and the variant's bytes are not decoded to (t, v, no tail) *)
Definition rt_breaks (d : resets) (o : opts) (t : ty) (v : val) : Prop :=
  wf_opts o /\ supported o t v = true /\
  (exists bs, encode o t v = Ok bs /\ decode (dual o) bs = Ok (t, canon o v, [])) /\
  exists bs, encode_s d o t v = Ok bs /\ decode (dual o) bs <> Ok (t, canon o v, []).

(* the independently seeded change: register.go:576 dropped.  M{"k": 5}: the value gets the type byte
   of int8 (146) in front; the decoder reads 146 as the value (-110) and leaves the 5 *)
Definition bytes_of {A} (r : res A) (dflt : A) : A := match r with Ok b => b | Err _ => dflt end.

Ltac breaks d o t v :=
  unfold rt_breaks;
  split; [vm_compute; reflexivity|]; split; [vm_compute; reflexivity|]; split;
  [exists (bytes_of (encode o t v) []); split; vm_compute; reflexivity
  |exists (bytes_of (encode_s d o t v) []); split; [vm_compute; reflexivity|vm_compute; discriminate]].

Theorem reset_needed_regmap_value :
  rt_breaks no_rmapval fw_opts fw_mapval_t fw_mapval_v /\
  exists bs, encode_s no_rmapval fw_opts fw_mapval_t fw_mapval_v = Ok bs /\
             decode (dual fw_opts) bs = Ok (fw_mapval_t, VMap [(any_str [107], VInt (-110))], [5]).
Proof.
  split; [breaks no_rmapval fw_opts fw_mapval_t fw_mapval_v|].
  exists (bytes_of (encode_s no_rmapval fw_opts fw_mapval_t fw_mapval_v) []). split; vm_compute; reflexivity.
Qed.

Theorem reset_needed_regmap_key : rt_breaks no_rmapkey fw_opts fw_mapkey_t fw_mapkey_v.
Proof. breaks no_rmapkey fw_opts fw_mapkey_t fw_mapkey_v. Qed.
Theorem reset_needed_regslice : rt_breaks no_rslice fw_opts fw_rslice_t fw_rslice_v.
Proof. breaks no_rslice fw_opts fw_rslice_t fw_rslice_v. Qed.
Theorem reset_needed_regarray : rt_breaks no_rarray fw_opts fw_rarray_t fw_rarray_v.
Proof. breaks no_rarray fw_opts fw_rarray_t fw_rarray_v. Qed.
Theorem reset_needed_struct_field : rt_breaks no_field fw_opts fw_field_t fw_field_v.
Proof. breaks no_field fw_opts fw_field_t fw_field_v. Qed.
Theorem reset_needed_map_value : rt_breaks no_mapval fw_opts fw_gmapval_t fw_mapval_v.
Proof. breaks no_mapval fw_opts fw_gmapval_t fw_mapval_v. Qed.
Theorem reset_needed_map_key : rt_breaks no_mapkey fw_opts fw_gmapkey_t fw_mapkey_v.
Proof. breaks no_mapkey fw_opts fw_gmapkey_t fw_mapkey_v. Qed.
Theorem reset_needed_slice : rt_breaks no_slice fw_opts fw_gslice_t fw_rslice_v.
Proof. breaks no_slice fw_opts fw_gslice_t fw_rslice_v. Qed.
Theorem reset_needed_array : rt_breaks no_array fw_opts fw_garray_t fw_rarray_v.
Proof. breaks no_array fw_opts fw_garray_t fw_rarray_v. Qed.

(* the refutation of "the bytes do not depend on the flag the previous sibling left" for a container
   encoder that forgets one reset: same value, two states that differ only in the child's flag *)
Theorem flag_independence_refuted :
  exists d f o t v s1 s2, fl s1 = fl s2 /\ t <> TAny /\
    out (enc_s d f o t v s1) <> out (enc_s d f o t v s2).
Proof.
  exists no_rslice, 4%nat, fw_opts, (TReg [35; 76]), (VList [VInt 7]), [false; false], [false; true].
  split; [reflexivity|]. split; [discriminate|]. vm_compute. discriminate.
Qed.

(* non-vacuity: S{A: "x", S: "y"} started on a state whose child chain carries set flags gives the bytes of
   the functional model, 12 of them; the interface field alone hands its state back with the flag set *)
Example flag_example :
  out (enc_s all_resets 8 fw_opts fw_field_t fw_field_v [false; true; true]) = enc_val 8 fw_opts false fw_field_t fw_field_v /\
  enc_val 8 fw_opts false fw_field_t fw_field_v = Ok [141; 0; 1; 120; 0; 1; 121] /\
  enc_s all_resets 8 fw_opts TAny (any_str [120]) [false; false] = Ok ([141; 0; 1; 120], [true]).
Proof. repeat split; vm_compute; reflexivity. Qed.
