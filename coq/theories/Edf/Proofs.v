(* Edf/Proofs.v — C11: round trip of the EDF codec model, for all types, values, options and any
   continuation of the input; exact consumption; rejection only of unrepresentable values;
   refutation witnesses for the three input classes on which the unchanged code fails. *)
From Ergo Require Import Common.Base Common.Bytes Common.Codec Edf.Model.
Local Open Scope N_scope.

Lemma Ok_inj {A} (a b : A) : Ok a = Ok b -> a = b.
Proof. congruence. Qed.
Ltac ok_inv H := apply Ok_inj in H; subst.

(* ---- small facts ---------------------------------------------------------------------------------- *)
Lemma prim_of_tag_of p : prim_of_tag (tag_of p) = Some p.
Proof. destruct p; reflexivity. Qed.

Lemma andb3 a b : a && b = true -> a = true /\ b = true.
Proof. apply andb_true_iff. Qed.

Ltac bool_hyps :=
  repeat match goal with
         | H : _ && _ = true |- _ => apply andb_true_iff in H; destruct H
         | H : (_ <? _) = true |- _ => apply N.ltb_lt in H
         | H : (_ <=? _) = true |- _ => apply N.leb_le in H
         | H : (_ =? _) = true |- _ => apply N.eqb_eq in H
         | H : (_ <? _) = false |- _ => apply N.ltb_ge in H
         | H : (_ <=? _) = false |- _ => apply N.leb_gt in H
         | H : (_ =? _) = false |- _ => apply N.eqb_neq in H
         | H : bytes_eqb _ _ = true |- _ => apply bytes_eqb_eq in H
         | H : negb _ = true |- _ => apply negb_true_iff in H
         | H : negb _ = false |- _ => apply negb_false_iff in H
         end.

Lemma ltb_false a b : b <= a -> (a <? b) = false.
Proof. intros. now apply N.ltb_ge. Qed.
Lemma ltb_true a b : a < b -> (a <? b) = true.
Proof. intros. now apply N.ltb_lt. Qed.

Lemma pow256 k : 256 ^ N.of_nat k = 2 ^ bits_of k.
Proof. unfold bits_of. change 256 with (2 ^ 8). now rewrite <- N.pow_mul_r. Qed.

(* dual leaves everything but the atom mapping alone *)
Lemma dual_reg o : o_reg (dual o) = o_reg o. Proof. reflexivity. Qed.
Lemma dual_lookup o n : lookup_reg (dual o) n = lookup_reg o n. Proof. reflexivity. Qed.

(* ---- association lists with unique ids ---------------------------------------------------------- *)
Lemma assoc_in_ids {A} (k : bytes) (c : list (bytes * A)) id : assoc k c = Some id -> In id (map snd c).
Proof.
  induction c as [|[k' i] c IH]; cbn [assoc map snd]; [discriminate|].
  destruct (bytes_eqb k k'); intros H; [inversion H; now left | right; auto].
Qed.

Lemma existsb_eqb_false x l : existsb (N.eqb x) l = false -> ~ In x l.
Proof.
  intros H Hin. assert (existsb (N.eqb x) l = true); [|congruence].
  apply existsb_exists. exists x. split; [assumption | apply N.eqb_refl].
Qed.

Lemma assoc_id_assoc k (c : list (bytes * N)) id :
  nodupb (map snd c) = true -> assoc k c = Some id -> assoc_id id c = Some k.
Proof.
  induction c as [|[k' i] c IH]; cbn [assoc assoc_id map snd nodupb]; [discriminate|].
  intros Hnd H. apply andb_true_iff in Hnd as [Hni Hnd]. apply negb_true_iff in Hni.
  destruct (bytes_eqb k k') eqn:Hk.
  - inversion H; subst. rewrite N.eqb_refl. apply bytes_eqb_eq in Hk. now subst.
  - destruct (N.eqb_spec i id) as [->|_]; [|auto].
    exfalso. apply (existsb_eqb_false _ _ Hni). eapply assoc_in_ids; eauto.
Qed.

Lemma assoc_forall {A} (P : bytes * A -> bool) k c id :
  forallb P c = true -> assoc k c = Some id -> P (k, id) = true.
Proof.
  induction c as [|[k' i] c IH]; cbn [assoc forallb]; [discriminate|].
  intros HP H. apply andb_true_iff in HP as [H1 H2].
  destruct (bytes_eqb k k') eqn:Hk; [|auto].
  apply bytes_eqb_eq in Hk. subst. now inversion H; subst.
Qed.

Lemma err_key_in_ids k c txt id : err_by_key k c = Some (txt, id) -> In id (map snd c).
Proof.
  induction c as [|[[k' t] i] c IH]; cbn [err_by_key map snd]; [discriminate|].
  destruct (k' =? k); intros H; [inversion H; now left | right; auto].
Qed.

Lemma err_id_key k (c : list (N * bytes * N)) txt id :
  nodupb (map snd c) = true -> err_by_key k c = Some (txt, id) -> err_by_id id c = Some (k, txt).
Proof.
  induction c as [|[[k' t] i] c IH]; cbn [err_by_key err_by_id map snd nodupb]; [discriminate|].
  intros Hnd H. apply andb_true_iff in Hnd as [Hni Hnd]. apply negb_true_iff in Hni.
  destruct (N.eqb_spec k' k) as [->|Hk].
  - inversion H; subst. now rewrite N.eqb_refl.
  - destruct (N.eqb_spec i id) as [->|_]; [|auto].
    exfalso. apply (existsb_eqb_false _ _ Hni). eapply err_key_in_ids; eauto.
Qed.

Lemma err_forall (P : N * bytes * N -> bool) k c txt id :
  forallb P c = true -> err_by_key k c = Some (txt, id) -> P (k, txt, id) = true.
Proof.
  induction c as [|[[k' t] i] c IH]; cbn [err_by_key forallb]; [discriminate|].
  intros HP H. apply andb_true_iff in HP as [H1 H2].
  destruct (N.eqb_spec k' k) as [->|]; [inversion H; subst; assumption | auto].
Qed.

(* ---- Marshaler types: when the hypothesis [marsh_inv] holds ------------------------------------- *)
Definition inverts (m u : bytes -> res bytes) : Prop := forall x p, m x = Ok p -> u p = Ok x.

Lemma marsh_inv_forall o :
  Forall (fun e => match snd e with RMarsh m u => inverts m u | _ => True end) (o_reg o) -> marsh_inv o.
Proof.
  unfold marsh_inv, lookup_reg. induction (o_reg o) as [|[k d] l IH]; intros HF name m u x p Hl Hm; [discriminate|].
  inversion HF as [|? ? Hd HF']; subst. cbn [assoc] in Hl. destruct (bytes_eqb name k).
  - inversion Hl; subst. cbn [snd] in Hd. now apply Hd.
  - eapply IH; eauto.
Qed.

(* a registry without Marshaler types *)
Lemma marsh_inv_none o : forallb (fun e => negb (is_marsh (snd e))) (o_reg o) = true -> marsh_inv o.
Proof.
  intros H. apply marsh_inv_forall. rewrite forallb_forall in H. apply Forall_forall. intros e Hin.
  specialize (H e Hin). destruct (snd e); try exact I. discriminate H.
Qed.

(* the harness's own marshalers (go/harness/cmd/edf/types.go HMar, HBin) satisfy the hypothesis *)
Lemma xor_inverts : inverts mar_xor unmar_xor.
Proof.
  intros x p H. unfold mar_xor in H. ok_inv H. unfold unmar_xor. f_equal. rewrite map_map.
  rewrite <- (map_id x) at 2. apply map_ext. intros a.
  now rewrite <- N.lxor_assoc, N.lxor_nilpotent, N.lxor_0_l.
Qed.

Lemma rev_inverts : inverts mar_rev unmar_rev.
Proof.
  intros x p H. unfold mar_rev in H. ok_inv H. unfold unmar_rev. f_equal.
  rewrite !rev_append_rev, !app_nil_r. apply rev_involutive.
Qed.

(* ---- atoms ------------------------------------------------------------------------------------------ *)
Lemma wf_atom_cache o c : wf_opts o -> o_atom_cache o = Some c ->
  nodupb (map snd c) = true /\ forallb (fun p => snd p <? 65536) c = true.
Proof.
  unfold wf_opts, wf_opts_b. intros H Hc. rewrite Hc in H.
  do 3 (apply andb_true_iff in H as [H ?]). now apply andb_true_iff in H.
Qed.

Lemma read_write_atom o a r :
  wf_opts o -> atom_ok o a = true -> read_atom (dual o) (write_atom o a ++ r) = Ok (a, r).
Proof.
  intros Hwf Hok. unfold atom_ok in Hok. apply andb_true_iff in Hok as [Hlen Hback].
  apply N.leb_le in Hlen. apply bytes_eqb_eq in Hback. unfold maxAtom in *.
  unfold write_atom, read_atom. set (a' := map_atom (o_atom_map o) a) in *.
  change (o_atom_cache (dual o)) with (o_atom_cache o).
  assert (Hlit : forall r, (x <- (let '(id, r0) := (blen a', a' ++ r) in
                       '(a0, r') <- (if 255 <? id then
                         match o_atom_cache o with
                         | None => Err EData
                         | Some c => match assoc_id id c with Some a1 => Ok (a1, r0) | None => Err EData end
                         end else if blen r0 <? id then Err EData else Ok (btake id r0, bdrop id r0)) ;;
                       Ok (map_atom (o_atom_map (dual o)) a0, r')) ;; Ok x) = Ok (a, r)).
  { intros r0. cbn beta iota. rewrite (ltb_false 255 (blen a')) by lia.
    rewrite blen_app, ltb_false by lia. cbn [bind]. now rewrite btake_app, bdrop_app, Hback. }
  assert (Hlit' : read_atom (dual o) (put_lp 2 a' ++ r) = Ok (a, r)).
  { unfold read_atom, put_lp. rewrite <- app_assoc, rd_put_be by (cbn; lia). cbn [bind].
    change (o_atom_cache (dual o)) with (o_atom_cache o). unfold maxAtom.
    rewrite (ltb_false 255 (blen a')) by lia.
    rewrite blen_app, ltb_false by lia. cbn [bind]. now rewrite btake_app, bdrop_app, Hback. }
  clear Hlit. unfold read_atom in Hlit'. unfold maxAtom in *.
  change (o_atom_cache (dual o)) with (o_atom_cache o) in Hlit'.
  destruct (o_atom_cache o) as [c|] eqn:Hc; [|exact Hlit'].
  destruct (assoc a' c) as [id|] eqn:Hid; [|exact Hlit'].
  destruct (N.ltb_spec 255 id) as [Hgt|_]; [|exact Hlit'].
  destruct (wf_atom_cache o c Hwf Hc) as [Hnd Hlt].
  pose proof (assoc_forall _ _ _ _ Hlt Hid) as Hk'. cbn [snd] in Hk'. apply N.ltb_lt in Hk'.
  rewrite rd_put_be by (cbn; lia). cbn [bind]. rewrite ltb_true by assumption.
  rewrite (assoc_id_assoc _ _ _ Hnd Hid). cbn [bind]. now rewrite Hback.
Qed.

Lemma write_atom_len o a : (2 <= length (write_atom o a))%nat.
Proof.
  unfold write_atom, put_lp.
  destruct (match o_atom_cache o with Some c => assoc _ c | None => None end) as [id|];
    [destruct (maxAtom <? id)|]; try rewrite app_length; rewrite put_be_length; lia.
Qed.

(* ---- primitives -------------------------------------------------------------------------------------- *)
Lemma quiet32_lt n : n < 2 ^ 32 -> quiet32 n < 2 ^ 32.
Proof.
  change (2 ^ 32) with 4294967296. intros H. unfold quiet32, is_nan32.
  destruct ((n / 8388608) mod 256 =? 255) eqn:H1; cbn [andb]; [|assumption].
  destruct (negb (n mod 8388608 =? 0)); cbn [andb]; [|assumption].
  destruct ((n / 4194304) mod 2 =? 0) eqn:H2; [|assumption].
  apply N.eqb_eq in H2. lia.
Qed.

Lemma lp2_rt s r : blen s <= 65535 -> get_lp 2 64 (put_lp 2 s ++ r) = Ok (s, r).
Proof. intros H. apply get_put_lp; cbn; lia. Qed.

Lemma lp4_rt s r : blen s <= 4294967295 -> get_lp 4 64 (put_lp 4 s ++ r) = Ok (s, r).
Proof. intros H. apply get_put_lp; cbn; lia. Qed.

Lemma u64_rt n r : n < 2 ^ 64 -> rd_be 8 (put_be 8 n ++ r) = Ok (n, r).
Proof. intros H. apply rd_put_be. exact H. Qed.

Lemma s64_rt z r : in_signed 64 z = true ->
  rd_be 8 (put_be 8 (to_unsigned 64 z) ++ r) = Ok (to_unsigned 64 z, r) /\ to_signed 64 (to_unsigned 64 z) = z.
Proof.
  intros H. split; [apply rd_put_be; apply (to_unsigned_lt 64) | apply signed_roundtrip; [lia|assumption]].
Qed.

Lemma wf_err_cache o c : wf_opts o -> o_err_cache o = Some c ->
  nodupb (map snd c) = true /\ forallb (fun p => snd p <? 65535) c = true.
Proof.
  unfold wf_opts, wf_opts_b. intros H Hc. rewrite Hc in H.
  apply andb_true_iff in H as [H _]. apply andb_true_iff in H as [_ H]. now apply andb_true_iff in H.
Qed.

Lemma rt_error o k txt bs r : wf_opts o ->
  enc_error o k txt = Ok bs -> dec_error (dual o) (bs ++ r) = Ok (canon o (VErr k txt), r).
Proof.
  intros Hwf He. unfold enc_error in He. unfold maxError in *.
  assert (Htext : forall bs, (if 32767 <? blen txt then Err ETooLong else Ok (put_lp 2 txt)) = Ok bs ->
                  dec_error (dual o) (bs ++ r) = Ok (VErr None txt, r)).
  { intros bs0 H. destruct (N.ltb_spec 32767 (blen txt)) as [|Hl]; [discriminate|]. ok_inv H.
    unfold dec_error, put_lp. rewrite <- app_assoc, rd_put_be by (cbn; lia). cbn [bind]. unfold maxError.
    destruct (N.eqb_spec (blen txt) 65535); [lia|]. rewrite (ltb_false 32767) by lia.
    rewrite blen_app, ltb_false by lia. now rewrite btake_app, bdrop_app. }
  change (o_err_cache (dual o)) with (o_err_cache o) in *.
  destruct k as [key|]; [|cbn [canon]; now apply Htext].
  cbn [canon]. unfold err_cached, maxError.
  destruct (o_err_cache o) as [c|] eqn:Hc; [|now apply Htext].
  destruct (err_by_key key c) as [[txt' id]|] eqn:Hk; [|now apply Htext].
  destruct (bytes_eqb txt txt') eqn:Ht; cbn [negb] in He; [|discriminate].
  apply bytes_eqb_eq in Ht. subst txt'.
  destruct (N.ltb_spec 32767 id) as [Hgt|_]; [|now apply Htext].
  ok_inv He. destruct (wf_err_cache o c Hwf Hc) as [Hnd Hlt].
  pose proof (err_forall _ _ _ _ _ Hlt Hk) as Hid. cbn [snd] in Hid. apply N.ltb_lt in Hid.
  unfold dec_error. rewrite rd_put_be by (cbn; lia). cbn [bind].
  destruct (N.eqb_spec id 65535); [lia|]. unfold maxError. rewrite ltb_true by assumption.
  change (o_err_cache (dual o)) with (o_err_cache o). rewrite Hc.
  now rewrite (err_id_key _ _ _ _ Hnd Hk).
Qed.

Lemma time_valid_len b : time_valid b = true -> blen b < 256.
Proof.
  unfold time_valid. destruct b as [|v b]; [discriminate|]. intros H.
  apply orb_true_iff in H as [H|H]; apply andb_true_iff in H as [_ H]; apply N.eqb_eq in H; lia.
Qed.

Lemma int_kind_bits p sg k : int_kind p = Some (sg, k) -> 0 < bits_of k.
Proof. destruct p; intros H; inversion H; subst; reflexivity. Qed.

Lemma enc_dec_prim o p v bs r : wf_opts o -> pguard o p v = true ->
  enc_prim o p v = Ok bs -> dec_prim_body (dual o) p (bs ++ r) = Ok (canon o v, r).
Proof.
  intros Hwf Hg He. unfold enc_prim in He. unfold dec_prim_body.
  destruct (int_kind p) as [[sg k]|] eqn:Hk.
  - destruct v; try discriminate He.
    destruct (if sg then in_signed (bits_of k) z else in_unsigned (bits_of k) z) eqn:Hr; [|discriminate].
    ok_inv He. rewrite rd_put_be by (rewrite pow256; apply to_unsigned_lt). cbn [bind canon].
    pose proof (int_kind_bits _ _ _ Hk).
    destruct sg; [now rewrite signed_roundtrip | now rewrite unsigned_roundtrip].
  - destruct p; try discriminate Hk; destruct v; try discriminate He; cbn [canon pguard] in *.
    + (* bool *) ok_inv He. cbn [app rd_u8 bind]. destruct b; reflexivity.
    + (* float32 *) destruct (N.ltb_spec bits (2 ^ 32)); [|discriminate]. ok_inv He.
      rewrite rd_put_be by (apply (quiet32_lt bits); assumption). reflexivity.
    + (* float64 *) destruct (N.ltb_spec bits (2 ^ 64)); [|discriminate]. ok_inv He.
      now rewrite u64_rt.
    + (* string *) unfold maxString in He. destruct (N.ltb_spec 65535 (blen b)); [discriminate|].
      ok_inv He. now rewrite lp2_rt.
    + (* binary *) unfold maxBinary in He. destruct (N.ltb_spec 4294967295 (blen b)); [discriminate|].
      ok_inv He. now rewrite lp4_rt.
    + (* nil binary *) ok_inv He. rewrite lp4_rt by (rewrite blen_nil; lia). reflexivity.
    + (* atom *) destruct (maxAtom <? blen b); [discriminate|]. ok_inv He.
      now rewrite read_write_atom.
    + (* nil error *) ok_inv He. reflexivity.
    + (* error *) now apply rt_error.
    + (* pid *) destruct (maxAtom <? blen node); [discriminate|].
      destruct ((id <? 2 ^ 64) && in_signed 64 creation) eqn:Hc; [|discriminate].
      apply andb_true_iff in Hc as [Hid Hcr]. apply N.ltb_lt in Hid. ok_inv He.
      rewrite <- app_assoc, read_write_atom by assumption. cbn [bind].
      rewrite <- app_assoc, u64_rt by assumption. cbn [bind].
      destruct (s64_rt creation r Hcr) as [E1 E2]. rewrite E1. cbn [bind]. now rewrite E2.
    + (* process id *) apply andb_true_iff in Hg as [Hg1 Hg2].
      destruct (maxAtom <? blen node); [discriminate|]. destruct (maxAtom <? blen name); [discriminate|].
      ok_inv He. rewrite <- app_assoc, read_write_atom by assumption. cbn [bind].
      now rewrite read_write_atom.
    + (* ref *) destruct (maxAtom <? blen node); [discriminate|].
      destruct (in_signed 64 creation && (i0 <? 2 ^ 64) && (i1 <? 2 ^ 64) && (i2 <? 2 ^ 64)) eqn:Hc; [|discriminate].
      do 3 (apply andb_true_iff in Hc as [Hc ?]). bool_hyps. ok_inv He.
      rewrite <- app_assoc, read_write_atom by assumption. cbn [bind].
      rewrite <- !app_assoc.
      destruct (s64_rt creation (put_be 8 i0 ++ put_be 8 i1 ++ put_be 8 i2 ++ r) Hc) as [E1 E2]. rewrite E1. cbn [bind].
      rewrite u64_rt by assumption. cbn [bind]. rewrite u64_rt by assumption. cbn [bind].
      rewrite u64_rt by assumption. cbn [bind]. now rewrite E2.
    + (* alias *) destruct (maxAtom <? blen node); [discriminate|].
      destruct (in_signed 64 creation && (i0 <? 2 ^ 64) && (i1 <? 2 ^ 64) && (i2 <? 2 ^ 64)) eqn:Hc; [|discriminate].
      do 3 (apply andb_true_iff in Hc as [Hc ?]). bool_hyps. ok_inv He.
      rewrite <- app_assoc, read_write_atom by assumption. cbn [bind].
      rewrite <- !app_assoc.
      destruct (s64_rt creation (put_be 8 i0 ++ put_be 8 i1 ++ put_be 8 i2 ++ r) Hc) as [E1 E2]. rewrite E1. cbn [bind].
      rewrite u64_rt by assumption. cbn [bind]. rewrite u64_rt by assumption. cbn [bind].
      rewrite u64_rt by assumption. cbn [bind]. now rewrite E2.
    + (* event *) apply andb_true_iff in Hg as [Hg1 Hg2].
      destruct (maxAtom <? blen node); [discriminate|]. destruct (maxAtom <? blen name); [discriminate|].
      ok_inv He. rewrite <- app_assoc, read_write_atom by assumption. cbn [bind].
      now rewrite read_write_atom.
    + (* time *) destruct (time_valid b) eqn:Ht; [|discriminate]. ok_inv He.
      cbn [app rd_u8 bind]. pose proof (time_valid_len _ Ht).
      rewrite blen_app, ltb_false by lia. now rewrite btake_app, bdrop_app, Ht.
Qed.

(* ---- type descriptors ------------------------------------------------------------------------------ *)
Ltac closed_eqb :=
  repeat match goal with
         | |- context [?a =? ?b] =>
           let v := eval vm_compute in (a =? b) in
           match v with
           | true => change (a =? b) with true
           | false => change (a =? b) with false
           end
         end; cbv beta iota.

Lemma wf_reg_cache o c : wf_opts o -> o_reg_cache o = Some c ->
  nodupb (map snd c) = true /\ forallb (fun p => (maxRegName <? snd p) && (snd p <? 65536)) c = true.
Proof.
  unfold wf_opts, wf_opts_b, cache_ok. intros H Hc. rewrite Hc in H.
  do 2 (apply andb_true_iff in H as [H _]). apply andb_true_iff in H as [_ H]. now apply andb_true_iff in H.
Qed.

Lemma wf_reg_names o name d : wf_opts o -> lookup_reg o name = Some d -> blen name <= 4095.
Proof.
  unfold wf_opts, wf_opts_b, lookup_reg. intros H Hl. apply andb_true_iff in H as [_ H].
  pose proof (assoc_forall _ _ _ _ H Hl) as Hn. cbn [fst] in Hn. now apply N.leb_le in Hn.
Qed.

Lemma get_reg_prefix o name d r : wf_opts o -> lookup_reg o name = Some d ->
  exists tl, prefix o (TReg name) = edtReg :: tl /\ get_reg (dual o) (tl ++ r) = Ok (name, r).
Proof.
  intros Hwf Hl. cbn [prefix]. unfold get_reg.
  change (o_reg_cache (dual o)) with (o_reg_cache o). change (lookup_reg (dual o)) with (lookup_reg o).
  destruct (o_reg_cache o) as [c|] eqn:Hc.
  - destruct (assoc name c) as [id|] eqn:Hid.
    + eexists; split; [reflexivity|].
      destruct (wf_reg_cache o c Hwf Hc) as [Hnd Hr].
      pose proof (assoc_forall _ _ _ _ Hr Hid) as Hb. cbn [snd] in Hb.
      apply andb_true_iff in Hb as [Hlo Hhi]. apply N.ltb_lt in Hhi.
      rewrite rd_put_be by (cbn; lia). cbn [bind]. rewrite Hlo.
      rewrite (assoc_id_assoc _ _ _ Hnd Hid). cbn [bind]. now rewrite Hl.
    + eexists; split; [reflexivity|].
      pose proof (wf_reg_names _ _ _ Hwf Hl) as Hn. unfold put_lp.
      rewrite <- app_assoc, rd_put_be by (cbn; lia). cbn [bind]. unfold maxRegName.
      rewrite (ltb_false 4095) by lia. rewrite blen_app, ltb_false by lia. cbn [bind].
      now rewrite btake_app, bdrop_app, Hl.
  - eexists; split; [reflexivity|].
    pose proof (wf_reg_names _ _ _ Hwf Hl) as Hn. unfold put_lp.
    rewrite <- app_assoc, rd_put_be by (cbn; lia). cbn [bind]. unfold maxRegName.
    rewrite (ltb_false 4095) by lia. rewrite blen_app, ltb_false by lia. cbn [bind].
    now rewrite btake_app, bdrop_app, Hl.
Qed.

Fixpoint tdepth (t : ty) : nat :=
  match t with
  | TSlice t' | TArray _ t' => S (tdepth t')
  | TMap k v => S (Nat.max (tdepth k) (tdepth v))
  | _ => 1
  end.

Lemma tdepth_prefix o t : (tdepth t <= length (prefix o t))%nat.
Proof.
  induction t as [p| |t IH|n t IH|k IHk v IHv|name]; cbn [tdepth prefix length]; try lia.
  - rewrite app_length, put_be_length. lia.
  - rewrite app_length. lia.
  - destruct (match o_reg_cache o with Some c => assoc name c | None => None end); cbn [length]; lia.
Qed.

Lemma tag_dispatch p :
  (tag_of p =? edtNil) = false /\ (tag_of p =? edtReg) = false /\ (tag_of p =? edtType) = false /\
  (tag_of p =? edtAny) = false /\ (tag_of p =? edtMap) = false /\ (tag_of p =? edtSlice) = false /\
  (tag_of p =? edtArray) = false.
Proof. destruct p; repeat split; reflexivity. Qed.

Lemma dec_type_prefix o : wf_opts o -> forall t f r,
  ty_guard t = true -> ty_enc_ok o t = true -> (tdepth t <= f)%nat ->
  (key_ty_ok t = false -> r = []) ->
  dec_type (dual o) f (prefix o t ++ r) = Ok (t, r).
Proof.
  intros Hwf. induction t as [p| |t IH|n t IH|k IHk v IHv|name]; intros f r Hg He Hf Hr;
    (destruct f as [|f]; [cbn [tdepth] in Hf; lia|]); cbn [tdepth] in Hf.
  - cbn [prefix app dec_type]. destruct (tag_dispatch p) as (_ & H1 & _ & H2 & H3 & H4 & H5).
    rewrite H1, H2, H3, H4, H5. now rewrite prim_of_tag_of.
  - reflexivity.
  - rewrite (Hr eq_refl). cbn [prefix app dec_type]. closed_eqb.
    cbn [ty_guard ty_enc_ok] in *. rewrite (IH f []) by (try assumption; try lia; reflexivity).
    reflexivity.
  - rewrite (Hr eq_refl). cbn [ty_guard ty_enc_ok] in *. apply andb_true_iff in He as [Hn He]. apply N.leb_le in Hn.
    unfold maxBinary in Hn.
    cbn [prefix app dec_type]. closed_eqb.
    assert (Hlen : (blen (edtArray :: (put_be 4 n ++ prefix o t) ++ []) <? 6) = false).
    { apply ltb_false. pose proof (tdepth_prefix o t). unfold blen.
      cbn [length]. rewrite !app_length, put_be_length. cbn [length].
      destruct t; cbn [tdepth] in *; lia. }
    rewrite Hlen. rewrite <- app_assoc, rd_put_be by (cbn; lia). cbn [bind].
    rewrite (IH f []) by (try assumption; try lia; reflexivity). reflexivity.
  - rewrite (Hr eq_refl). cbn [ty_guard ty_enc_ok] in *.
    apply andb_true_iff in Hg as [Hg Hgv]. apply andb_true_iff in Hg as [Hkey Hgk].
    apply andb_true_iff in He as [Hek Hev].
    cbn [prefix app dec_type]. closed_eqb. rewrite <- app_assoc.
    rewrite (IHk f (prefix o v ++ [])) by (try assumption; try lia; congruence). cbn [bind].
    rewrite (IHv f []) by (try assumption; try lia; reflexivity). reflexivity.
  - cbn [ty_enc_ok] in He. destruct (lookup_reg o name) as [d|] eqn:Hl; [|discriminate].
    destruct (get_reg_prefix o name d r Hwf Hl) as (tl & Hp & Hgr). rewrite Hp.
    cbn [app dec_type]. closed_eqb. now rewrite Hgr.
Qed.

Lemma dec_type_fold_prefix o t : wf_opts o -> ty_guard t = true -> ty_enc_ok o t = true ->
  dec_type_fold (dual o) (prefix o t) = Ok (t, []).
Proof.
  intros Hwf Hg He. unfold dec_type_fold. rewrite <- (app_nil_r (prefix o t)) at 2.
  apply dec_type_prefix; try assumption; [|reflexivity].
  pose proof (tdepth_prefix o t). lia.
Qed.

(* ---- sequences, arrays, maps: generic round trips ---------------------------------------------- *)
Lemma seq_nil_rt tagb d r : dec_seq tagb d ([edtNil] ++ r) = Ok (VNil, r).
Proof. reflexivity. Qed.

Lemma mapb_nil_rt tagb dk dv r : dec_mapb tagb dk dv ([edtNil] ++ r) = Ok (VNil, r).
Proof. reflexivity. Qed.

Lemma vlen_to_nat {A} (l : list A) : N.to_nat (vlen l) = length l.
Proof. unfold vlen. apply Nat2N.id. Qed.

Lemma seq_rt tagb (e : enc val) (d : dec val) (c : val -> val) l b r :
  (tagb =? edtNil) = false -> vlen l < 4294967296 ->
  (forall a bs rest, In a l -> e a = Ok bs -> d (bs ++ rest) = Ok (c a, rest)) ->
  (forall a bs, In a l -> e a = Ok bs -> (1 <= length bs)%nat) ->
  enc_all e l = Ok b ->
  dec_seq tagb d ((tagb :: put_be 4 (vlen l) ++ b) ++ r) = Ok (VList (map c l), r).
Proof.
  intros Htag Hn Hrt Hne He. cbn [app dec_seq]. rewrite Htag, N.eqb_refl.
  rewrite <- app_assoc, rd_put_be by (cbn; lia). cbn [bind].
  destruct (N.eqb_spec (vlen l) 0) as [H0|H0].
  - destruct l; [|unfold vlen in H0; cbn [length] in H0; lia]. cbn in He. ok_inv He. reflexivity.
  - pose proof (enc_all_length e l Hne b He) as Hlen.
    rewrite ltb_false by (rewrite blen_app; unfold blen, vlen; lia).
    rewrite vlen_to_nat. now rewrite (enc_dec_all e d c l Hrt b r He).
Qed.

Lemma mapb_rt tagb (e : enc (val * val)) (d : dec (val * val)) (c : val * val -> val * val) l b r :
  (tagb =? edtNil) = false -> vlen l < 4294967296 ->
  (forall a bs rest, In a l -> e a = Ok bs -> d (bs ++ rest) = Ok (c a, rest)) ->
  (forall a bs, In a l -> e a = Ok bs -> (1 <= length bs)%nat) ->
  enc_all e l = Ok b ->
  forall dk dv, d = dec_pair dk dv ->
  dec_mapb tagb dk dv ((tagb :: put_be 4 (vlen l) ++ b) ++ r) = Ok (VMap (map c l), r).
Proof.
  intros Htag Hn Hrt Hne He dk dv ->. cbn [app dec_mapb]. rewrite Htag, N.eqb_refl.
  rewrite <- app_assoc, rd_put_be by (cbn; lia). cbn [bind].
  destruct (N.eqb_spec (vlen l) 0) as [H0|H0].
  - destruct l; [|unfold vlen in H0; cbn [length] in H0; lia]. cbn in He. ok_inv He. reflexivity.
  - pose proof (enc_all_length e l Hne b He) as Hlen.
    rewrite ltb_false by (rewrite blen_app; unfold blen, vlen; lia).
    rewrite vlen_to_nat. now rewrite (enc_dec_all e (dec_pair dk dv) c l Hrt b r He).
Qed.

Lemma arr_rt n (e : enc val) (d : dec val) (c : val -> val) l b r :
  vlen l = n ->
  (forall a bs rest, In a l -> e a = Ok bs -> d (bs ++ rest) = Ok (c a, rest)) ->
  (n = 0 \/ forall a bs, In a l -> e a = Ok bs -> (1 <= length bs)%nat) ->
  enc_all e l = Ok b ->
  dec_arr n d (b ++ r) = Ok (VList (map c l), r).
Proof.
  intros Hn Hrt Hne He. pose proof (enc_dec_all e d c l Hrt b r He) as Hd.
  unfold dec_arr. subst n. rewrite vlen_to_nat.
  destruct (b ++ r) as [|x br] eqn:Hbr.
  - apply app_eq_nil in Hbr as [-> ->].
    destruct l as [|a l]; [reflexivity|].
    destruct Hne as [H0|Hne]; [unfold vlen in H0; cbn [length] in H0; lia|].
    pose proof (enc_all_length e (a :: l) Hne [] He) as Hlen. cbn [length] in Hlen. lia.
  - now rewrite Hd.
Qed.

(* ---- every element that must occupy space does -------------------------------------------------- *)
Lemma enc_error_nonempty o k txt bs : enc_error o k txt = Ok bs -> (1 <= length bs)%nat.
Proof.
  unfold enc_error, put_lp. intros H.
  assert (Ht : forall bs, (if maxError <? blen txt then Err ETooLong else Ok (put_be 2 (blen txt) ++ txt)) = Ok bs ->
               (1 <= length bs)%nat).
  { intros bs0 H0. destruct (maxError <? blen txt); [discriminate|]. ok_inv H0.
    rewrite app_length, put_be_length. lia. }
  destruct k as [key|]; [|now apply Ht]. destruct (o_err_cache o) as [c|]; [|now apply Ht].
  destruct (err_by_key key c) as [[txt' id]|]; [|now apply Ht].
  destruct (negb (bytes_eqb txt txt')); [discriminate|].
  destruct (maxError <? id); [|now apply Ht]. ok_inv H. rewrite put_be_length. lia.
Qed.

Lemma enc_prim_nonempty o p v bs : enc_prim o p v = Ok bs -> (1 <= length bs)%nat.
Proof.
  unfold enc_prim. destruct (int_kind p) as [[sg k]|] eqn:Hk.
  - destruct v; try discriminate. destruct (if sg then _ else _); [|discriminate]. intros H; ok_inv H.
    rewrite put_be_length. pose proof (int_kind_bits _ _ _ Hk) as Hb. unfold bits_of in Hb. lia.
  - destruct p; try discriminate Hk; destruct v; try discriminate; intros H;
      try (apply enc_error_nonempty in H; exact H);
      repeat match type of H with (if ?c then _ else _) = _ => destruct c; try discriminate end;
      ok_inv H; unfold put_lp; repeat rewrite app_length; repeat rewrite put_be_length; cbn [length];
      try pose proof (write_atom_len o node); try pose proof (write_atom_len o b); lia.
Qed.

Lemma ty_hdr_nonempty o t : t <> TAny -> (1 <= length (ty_hdr o t))%nat.
Proof.
  destruct t; intros H; cbn [ty_hdr prefix length]; try lia; try congruence.
  destruct (match o_reg_cache o with Some c => assoc name c | None => None end); cbn [length]; lia.
Qed.

Lemma enc_all_cons_nonempty {A} (e : enc A) a l b :
  (forall bs, e a = Ok bs -> (1 <= length bs)%nat) -> enc_all e (a :: l) = Ok b -> (1 <= length b)%nat.
Proof.
  intros H He. cbn [enc_all] in He. apply bind_ok in He as (x & Hx & He). apply bind_ok in He as (y & Hy & He).
  ok_inv He. rewrite app_length. pose proof (H x Hx). lia.
Qed.

Lemma enc_fields_nonempty (g : ty -> val -> res bytes) (P : ty -> bool) fs : forall l b,
  (forall t v bs, g t v = Ok bs -> P t = true -> (1 <= length bs)%nat) ->
  existsb P fs = true -> enc_fields g fs l = Ok b -> (1 <= length b)%nat.
Proof.
  induction fs as [|t fs IH]; intros l b H Hex He; [discriminate|].
  destruct l as [|v l]; [discriminate|]. cbn [enc_fields] in He.
  apply bind_ok in He as (x & Hx & He). apply bind_ok in He as (y & Hy & He). ok_inv He.
  rewrite app_length. cbn [existsb] in Hex. apply orb_true_iff in Hex as [Hp|Hex].
  - pose proof (H t v x Hx Hp). lia.
  - pose proof (IH l y H Hex Hy). lia.
Qed.

Lemma nonempty_list_of_vlen {A} (l : list A) n : (vlen l =? n) = true -> (0 <? n) = true -> exists a l', l = a :: l'.
Proof.
  intros H1 H2. apply N.eqb_eq in H1. apply N.ltb_lt in H2. destruct l; [unfold vlen in H1; cbn in H1; lia | eauto].
Qed.

Lemma enc_nonempty o : forall f t v et bs,
  enc_val f o et t v = Ok bs -> (et = true \/ minw_pos f o t = true) -> (1 <= length bs)%nat.
Proof.
  induction f as [|f IH]; intros t v et bs He Hc; [discriminate|].
  cbn [enc_val] in He.
  assert (Hh : forall T X, T <> TAny -> (et = true \/ (1 <= length X)%nat) ->
                      (1 <= length ((if et then ty_hdr o T else []) ++ X))%nat).
  { intros T X HT [->|HX]; rewrite app_length; [pose proof (ty_hdr_nonempty o T HT)|]; lia. }
  destruct t as [p| |t'|n t'|tk tv|name].
  - destruct (et && is_errnil v); [discriminate|]. apply bind_ok in He as (b & Hb & He). ok_inv He.
    apply Hh; [discriminate|]. right. eapply enc_prim_nonempty; eauto.
  - destruct et; [discriminate|]. destruct v; try discriminate He.
    + ok_inv He. cbn. lia.
    + destruct t; try discriminate He; destruct (ty_enc_ok o _); try discriminate He;
        apply (IH _ _ true _ He (or_introl eq_refl)).
  - destruct v; try discriminate He.
    + ok_inv He. apply Hh; [discriminate|]. right. cbn. lia.
    + apply bind_ok in He as (b & Hb & He). ok_inv He. apply Hh; [discriminate|]. right. cbn [length]. lia.
  - destruct v; try discriminate He. destruct (vlen l =? n) eqn:Hn; [|discriminate].
    apply bind_ok in He as (b & Hb & He). ok_inv He. apply Hh; [discriminate|].
    destruct Hc as [->|Hm]; [now left|right]. cbn [minw_pos] in Hm. apply andb_true_iff in Hm as [Hpos Hm].
    destruct (nonempty_list_of_vlen _ _ Hn Hpos) as (a & l' & ->).
    eapply enc_all_cons_nonempty; [|exact Hb]. intros bs0 H0. apply (IH _ _ false _ H0). now right.
  - destruct v; try discriminate He.
    + ok_inv He. apply Hh; [discriminate|]. right. cbn. lia.
    + apply bind_ok in He as (b & Hb & He). ok_inv He. apply Hh; [discriminate|]. right. cbn [length]. lia.
  - destruct (lookup_reg o name) as [d|] eqn:Hl; [|discriminate].
    assert (Hm : et = true \/ match d with
                              | RStruct fs => existsb (minw_pos f o) fs
                              | RArray n t' => (0 <? n) && minw_pos f o t'
                              | _ => true end = true).
    { destruct Hc as [->|Hm]; [now left|right]. cbn [minw_pos] in Hm. rewrite Hl in Hm. destruct d; auto. }
    clear Hc. destruct d as [p|fs|t'|n t'|tk tv|mm mu];
      [| | | | |destruct v; try discriminate He; apply bind_ok in He as (pl & Hpl & He);
                destruct (maxMarsh <? blen pl); [discriminate|]; ok_inv He;
                apply Hh; [discriminate|]; right; unfold put_lp; rewrite app_length, put_be_length; lia].
    + destruct (regable p); [|discriminate]. apply bind_ok in He as (b & Hb & He). ok_inv He.
      apply Hh; [discriminate|]. right. eapply enc_prim_nonempty; eauto.
    + destruct v; try discriminate He. apply bind_ok in He as (b & Hb & He). ok_inv He.
      apply Hh; [discriminate|]. destruct Hm as [->|Hm]; [now left|right].
      eapply (enc_fields_nonempty _ (minw_pos f o)); [|exact Hm|exact Hb].
      intros t0 v0 bs0 H0 Hp. apply (IH _ _ false _ H0). now right.
    + destruct v; try discriminate He.
      * ok_inv He. apply Hh; [discriminate|]. right. cbn. lia.
      * apply bind_ok in He as (b & Hb & He). ok_inv He. apply Hh; [discriminate|]. right. cbn [length]. lia.
    + destruct v; try discriminate He. destruct (vlen l =? n) eqn:Hn; [|discriminate].
      apply bind_ok in He as (b & Hb & He). ok_inv He. apply Hh; [discriminate|].
      destruct Hm as [->|Hm]; [now left|right]. apply andb_true_iff in Hm as [Hpos Hm].
      destruct (nonempty_list_of_vlen _ _ Hn Hpos) as (a & l' & ->).
      eapply enc_all_cons_nonempty; [|exact Hb]. intros bs0 H0. apply (IH _ _ false _ H0). now right.
    + destruct v; try discriminate He.
      * ok_inv He. apply Hh; [discriminate|]. right. cbn. lia.
      * apply bind_ok in He as (b & Hb & He). ok_inv He. apply Hh; [discriminate|]. right. cbn [length]. lia.
Qed.

(* ---- interface values: the type header is read back ---------------------------------------------- *)
Lemma canon_errnil o v : canon o v = VErrNil -> v = VErrNil.
Proof.
  destruct v; cbn [canon]; try discriminate; auto.
  destruct sentinel; [destruct (err_cached o n)|]; discriminate.
Qed.

Lemma enc_true_not_errnil o f t bs : enc_val f o true t VErrNil = Ok bs -> False.
Proof.
  destruct f as [|f]; [discriminate|]. cbn [enc_val]. destruct t as [p| |t'|n t'|tk tv|name]; try discriminate.
  destruct (lookup_reg o name) as [d|]; [|discriminate]. destruct d as [p|fs|t'|n t'|tk tv|mm mu]; try discriminate.
  destruct (regable p) eqn:Hr; [|discriminate]. destruct p; try discriminate Hr; discriminate.
Qed.

Lemma wrap_any_id t v : t <> TAny -> v <> VErrNil -> wrap_any t v = VAny t v.
Proof. intros Ht Hv. destruct t; try congruence; destruct v; try congruence; reflexivity. Qed.

Lemma any_hdr o f t body rest v :
  wf_opts o -> desc_ok o t = true -> ty_enc_ok o t = true -> t <> TAny -> v <> VErrNil ->
  dec_val f (dual o) t (body ++ rest) = Ok (v, rest) ->
  dec_val (S f) (dual o) TAny (ty_hdr o t ++ body ++ rest) = Ok (VAny t v, rest).
Proof.
  intros Hwf Hd He Ht Hv Hdec. unfold desc_ok in Hd. apply andb_true_iff in Hd as [Hg Hlen]. apply N.ltb_lt in Hlen.
  assert (Hcomp : forall t, t <> TAny -> (forall p, t <> TPrim p) -> (forall n, t <> TReg n) ->
            ty_guard t = true -> blen (prefix o t) < 65536 -> ty_enc_ok o t = true ->
            dec_val f (dual o) t (body ++ rest) = Ok (v, rest) ->
            dec_val (S f) (dual o) TAny ((edtType :: put_be 2 (blen (prefix o t)) ++ prefix o t) ++ body ++ rest)
            = Ok (VAny t v, rest)).
  { intros t0 H1 H2 H3 Hg0 Hl0 He0 Hd0. cbn [app dec_val]. closed_eqb.
    rewrite <- !app_assoc, rd_put_be by (cbn; lia). cbn [bind].
    rewrite blen_app, ltb_false by lia. rewrite btake_app, bdrop_app.
    rewrite dec_type_fold_prefix by assumption. cbn [bind]. rewrite Hd0. cbn [bind].
    now rewrite wrap_any_id. }
  destruct t as [p| |t'|n t'|tk tv|name]; try congruence.
  - cbn [ty_hdr app dec_val]. destruct (tag_dispatch p) as (H1 & H2 & H3 & H4 & _).
    rewrite H1, H2, H3, H4, prim_of_tag_of.
    destruct f as [|f]; [discriminate|]. cbn [dec_val] in Hdec. rewrite Hdec. cbn [bind].
    now rewrite wrap_any_id.
  - apply Hcomp; try assumption; discriminate.
  - apply Hcomp; try assumption; discriminate.
  - apply Hcomp; try assumption; discriminate.
  - cbn [ty_enc_ok] in He. destruct (lookup_reg o name) as [d|] eqn:Hl; [|discriminate].
    destruct (get_reg_prefix o name d (body ++ rest) Hwf Hl) as (tl & Hp & Hgr).
    unfold ty_hdr. rewrite Hp. cbn [app dec_val]. closed_eqb. rewrite Hgr. cbn [bind]. rewrite Hdec. cbn [bind].
    now rewrite wrap_any_id.
Qed.

(* ---- pairs and struct fields ------------------------------------------------------------------------ *)
Lemma pair_rt (ek ev : enc val) (dk dv : dec val) (c : val -> val) k x bs rest :
  (forall bs rest, ek k = Ok bs -> dk (bs ++ rest) = Ok (c k, rest)) ->
  (forall bs rest, ev x = Ok bs -> dv (bs ++ rest) = Ok (c x, rest)) ->
  enc_pair ek ev (k, x) = Ok bs -> dec_pair dk dv (bs ++ rest) = Ok ((c k, c x), rest).
Proof.
  intros Hk Hx He. unfold enc_pair in He. cbn [fst snd] in He.
  apply bind_ok in He as (a & Ha & He). apply bind_ok in He as (b & Hb & He). ok_inv He.
  unfold dec_pair. rewrite <- app_assoc, (Hk _ _ Ha). cbn [bind]. now rewrite (Hx _ _ Hb).
Qed.

Lemma fields_rt (g : ty -> val -> res bytes) (d : ty -> dec val) (G : ty -> val -> bool) (c : val -> val) fs :
  (forall t v bs rest, G t v = true -> g t v = Ok bs -> d t (bs ++ rest) = Ok (c v, rest)) ->
  forall l bs rest, guard_fields G fs l = true -> enc_fields g fs l = Ok bs ->
  dec_fields d fs (bs ++ rest) = Ok (map c l, rest).
Proof.
  intros H. induction fs as [|t fs IH]; intros l bs rest Hg He.
  - destruct l; [|discriminate]. cbn in He. ok_inv He. reflexivity.
  - destruct l as [|v l]; [discriminate|]. cbn [enc_fields guard_fields] in *.
    apply andb_true_iff in Hg as [Hg1 Hg2].
    apply bind_ok in He as (x & Hx & He). apply bind_ok in He as (y & Hy & He). ok_inv He.
    cbn [dec_fields map]. rewrite <- app_assoc, (H _ _ _ _ Hg1 Hx). cbn [bind].
    now rewrite (IH _ _ _ Hg2 Hy).
Qed.

(* ---- the round trip of values ------------------------------------------------------------------------ *)
Definition hdr (o : opts) (et : bool) (t : ty) : bytes := if et then ty_hdr o t else [].

Lemma enc_dec_val o : wf_opts o -> marsh_inv o -> forall f t v et bs rest,
  guard f o t v = true -> enc_val f o et t v = Ok bs ->
  exists body, bs = hdr o et t ++ body /\ dec_val f (dual o) t (body ++ rest) = Ok (canon o v, rest).
Proof.
  intros Hwf Hmi. induction f as [|f IH]; intros t v et bs rest Hg He; [discriminate|].
  assert (IH0 : forall t v bs rest, guard f o t v = true -> enc_val f o false t v = Ok bs ->
                 dec_val f (dual o) t (bs ++ rest) = Ok (canon o v, rest)).
  { intros t0 v0 bs0 rest0 Hg0 He0. destruct (IH t0 v0 false bs0 rest0 Hg0 He0) as (body & -> & Hd). exact Hd. }
  assert (NE : forall t v bs, minw_pos f o t = true -> enc_val f o false t v = Ok bs -> (1 <= length bs)%nat).
  { intros t0 v0 bs0 Hm He0. eapply enc_nonempty; eauto. }
  assert (SEQ : forall tagb t' l b, (tagb =? edtNil) = false ->
            (vlen l <? 4294967296) && (is_nil l || minw_pos f o t') && forallb (guard f o t') l = true ->
            enc_all (enc_val f o false t') l = Ok b ->
            dec_seq tagb (dec_val f (dual o) t') ((tagb :: put_be 4 (vlen l) ++ b) ++ rest)
            = Ok (VList (map (canon o) l), rest)).
  { intros tagb t' l b Htag Hg0 Hb. apply andb_true_iff in Hg0 as [Hg0 Hall]. apply andb_true_iff in Hg0 as [Hn Hm].
    apply N.ltb_lt in Hn. rewrite forallb_forall in Hall.
    apply (seq_rt tagb (enc_val f o false t')); try assumption.
    - intros a bs0 rest0 Hin H0. apply IH0; auto.
    - intros a bs0 Hin H0. destruct l; [destruct Hin|]. cbn [is_nil orb] in Hm. eapply NE; eauto. }
  assert (ARR : forall n t' l b, (vlen l =? n) = true ->
            ((n =? 0) || minw_pos f o t') && forallb (guard f o t') l = true ->
            enc_all (enc_val f o false t') l = Ok b ->
            dec_arr n (dec_val f (dual o) t') (b ++ rest) = Ok (VList (map (canon o) l), rest)).
  { intros n t' l b Hn Hg0 Hb. apply andb_true_iff in Hg0 as [Hm Hall]. apply N.eqb_eq in Hn.
    rewrite forallb_forall in Hall. apply (arr_rt n (enc_val f o false t')); try assumption.
    - intros a bs0 rest0 Hin H0. apply IH0; auto.
    - apply orb_true_iff in Hm as [Hz|Hm]; [left; now apply N.eqb_eq in Hz|right].
      intros a bs0 Hin H0. eapply NE; eauto. }
  assert (MAP : forall tagb tk tv l b, (tagb =? edtNil) = false ->
            (vlen l <? 4294967296) && (is_nil l || minw_pos f o tk || minw_pos f o tv) &&
              forallb (fun kv => guard f o tk (fst kv) && guard f o tv (snd kv)) l = true ->
            enc_all (enc_pair (enc_val f o false tk) (enc_val f o false tv)) l = Ok b ->
            dec_mapb tagb (dec_val f (dual o) tk) (dec_val f (dual o) tv) ((tagb :: put_be 4 (vlen l) ++ b) ++ rest)
            = Ok (VMap (map (fun kv => match kv with (k, x) => (canon o k, canon o x) end) l), rest)).
  { intros tagb tk tv l b Htag Hg0 Hb. apply andb_true_iff in Hg0 as [Hg0 Hall]. apply andb_true_iff in Hg0 as [Hn Hm].
    apply N.ltb_lt in Hn. rewrite forallb_forall in Hall.
    eapply (mapb_rt tagb (enc_pair (enc_val f o false tk) (enc_val f o false tv))); try eassumption; [| |reflexivity].
    - intros [k x] bs0 rest0 Hin H0. specialize (Hall _ Hin). cbn [fst snd] in Hall.
      apply andb_true_iff in Hall as [Hgk Hgx].
      apply (pair_rt (enc_val f o false tk) (enc_val f o false tv) (dec_val f (dual o) tk) (dec_val f (dual o) tv)
               (canon o) k x bs0 rest0); auto.
    - intros [k x] bs0 Hin H0. unfold enc_pair in H0. cbn [fst snd] in H0.
      apply bind_ok in H0 as (a & Ha & H0). apply bind_ok in H0 as (c & Hc & H0). ok_inv H0.
      rewrite app_length. destruct l; [destruct Hin|]. cbn [is_nil orb] in Hm. apply orb_true_iff in Hm as [Hm|Hm];
        [pose proof (NE _ _ _ Hm Ha) | pose proof (NE _ _ _ Hm Hc)]; lia. }
  cbn [enc_val] in He. cbn [guard] in Hg. fold (hdr o et t) in He. unfold hdr in He. fold (hdr o et t) in He.
  destruct t as [p| |t'|n t'|tk tv|name].
  - destruct (et && is_errnil v); [discriminate|]. apply bind_ok in He as (b & Hb & He). ok_inv He.
    exists b. split; [reflexivity|]. cbn [dec_val]. unfold dec_prim. now apply enc_dec_prim.
  - destruct et; [discriminate|]. destruct v; try discriminate He.
    + ok_inv He. exists [edtNil]. split; reflexivity.
    + assert (Hnot : t <> TAny) by (intros ->; discriminate He).
      assert (Hte : ty_enc_ok o t = true).
      { destruct t; try congruence; destruct (ty_enc_ok o _); try discriminate He; reflexivity. }
      assert (He' : enc_val f o true t v = Ok bs).
      { destruct t; try congruence; rewrite Hte in He; exact He. }
      apply andb_true_iff in Hg as [Hd Hg].
      destruct (IH _ _ true _ rest Hg He') as (body & -> & Hdec).
      exists (ty_hdr o t ++ body). split; [reflexivity|]. rewrite <- app_assoc. cbn [canon].
      apply any_hdr; auto.
      intros Hc. apply canon_errnil in Hc. subst v. eapply enc_true_not_errnil; eauto.
  - destruct v; try discriminate He.
    + ok_inv He. exists [edtNil]. split; [reflexivity|]. cbn [dec_val]. apply seq_nil_rt.
    + apply bind_ok in He as (b & Hb & He). ok_inv He.
      exists (edtSlice :: put_be 4 (vlen l) ++ b). split; [reflexivity|]. cbn [dec_val canon].
      apply SEQ; [reflexivity|assumption|assumption].
  - destruct v; try discriminate He. destruct (vlen l =? n) eqn:Hn; [|discriminate].
    apply bind_ok in He as (b & Hb & He). ok_inv He.
    exists b. split; [reflexivity|]. cbn [dec_val canon]. now apply ARR.
  - destruct v; try discriminate He.
    + ok_inv He. exists [edtNil]. split; [reflexivity|]. cbn [dec_val]. apply mapb_nil_rt.
    + apply bind_ok in He as (b & Hb & He). ok_inv He.
      exists (edtMap :: put_be 4 (vlen l) ++ b). split; [reflexivity|]. cbn [dec_val canon].
      apply MAP; [reflexivity|assumption|assumption].
  - destruct (lookup_reg o name) as [d|] eqn:Hl; [|discriminate].
    cbn [dec_val]. rewrite dual_lookup, Hl.
    destruct d as [p|fs|t'|n t'|tk tv|mm mu];
      [| | | | |destruct v; try discriminate He; apply bind_ok in He as (pl & Hpl & He);
                unfold maxMarsh in He; destruct (N.ltb_spec 4294967294 (blen pl)) as [|Hle]; [discriminate|]; ok_inv He;
                exists (put_lp 4 pl); split; [reflexivity|];
                rewrite lp4_rt by lia; cbn [bind]; rewrite (Hmi _ _ _ _ _ Hl Hpl); reflexivity].
    + destruct (regable p) eqn:Hr; [|discriminate]. apply bind_ok in He as (b & Hb & He). ok_inv He.
      exists b. split; [reflexivity|]. unfold dec_prim. apply enc_dec_prim; try assumption.
      destruct p; try discriminate Hr; reflexivity.
    + destruct v; try discriminate He. apply bind_ok in He as (b & Hb & He). ok_inv He.
      exists b. split; [reflexivity|]. cbn [canon].
      rewrite (fields_rt (enc_val f o false) (dec_val f (dual o)) (guard f o) (canon o) fs IH0 l b rest Hg Hb).
      reflexivity.
    + destruct v; try discriminate He.
      * ok_inv He. exists [edtNil]. split; [reflexivity|]. apply seq_nil_rt.
      * apply bind_ok in He as (b & Hb & He). ok_inv He.
        exists (edtReg :: put_be 4 (vlen l) ++ b). split; [reflexivity|]. cbn [canon].
        apply SEQ; [reflexivity|assumption|assumption].
    + destruct v; try discriminate He. destruct (vlen l =? n) eqn:Hn; [|discriminate].
      apply bind_ok in He as (b & Hb & He). ok_inv He.
      exists b. split; [reflexivity|]. cbn [canon]. now apply ARR.
    + destruct v; try discriminate He.
      * ok_inv He. exists [edtNil]. split; [reflexivity|]. apply mapb_nil_rt.
      * apply bind_ok in He as (b & Hb & He). ok_inv He.
        exists (edtReg :: put_be 4 (vlen l) ++ b). split; [reflexivity|]. cbn [canon].
        apply MAP; [reflexivity|assumption|assumption].
Qed.

(* ---- Encode / Decode --------------------------------------------------------------------------------- *)
Lemma prefix_len2 o t : (forall p, t <> TPrim p) -> t <> TAny -> (forall n, t <> TReg n) -> (1 <? blen (prefix o t)) = true.
Proof.
  intros H1 H2 H3. apply N.ltb_lt. unfold blen.
  destruct t as [p| |t'|n t'|tk tv|name];
    [exfalso; apply (H1 p); reflexivity | exfalso; apply H2; reflexivity | | | | exfalso; apply (H3 name); reflexivity];
    cbn [prefix length]; repeat rewrite app_length; try rewrite put_be_length.
  - pose proof (tdepth_prefix o t'). destruct t'; cbn [tdepth] in *; lia.
  - pose proof (tdepth_prefix o t'). destruct t'; cbn [tdepth] in *; lia.
  - pose proof (tdepth_prefix o tk). destruct tk; cbn [tdepth] in *; lia.
Qed.

Theorem roundtrip_partial o t v bs rest :
  wf_opts o -> marsh_inv o -> supported o t v = true -> encode o t v = Ok bs ->
  decode (dual o) (bs ++ rest) = Ok (t, canon o v, rest).
Proof.
  intros Hwf Hmi Hs He. unfold supported in Hs. apply andb_true_iff in Hs as [Hd Hg].
  unfold encode in He. destruct (ty_enc_ok o t) eqn:Hte; [|discriminate].
  apply bind_ok in He as (b & Hb & He). ok_inv He.
  destruct (enc_dec_val o Hwf Hmi _ _ _ _ _ rest Hg Hb) as (body & Hbody & Hdec).
  unfold hdr in Hbody. cbn [app] in Hbody. subst body.
  unfold decode. change (o_fuel (dual o)) with (o_fuel o). rewrite <- app_assoc.
  pose proof Hd as Hd'. unfold desc_ok in Hd'. apply andb_true_iff in Hd' as [Htg Hlen]. apply N.ltb_lt in Hlen.
  assert (Hcomp : (forall p, t <> TPrim p) -> t <> TAny -> (forall n, t <> TReg n) ->
     match top_hdr o t ++ b ++ rest with
     | [] => Err EData
     | id :: p =>
       if id =? edtReg then
         '(name, p1) <- get_reg (dual o) p ;; '(v, r) <- dec_val (o_fuel o) (dual o) (TReg name) p1 ;; Ok (TReg name, v, r)
       else if id =? edtType then
         '(n, p1) <- rd_be 2 p ;;
         if blen p1 <? n then Err EData else
         '(t, _) <- dec_type_fold (dual o) (btake n p1) ;;
         match t with
         | TPrim pr => '(v, r) <- dec_prim (dual o) true pr (bdrop n p1) ;; Ok (t, v, r)
         | _ => '(v, r) <- dec_val (o_fuel o) (dual o) t (bdrop n p1) ;; Ok (t, v, r)
         end
       else if id =? edtNil then Ok (TAny, VAnyNil, p)
       else if id =? edtAny then '(v, r) <- dec_val (o_fuel o) (dual o) TAny p ;; Ok (TAny, v, r)
       else match prim_of_tag id with
            | Some pr => '(v, r) <- dec_prim (dual o) false pr p ;; Ok (TPrim pr, v, r)
            | None => Err EData
            end
     end = Ok (t, canon o v, rest)).
  { intros H1 H2 H3. unfold top_hdr. rewrite (prefix_len2 o t H1 H2 H3).
    assert (Hr : is_reg t = false) by (destruct t; try reflexivity; specialize (H3 name); congruence).
    rewrite Hr. cbn [andb negb app]. closed_eqb.
    rewrite <- !app_assoc, rd_put_be by (cbn; lia). cbn [bind].
    rewrite blen_app, ltb_false by lia. rewrite btake_app, bdrop_app.
    rewrite dec_type_fold_prefix by assumption. cbn [bind].
    destruct t; try (specialize (H1 p); congruence); rewrite Hdec; reflexivity. }
  destruct t as [p| |t'|n t'|tk tv|name].
  - change (top_hdr o (TPrim p)) with [tag_of p]. cbn [app].
    destruct (tag_dispatch p) as (H1 & H2 & H3 & H4 & _). rewrite H1, H2, H3, H4, prim_of_tag_of.
    destruct (o_fuel o) as [|f]; [discriminate|]. cbn [dec_val] in Hdec. rewrite Hdec. reflexivity.
  - change (top_hdr o TAny) with [edtAny]. cbn [app]. closed_eqb.
    rewrite Hdec. reflexivity.
  - apply Hcomp; discriminate.
  - apply Hcomp; discriminate.
  - apply Hcomp; discriminate.
  - cbn [ty_enc_ok] in Hte. destruct (lookup_reg o name) as [d|] eqn:Hl; [|discriminate].
    destruct (get_reg_prefix o name d (b ++ rest) Hwf Hl) as (tl & Hp & Hgr).
    unfold top_hdr. rewrite Hp. cbn [is_reg negb andb app]. rewrite andb_false_r. cbn [app]. closed_eqb.
    rewrite Hgr. cbn [bind]. rewrite Hdec. reflexivity.
Qed.

(* exact consumption is part of the statement above; with an empty continuation: *)
Corollary roundtrip_exact o t v bs :
  wf_opts o -> marsh_inv o -> supported o t v = true -> encode o t v = Ok bs ->
  decode (dual o) bs = Ok (t, canon o v, []).
Proof. intros Hwf Hmi Hs He. rewrite <- (app_nil_r bs). now apply roundtrip_partial. Qed.

(* nil and empty collections are different values, encode differently and come back as sent *)
Theorem nil_vs_empty o t :
  wf_opts o -> marsh_inv o -> desc_ok o (TSlice t) = true -> ty_enc_ok o t = true -> (1 <= o_fuel o)%nat ->
  exists b1 b2, encode o (TSlice t) VNil = Ok b1 /\ encode o (TSlice t) (VList []) = Ok b2 /\ b1 <> b2 /\
    decode (dual o) b1 = Ok (TSlice t, VNil, []) /\ decode (dual o) b2 = Ok (TSlice t, VList [], []).
Proof.
  intros Hwf Hmi Hd Hte Hf. destruct (o_fuel o) as [|f] eqn:Hfu; [lia|].
  assert (E1 : encode o (TSlice t) VNil = Ok (top_hdr o (TSlice t) ++ [edtNil])).
  { unfold encode. cbn [ty_enc_ok]. rewrite Hte, Hfu. reflexivity. }
  assert (E2 : encode o (TSlice t) (VList []) = Ok (top_hdr o (TSlice t) ++ edtSlice :: put_be 4 0 ++ [])).
  { unfold encode. cbn [ty_enc_ok]. rewrite Hte, Hfu. reflexivity. }
  eexists; eexists. split; [exact E1|]. split; [exact E2|]. split.
  - intros H. apply app_inv_head in H. discriminate H.
  - split; [apply (roundtrip_exact o (TSlice t) VNil) | apply (roundtrip_exact o (TSlice t) (VList []))];
      try assumption; unfold supported; rewrite Hd, Hfu; reflexivity.
Qed.

(* a sentinel error both sides registered comes back as the same sentinel *)
Theorem sentinel_errors o k txt bs rest :
  wf_opts o -> marsh_inv o -> err_cached o k = true -> encode o (TPrim PError) (VErr (Some k) txt) = Ok bs ->
  decode (dual o) (bs ++ rest) = Ok (TPrim PError, VErr (Some k) txt, rest).
Proof.
  intros Hwf Hmi Hc He.
  assert (Hs : supported o (TPrim PError) (VErr (Some k) txt) = true).
  { unfold supported. unfold encode in He. cbn [ty_enc_ok] in He.
    destruct (o_fuel o); [discriminate|]. reflexivity. }
  rewrite (roundtrip_partial o _ _ _ rest Hwf Hmi Hs He). cbn [canon]. now rewrite Hc.
Qed.

(* ---- rejection: only over-long components --------------------------------------------------------- *)
Definition prim_overlong (p : prim) (v : val) : bool :=
  match p, v with
  | PString, VBytes s => maxString <? blen s
  | PBinary, VBytes s => maxBinary <? blen s
  | PAtom, VBytes a => maxAtom <? blen a
  | PError, VErr _ txt => maxError <? blen txt
  | PPid, VPid node _ _ | PRef, VRef node _ _ _ _ | PAlias, VRef node _ _ _ _ => maxAtom <? blen node
  | PProcessID, VNames node name | PEvent, VNames node name => (maxAtom <? blen node) || (maxAtom <? blen name)
  | _, _ => false
  end.

Lemma rejects_only_overlong o p v : enc_prim o p v = Err ETooLong -> prim_overlong p v = true.
Proof.
  unfold enc_prim. destruct (int_kind p) as [[sg k]|] eqn:Hk.
  - destruct v; try discriminate. destruct (if sg then _ else _); discriminate.
  - destruct p; try discriminate Hk; destruct v; try discriminate; cbn [prim_overlong]; intros H;
      try (repeat match type of H with (if ?c then _ else _) = _ => destruct c eqn:?; try discriminate end;
           try reflexivity; try (now rewrite orb_true_r); fail).
    unfold enc_error in H.
    assert (Ht : (if maxError <? blen text then Err ETooLong else Ok (put_lp 2 text)) = Err ETooLong ->
                 (maxError <? blen text) = true) by (destruct (maxError <? blen text); [reflexivity|discriminate]).
    destruct sentinel; [|now apply Ht]. destruct (o_err_cache o); [|now apply Ht].
    destruct (err_by_key n l) as [[txt' id]|]; [|now apply Ht].
    destruct (negb (bytes_eqb text txt')); [discriminate|]. destruct (maxError <? id); [discriminate|now apply Ht].
Qed.

(* and conversely for strings, binaries and atoms: over-long means rejected, never bytes *)
Lemma overlong_rejected o p v :
  match p with PString | PBinary | PAtom => true | _ => false end = true ->
  prim_overlong p v = true -> enc_prim o p v = Err ETooLong.
Proof.
  destruct p; try discriminate; intros _; destruct v; try discriminate; cbn [prim_overlong];
    intros H; unfold enc_prim; cbn [int_kind]; now rewrite H.
Qed.

(* ---- rejection at the level of whole values: "too long" only if some component is over-long ------ *)
Fixpoint overlong_fields (g : ty -> val -> bool) (ts : list ty) (vs : list val) : bool :=
  match ts, vs with
  | t :: ts', v :: vs' => g t v || overlong_fields g ts' vs'
  | _, _ => false
  end.

Fixpoint has_overlong (f : nat) (o : opts) (t : ty) (v : val) {struct f} : bool :=
  match f with
  | O => false
  | S f' =>
    let lst t' := match v with VList l => existsb (has_overlong f' o t') l | _ => false end in
    let mp tk tv := match v with
                    | VMap l => existsb (fun kv => has_overlong f' o tk (fst kv) || has_overlong f' o tv (snd kv)) l
                    | _ => false end in
    match t with
    | TPrim p => prim_overlong p v
    | TAny => match v with VAny t' v' => has_overlong f' o t' v' | _ => false end
    | TSlice t' | TArray _ t' => lst t'
    | TMap tk tv => mp tk tv
    | TReg name =>
      match lookup_reg o name with
      | Some (RPrim p) => prim_overlong p v
      | Some (RStruct fs) => match v with VList l => overlong_fields (has_overlong f' o) fs l | _ => false end
      | Some (RSlice t') | Some (RArray _ t') => lst t'
      | Some (RMap tk tv) => mp tk tv
      | Some (RMarsh m _) =>
        match v with
        | VMarsh x => match m x with Ok p => maxMarsh <? blen p | Err ETooLong => true | Err _ => false end
        | _ => false
        end
      | None => false
      end
    end
  end.

Lemma bind_err {A B} (r : res A) (k : A -> res B) e :
  bind r k = Err e -> r = Err e \/ exists a, r = Ok a /\ k a = Err e.
Proof. destruct r as [a|e']; cbn [bind]; intros H; [right; eauto | left; congruence]. Qed.

Lemma enc_all_toolong {A} (e : enc A) l :
  enc_all e l = Err ETooLong -> exists a, In a l /\ e a = Err ETooLong.
Proof.
  induction l as [|a l IH]; cbn [enc_all]; [discriminate|]. intros H.
  apply bind_err in H as [H|(x & Hx & H)]; [exists a; split; [now left|exact H]|].
  apply bind_err in H as [H|(y & Hy & H)]; [|discriminate].
  destruct (IH H) as (b & Hin & Hb). exists b. split; [now right|exact Hb].
Qed.

Lemma enc_fields_toolong (g : ty -> val -> res bytes) (G : ty -> val -> bool) fs :
  (forall t v, g t v = Err ETooLong -> G t v = true) ->
  forall l, enc_fields g fs l = Err ETooLong -> overlong_fields G fs l = true.
Proof.
  intros HG. induction fs as [|t fs IH]; intros l H; [destruct l; discriminate|].
  destruct l as [|v l]; [discriminate|]. cbn [enc_fields overlong_fields] in *.
  apply bind_err in H as [H|(x & Hx & H)]; [rewrite (HG _ _ H); reflexivity|].
  apply bind_err in H as [H|(y & Hy & H)]; [|discriminate].
  rewrite (IH _ H). apply orb_true_r.
Qed.

Lemma rejects_only_overlong_val o : forall f t v et,
  enc_val f o et t v = Err ETooLong -> has_overlong f o t v = true.
Proof.
  induction f as [|f IH]; intros t v et He; [discriminate|].
  cbn [enc_val] in He. cbn [has_overlong].
  assert (LST : forall t' l, enc_all (enc_val f o false t') l = Err ETooLong ->
                        existsb (has_overlong f o t') l = true).
  { intros t' l H. apply enc_all_toolong in H as (a & Hin & Ha). apply existsb_exists. exists a. split; [exact Hin|].
    eapply IH; eauto. }
  assert (MP : forall tk tv l, enc_all (enc_pair (enc_val f o false tk) (enc_val f o false tv)) l = Err ETooLong ->
                        existsb (fun kv => has_overlong f o tk (fst kv) || has_overlong f o tv (snd kv)) l = true).
  { intros tk tv l H. apply enc_all_toolong in H as (a & Hin & Ha). apply existsb_exists. exists a. split; [exact Hin|].
    unfold enc_pair in Ha. apply bind_err in Ha as [Ha|(x & Hx & Ha)]; [rewrite (IH _ _ _ Ha); reflexivity|].
    apply bind_err in Ha as [Ha|(y & Hy & Ha)]; [|discriminate]. rewrite (IH _ _ _ Ha). apply orb_true_r. }
  destruct t as [p| |t'|n t'|tk tv|name].
  - destruct (et && is_errnil v); [discriminate|].
    apply bind_err in He as [He|(b & Hb & He)]; [|discriminate]. eapply rejects_only_overlong; eauto.
  - destruct et; [discriminate|]. destruct v; try discriminate He.
    destruct t; try discriminate He; destruct (ty_enc_ok o _); try discriminate He; eapply IH; eauto.
  - destruct v; try discriminate He.
    apply bind_err in He as [He|(b & Hb & He)]; [|discriminate]. now apply LST.
  - destruct v; try discriminate He. destruct (vlen l =? n); [|discriminate].
    apply bind_err in He as [He|(b & Hb & He)]; [|discriminate]. now apply LST.
  - destruct v; try discriminate He.
    apply bind_err in He as [He|(b & Hb & He)]; [|discriminate]. now apply MP.
  - destruct (lookup_reg o name) as [d|]; [|discriminate].
    destruct d as [p|fs|t'|n t'|tk tv|mm mu];
      [| | | | |destruct v; try discriminate He; destruct (mm x) as [pl|[]]; cbn [bind] in He; try discriminate He;
                [destruct (maxMarsh <? blen pl); [reflexivity|discriminate]|reflexivity]].
    + destruct (regable p); [|discriminate].
      apply bind_err in He as [He|(b & Hb & He)]; [|discriminate]. eapply rejects_only_overlong; eauto.
    + destruct v; try discriminate He.
      apply bind_err in He as [He|(b & Hb & He)]; [|discriminate].
      eapply enc_fields_toolong; [|exact He]. intros t0 v0 H0. eapply IH; eauto.
    + destruct v; try discriminate He.
      apply bind_err in He as [He|(b & Hb & He)]; [|discriminate]. now apply LST.
    + destruct v; try discriminate He. destruct (vlen l =? n); [|discriminate].
      apply bind_err in He as [He|(b & Hb & He)]; [|discriminate]. now apply LST.
    + destruct v; try discriminate He.
      apply bind_err in He as [He|(b & Hb & He)]; [|discriminate]. now apply MP.
Qed.

Theorem rejects_unrepresentable o t v :
  encode o t v = Err ETooLong -> has_overlong (o_fuel o) o t v = true.
Proof.
  unfold encode. destruct (ty_enc_ok o t); [|discriminate]. intros H.
  apply bind_err in H as [H|(b & Hb & H)]; [|discriminate]. eapply rejects_only_overlong_val; eauto.
Qed.

(* ---- the unrepaired length checks (history: fixed by 622a4d5 / f56c5c2) ---------------------------- *)
(* decodeString computed 2+l in uint16: a string of 65534 or 65535 bytes was rejected by the decoder *)
Lemma string_wrap_before_fix s r : blen s = 65534 \/ blen s = 65535 -> get_lp 2 16 (put_lp 2 s ++ r) = Err EData.
Proof.
  intros H. apply get_lp_wraps; [cbn; lia|].
  destruct H as [-> | ->]; reflexivity.
Qed.

Lemma string_after_fix s r : blen s <= 65535 -> get_lp 2 64 (put_lp 2 s ++ r) = Ok (s, r).
Proof. apply lp2_rt. Qed.

(* ---- refutations of the full statement (no guard): witnesses of the three known findings ---------- *)
Definition refuted_b (o : opts) (t : ty) (v : val) : bool :=
  wf_opts_b o &&
  match encode o t v with
  | Ok bs => match decode (dual o) bs with Ok _ => false | Err _ => true end
  | Err _ => false
  end.

Lemma refuted_b_sound o t v : refuted_b o t v = true ->
  wf_opts o /\ exists bs, encode o t v = Ok bs /\ decode (dual o) (bs ++ []) <> Ok (t, canon o v, []).
Proof.
  unfold refuted_b. intros H. apply andb_true_iff in H as [Hwf H]. split; [exact Hwf|].
  destruct (encode o t v) as [bs|]; [|discriminate]. exists bs. split; [reflexivity|].
  rewrite app_nil_r. destruct (decode (dual o) bs); [discriminate|]. discriminate.
Qed.

Definition o_plain : opts := mk_opts 16 [] None None None None.

(* [1][0]int: the array decoder wants at least one byte when n > 0 *)
Definition w_zero_t := TArray 1 (TArray 0 (TPrim PInt)).
Definition w_zero_v := VList [VList []].
(* map[[2]int8]string: decodeType wants the array descriptor to end the fold *)
Definition w_key_t := TMap (TArray 2 (TPrim PInt8)) (TPrim PString).
Definition w_key_v := VMap [(VList [VInt 1; VInt 2], VBytes [120])].
(* atom "s" mapped to a 256 byte atom: written as uint16 length 256, read as cache id 256 *)
Definition o_longmap : opts := mk_opts 16 [] None (Some [([115], N.iter 256 (cons 68) [])]) None None.

Lemma refuted_witnesses :
  refuted_b o_plain w_zero_t w_zero_v = true /\ refuted_b o_plain w_key_t w_key_v = true /\
  refuted_b o_longmap (TPrim PAtom) (VBytes [115]) = true.
Proof. vm_compute. repeat split. Qed.

Theorem roundtrip_refuted :
  exists o t v bs, wf_opts o /\ encode o t v = Ok bs /\ decode (dual o) (bs ++ []) <> Ok (t, canon o v, []).
Proof.
  destruct refuted_witnesses as (H & _). apply refuted_b_sound in H as (Hwf & bs & He & Hd).
  exists o_plain, w_zero_t, w_zero_v, bs. auto.
Qed.

Theorem roundtrip_refuted_map_key :
  exists bs, encode o_plain w_key_t w_key_v = Ok bs /\ decode (dual o_plain) (bs ++ []) <> Ok (w_key_t, canon o_plain w_key_v, []).
Proof. destruct refuted_witnesses as (_ & H & _). now apply refuted_b_sound in H as (_ & H). Qed.

Theorem roundtrip_refuted_atom_mapping :
  exists bs, encode o_longmap (TPrim PAtom) (VBytes [115]) = Ok bs /\
             decode (dual o_longmap) (bs ++ []) <> Ok (TPrim PAtom, canon o_longmap (VBytes [115]), []).
Proof. destruct refuted_witnesses as (_ & _ & H). now apply refuted_b_sound in H as (_ & H). Qed.

(* the guard excludes exactly these witnesses *)
Lemma witnesses_unsupported :
  supported o_plain w_zero_t w_zero_v = false /\ supported o_plain w_key_t w_key_v = false /\
  supported o_longmap (TPrim PAtom) (VBytes [115]) = false.
Proof. vm_compute. repeat split. Qed.

(* ---- non-vacuity: a registered struct with an interface field, caches and a mapping ---------------- *)
Definition ex_reg : list (bytes * rdef) :=
  [([35; 80], RStruct [TPrim PInt; TPrim PInt16]);
   ([35; 82], RStruct [TPrim PString; TPrim PAtom; TPrim PError; TAny; TSlice (TReg [35; 80]); TMap (TPrim PString) (TPrim PInt8)])].
Definition ex_opts : opts :=
  mk_opts 16 ex_reg (Some [([110], 300)]) (Some [([97], [98])]) (Some [([35; 80], 5000)]) (Some [(0, [116; 111], 40000)]).
Definition ex_val : val :=
  VList [VBytes [104; 105]; VBytes [97]; VErr (Some 0) [116; 111];
         VAny (TSlice TAny) (VList [VAnyNil; VAny (TPrim PFloat32) (VF32 2141192193); VAny (TReg [35; 80]) (VList [VInt (-1); VInt 7])]);
         VList [VList [VInt 1; VInt (-2)]]; VNil].

Example roundtrip_example :
  wf_opts ex_opts /\ marsh_inv ex_opts /\ supported ex_opts (TReg [35; 82]) ex_val = true /\
  exists bs, encode ex_opts (TReg [35; 82]) ex_val = Ok bs /\ (40 <= length bs)%nat /\
             decode (dual ex_opts) bs = Ok (TReg [35; 82], canon ex_opts ex_val, []).
Proof.
  assert (Hmi : marsh_inv ex_opts) by (apply marsh_inv_none; reflexivity).
  split; [reflexivity|]. split; [exact Hmi|]. split; [vm_compute; reflexivity|].
  destruct (encode ex_opts (TReg [35; 82]) ex_val) as [bs|e] eqn:He; [|vm_compute in He; discriminate].
  exists bs. split; [reflexivity|]. split.
  - vm_compute in He. ok_inv He. cbn [length]. lia.
  - apply roundtrip_exact; [reflexivity | exact Hmi | vm_compute; reflexivity | exact He].
Qed.

(* ---- Marshaler types ----------------------------------------------------------------------------------
   a value of a Marshaler type, at any position (here: top level, and by [roundtrip_partial] inside
   any slice / array / map / struct field / interface), comes back as the same state, consuming
   exactly header + 4-byte length + payload; the bytes are those and nothing else *)
Theorem marshaler_bytes o name m u x p :
  (1 <= o_fuel o)%nat -> lookup_reg o name = Some (RMarsh m u) -> m x = Ok p -> blen p <= maxMarsh ->
  encode o (TReg name) (VMarsh x) = Ok (prefix o (TReg name) ++ put_be 4 (blen p) ++ p).
Proof.
  intros Hf Hl Hm Hlen. unfold encode. cbn [ty_enc_ok]. rewrite Hl.
  destruct (o_fuel o) as [|f]; [lia|]. cbn [enc_val]. rewrite Hl, Hm. cbn [bind].
  rewrite ltb_false by assumption. cbn [bind app]. unfold top_hdr. cbn [is_reg negb]. now rewrite andb_false_r.
Qed.

Theorem marshaler_roundtrip o name m u x bs rest :
  wf_opts o -> marsh_inv o -> lookup_reg o name = Some (RMarsh m u) ->
  encode o (TReg name) (VMarsh x) = Ok bs ->
  decode (dual o) (bs ++ rest) = Ok (TReg name, VMarsh x, rest).
Proof.
  intros Hwf Hmi Hl He.
  assert (Hs : supported o (TReg name) (VMarsh x) = true).
  { unfold supported, desc_ok. cbn [ty_guard andb].
    assert (Hp : (blen (prefix o (TReg name)) <? 65536) = true).
    { apply N.ltb_lt. pose proof (wf_reg_names _ _ _ Hwf Hl) as Hn. cbn [prefix].
      destruct (match o_reg_cache o with Some c => assoc name c | None => None end);
        unfold put_lp, blen in *; cbn [length]; try rewrite app_length; rewrite put_be_length; lia. }
    rewrite Hp. unfold encode in He. destruct (ty_enc_ok o (TReg name)); [|discriminate].
    destruct (o_fuel o); [discriminate|]. cbn [guard]. now rewrite Hl. }
  exact (roundtrip_partial o _ _ _ rest Hwf Hmi Hs He).
Qed.

(* a payload longer than 2^32-2 bytes is rejected when encoding: no bytes are produced *)
Theorem marshaler_overlong_rejected o name m u x p :
  (1 <= o_fuel o)%nat -> lookup_reg o name = Some (RMarsh m u) -> m x = Ok p -> maxMarsh < blen p ->
  encode o (TReg name) (VMarsh x) = Err ETooLong.
Proof.
  intros Hf Hl Hm Hlen. unfold encode. cbn [ty_enc_ok]. rewrite Hl.
  destruct (o_fuel o) as [|f]; [lia|]. cbn [enc_val]. rewrite Hl, Hm. cbn [bind].
  now rewrite ltb_true by assumption.
Qed.

(* ... and whatever the position of the marshaler value: Encode never answers Ok for a value with an
   over-long payload inside ([has_overlong] covers Marshaler payloads); conversely the "too long"
   answer is given only for an over-long component (rejects_unrepresentable) *)

(* the hypothesis is needed: a marshaler whose Unmarshal does not invert its Marshal breaks the round
   trip although the codec moves the payload faithfully (Unmarshal = identity on a xor-ing Marshal) *)
Definition o_badmarsh : opts := mk_opts 16 [([35; 77], RMarsh mar_xor (fun p => Ok p))] None None None None.
Lemma marsh_hypothesis_needed :
  wf_opts o_badmarsh /\ supported o_badmarsh (TReg [35; 77]) (VMarsh [1]) = true /\
  exists bs, encode o_badmarsh (TReg [35; 77]) (VMarsh [1]) = Ok bs /\
             decode (dual o_badmarsh) bs = Ok (TReg [35; 77], VMarsh [91], []).
Proof.
  split; [reflexivity|]. split; [reflexivity|].
  destruct (encode o_badmarsh (TReg [35; 77]) (VMarsh [1])) as [bs|e] eqn:He; [|vm_compute in He; discriminate].
  exists bs. split; [reflexivity|]. vm_compute in He. ok_inv He. vm_compute. reflexivity.
Qed.

(* non-vacuity: the harness's marshaler types in a struct next to other fields, in a slice and in an
   interface, under a type cache *)
Definition exm_reg : list (bytes * rdef) :=
  [([35; 77], RMarsh mar_xor unmar_xor); ([35; 66], RMarsh mar_rev unmar_rev);
   ([35; 76], RStruct [TPrim PBinary; TReg [35; 77]; TPrim PString; TReg [35; 66]; TSlice (TReg [35; 77]); TAny])].
Definition exm_opts : opts := mk_opts 16 exm_reg None None (Some [([35; 66], 4096)]) None.
Definition exm_val : val :=
  VList [VBytes [1; 2; 3]; VMarsh [0; 90; 255]; VBytes [116]; VMarsh [1; 2; 3; 4];
         VList [VMarsh []; VMarsh [7]]; VAny (TReg [35; 66]) (VMarsh [9; 8])].

Lemma exm_marsh_inv : marsh_inv exm_opts.
Proof.
  apply marsh_inv_forall. repeat constructor; cbn [snd]; [exact xor_inverts | exact rev_inverts].
Qed.

Example marshaler_example :
  wf_opts exm_opts /\ marsh_inv exm_opts /\ supported exm_opts (TReg [35; 76]) exm_val = true /\
  exists bs, encode exm_opts (TReg [35; 76]) exm_val = Ok bs /\ (40 <= length bs)%nat /\
             decode (dual exm_opts) bs = Ok (TReg [35; 76], exm_val, []).
Proof.
  split; [reflexivity|]. split; [exact exm_marsh_inv|]. split; [vm_compute; reflexivity|].
  destruct (encode exm_opts (TReg [35; 76]) exm_val) as [bs|e] eqn:He; [|vm_compute in He; discriminate].
  exists bs. split; [reflexivity|]. split.
  - vm_compute in He. ok_inv He. cbn [length]. lia.
  - apply (roundtrip_exact exm_opts (TReg [35; 76]) exm_val bs); [reflexivity | exact exm_marsh_inv | vm_compute; reflexivity | exact He].
Qed.
