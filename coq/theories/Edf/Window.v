(* Edf/Window.v — the tables of a node GROW while a handshake is in progress (edf.RegisterAtom /
   RegisterTypeOf / RegisterError from any goroutine; node start registers the node name).
   net/handshake/start.go and accept.go read the tables once,

       intro := MessageIntroduce{ ..., AtomCache: edf.GetAtomCache(), RegCache: edf.GetRegCache(), ErrCache: edf.GetErrCache() }
       h.writeMessage(conn, intro)                      (the peer builds its DECODE caches from this)
       ...
       custom := ConnectionOptions{ EncodeAtomCache: h.makeEncodeAtomCache(intro.AtomCache), ... }

   and build the ENCODE caches from that same snapshot, not from the tables as they are at the end.
   [snap] is the announced table (id, name), [later] the table when the options are built.
   Definitions only. *)
From Ergo Require Import Common.Base Common.Bytes Common.Codec Edf.Model Edf.Negotiate.
Local Open Scope N_scope.

Definition table := list (N * bytes).                 (* id -> name *)

(* what a party encodes with / what its peer decodes with, as the code builds them *)
Definition hs_encode_cache (snap later : table) : list (bytes * N) := make_encode_name_cache snap.
Definition hs_peer_decode_cache (snap : table) : list (bytes * N) := make_decode_name_cache snap.
(* the variant that reads the table again at the end of the handshake *)
Definition hs_encode_cache_fresh (snap later : table) : list (bytes * N) := make_encode_name_cache later.

Fixpoint lookup_id (id : N) (c : list (bytes * N)) : option bytes :=
  match c with
  | [] => None
  | (n, i) :: tl => if i =? id then Some n else lookup_id id tl
  end.

(* everything the encoder may emit as a cache id resolves, at the decoder, to the same name *)
Definition agree (enc dec : list (bytes * N)) : Prop :=
  forall n id, In (n, id) enc -> lookup_id id dec = Some n.

Fixpoint agree_b (enc dec : list (bytes * N)) : bool :=
  match enc with
  | [] => true
  | (n, id) :: tl =>
      match lookup_id id dec with Some m => bytes_eqb m n | None => false end && agree_b tl dec
  end.

Fixpoint nodup_ids (t : table) : bool :=
  match t with
  | [] => true
  | (id, _) :: tl => negb (existsb (fun e => fst e =? id) tl) && nodup_ids tl
  end.

(* registration only adds entries: [later] = [snap] plus entries with ids not in [snap] *)
Definition extends (snap later : table) : Prop :=
  (forall e, In e snap -> In e later) /\ NoDup (map fst later).
