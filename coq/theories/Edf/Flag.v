(* Edf/Flag.v — the encoder of net/edf with the [stateEncode] object made explicit: the
   encodeType flag protocol of encode.go / register.go.  Definitions only (proofs: Edf/FlagProofs.v).

   [Edf.Model.enc_val] hands the flag down as an argument ("false" for every key / value / field /
   item).  The Go code does not: the flag is a FIELD of a mutable state object that the callee may
   change and that siblings share.

     type stateEncode struct { child *stateEncode; encodeType bool; options Options; ... }

   Every site of net/edf that reads or writes [encodeType] (audit, HEAD of /repo):

     pools.go:28      getPooledStateEncode: state.child = nil; state.encodeType = false   (fresh state)
     encode.go:428    encodeAny: state.child = nil (l.420); state.encodeType = true; enc.Encode(value.Elem(), b, state)
                      - the ONLY place that sets the flag; it is NOT restored on return
     encode.go:142/204/268   unnamed map / slice / array encoder: if state.encodeType { edtType, len, prefix }
     encode.go:155-158, 218-221, 275-278   the same three: state = state.child (created when nil)
     encode.go:166    unnamed map, before the KEY:    state.encodeType = false   (on the child)
     encode.go:170    unnamed map, before the VALUE:  state.encodeType = false
     encode.go:228    unnamed slice, before each item: state.encodeType = false
     encode.go:281    unnamed array, before each item: state.encodeType = false
     encode.go:317..618      primitive encoders (PID, ProcessID, Ref, Alias, Event, Time, Atom, Bool, String, Binary,
                      Int*, Uint*, Float*, Error): if state.encodeType { type byte } - read only
     register.go:687-702     regEncoder: if state.encodeType { prefix; state.encodeType = false; prev = true };
                      err := enc(value, b, state); state.encodeType = prev          (read, clear, restore)
     register.go:323-326, 390-393, 479-482, 559-564   registered struct / slice / array / map: state = state.child
     register.go:328  registered struct, before each FIELD: state.encodeType = false  (on the child)
     register.go:395  registered slice, before each item:   state.encodeType = false
     register.go:484  registered array, before each item:   state.encodeType = false
     register.go:572  registered map, before the KEY:       state.encodeType = false
     register.go:576  registered map, before the VALUE:     state.encodeType = false
     register.go:61,117      Marshaler / BinaryMarshaler bodies: the state is not used

   So: nine resets, one per loop position.  All nine are present in /repo (no defect found here).
   The model below takes the set of resets a variant of the code performs as a parameter
   ([resets]); [all_resets] is /repo. *)
From Ergo Require Import Common.Base Common.Bytes Common.Codec Edf.Model.
Local Open Scope N_scope.

(* the chain state, state.child, state.child.child, ...: the encodeType flag of each; [] = nil
   (a child is created on demand with the flag false) *)
Definition fstate := list bool.
Definition fl (s : fstate) : bool := match s with b :: _ => b | [] => false end.
Definition child (s : fstate) : fstate := match s with _ :: c => c | [] => [] end.
Definition set_fl (b : bool) (s : fstate) : fstate := b :: child s.
Definition set_child (c : fstate) (s : fstate) : fstate := fl s :: c.

(* the resets a variant of the code performs *)
Record resets := mk_resets {
  r_slice : bool;      (* encode.go:228 *)
  r_array : bool;      (* encode.go:281 *)
  r_mapkey : bool;     (* encode.go:166 *)
  r_mapval : bool;     (* encode.go:170 *)
  r_field : bool;      (* register.go:328 *)
  r_rslice : bool;     (* register.go:395 *)
  r_rarray : bool;     (* register.go:484 *)
  r_rmapkey : bool;    (* register.go:572 *)
  r_rmapval : bool     (* register.go:576 *)
}.
Definition all_resets : resets := mk_resets true true true true true true true true true.

Definition sres := res (bytes * fstate).
Definition out (r : sres) : res bytes := match r with Ok (b, _) => Ok b | Err e => Err e end.

(* "state.encodeType = false" when the variant has the statement *)
Definition reset (r : bool) (c : fstate) : fstate := if r then set_fl false c else c.

(* for i := 0; i < n; i++ { state.encodeType = false; encItem.Encode(value.Index(i), b, state) } *)
Fixpoint loop_s (r : bool) (g : val -> fstate -> sres) (l : list val) (c : fstate) : sres :=
  match l with
  | [] => Ok ([], c)
  | v :: l' => '(x, c1) <- g v (reset r c) ;; '(y, c2) <- loop_s r g l' c1 ;; Ok (x ++ y, c2)
  end.

(* for i := 0; i < nf; i++ { state.encodeType = false; encs[i].Encode(value.Field(i), b, state) } *)
Fixpoint fields_s (r : bool) (g : ty -> val -> fstate -> sres) (ts : list ty) (vs : list val) (c : fstate) : sres :=
  match ts, vs with
  | [], [] => Ok ([], c)
  | t :: ts', v :: vs' => '(x, c1) <- g t v (reset r c) ;; '(y, c2) <- fields_s r g ts' vs' c1 ;; Ok (x ++ y, c2)
  | _, _ => Err EType
  end.

(* for iter.Next() { state.encodeType = false; encKey.Encode(...); state.encodeType = false; encValue.Encode(...) } *)
Fixpoint pairs_s (rk rv : bool) (gk gv : val -> fstate -> sres) (l : list (val * val)) (c : fstate) : sres :=
  match l with
  | [] => Ok ([], c)
  | kv :: l' =>
    '(x, c1) <- gk (fst kv) (reset rk c) ;; '(y, c2) <- gv (snd kv) (reset rv c1) ;;
    '(z, c3) <- pairs_s rk rv gk gv l' c2 ;; Ok ((x ++ y) ++ z, c3)
  end.

(* the encoder closures, on the state object [s] they are given; result: bytes appended and the
   state afterwards.  (An interface holding a nil error / an interface is not a Go value: [Err EType]
   as in [enc_val].)  Imprecisions of the VARIANTS with a reset missing (unreachable under [all_resets]):
   a nil error under a leaked flag is [Err EType] here (the code writes ff ff); [ty_hdr] uses the reg
   cache, whereas the field / item encoders a registered type captured at registration time carry the
   uncached descriptor of an unnamed composite type (they never write it in the real code). *)
Fixpoint enc_s (d : resets) (f : nat) (o : opts) (t : ty) (v : val) (s : fstate) {struct f} : sres :=
  match f with
  | O => Err EFuel
  | S f' =>
    let h := if fl s then ty_hdr o t else [] in             (* if state.encodeType { ... } *)
    match t with
    | TPrim p =>                                             (* encodeXxx: reads the flag *)
      if fl s && is_errnil v then Err EType
      else b <- enc_prim o p v ;; Ok (h ++ b, s)
    | TAny =>                                                (* encodeAny: does not read the flag *)
      match v with
      | VAnyNil => Ok ([edtNil], s)                          (* returns before touching the state *)
      | VAny TAny _ => Err EType
      | VAny t' v' =>
        (* state.child = nil; state.encodeType = true; return enc.Encode(value.Elem(), b, state) *)
        if ty_enc_ok o t' then enc_s d f' o t' v' [true] else Err EType
      | _ => Err EType
      end
    | TSlice t' =>
      match v with
      | VNil => Ok (h ++ [edtNil], s)
      | VList l =>
        '(b, c) <- loop_s (r_slice d) (enc_s d f' o t') l (child s) ;;
        Ok (h ++ edtSlice :: put_be 4 (vlen l) ++ b, set_child c s)
      | _ => Err EType
      end
    | TArray n t' =>
      match v with
      | VList l =>
        if vlen l =? n
        then '(b, c) <- loop_s (r_array d) (enc_s d f' o t') l (child s) ;; Ok (h ++ b, set_child c s)
        else Err EType
      | _ => Err EType
      end
    | TMap tk tv =>
      match v with
      | VNil => Ok (h ++ [edtNil], s)
      | VMap l =>
        '(b, c) <- pairs_s (r_mapkey d) (r_mapval d) (enc_s d f' o tk) (enc_s d f' o tv) l (child s) ;;
        Ok (h ++ edtMap :: put_be 4 (vlen l) ++ b, set_child c s)
      | _ => Err EType
      end
    | TReg name =>
      match lookup_reg o name with
      | None => Err EType
      | Some rd =>
        (* regEncoder: if state.encodeType { b.Append(prefix); state.encodeType = false; prev = true } *)
        let s1 := if fl s then set_fl false s else s in
        '(b, s2) <-
          match rd with
          | RPrim p =>                                       (* enc = encodeXxx, on the same state *)
            if regable p
            then b <- enc_prim o p v ;; Ok ((if fl s1 then [tag_of p] else []) ++ b, s1)
            else Err EType
          | RStruct fs =>
            match v with
            | VList l => '(b, c) <- fields_s (r_field d) (enc_s d f' o) fs l (child s1) ;; Ok (b, set_child c s1)
            | _ => Err EType
            end
          | RSlice t' =>
            match v with
            | VNil => Ok ([edtNil], s1)
            | VList l =>
              '(b, c) <- loop_s (r_rslice d) (enc_s d f' o t') l (child s1) ;;
              Ok (edtReg :: put_be 4 (vlen l) ++ b, set_child c s1)
            | _ => Err EType
            end
          | RArray n t' =>
            match v with
            | VList l =>
              if vlen l =? n
              then '(b, c) <- loop_s (r_rarray d) (enc_s d f' o t') l (child s1) ;; Ok (b, set_child c s1)
              else Err EType
            | _ => Err EType
            end
          | RMap tk tv =>
            match v with
            | VNil => Ok ([edtNil], s1)
            | VMap l =>
              '(b, c) <- pairs_s (r_rmapkey d) (r_rmapval d) (enc_s d f' o tk) (enc_s d f' o tv) l (child s1) ;;
              Ok (edtReg :: put_be 4 (vlen l) ++ b, set_child c s1)
            | _ => Err EType
            end
          | RMarsh m _ =>
            match v with
            | VMarsh x => p <- m x ;; if maxMarsh <? blen p then Err ETooLong else Ok (put_lp 4 p, s1)
            | _ => Err EType
            end
          end ;;
        (* err := enc(value, b, state); state.encodeType = prev *)
        Ok (h ++ b, set_fl (fl s) s2)
      end
    end
  end.

(* func Encode: state := getPooledStateEncode(options) - flag false, no child *)
Definition encode_s (d : resets) (o : opts) (t : ty) (v : val) : res bytes :=
  if ty_enc_ok o t then b <- out (enc_s d (o_fuel o) o t v []) ;; Ok (top_hdr o t ++ b) else Err EType.

(* ---- variants of the code that forget one reset --------------------------------------------------- *)
Definition no_rmapval : resets := mk_resets true true true true true true true true false.   (* register.go:576 dropped *)
Definition no_rmapkey : resets := mk_resets true true true true true true true false true.   (* register.go:572 dropped *)
Definition no_rarray : resets := mk_resets true true true true true true false true true.    (* register.go:484 dropped *)
Definition no_rslice : resets := mk_resets true true true true true false true true true.    (* register.go:395 dropped *)
Definition no_field : resets := mk_resets true true true true false true true true true.     (* register.go:328 dropped *)
Definition no_mapval : resets := mk_resets true true true false true true true true true.    (* encode.go:170 dropped *)
Definition no_mapkey : resets := mk_resets true true false true true true true true true.    (* encode.go:166 dropped *)
Definition no_array : resets := mk_resets true false true true true true true true true.     (* encode.go:281 dropped *)
Definition no_slice : resets := mk_resets false true true true true true true true true.     (* encode.go:228 dropped *)

(* witnesses (registry: names are the bytes of "#M", "#L", "#A", "#S", "#P", "#T") *)
Definition fw_reg : list (bytes * rdef) :=
  [([35; 77], RMap TAny (TPrim PInt8));                       (* type M map[any]int8 *)
   ([35; 78], RMap (TPrim PString) TAny);                     (* type N map[string]any *)
   ([35; 76], RSlice (TPrim PInt32));                         (* type L []int32 *)
   ([35; 65], RArray 2 (TPrim PUint16));                      (* type A [2]uint16 *)
   ([35; 83], RStruct [TAny; TPrim PString]);                 (* type S struct { A any; S string } *)
   ([35; 80], RStruct [TSlice TAny; TReg [35; 76]]);          (* type P struct { G []any; L L } *)
   ([35; 84], RStruct [TSlice TAny; TReg [35; 65]]);          (* type T struct { G []any; A A } *)
   ([35; 85], RStruct [TSlice TAny; TSlice (TPrim PInt32)]);  (* type U struct { G []any; L []int32 } *)
   ([35; 86], RStruct [TSlice TAny; TArray 2 (TPrim PUint16)])].   (* type V struct { G []any; A [2]uint16 } *)
Definition fw_opts : opts := mk_opts 8 fw_reg None None None None.

Definition any_str (s : bytes) : val := VAny (TPrim PString) (VBytes s).
(* M{"k": 5} *)
Definition fw_mapval_t : ty := TReg [35; 77].
Definition fw_mapval_v : val := VMap [(any_str [107], VInt 5)].
(* N{"a": int8(1), "b": int8(2)} in wire order a, b *)
Definition fw_mapkey_t : ty := TReg [35; 78].
Definition fw_mapkey_v : val := VMap [(VBytes [97], VAny (TPrim PInt8) (VInt 1)); (VBytes [98], VAny (TPrim PInt8) (VInt 2))].
(* P{G: []any{"x"}, L: L{7}} *)
Definition fw_rslice_t : ty := TReg [35; 80].
Definition fw_rslice_v : val := VList [VList [any_str [120]]; VList [VInt 7]].
(* T{G: []any{"x"}, A: A{1, 2}} *)
Definition fw_rarray_t : ty := TReg [35; 84].
Definition fw_rarray_v : val := VList [VList [any_str [120]]; VList [VInt 1; VInt 2]].
(* S{A: "x", S: "y"} *)
Definition fw_field_t : ty := TReg [35; 83].
Definition fw_field_v : val := VList [any_str [120]; VBytes [121]].
(* the unnamed containers: map[any]int8{"k": 5}, map[string]any{"a": 1, "b": 2}, U{G: []any{"x"}, L: []int32{7}},
   V{G: []any{"x"}, A: [2]uint16{1, 2}} *)
Definition fw_gmapval_t : ty := TMap TAny (TPrim PInt8).
Definition fw_gmapkey_t : ty := TMap (TPrim PString) TAny.
Definition fw_gslice_t : ty := TReg [35; 85].
Definition fw_garray_t : ty := TReg [35; 86].

Definition fw_all : list (resets * ty * val) :=
  [(no_rmapval, fw_mapval_t, fw_mapval_v); (no_rmapkey, fw_mapkey_t, fw_mapkey_v);
   (no_rslice, fw_rslice_t, fw_rslice_v); (no_rarray, fw_rarray_t, fw_rarray_v);
   (no_field, fw_field_t, fw_field_v);
   (no_mapval, fw_gmapval_t, fw_mapval_v); (no_mapkey, fw_gmapkey_t, fw_mapkey_v);
   (no_slice, fw_gslice_t, fw_rslice_v); (no_array, fw_garray_t, fw_rarray_v)].
