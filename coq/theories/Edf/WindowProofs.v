(* Edf/WindowProofs.v — caches built from the announced snapshot agree with the peer's decode caches
   for EVERY later growth of the registries; built from the later table they do not. *)
From Ergo Require Import Common.Base Common.Bytes Common.Codec Edf.Model Edf.Negotiate Edf.Window.
Local Open Scope N_scope.

Lemma lookup_id_in_nodup (t : table) n id :
  NoDup (map fst t) -> In (id, n) t -> lookup_id id (make_decode_name_cache t) = Some n.
Proof.
  induction t as [|[i m] tl IH]; intros Hnd Hin; [destruct Hin|].
  cbn [make_decode_name_cache map lookup_id fst snd].
  inversion Hnd as [|? ? Hnotin Hnd']; subst.
  destruct Hin as [Heq|Hin].
  - inversion Heq; subst. rewrite N.eqb_refl. reflexivity.
  - destruct (N.eqb_spec i id) as [->|Hne].
    + exfalso. apply Hnotin. change id with (fst (id, n)). apply in_map. exact Hin.
    + apply IH; assumption.
Qed.

(* the two ends hold literally the same association list: the hypothesis "one list for encoder and
   decoder" of the round-trip theorems (Edf/Proofs.v, o_atom_cache / o_reg_cache) is met whatever
   happens to the registry after the snapshot *)
Theorem window_same_list : forall snap later,
  hs_encode_cache snap later = hs_peer_decode_cache snap.
Proof. reflexivity. Qed.

Theorem window_agree : forall snap later,
  NoDup (map fst snap) -> agree (hs_encode_cache snap later) (hs_peer_decode_cache snap).
Proof.
  intros snap later Hnd n id Hin.
  unfold hs_encode_cache, make_encode_name_cache in Hin.
  apply in_map_iff in Hin. destruct Hin as [[i m] [Heq Hin]].
  cbn [fst snd] in Heq. inversion Heq; subst.
  apply lookup_id_in_nodup; assumption.
Qed.

Lemma agree_b_sound enc dec : agree_b enc dec = true -> agree enc dec.
Proof.
  induction enc as [|[n id] tl IH]; intros H m i Hin; [destruct Hin|].
  cbn [agree_b] in H. apply andb_true_iff in H. destruct H as [H1 H2].
  destruct Hin as [Heq|Hin].
  - inversion Heq; subst. destruct (lookup_id i dec) as [x|]; [|discriminate].
    apply bytes_eqb_eq in H1. subst. reflexivity.
  - apply IH; assumption.
Qed.

(* reading the table again at the end is wrong as soon as one registration falls into the window *)
Definition ex_snap : table := [(256, [97])].
Definition ex_later : table := [(256, [97]); (257, [98])].

Theorem window_fresh_refuted :
  exists snap later, extends snap later /\
    ~ agree (hs_encode_cache_fresh snap later) (hs_peer_decode_cache snap).
Proof.
  exists ex_snap, ex_later. split.
  - split.
    + intros e He. destruct He as [<-|[]]. left. reflexivity.
    + cbn. constructor; [intros [H|[]]; discriminate|]. constructor; [intros []|constructor].
  - intros H. specialize (H [98] 257 (or_intror (or_introl eq_refl))). cbn in H. discriminate.
Qed.

Example window_agree_nontrivial :
  extends ex_snap ex_later /\ ex_snap <> ex_later /\ agree (hs_encode_cache ex_snap ex_later) (hs_peer_decode_cache ex_snap).
Proof.
  split; [|split].
  - split.
    + intros e He. destruct He as [<-|[]]. left. reflexivity.
    + cbn. constructor; [intros [H|[]]; discriminate|]. constructor; [intros []|constructor].
  - discriminate.
  - apply agree_b_sound. vm_compute. reflexivity.
Qed.
