(* Edf/Negotiate.v — how two nodes arrive at the caches of Edf/Model.v [opts]: the tables each node
   announces in MessageIntroduce (net/handshake/types.go) and the cache builders of
   net/handshake/handshake.go, transcribed function by function.  Definitions only.

   A node's registry of sentinel errors (edf.RegisterError -> errCache; GetErrCache() is the
   announced table): entries (object, id, text).  [object] names the error OBJECT of that node
   (identity matters: a registered sentinel must come back as the same object); ids are what
   addErrCache assigned (32768.. in registration order), text is Error().
   The table crosses the wire EDF-encoded with empty options (handshake.writeMessage): an error
   travels as its text, so the receiver sees id -> text and holds, for every id, a fresh error
   object made by errors.New(text) - written [foreign id] here. *)
From Ergo Require Import Common.Base Common.Bytes Common.Codec Edf.Model.
Local Open Scope N_scope.

Definition etable := list (N * N * bytes).          (* (object, id, text), one node's registry *)
Definition announced := list (N * bytes).           (* what the peer receives: id -> text *)

(* MessageIntroduce.ErrCache after Encode/Decode with edf.Options{} *)
Definition announce (t : etable) : announced := map (fun e => match e with (_, id, txt) => (id, txt) end) t.

(* the object the intro decoder made for the announced entry [id] (not a sentinel of the receiver) *)
Definition foreign (id : N) : N := 1000000 + id.
Definition is_foreign (k : N) : bool := 1000000 <=? k.

(* func makeEncodeErrCache(local): for k, v := range local { cache.Store(v, k) } : object -> id *)
Definition make_encode_err_cache (local : etable) : list (N * bytes * N) :=
  map (fun e => match e with (obj, id, txt) => (obj, txt, id) end) local.

(* localRegisteredErrors[v.Error()] = v  (a Go map keyed by the text; with two local sentinels of
   the same text the survivor depends on the iteration order - [texts_inj] excludes that) *)
Fixpoint find_text (txt : bytes) (local : etable) : option N :=
  match local with
  | [] => None
  | (obj, _, t) :: l => if bytes_eqb t txt then Some obj else find_text txt l
  end.

(* func makeDecodeErrCache(local, remote):
     for k, v := range remote {
        if err, exist := localRegisteredErrors[v.Error()]; exist { c.Store(k, err); continue }
        c.Store(k, v) }                                   : id -> object *)
Definition make_decode_err_cache (local : etable) (remote : announced) : list (N * bytes * N) :=
  map (fun e => match e with (id, txt) =>
                  (match find_text txt local with Some obj => obj | None => foreign id end, txt, id) end) remote.

(* atoms and registered type names: the decoder's cache is the peer's table as announced
   (makeDecodeAtomCache / makeDecodeRegCache: cache.Store(k, v)), the encoder's cache the node's own
   table inverted (makeEncodeAtomCache: cache.Store(v, k); makeEncodeRegCache: the 3-byte
   "edtReg id" of edf.regCache for the announced names) - both are the one association list of
   [o_atom_cache] / [o_reg_cache]. *)
Definition make_encode_name_cache (local : list (N * bytes)) : list (bytes * N) :=
  map (fun e => (snd e, fst e)) local.
Definition make_decode_name_cache (remote : list (N * bytes)) : list (bytes * N) :=
  map (fun e => (snd e, fst e)) remote.

(* the options of the two ends of one direction (A encodes, B decodes) *)
Record nego := mk_nego {
  g_fuel : nat;
  g_reg : list (bytes * rdef);
  g_atoms : list (N * bytes);          (* A's announced atom table *)
  g_regs : list (N * bytes);           (* A's announced type-name table *)
  g_ta : etable;                       (* A's sentinel errors *)
  g_tb : etable                        (* B's sentinel errors *)
}.

Definition opt_list {A} (l : list A) : option (list A) := match l with [] => None | _ => Some l end.

(* "if len(local) == 0 { return nil }" *)
Definition enc_opts (g : nego) : opts :=
  mk_opts (g_fuel g) (g_reg g) (opt_list (make_encode_name_cache (g_atoms g))) None
          (opt_list (make_encode_name_cache (g_regs g))) (opt_list (make_encode_err_cache (g_ta g))).

Definition dec_opts (g : nego) : opts :=
  mk_opts (g_fuel g) (g_reg g) (opt_list (make_decode_name_cache (g_atoms g))) None
          (opt_list (make_decode_name_cache (g_regs g)))
          (opt_list (make_decode_err_cache (g_tb g) (announce (g_ta g)))).

(* ---- well-formed registries ------------------------------------------------------------------------ *)
Definition ids_of (t : etable) : list N := map (fun e => snd (fst e)) t.
Definition objs_of (t : etable) : list N := map (fun e => fst (fst e)) t.

Fixpoint texts_injb (t : etable) : bool :=
  match t with
  | [] => true
  | (_, _, txt) :: l => negb (existsb (fun e => bytes_eqb (snd e) txt) l) && texts_injb l
  end.

(* addErrCache: ids 32768 .. 65534, one per object (LoadOrStore refuses a second registration) *)
Definition wf_etable_b (t : etable) : bool :=
  nodupb (ids_of t) && nodupb (objs_of t) &&
  forallb (fun e => (maxError <? snd (fst e)) && (snd (fst e) <? 65535) && negb (is_foreign (fst (fst e)))) t.

(* ---- what B's user sees for a sentinel of A ---------------------------------------------------------- *)
(* the B sentinel registered under the same text, if any; otherwise an error of that text *)
Definition expect_err (tb : etable) (txt : bytes) : val := VErr (find_text txt tb) txt.

(* the harness prints objects that are not sentinels of the receiver as plain errors *)
Fixpoint strip_foreign (v : val) : val :=
  match v with
  | VErr (Some k) txt => if is_foreign k then VErr None txt else v
  | VAny t v' => VAny t (strip_foreign v')
  | VList l => VList (map strip_foreign l)
  | VMap l => VMap (map (fun kv => (strip_foreign (fst kv), strip_foreign (snd kv))) l)
  | _ => v
  end.

(* a whole value as B's user sees it: [canon] under A's options (uncached sentinel -> its text,
   nil []byte -> empty, float32 NaN quieted), then every sentinel A's cache carried becomes the B
   sentinel of the same text, or a plain error *)
Fixpoint to_receiver (tb : etable) (v : val) : val :=
  match v with
  | VErr (Some _) txt => expect_err tb txt
  | VAny t v' => VAny t (to_receiver tb v')
  | VList l => VList (map (to_receiver tb) l)
  | VMap l => VMap (map (fun kv => (to_receiver tb (fst kv), to_receiver tb (snd kv))) l)
  | _ => v
  end.

Definition neg_expect (g : nego) (v : val) : val := to_receiver (g_tb g) (canon (enc_opts g) v).
