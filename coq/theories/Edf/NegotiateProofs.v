(* Edf/NegotiateProofs.v — C11, negotiated caches: for ALL pairs of sentinel registries (any ids, any
   registration order, disjoint / overlapping / equal sets of texts), a sentinel error A sends by its
   cache id is decoded by B - through the cache B builds from its own registry and the table A
   announced - as the B sentinel registered under the same text, and as an error of that text when
   B has none. *)
From Ergo Require Import Common.Base Common.Bytes Common.Codec Edf.Model Edf.Proofs Edf.Negotiate.
Local Open Scope N_scope.

Lemma opt_list_in {A} (l : list A) x : In x l -> opt_list l = Some l.
Proof. destruct l; [intros []|reflexivity]. Qed.

Lemma in_objs t obj id txt : In (obj, id, txt) t -> In obj (objs_of t).
Proof. intros H. unfold objs_of. apply (in_map (fun e => fst (fst e)) t _ H). Qed.

Lemma in_ids t obj id txt : In (obj, id, txt) t -> In id (ids_of t).
Proof. intros H. unfold ids_of. apply (in_map (fun e => snd (fst e)) t _ H). Qed.

(* A's encode cache finds the id of a registered object *)
Lemma err_by_key_enc t obj id txt :
  nodupb (objs_of t) = true -> In (obj, id, txt) t ->
  err_by_key obj (make_encode_err_cache t) = Some (txt, id).
Proof.
  induction t as [|[[o i] x] t IH]; intros Hnd Hin; [destruct Hin|].
  cbn [objs_of map fst nodupb] in Hnd. apply andb_true_iff in Hnd as [Hni Hnd]. apply negb_true_iff in Hni.
  cbn [make_encode_err_cache map err_by_key]. destruct Hin as [E|Hin].
  - inversion E; subst. now rewrite N.eqb_refl.
  - destruct (N.eqb_spec o obj) as [->|_]; [|now apply IH].
    exfalso. apply (existsb_eqb_false _ _ Hni). eapply in_objs; eauto.
Qed.

Definition dec_key (tb : etable) (id : N) (txt : bytes) : N :=
  match find_text txt tb with Some obj => obj | None => foreign id end.

(* B's decode cache maps the id to B's object for the same text (or to the announced object) *)
Lemma err_by_id_dec tb t obj id txt :
  nodupb (ids_of t) = true -> In (obj, id, txt) t ->
  err_by_id id (make_decode_err_cache tb (announce t)) = Some (dec_key tb id txt, txt).
Proof.
  induction t as [|[[o i] x] t IH]; intros Hnd Hin; [destruct Hin|].
  cbn [ids_of map fst snd nodupb] in Hnd. apply andb_true_iff in Hnd as [Hni Hnd]. apply negb_true_iff in Hni.
  cbn [announce make_decode_err_cache map err_by_id]. destruct Hin as [E|Hin].
  - inversion E; subst. now rewrite N.eqb_refl.
  - destruct (N.eqb_spec i id) as [->|_]; [|now apply IH].
    exfalso. apply (existsb_eqb_false _ _ Hni). eapply in_ids; eauto.
Qed.

Lemma wf_etable_entry t obj id txt :
  wf_etable_b t = true -> In (obj, id, txt) t ->
  nodupb (ids_of t) = true /\ nodupb (objs_of t) = true /\ 32767 < id < 65535.
Proof.
  unfold wf_etable_b. intros H Hin. apply andb_true_iff in H as [H Hall]. apply andb_true_iff in H as [H1 H2].
  rewrite forallb_forall in Hall. specialize (Hall _ Hin). cbn [fst snd] in Hall.
  apply andb_true_iff in Hall as [Hall _]. apply andb_true_iff in Hall as [Ha Hb].
  apply N.ltb_lt in Ha, Hb. unfold maxError in Ha. auto.
Qed.

(* what A puts on the wire for a registered sentinel: its 2-byte id, nothing else *)
Theorem neg_sentinel_bytes g obj id txt :
  wf_etable_b (g_ta g) = true -> In (obj, id, txt) (g_ta g) ->
  enc_error (enc_opts g) (Some obj) txt = Ok (put_be 2 id).
Proof.
  intros Hwf Hin. destruct (wf_etable_entry _ _ _ _ Hwf Hin) as (_ & Hno & Hid).
  unfold enc_error, enc_opts. cbn [o_err_cache].
  rewrite (opt_list_in _ (obj, txt, id)) by (apply (in_map (fun e => match e with (o, i, t) => (o, t, i) end) _ _ Hin)).
  rewrite (err_by_key_enc _ _ _ _ Hno Hin), bytes_eqb_refl. cbn [negb]. unfold maxError.
  now rewrite ltb_true by lia.
Qed.

(* ... and what B's decoder makes of it, for every pair of registries *)
Theorem neg_sentinel_roundtrip g obj id txt bs r :
  wf_etable_b (g_ta g) = true -> In (obj, id, txt) (g_ta g) ->
  enc_error (enc_opts g) (Some obj) txt = Ok bs ->
  dec_error (dec_opts g) (bs ++ r) = Ok (VErr (Some (dec_key (g_tb g) id txt)) txt, r).
Proof.
  intros Hwf Hin He. rewrite (neg_sentinel_bytes g obj id txt Hwf Hin) in He. ok_inv He.
  destruct (wf_etable_entry _ _ _ _ Hwf Hin) as (Hni & _ & Hid).
  unfold dec_error. rewrite rd_put_be by (cbn; lia). cbn [bind].
  destruct (N.eqb_spec id 65535); [lia|]. unfold maxError. rewrite ltb_true by lia.
  unfold dec_opts. cbn [o_err_cache].
  rewrite (opt_list_in _ (dec_key (g_tb g) id txt, txt, id)).
  - now rewrite (err_by_id_dec _ _ _ _ _ Hni Hin).
  - unfold make_decode_err_cache, announce. rewrite map_map.
    apply (in_map (fun e => match (match e with (_, i, t) => (i, t) end) with (i, t) =>
             (match find_text t (g_tb g) with Some o => o | None => foreign i end, t, i) end) _ _ Hin).
Qed.

(* ---- which object that is -------------------------------------------------------------------------- *)
Lemma find_text_in txt tb obj : find_text txt tb = Some obj -> exists id, In (obj, id, txt) tb.
Proof.
  induction tb as [|[[o i] t] tb IH]; cbn [find_text]; [discriminate|].
  destruct (bytes_eqb t txt) eqn:E.
  - intros H. inversion H; subst. apply bytes_eqb_eq in E. subst. exists i. now left.
  - intros H. destruct (IH H) as (id & Hin). exists id. now right.
Qed.

Lemma find_text_none txt tb obj id : find_text txt tb = None -> ~ In (obj, id, txt) tb.
Proof.
  induction tb as [|[[o i] t] tb IH]; cbn [find_text]; intros H Hin; [destruct Hin|].
  destruct (bytes_eqb t txt) eqn:E; [discriminate|]. destruct Hin as [Hin|Hin]; [|now apply IH].
  inversion Hin; subst. now rewrite bytes_eqb_refl in E.
Qed.

(* with one sentinel per text in B's registry, it is THE sentinel B registered under that text *)
Lemma find_text_unique txt tb obj id :
  texts_injb tb = true -> In (obj, id, txt) tb -> find_text txt tb = Some obj.
Proof.
  induction tb as [|[[o i] t] tb IH]; intros Hinj Hin; [destruct Hin|].
  cbn [texts_injb] in Hinj. apply andb_true_iff in Hinj as [Hn Hinj]. apply negb_true_iff in Hn.
  cbn [find_text]. destruct Hin as [E|Hin].
  - inversion E; subst. now rewrite bytes_eqb_refl.
  - destruct (bytes_eqb t txt) eqn:E; [|now apply IH].
    apply bytes_eqb_eq in E. subst t. exfalso.
    assert (existsb (fun e => bytes_eqb (snd e) txt) tb = true); [|congruence].
    apply existsb_exists. exists (obj, id, txt). split; [assumption|]. cbn [snd]. apply bytes_eqb_refl.
Qed.

(* the statement of the property for negotiated error caches: same sentinel (B's, by text) or same text *)
Theorem neg_sentinel_spec g objA id txt bs r :
  wf_etable_b (g_ta g) = true -> texts_injb (g_tb g) = true -> In (objA, id, txt) (g_ta g) ->
  enc_error (enc_opts g) (Some objA) txt = Ok bs ->
  exists k, dec_error (dec_opts g) (bs ++ r) = Ok (VErr (Some k) txt, r) /\
    (forall objB idB, In (objB, idB, txt) (g_tb g) -> k = objB) /\
    ((forall objB idB, ~ In (objB, idB, txt) (g_tb g)) -> k = foreign id) /\
    strip_foreign (VErr (Some k) txt) = strip_foreign (expect_err (g_tb g) txt).
Proof.
  intros Hwf Hinj Hin He. exists (dec_key (g_tb g) id txt).
  split; [now apply (neg_sentinel_roundtrip g objA)|]. unfold dec_key, expect_err. split; [|split].
  - intros objB idB HB. now rewrite (find_text_unique _ _ _ _ Hinj HB).
  - intros Hno. destruct (find_text txt (g_tb g)) as [o|] eqn:E; [|reflexivity].
    destruct (find_text_in _ _ _ E) as (i & Hi). exfalso. exact (Hno _ _ Hi).
  - destruct (find_text txt (g_tb g)) as [o|]; [reflexivity|]. cbn [strip_foreign].
    unfold is_foreign, foreign. now rewrite (proj2 (N.leb_le _ _)) by lia.
Qed.

(* a cache built by numeric id alone (the peer's id looked up in the local registry without comparing
   the texts) returns a different sentinel as soon as the two nodes registered in a different order *)
Definition decode_cache_by_id (local : etable) (remote : announced) : list (N * bytes * N) :=
  map (fun e => match e with (id, txt) =>
    match find (fun l => snd (fst l) =? id) local with
    | Some (obj, _, ltxt) => (obj, ltxt, id)
    | None => (match find_text txt local with Some obj => obj | None => foreign id end, txt, id)
    end end) remote.

Definition ex_ta : etable := [(0, 32768, [97]); (1, 32769, [98])].          (* A registered "a", "b" *)
Definition ex_tb : etable := [(1, 32768, [98]); (0, 32769, [97])].          (* B registered "b", "a" *)

Example by_id_cache_wrong :
  err_by_id 32768 (make_decode_err_cache ex_tb (announce ex_ta)) = Some (0, [97]) /\
  err_by_id 32768 (decode_cache_by_id ex_tb (announce ex_ta)) = Some (1, [98]).
Proof. split; reflexivity. Qed.

(* non-vacuity of the theorems: overlapping registries in different order, one text only A has *)
Definition ex_nego : nego :=
  mk_nego 16 [] [(256, [110])] [] [(0, 32768, [97]); (1, 32769, [98]); (2, 32770, [99])]
                                  [(1, 32768, [98]); (0, 32769, [97]); (3, 32770, [100])].

Example neg_example :
  wf_etable_b (g_ta ex_nego) = true /\ texts_injb (g_tb ex_nego) = true /\
  dec_error (dec_opts ex_nego) [128; 0; 7] = Ok (VErr (Some 0) [97], [7]) /\
  dec_error (dec_opts ex_nego) [128; 2] = Ok (VErr (Some (foreign 32770)) [99], []).
Proof. repeat split; reflexivity. Qed.
