(* Pool engine - correspondence and monitor definitions evaluated over implementation observations
   (cases written by go/harness/cmd/pool: a real act.Pool, workers whose handlers are held and released by the harness). *)
From Ergo Require Import Common.Base Pool.Model.
Local Open Scope Z_scope.

Record pcase := mk_pcase {
  p_size     : nat;                      (* PoolSize *)
  p_cap      : Z;                        (* WorkerMailboxSize *)
  p_events   : list event;               (* the history as executed; worker pids = spawn order 0,1,2,...; m_from = sender number;
                                            m_ref = message number for requests; oracles = the Spawn results observed *)
  p_verdicts : list (Z * Z);             (* (message, 0 unhandled / 1 forwarded / 2 forwarded with restart): pool counters *)
  p_handled  : list (Z * Z * Z);         (* (worker, message, sender seen by the worker) in the order the handlers started *)
  p_replies  : list (Z * Z * Z * Z);     (* (request, 0 reply / 1 timeout / 9 other, worker named in the reply, request named in the reply) *)
  p_lens     : list Z;                   (* p.pool.Len() at each ELen *)
  p_answered : list Z                    (* requests whose handler returned a result while the worker was alive *)
}.

Definition verdict_code (v : verdict) : Z :=
  match v with Dropped => 0 | Delivered _ false => 1 | Delivered _ true => 2 | Stuck => 9 end.

Fixpoint list_eqb {A} (f : A -> A -> bool) (a b : list A) : bool :=
  match a, b with
  | [], [] => true
  | x :: a', y :: b' => f x y && list_eqb f a' b'
  | _, _ => false
  end.

Definition model_end (c : pcase) : hstate := hrun_from (hinit (p_size c) (p_cap c) 0) (p_events c).

Fixpoint model_lens (h : hstate) (l : list event) : list Z :=
  match l with
  | [] => []
  | ELen :: tl => Z.of_nat (length (ring (pl h))) :: model_lens h tl
  | e :: tl => model_lens (hstep h e) tl
  end.

Definition corr_verdicts (c : pcase) : bool :=
  list_eqb (fun a b => (fst a =? fst b) && (snd a =? snd b))
           (rev (map (fun t => (m_id (fst t), verdict_code (snd t))) (verdicts (model_end c)))) (p_verdicts c).
Definition corr_handled (c : pcase) : bool :=
  list_eqb (fun a b => (fst a =? fst b) && (snd a =? snd b))
           (rev (map (fun t => (fst t, m_id (snd t))) (handled (model_end c)))) (map fst (p_handled c)).
Definition corr_lens (c : pcase) : bool := list_eqb Z.eqb (model_lens (hinit (p_size c) (p_cap c) 0) (p_events c)) (p_lens c).
Definition corr_ok (c : pcase) : bool := corr_verdicts c && corr_handled c && corr_lens c.

(* ---- the property on the implementation's observations ---- *)
Fixpoint z_nodupb (l : list Z) : bool :=
  match l with
  | [] => true
  | x :: tl => negb (existsb (Z.eqb x) tl) && z_nodupb tl
  end.

Definition sent_msg (c : pcase) (id : Z) : option msg :=
  match filter (fun e => match e with EMsg m _ => m_id m =? id | _ => false end) (p_events c) with
  | EMsg m _ :: _ => Some m
  | _ => None
  end.

(* exactly one worker: no message is handled twice (by the same or by two workers); only messages really sent are
   handled, and never one the pool counted as unhandled *)
Definition spec_one_worker (c : pcase) : bool :=
  z_nodupb (map (fun t => snd (fst t)) (p_handled c)) &&
  forallb (fun t => match sent_msg c (snd (fst t)) with Some _ => true | None => false end) (p_handled c) &&
  forallb (fun v => (negb (snd v =? 0)) || negb (existsb (fun t => snd (fst t) =? fst v) (p_handled c))) (p_verdicts c).

(* the original message: the worker sees the original sender *)
Definition spec_sender_kept (c : pcase) : bool :=
  forallb (fun t => match sent_msg c (snd (fst t)) with Some m => m_from m =? snd t | None => false end) (p_handled c).

(* the worker's reply reaches the caller (the reference was kept): every request whose handler returned a result on a
   live worker is answered with that worker's reply to that very request; no caller gets a reply to another request or
   a reply from a worker that did not handle it *)
Definition spec_reply_reaches_caller (c : pcase) : bool :=
  forallb (fun id => existsb (fun r => let '(q, k, w, q') := r in
                                       (q =? id) && (k =? 0) && (q' =? id) &&
                                       existsb (fun t => (snd (fst t) =? id) && (fst (fst t) =? w)) (p_handled c))
                             (p_replies c)) (p_answered c) &&
  forallb (fun r => let '(q, k, w, q') := r in
                    negb (k =? 0) || ((q' =? q) && existsb (fun t => (snd (fst t) =? q) && (fst (fst t) =? w)) (p_handled c)))
          (p_replies c) &&
  forallb (fun r => let '(q, k, w, q') := r in negb (k =? 9)) (p_replies c).

(* the ring keeps its configured size: p.pool.Len() = PoolSize + successful AddWorkers spawns - removed workers - FAILED
   respawns (plain arithmetic over the history's inputs; no dispatch model involved) *)
Fixpoint len_walk (len : Z) (h : list event) (obs : list Z) : bool :=
  match h with
  | [] => true
  | EMsg _ o :: tl => len_walk (len - Z.of_nat (length (filter negb o))) tl obs
  | EAdd o :: tl => len_walk (len + Z.of_nat (length (filter (fun b => b) o))) tl obs
  | ERemove n :: tl => len_walk (len - Z.min (Z.of_nat n) len) tl obs
  | ELen :: tl => match obs with
                  | x :: obs' => (x =? len) && len_walk len tl obs'
                  | [] => true
                  end
  | _ :: tl => len_walk len tl obs
  end.
Definition spec_ring_size (c : pcase) : bool := len_walk (Z.of_nat (p_size c)) (p_events c) (p_lens c).

(* dropped exactly when the dispatch theorem says so: the history (who is held, who crashed, what was sent) is the
   harness' script, so the model's verdict is what C19_dispatch prescribes for this very situation - a message is
   counted as unhandled iff every worker was full (no live worker with room, no dead slot to replace) *)
Definition spec_drop_iff_full (c : pcase) : bool :=
  let want := rev (map (fun t => (m_id (fst t), verdict_code (snd t))) (verdicts (model_end c))) in
  forallb (fun v => match find (fun w => fst w =? fst v) want with
                    | Some w => Bool.eqb (snd w =? 0) (snd v =? 0)
                    | None => true
                    end) (p_verdicts c).

Definition spec_ok (c : pcase) : bool :=
  spec_one_worker c && spec_sender_kept c && spec_reply_reaches_caller c && spec_ring_size c.

(* non-trivial: some message met a full or dead worker (skipped, respawned or dropped) *)
Definition premise_ok (c : pcase) : bool :=
  existsb (fun v => negb (snd v =? 1)) (p_verdicts c) ||
  existsb (fun e => match e with ECrash _ | ERemove _ => true | _ => false end) (p_events c).
