(* Pool engine - proofs about Pool/Model.v: the dispatch loop for ALL ring contents, worker states, mailbox
   capacities and spawn outcomes; well-formedness of the ring over ALL histories. *)
From Ergo Require Import Common.Base Pool.Model.
From Coq Require Import Sorting.Permutation.
Local Open Scope Z_scope.

(* classification of a worker that depends only on what the loop never changes while it skips *)
Definition deadW (w : ws_t) (pid : Z) : bool := negb (w_alive (w pid)).
Definition fullW (c : Z) (w : ws_t) (pid : Z) : bool := w_alive (w pid) && full c (w pid).
Definition takeW (c : Z) (w : ws_t) (pid : Z) : bool := w_alive (w pid) && negb (full c (w pid)).
Definition non_taker (c : Z) (w : ws_t) (pid : Z) : bool := fullW c w pid || deadW w pid.
Definition ndead (w : ws_t) (l : list Z) : nat := length (filter (deadW w) l).
Definition alive_of (w : ws_t) (l : list Z) : list Z := filter (fun q => w_alive (w q)) l.
(* the first n Spawn calls fail (a missing oracle entry counts as failure, as in the model) *)
Definition fails (n : nat) (o : list bool) : bool := forallb negb (firstn n o).

Definition with_ring (p : pool) (r : list Z) : pool :=
  mk_pool r (ws p) (next p) (cap p) (forwarded p) (restarts p) (unhandled p).

Lemma skipn_S_tl {A} n (l : list A) : skipn (S n) l = skipn n (List.tl l).
Proof. destruct l; cbn; [destruct n; reflexivity | reflexivity]. Qed.

Lemma Forward_dead c w pid m : deadW w pid = true -> Forward c w pid m = (FDead, w).
Proof. unfold deadW, Forward. intros H. rewrite H. reflexivity. Qed.

Lemma Forward_full c w pid m : fullW c w pid = true -> Forward c w pid m = (FFull, w).
Proof.
  unfold fullW, Forward. intros H. apply andb_true_iff in H as [H1 H2]. rewrite H1, H2. reflexivity.
Qed.

Lemma Forward_take c w pid m : takeW c w pid = true ->
  Forward c w pid m = (FOk, upd w pid (mk_w true (w_box (w pid) ++ [m]))).
Proof.
  unfold takeW, Forward. intros H. apply andb_true_iff in H as [H1 H2]. rewrite H1.
  apply negb_true_iff in H2. rewrite H2. reflexivity.
Qed.

(* the loop skips a prefix of full workers (pushed back in order) and dead workers whose respawn fails (dropped from the
   ring), consuming one unit of fuel and - for the dead ones - one oracle entry each; mailboxes are untouched *)
Lemma loop_skip : forall pre p oracle m fuel post,
  ring p = pre ++ post ->
  forallb (non_taker (cap p) (ws p)) pre = true ->
  fails (ndead (ws p) pre) oracle = true ->
  (length pre <= fuel)%nat ->
  forward_loop fuel p oracle m =
  forward_loop (fuel - length pre) (with_ring p (post ++ alive_of (ws p) pre)) (skipn (ndead (ws p) pre) oracle) m.
Proof.
  induction pre as [|pid pre IH]; intros p oracle m fuel post Hr Hnt Hf Hlen.
  - cbn in *. rewrite Nat.sub_0_r, app_nil_r. subst post. destruct p; reflexivity.
  - destruct fuel as [|f]; [cbn in Hlen; lia|].
    cbn [forallb] in Hnt. apply andb_true_iff in Hnt as [Hpid Hnt].
    cbn [forward_loop]. rewrite Hr. cbn [app].
    unfold non_taker in Hpid. destruct (fullW (cap p) (ws p) pid) eqn:Efull.
    + (* full: pushed back *)
      rewrite (Forward_full _ _ _ _ Efull).
      assert (Halive : w_alive (ws p pid) = true) by (unfold fullW in Efull; apply andb_true_iff in Efull; tauto).
      assert (Hnd : ndead (ws p) (pid :: pre) = ndead (ws p) pre).
      { unfold ndead. cbn [filter]. unfold deadW at 1. rewrite Halive. reflexivity. }
      rewrite Hnd in *.
      rewrite (IH (mk_pool ((pre ++ post) ++ [pid]) (ws p) (next p) (cap p) (forwarded p) (restarts p) (unhandled p))
                  oracle m f (post ++ [pid])); cbn [ring ws cap]; auto.
      * unfold with_ring, alive_of. cbn [ws next cap forwarded restarts unhandled filter length Nat.sub]. rewrite Halive.
        rewrite <- app_assoc. reflexivity.
      * rewrite <- app_assoc. reflexivity.
      * cbn in Hlen. lia.
    + (* dead, respawn fails *)
      cbn [orb] in Hpid. rewrite (Forward_dead _ _ _ _ Hpid).
      assert (Halive : w_alive (ws p pid) = false) by (unfold deadW in Hpid; apply negb_true_iff in Hpid; exact Hpid).
      assert (Hnd : ndead (ws p) (pid :: pre) = S (ndead (ws p) pre)).
      { unfold ndead. cbn [filter]. rewrite Hpid. reflexivity. }
      rewrite Hnd in *. unfold fails in Hf.
      assert (Ho : hd false oracle = false /\ fails (ndead (ws p) pre) (List.tl oracle) = true).
      { destruct oracle as [|[|] o]; cbn in Hf |- *; try discriminate; split; auto.
        unfold fails. destruct (ndead (ws p) pre); reflexivity. }
      destruct Ho as [Ho1 Ho2]. rewrite Ho1.
      rewrite (IH (mk_pool (pre ++ post) (ws p) (next p) (cap p) (forwarded p) (restarts p) (unhandled p))
                  (List.tl oracle) m f post); cbn [ring ws cap]; auto.
      * unfold with_ring, alive_of. cbn [ws next cap forwarded restarts unhandled filter length Nat.sub]. rewrite Halive.
        rewrite skipn_S_tl. reflexivity.
      * cbn in Hlen. lia.
Qed.

Lemma fails_S n o : fails (S n) o = negb (hd false o) && fails n (List.tl o).
Proof. unfold fails. destruct o as [|b o]; cbn; [destruct n; reflexivity | reflexivity]. Qed.

Lemma alive_dead_length w l : (length (alive_of w l) + ndead w l = length l)%nat.
Proof.
  unfold alive_of, ndead, deadW. induction l as [|q l IH]; cbn; [reflexivity|].
  destruct (w_alive (w q)); cbn; lia.
Qed.

(* ---- the three outcomes of a dispatch, completely determined by the ring, the workers and the spawn results ---- *)

(* the first worker in ring order that is alive with room gets the message - the SAME message, appended to its
   mailbox; everybody in front of it was full (kept, in order) or dead with a failed respawn (removed) *)
Theorem dispatch_take : forall p oracle m pre pid post,
  ring p = pre ++ pid :: post ->
  forallb (non_taker (cap p) (ws p)) pre = true ->
  fails (ndead (ws p) pre) oracle = true ->
  takeW (cap p) (ws p) pid = true ->
  forward p oracle m =
    (Delivered pid false,
     mk_pool (post ++ alive_of (ws p) pre ++ [pid]) (upd (ws p) pid (mk_w true (w_box (ws p pid) ++ [m])))
             (next p) (cap p) (forwarded p + 1) (restarts p) (unhandled p),
     skipn (ndead (ws p) pre) oracle).
Proof.
  intros p oracle m pre pid post Hr Hnt Hf Ht. unfold forward.
  rewrite (loop_skip pre p oracle m (length (ring p)) (pid :: post) Hr Hnt Hf) by (rewrite Hr, app_length; lia).
  replace (length (ring p) - length pre)%nat with (S (length post)) by (rewrite Hr, app_length; cbn; lia).
  cbn [forward_loop with_ring ring ws cap app]. rewrite (Forward_take _ _ _ _ Ht).
  cbn [next forwarded restarts unhandled]. rewrite <- app_assoc. reflexivity.
Qed.

(* a dead worker met at dispatch is replaced on the spot (when Spawn succeeds): the replacement is a NEW process whose
   mailbox holds exactly the message; it takes the dead worker's place at the back of the ring *)
Theorem dispatch_respawn : forall p oracle m pre pid post,
  ring p = pre ++ pid :: post ->
  forallb (non_taker (cap p) (ws p)) pre = true ->
  fails (ndead (ws p) pre) oracle = true ->
  deadW (ws p) pid = true ->
  hd false (skipn (ndead (ws p) pre) oracle) = true ->
  forward p oracle m =
    (Delivered (next p) true,
     mk_pool (post ++ alive_of (ws p) pre ++ [next p]) (upd (ws p) (next p) (mk_w true [m]))
             (next p + 1) (cap p) (forwarded p + 1) (restarts p + 1) (unhandled p),
     List.tl (skipn (ndead (ws p) pre) oracle)).
Proof.
  intros p oracle m pre pid post Hr Hnt Hf Hd Ho. unfold forward.
  rewrite (loop_skip pre p oracle m (length (ring p)) (pid :: post) Hr Hnt Hf) by (rewrite Hr, app_length; lia).
  replace (length (ring p) - length pre)%nat with (S (length post)) by (rewrite Hr, app_length; cbn; lia).
  cbn [forward_loop with_ring ring ws cap app]. rewrite (Forward_dead _ _ _ _ Hd), Ho.
  cbn [next forwarded restarts unhandled]. rewrite <- app_assoc. reflexivity.
Qed.

(* the message is dropped when every worker of the ring is full or dead-with-failed-respawn: no mailbox changes, the
   full workers stay in order, the dead ones are gone *)
Theorem dispatch_drop : forall p oracle m,
  forallb (non_taker (cap p) (ws p)) (ring p) = true ->
  fails (ndead (ws p) (ring p)) oracle = true ->
  forward p oracle m =
    (Dropped,
     mk_pool (alive_of (ws p) (ring p)) (ws p) (next p) (cap p) (forwarded p) (restarts p) (unhandled p + 1),
     skipn (ndead (ws p) (ring p)) oracle).
Proof.
  intros p oracle m Hnt Hf. unfold forward.
  rewrite (loop_skip (ring p) p oracle m (length (ring p)) []) by (auto; rewrite app_nil_r; reflexivity).
  rewrite Nat.sub_diag. reflexivity.
Qed.

Lemma trichotomy c w pid : takeW c w pid = true \/ fullW c w pid = true \/ deadW w pid = true.
Proof. unfold takeW, fullW, deadW. destruct (w_alive (w pid)), (full c (w pid)); cbn; auto. Qed.

(* every ring is in exactly one of the three situations *)
Lemma decompose c w : forall l oracle,
  (forallb (non_taker c w) l = true /\ fails (ndead w l) oracle = true) \/
  (exists pre pid post, l = pre ++ pid :: post /\ forallb (non_taker c w) pre = true /\ fails (ndead w pre) oracle = true /\
     (takeW c w pid = true \/ (deadW w pid = true /\ hd false (skipn (ndead w pre) oracle) = true))).
Proof.
  induction l as [|pid l IH]; intros oracle; [left; split; reflexivity|].
  destruct (trichotomy c w pid) as [Ht | [Hfu | Hd]].
  - right. exists [], pid, l. repeat split; auto.
  - assert (Hal : deadW w pid = false).
    { unfold fullW in Hfu. unfold deadW. apply andb_true_iff in Hfu as [-> _]. reflexivity. }
    assert (Hnd : forall x, ndead w (pid :: x) = ndead w x) by (intros; unfold ndead; cbn [filter]; rewrite Hal; reflexivity).
    destruct (IH oracle) as [[H1 H2] | (pre & q & post & E & H1 & H2 & H3)].
    + left. cbn [forallb]. unfold non_taker at 1. rewrite Hfu, Hnd. auto.
    + right. exists (pid :: pre), q, post. subst l. cbn [forallb app]. unfold non_taker at 1. rewrite Hfu, Hnd. auto.
  - assert (Hnd : forall x, ndead w (pid :: x) = S (ndead w x)) by (intros; unfold ndead; cbn [filter]; rewrite Hd; reflexivity).
    destruct (hd false oracle) eqn:Eo.
    + right. exists [], pid, l. repeat split; auto.
    + destruct (IH (List.tl oracle)) as [[H1 H2] | (pre & q & post & E & H1 & H2 & H3)].
      * left. cbn [forallb]. unfold non_taker at 1. rewrite Hd, orb_true_r, Hnd, fails_S, Eo. auto.
      * right. exists (pid :: pre), q, post. subst l. cbn [forallb app]. unfold non_taker at 1.
        rewrite Hd, orb_true_r, Hnd, fails_S, Eo, skipn_S_tl. auto.
Qed.

(* ... hence: the loop never pops an empty ring, and a message is dropped IF AND ONLY IF every worker of the ring is
   full or dead with a failed respawn *)
Theorem drop_iff : forall p oracle m,
  fst (fst (forward p oracle m)) <> Stuck /\
  (fst (fst (forward p oracle m)) = Dropped <->
   forallb (non_taker (cap p) (ws p)) (ring p) = true /\ fails (ndead (ws p) (ring p)) oracle = true).
Proof.
  intros p oracle m.
  destruct (decompose (cap p) (ws p) (ring p) oracle) as [[H1 H2] | (pre & q & post & E & H1 & H2 & [H3 | [H3 H4]])].
  - rewrite (dispatch_drop p oracle m H1 H2). cbn. split; [discriminate | tauto].
  - rewrite (dispatch_take p oracle m pre q post E H1 H2 H3). cbn. split; [discriminate|].
    split; [discriminate|]. intros [Hall _]. rewrite E, forallb_app in Hall. apply andb_true_iff in Hall as [_ Hall].
    cbn [forallb] in Hall. apply andb_true_iff in Hall as [Hq _]. unfold non_taker, fullW, deadW in Hq.
    unfold takeW in H3. destruct (w_alive (ws p q)), (full (cap p) (ws p q)); discriminate.
  - rewrite (dispatch_respawn p oracle m pre q post E H1 H2 H3 H4). cbn. split; [discriminate|].
    split; [discriminate|]. intros [Hall Hf]. exfalso.
    (* q is dead and is the (ndead pre + 1)-th dead worker of the ring: its oracle entry must be a failure *)
    assert (Hnd : ndead (ws p) (ring p) = (ndead (ws p) pre + S (ndead (ws p) post))%nat).
    { rewrite E. unfold ndead. rewrite filter_app, app_length. cbn [filter]. rewrite H3. reflexivity. }
    rewrite Hnd in Hf. clear - Hf H4. revert oracle Hf H4. generalize (ndead (ws p) post) as k.
    induction (ndead (ws p) pre) as [|n IHn]; intros k oracle Hf H4.
    + cbn [skipn Nat.add] in *. rewrite fails_S, H4 in Hf. discriminate.
    + cbn [Nat.add] in Hf. rewrite fails_S in Hf. apply andb_true_iff in Hf as [_ Hf]. rewrite skipn_S_tl in H4.
      eapply IHn; eauto.
Qed.

(* exactly one mailbox: whoever gets the message, every other process is untouched, and the receiver's mailbox grows
   by exactly the original message (sender, reference, type unchanged) *)
Theorem one_worker : forall p oracle m v p' o',
  forward p oracle m = (v, p', o') ->
  match v with
  | Delivered pid false =>
      In pid (ring p) /\ takeW (cap p) (ws p) pid = true /\
      ws p' pid = mk_w true (w_box (ws p pid) ++ [m]) /\ forall q, q <> pid -> ws p' q = ws p q
  | Delivered pid true =>
      pid = next p /\ (exists d, In d (ring p) /\ deadW (ws p) d = true) /\
      ws p' pid = mk_w true [m] /\ forall q, q <> pid -> ws p' q = ws p q
  | Dropped => ws p' = ws p
  | Stuck => False
  end.
Proof.
  intros p oracle m v p' o' H.
  destruct (decompose (cap p) (ws p) (ring p) oracle) as [[H1 H2] | (pre & q & post & E & H1 & H2 & [H3 | [H3 H4]])].
  - rewrite (dispatch_drop p oracle m H1 H2) in H. inversion H; subst. reflexivity.
  - rewrite (dispatch_take p oracle m pre q post E H1 H2 H3) in H. inversion H; subst. cbn [ws].
    split; [rewrite E; apply in_or_app; right; left; reflexivity|]. split; [exact H3|].
    unfold upd. split; [rewrite Z.eqb_refl; reflexivity|]. intros x Hx. apply Z.eqb_neq in Hx. rewrite Hx. reflexivity.
  - rewrite (dispatch_respawn p oracle m pre q post E H1 H2 H3 H4) in H. inversion H; subst. cbn [ws].
    split; [reflexivity|]. split; [exists q; split; [rewrite E; apply in_or_app; right; left; reflexivity | exact H3]|].
    unfold upd. split; [rewrite Z.eqb_refl; reflexivity|]. intros x Hx. apply Z.eqb_neq in Hx. rewrite Hx. reflexivity.
Qed.

(* the ring keeps its size except for the failed respawns: it shrinks by exactly the number of oracle entries consumed
   as failures *)
Theorem ring_length : forall p oracle m v p' o',
  forward p oracle m = (v, p', o') ->
  exists nfail : nat,
    (length (ring p') + nfail = length (ring p))%nat /\
    o' = skipn (nfail + match v with Delivered _ true => 1 | _ => 0 end) oracle /\
    fails nfail oracle = true.
Proof.
  intros p oracle m v p' o' H.
  destruct (decompose (cap p) (ws p) (ring p) oracle) as [[H1 H2] | (pre & q & post & E & H1 & H2 & [H3 | [H3 H4]])].
  - rewrite (dispatch_drop p oracle m H1 H2) in H. inversion H; subst. exists (ndead (ws p) (ring p)). cbn [ring].
    rewrite Nat.add_0_r. split; [apply alive_dead_length | auto].
  - rewrite (dispatch_take p oracle m pre q post E H1 H2 H3) in H. inversion H; subst. exists (ndead (ws p) pre). cbn [ring].
    rewrite Nat.add_0_r. split; [|auto]. rewrite E, !app_length. cbn [length]. pose proof (alive_dead_length (ws p) pre). lia.
  - rewrite (dispatch_respawn p oracle m pre q post E H1 H2 H3 H4) in H. inversion H; subst. exists (ndead (ws p) pre). cbn [ring].
    split; [|split; [|exact H2]].
    + rewrite E, !app_length. cbn [length]. pose proof (alive_dead_length (ws p) pre). lia.
    + rewrite Nat.add_1_r, skipn_S_tl. clear. generalize (ndead (ws p) pre) as n. intros n. revert oracle.
      induction n as [|n IH]; intros oracle; [reflexivity|]. rewrite !skipn_S_tl. apply IH.
Qed.

(* only Normal-priority Regular / Request / Event traffic is forwarded; High and Max priority messages, exit signals and
   inspect requests are handled by the pool process itself *)
Theorem forwarded_iff : forall prio ty,
  0 <= ty <= 4 ->
  (is_forwarded prio ty = true <->
   (prio <> prio_high /\ prio <> prio_max) /\ (ty = ty_regular \/ ty = ty_request \/ ty = ty_event)).
Proof.
  intros prio ty Hty. unfold is_forwarded, queue_of, prio_high, prio_max, ty_regular, ty_request, ty_event, ty_exit, ty_inspect.
  destruct (Z.eqb_spec ty 3), (Z.eqb_spec ty 4), (Z.eqb_spec prio 1), (Z.eqb_spec prio 2); cbn; split; intros H;
    try lia; try discriminate; destruct (Z.ltb_spec ty 3); try lia; try discriminate; reflexivity.
Qed.

(* ---- well-formed pools over ALL histories: the ring has no duplicates and holds only pids already handed out; a
        replacement worker therefore is a process that is neither in the ring nor known before ---- *)
Definition WF (p : pool) : Prop :=
  NoDup (ring p) /\ (forall q, In q (ring p) -> q < next p) /\ (forall q, next p <= q -> ws p q = mk_w false []).

Lemma NoDup_app_comm_Z (a b : list Z) : NoDup (a ++ b) -> NoDup (b ++ a).
Proof. intros H. eapply Permutation_NoDup; [apply Permutation_app_comm | exact H]. Qed.

Lemma alive_of_incl w l q : In q (alive_of w l) -> In q l.
Proof. unfold alive_of. intros H. apply filter_In in H. tauto. Qed.

Lemma NoDup_filter_Z (f : Z -> bool) l : NoDup l -> NoDup (filter f l).
Proof. apply NoDup_filter. Qed.

Lemma WF_ring_rot p pre x post :
  NoDup (pre ++ x :: post) -> forall y, ~ In y (pre ++ x :: post) -> NoDup (post ++ alive_of (ws p) pre ++ [y]).
Proof.
  intros Hnd y Hy.
  assert (H1 : NoDup (y :: post ++ alive_of (ws p) pre)).
  { constructor.
    - intros Hin. apply Hy. apply in_app_or in Hin as [Hin|Hin]; apply in_or_app; [right; right; exact Hin | left; eapply alive_of_incl; exact Hin].
    - apply NoDup_remove_1 in Hnd. apply NoDup_app_comm_Z in Hnd.
      clear - Hnd. induction post as [|a post IH]; cbn in *; [apply NoDup_filter_Z; exact Hnd|].
      inversion Hnd as [|? ? Hni Hnd']; subst. constructor; [|apply IH; exact Hnd'].
      intros Hin. apply Hni. apply in_app_or in Hin as [Hin|Hin]; apply in_or_app; [left; exact Hin | right; eapply alive_of_incl; exact Hin]. }
  rewrite app_assoc. apply NoDup_app_comm_Z. exact H1.
Qed.

Theorem WF_forward : forall p oracle m v p' o', WF p -> forward p oracle m = (v, p', o') -> WF p'.
Proof.
  intros p oracle m v p' o' (Hnd & Hlt & Hfresh) H.
  destruct (decompose (cap p) (ws p) (ring p) oracle) as [[H1 H2] | (pre & q & post & E & H1 & H2 & [H3 | [H3 H4]])].
  - rewrite (dispatch_drop p oracle m H1 H2) in H. inversion H; subst. repeat split; cbn [ring next ws].
    + apply NoDup_filter_Z. exact Hnd.
    + intros x Hx. apply Hlt. eapply alive_of_incl; exact Hx.
    + exact Hfresh.
  - rewrite (dispatch_take p oracle m pre q post E H1 H2 H3) in H. inversion H; subst. repeat split; cbn [ring next ws].
    + rewrite E in Hnd.
      assert (Hq : NoDup (post ++ alive_of (ws p) pre) /\ ~ In q (post ++ alive_of (ws p) pre)).
      { pose proof (NoDup_remove_1 _ _ _ Hnd) as Ha. pose proof (NoDup_remove_2 _ _ _ Hnd) as Hb. split.
        - apply NoDup_app_comm_Z in Ha. clear - Ha. induction post as [|a post IH]; cbn in *; [apply NoDup_filter_Z; exact Ha|].
          inversion Ha as [|? ? Hni Hnd']; subst. constructor; [|apply IH; exact Hnd'].
          intros Hin. apply Hni. apply in_app_or in Hin as [Hin|Hin]; apply in_or_app; [left; exact Hin | right; eapply alive_of_incl; exact Hin].
        - intros Hin. apply Hb. apply in_app_or in Hin as [Hin|Hin]; apply in_or_app; [right; exact Hin | left; eapply alive_of_incl; exact Hin]. }
      destruct Hq as [Ha Hb]. rewrite app_assoc. apply NoDup_app_comm_Z. cbn. constructor; assumption.
    + intros x Hx. apply Hlt. rewrite E. apply in_app_or in Hx as [Hx|Hx]; [apply in_or_app; right; right; exact Hx|].
      apply in_app_or in Hx as [Hx|[<-|[]]]; apply in_or_app; [left; eapply alive_of_incl; exact Hx | right; left; reflexivity].
    + intros x Hx. unfold upd. destruct (Z.eqb_spec x q) as [->|Hne]; [|apply Hfresh; exact Hx].
      exfalso. assert (q < next p) by (apply Hlt; rewrite E; apply in_or_app; right; left; reflexivity). lia.
  - rewrite (dispatch_respawn p oracle m pre q post E H1 H2 H3 H4) in H. inversion H; subst. repeat split; cbn [ring next ws].
    + rewrite E in Hnd. apply WF_ring_rot with (x := q); [exact Hnd|].
      intros Hin. rewrite <- E in Hin. apply Hlt in Hin. lia.
    + intros x Hx. apply in_app_or in Hx as [Hx|Hx].
      * assert (x < next p) by (apply Hlt; rewrite E; apply in_or_app; right; right; exact Hx). lia.
      * apply in_app_or in Hx as [Hx|[<-|[]]]; [|lia].
        assert (x < next p) by (apply Hlt; rewrite E; apply in_or_app; left; eapply alive_of_incl; exact Hx). lia.
    + intros x Hx. unfold upd. destruct (Z.eqb_spec x (next p)); [lia | apply Hfresh; lia].
Qed.

(* hence, in a well-formed pool, the replacement worker is a process that was not in the ring and had no mailbox *)
Corollary respawn_is_new : forall p oracle m pid p' o',
  WF p -> forward p oracle m = (Delivered pid true, p', o') ->
  ~ In pid (ring p) /\ ws p pid = mk_w false [] /\ ws p' pid = mk_w true [m] /\ In pid (ring p').
Proof.
  intros p oracle m pid p' o' (Hnd & Hlt & Hfresh) H. pose proof (one_worker _ _ _ _ _ _ H) as (E & _ & Hbox & _). subst pid.
  split; [intros Hin; apply Hlt in Hin; lia|]. split; [apply Hfresh; lia|]. split; [exact Hbox|].
  destruct (decompose (cap p) (ws p) (ring p) oracle) as [[H1 H2] | (pre & q & post & E & H1 & H2 & [H3 | [H3 H4]])].
  - rewrite (dispatch_drop p oracle m H1 H2) in H. discriminate.
  - rewrite (dispatch_take p oracle m pre q post E H1 H2 H3) in H. discriminate.
  - rewrite (dispatch_respawn p oracle m pre q post E H1 H2 H3 H4) in H. inversion H; subst. cbn [ring].
    apply in_or_app. right. apply in_or_app. right. left. reflexivity.
Qed.

Lemma WF_add : forall oracle p, WF p -> WF (add_workers p oracle).
Proof.
  induction oracle as [|[|] o IH]; intros p HW; cbn [add_workers]; auto.
  apply IH. destruct HW as (Hnd & Hlt & Hfresh). repeat split; cbn [ring next ws].
  - apply NoDup_app_comm_Z. cbn. constructor; [intros Hin; apply Hlt in Hin; lia | exact Hnd].
  - intros x Hx. apply in_app_or in Hx as [Hx|[<-|[]]]; [apply Hlt in Hx|]; lia.
  - intros x Hx. unfold upd. destruct (Z.eqb_spec x (next p)); [lia | apply Hfresh; lia].
Qed.

Lemma WF_remove : forall n p acc, WF p -> WF (fst (remove_workers n p acc)).
Proof.
  induction n as [|n IH]; intros p acc HW; cbn [remove_workers]; [exact HW|].
  destruct (ring p) as [|pid rest] eqn:E; [exact HW|]. apply IH.
  destruct HW as (Hnd & Hlt & Hfresh). rewrite E in *. repeat split; cbn [ring next ws]; auto.
  - inversion Hnd; assumption.
  - intros x Hx. apply Hlt. right. exact Hx.
Qed.

(* over ALL histories of dispatches, AddWorkers, RemoveWorkers, worker crashes and worker progress, starting from
   ProcessInit: the ring never holds a pid twice and a replacement is always a new process *)
Theorem WF_history : forall l size capacity, WF (pl (hrun_from (hinit size capacity 0) l)).
Proof.
  intros l size capacity. unfold hrun_from.
  assert (H0 : WF (pl (hinit size capacity 0))).
  { cbn [hinit pl]. unfold init_pool. apply WF_add. split; [constructor | split; [intros q [] | reflexivity]]. }
  revert H0. generalize (hinit size capacity 0). induction l as [|e l IH]; intros h HW; [exact HW|].
  cbn [fold_left]. apply IH. destruct e as [m o | o | n | pid | pid |]; cbn [hstep].
  - destruct (forward (pl h) o m) as [[v p'] o'] eqn:E. cbn [pl]. eapply WF_forward; eauto.
  - cbn [set_pool pl]. apply WF_add. exact HW.
  - pose proof (WF_remove n (pl h) (removed h) HW) as H. destruct (remove_workers n (pl h) (removed h)) as [p' r]. exact H.
  - destruct (w_alive (ws (pl h) pid)) eqn:Ea; [|exact HW]. destruct HW as (Hnd & Hlt & Hfresh). repeat split; cbn [pl ring next ws]; auto.
    intros x Hx. unfold upd. destruct (Z.eqb_spec x pid) as [->|]; [reflexivity | apply Hfresh; exact Hx].
  - destruct (w_alive (ws (pl h) pid)) eqn:Ea; [|exact HW]. destruct (w_box (ws (pl h) pid)) as [|m tl] eqn:Eb; [exact HW|].
    destruct HW as (Hnd & Hlt & Hfresh). repeat split; cbn [pl ring next ws]; auto.
    intros x Hx. unfold upd. destruct (Z.eqb_spec x pid) as [->|]; [|apply Hfresh; exact Hx].
    rewrite (Hfresh pid Hx) in Ea. discriminate.
  - exact HW.
Qed.
