(* Pool engine - model (definitions only) of act/pool.go dispatch.

   act/pool.go
     func (p *Pool) forward(message *gen.MailboxMessage) {
         l := p.pool.Len()
         for i := int64(0); i < l; i++ {
             v, _ := p.pool.Pop(); pid := v.(gen.PID)
             err = p.Forward(pid, message, gen.MessagePriorityNormal)
             if err == nil { p.pool.Push(v); p.forwarded++; return }                    (* back to pool *)
             if err == gen.ErrProcessUnknown || err == gen.ErrProcessTerminated {
                 pid, err := p.Spawn(p.options.WorkerFactory, wopt, ...)
                 if err != nil { continue }                     (* the dead worker is NOT pushed back *)
                 p.Forward(pid, message, gen.MessagePriorityNormal)
                 p.pool.Push(pid); p.forwarded++; p.restarts++; return }
             p.pool.Push(v) }                                   (* mailbox is full. try next worker *)
         p.unhandled++ }                                        (* no available worker: message ignored *)

   node/process.go
     func (p *process) Forward(to gen.PID, message *gen.MailboxMessage, priority) error {
         value, found := p.node.processes.Load(to);  if found == false { return gen.ErrProcessUnknown }
         if fp.isAlive() == false { return gen.ErrProcessTerminated }
         queue = fp.mailbox.Main                                       (* priority Normal *)
         if ok := queue.Push(message); ok == false { return gen.ErrProcessMailboxFull }   (* the SAME object *)
         fp.run(); return nil }
   lib/mpsc.go queueLimitMPSC.Push:  if q.Len()+1 > q.limit { return false }     (MailboxSize 0 = no limit)

   Pool.ProcessRun: Urgent and System queues first (handled by the pool's own HandleMessage / HandleCall / exit /
   inspect code); a message popped from Main with Type < MailboxMessageTypeExit (Regular, Request, Event) is forwarded.
   AddWorkers(n): n times { Spawn (error: return at once); pool.Push(pid) }.
   RemoveWorkers(n): n times { Pop (empty: ErrPoolEmpty); SendExit(pid, normal) }.

   Worker processes are the environment: they take messages from their mailbox (EWork) and die (ECrash) at any time. *)
From Ergo Require Import Common.Base.
Local Open Scope Z_scope.

(* a mailbox message: the object that is handed over untouched *)
Record msg := mk_msg { m_id : Z; m_from : Z; m_ref : Z; m_ty : Z }.

Definition msg_eqb (a b : msg) : bool :=
  (m_id a =? m_id b) && (m_from a =? m_from b) && (m_ref a =? m_ref b) && (m_ty a =? m_ty b).

Record worker := mk_w { w_alive : bool; w_box : list msg }.

Definition ws_t := Z -> worker.
Definition upd (f : ws_t) (p : Z) (w : worker) : ws_t := fun q => if q =? p then w else f q.

(* queueLimitMPSC.Push refuses when Len()+1 > limit; limit 0 = unlimited queue *)
Definition full (cap : Z) (w : worker) : bool := (0 <? cap) && (cap <? Z.of_nat (length (w_box w)) + 1).

Inductive fwd_err := FOk | FDead | FFull.

(* process.Forward(pid, message, Normal): result and the workers afterwards *)
Definition Forward (cap : Z) (ws : ws_t) (pid : Z) (m : msg) : fwd_err * ws_t :=
  let w := ws pid in
  if negb (w_alive w) then (FDead, ws)
  else if full cap w then (FFull, ws)
  else (FOk, upd ws pid (mk_w true (w_box w ++ [m]))).

Inductive verdict :=
| Delivered (pid : Z) (respawn : bool)    (* handed to exactly this worker (respawn: a replacement spawned on the spot) *)
| Dropped                                 (* "no available worker process. ignored message" *)
| Stuck.                                  (* Pop on an empty ring inside the loop: cannot happen (proved) *)

Record pool := mk_pool {
  ring      : list Z;          (* p.pool: worker pids, front first *)
  ws        : ws_t;            (* every process: alive flag and Main queue *)
  next      : Z;               (* next pid handed out by Spawn *)
  cap       : Z;               (* WorkerMailboxSize *)
  forwarded : Z; restarts : Z; unhandled : Z }.

(* the loop of forward: [fuel] = l = p.pool.Len() at entry; [oracle] = results of the Spawn calls, in order
   (true = spawned); returns the verdict, the pool and the unused oracle *)
Fixpoint forward_loop (fuel : nat) (p : pool) (oracle : list bool) (m : msg) : verdict * pool * list bool :=
  match fuel with
  | O => (Dropped, mk_pool (ring p) (ws p) (next p) (cap p) (forwarded p) (restarts p) (unhandled p + 1), oracle)
  | S f =>
    match ring p with
    | [] => (Stuck, p, oracle)
    | pid :: rest =>
      match Forward (cap p) (ws p) pid m with
      | (FOk, ws') =>
          (Delivered pid false, mk_pool (rest ++ [pid]) ws' (next p) (cap p) (forwarded p + 1) (restarts p) (unhandled p), oracle)
      | (FDead, _) =>
          (* the next Spawn result: [hd false oracle] (a missing entry counts as failure) *)
          if hd false oracle
          then
              let np := next p in
              (* the fresh worker has an empty mailbox: its Forward succeeds (its error is not even looked at) *)
              (Delivered np true,
               mk_pool (rest ++ [np]) (upd (ws p) np (mk_w true [m])) (np + 1) (cap p) (forwarded p + 1) (restarts p + 1) (unhandled p),
               List.tl oracle)
          else (* Spawn failed: continue; the dead pid is gone from the ring *)
              forward_loop f (mk_pool rest (ws p) (next p) (cap p) (forwarded p) (restarts p) (unhandled p)) (List.tl oracle) m
      | (FFull, _) =>
          forward_loop f (mk_pool (rest ++ [pid]) (ws p) (next p) (cap p) (forwarded p) (restarts p) (unhandled p)) oracle m
      end
    end
  end.

Definition forward (p : pool) (oracle : list bool) (m : msg) : verdict * pool * list bool :=
  forward_loop (length (ring p)) p oracle m.

(* ---- which mailbox traffic of the pool process is forwarded at all ----
   Route*: priority High -> System queue, Max -> Urgent, otherwise Main; exit signals and inspect requests -> Urgent.
   ProcessRun forwards only what it pops from Main with Type < Exit. *)
Definition prio_normal : Z := 0.  Definition prio_high : Z := 1.  Definition prio_max : Z := 2.
Definition ty_regular : Z := 0. Definition ty_request : Z := 1. Definition ty_event : Z := 2.
Definition ty_exit : Z := 3.    Definition ty_inspect : Z := 4.

Definition queue_of (prio ty : Z) : Z :=       (* 0 Urgent, 1 System, 2 Main *)
  if (ty =? ty_exit) || (ty =? ty_inspect) then 0
  else if prio =? prio_high then 1 else if prio =? prio_max then 0 else 2.

Definition is_forwarded (prio ty : Z) : bool := (queue_of prio ty =? 2) && (ty <? ty_exit).

(* ---- the pool process and its environment as a history machine ---- *)
Inductive event :=
| EMsg (m : msg) (oracle : list bool)     (* a forwardable message is popped from Main and dispatched *)
| EAdd (oracle : list bool)               (* AddWorkers(length oracle) *)
| ERemove (n : nat)                       (* RemoveWorkers(n) *)
| ECrash (pid : Z)                        (* a worker terminates (for whatever reason): its queued messages are lost *)
| EWork (pid : Z)                         (* a live worker takes the oldest message of its mailbox *)
| ELen.                                   (* observation point (p.pool.Len() is read): no effect *)

Record hstate := mk_h {
  pl       : pool;
  verdicts : list (msg * verdict);        (* newest first *)
  handled  : list (Z * msg);              (* (worker, message), newest first *)
  lost     : list (Z * msg);              (* queued at a worker that died afterwards *)
  removed  : list Z }.

Fixpoint add_workers (p : pool) (oracle : list bool) : pool :=
  match oracle with
  | [] => p
  | true :: tl =>
      let np := next p in
      add_workers (mk_pool (ring p ++ [np]) (upd (ws p) np (mk_w true [])) (np + 1) (cap p) (forwarded p) (restarts p) (unhandled p)) tl
  | false :: _ => p                        (* Spawn error: return 0, err *)
  end.

Fixpoint remove_workers (n : nat) (p : pool) (acc : list Z) : pool * list Z :=
  match n with
  | O => (p, acc)
  | S n' =>
    match ring p with
    | [] => (p, acc)                       (* ErrPoolEmpty *)
    | pid :: rest =>
        (* SendExit(pid, normal): the exit signal is taken before anything in Main: the worker is gone for the pool *)
        remove_workers n' (mk_pool rest (ws p) (next p) (cap p) (forwarded p) (restarts p) (unhandled p)) (pid :: acc)
    end
  end.

Definition set_pool (h : hstate) (p : pool) : hstate := mk_h p (verdicts h) (handled h) (lost h) (removed h).

Definition hstep (h : hstate) (e : event) : hstate :=
  match e with
  | EMsg m oracle =>
      let '(v, p', _) := forward (pl h) oracle m in
      mk_h p' ((m, v) :: verdicts h) (handled h) (lost h) (removed h)
  | EAdd oracle => set_pool h (add_workers (pl h) oracle)
  | ERemove n => let '(p', r) := remove_workers n (pl h) (removed h) in mk_h p' (verdicts h) (handled h) (lost h) r
  | ECrash pid =>
      let w := ws (pl h) pid in
      if w_alive w
      then mk_h (mk_pool (ring (pl h)) (upd (ws (pl h)) pid (mk_w false [])) (next (pl h)) (cap (pl h))
                         (forwarded (pl h)) (restarts (pl h)) (unhandled (pl h)))
                (verdicts h) (handled h) (map (fun m => (pid, m)) (w_box w) ++ lost h) (removed h)
      else h
  | EWork pid =>
      let w := ws (pl h) pid in
      match w_alive w, w_box w with
      | true, m :: tl =>
          mk_h (mk_pool (ring (pl h)) (upd (ws (pl h)) pid (mk_w true tl)) (next (pl h)) (cap (pl h))
                        (forwarded (pl h)) (restarts (pl h)) (unhandled (pl h)))
               (verdicts h) ((pid, m) :: handled h) (lost h) (removed h)
      | _, _ => h
      end
  | ELen => h
  end.

Definition dead_ws : ws_t := fun _ => mk_w false [].

(* ProcessInit: PoolSize workers spawned in a row (a failing spawn fails the Init: not modelled) *)
Definition init_pool (size : nat) (capacity first_pid : Z) : pool :=
  add_workers (mk_pool [] dead_ws first_pid capacity 0 0 0) (repeat true size).

Definition hrun_from (h : hstate) (l : list event) : hstate := fold_left hstep l h.
Definition hinit (size : nat) (capacity first_pid : Z) : hstate := mk_h (init_pool size capacity first_pid) [] [] [] [].

(* ---- classification of the ring used by the statements ---- *)
Definition can_take (p : pool) (pid : Z) : bool := w_alive (ws p pid) && negb (full (cap p) (ws p pid)).
Definition is_dead (p : pool) (pid : Z) : bool := negb (w_alive (ws p pid)).
Definition is_full (p : pool) (pid : Z) : bool := w_alive (ws p pid) && full (cap p) (ws p pid).
