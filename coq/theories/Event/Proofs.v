(* Proofs about the Event model (C18).  All statements are for any number of actors, any
   programs and any schedule unless they say "sequential". *)
From Ergo Require Import Common.Base Event.Model.

(* ------------------------------------------------------------------------------------------ *)
(* generic list facts                                                                         *)

Lemma filter_app_single {A} (f : A -> bool) l x : filter f (l ++ [x]) = filter f l ++ (if f x then [x] else []).
Proof. rewrite filter_app. cbn. destruct (f x); reflexivity. Qed.

Lemma nth_error_set_thr_same l i t t0 : nth_error l i = Some t0 -> nth_error (set_thr l i t) i = Some t.
Proof. revert i; induction l as [|x l IH]; intros [|i] H; cbn in *; try discriminate; auto. Qed.

Lemma nth_error_set_thr_other l i j t : i <> j -> nth_error (set_thr l i t) j = nth_error l j.
Proof. revert i j; induction l as [|x l IH]; intros [|i] [|j] H; cbn; auto; try congruence. Qed.

(* ------------------------------------------------------------------------------------------ *)
(* 1. Every push is accounted for by a snapshot: the fan equation                             *)

Definition tagged (i : nat) (nf : list (item * list nat)) := map (fun f => (i, f)) nf.
Definition plain (nl : list entry) := map (fun e => (e_to e, e_it e)) nl.

(* what one step of actor i does to the log and to the ghost list of snapshots *)
Definition accounted (i : nat) (s s' : shared) (p p' : pc) : Prop :=
  exists nl nf, log s' = log s ++ nl /\ fans s' = fans s ++ tagged i nf /\
    Forall (fun e => e_by e = i) nl /\ plain nl ++ pend i p' = pend i p ++ flat_fans nf.

Ltac acc_solve :=
  first
    [ exists [], []; cbn; rewrite ?app_nil_r; repeat split; auto; fail
    | eexists [_], []; cbn; rewrite ?app_nil_r; repeat split; auto; fail
    | eexists [], [_]; cbn; rewrite ?app_nil_r; repeat split; auto; fail
    | eexists [], [_; _]; cbn; rewrite ?app_nil_r; repeat split; auto; fail ].

Lemma sub_copy_log s r s' p : sub_copy s r = (s', p) -> log s' = log s /\ fans s' = fans s /\ exists got, p = S_counter r got.
Proof.
  unfold sub_copy. destruct (get_rec s r); intros H; inversion H; subst; cbn; eauto.
Qed.

Lemma step_pc_accounted i s p s' p' : step_pc i s p = Some (s', p') -> accounted i s s' p p'.
Proof.
  unfold accounted. destruct p; cbn [step_pc]; intros H; try discriminate.
  - (* P_crit *) destruct (locked s r); [discriminate|]. inversion H; subst; clear H.
    eexists [], [_]. cbn. rewrite ?app_nil_r. repeat split; auto.
  - (* P_send *) destruct to as [|x to]; inversion H; subst; clear H.
    + acc_solve.
    + eexists [_], []. cbn. rewrite ?app_nil_r. repeat split; auto.
  - destruct (table s); inversion H; subst; acc_solve.
  - destruct (locked s r); [discriminate|]. destruct (has_rel (rels s) i k); inversion H; subst; acc_solve.
  - destruct (table s).
    + inversion H as [H1]. destruct (sub_copy_log _ _ _ _ H1) as (Hl & Hf & got & ->).
      exists [], []. cbn. rewrite ?app_nil_r, Hl, Hf. auto.
    + inversion H; subst; acc_solve.
  - destruct (has_rel (rels s) i k).
    + inversion H; subst; acc_solve.
    + inversion H as [H1]. destruct (sub_copy_log _ _ _ _ H1) as (Hl & Hf & got' & ->).
      exists [], []. cbn. rewrite ?app_nil_r, Hl, Hf. auto.
  - destruct (get_rec s r) as [x|]; [|inversion H; subst; acc_solve].
    destruct (r_notify x && (r_cnt x + 1 <=? 1)%Z); inversion H; subst; acc_solve.
  - inversion H; subst. eexists [_], []. cbn. rewrite ?app_nil_r. repeat split; auto.
  - destruct (table s); inversion H; subst; acc_solve.
  - destruct (has_rel (rels s) i k); inversion H; subst; acc_solve.
  - destruct (get_rec s r) as [x|]; [|inversion H; subst; acc_solve].
    destruct (r_notify x && (r_cnt x - 1 <=? 0)%Z); inversion H; subst; acc_solve.
  - inversion H; subst. eexists [_], []. cbn. rewrite ?app_nil_r. repeat split; auto.
  - inversion H; subst; acc_solve.
  - inversion H; subst. eexists [], [_; _]. cbn. rewrite ?app_nil_r, <- ?app_assoc. repeat split; auto.
  - destruct exits as [|x ex]; [destruct downs as [|x dn]|].
    + destruct die; inversion H; subst; acc_solve.
    + inversion H; subst. eexists [_], []. cbn. rewrite ?app_nil_r. repeat split; auto.
    + inversion H; subst. eexists [_], []. cbn. rewrite ?app_nil_r. repeat split; auto.
  - inversion H; subst; acc_solve.
  - destruct ks as [|k ks]; [inversion H; subst; acc_solve|].
    destruct (table s); inversion H; subst; acc_solve.
  - destruct (get_rec s r) as [x|]; [|inversion H; subst; acc_solve].
    destruct (r_notify x && (r_cnt x - 1 <=? 0)%Z); inversion H; subst; acc_solve.
  - inversion H; subst. eexists [_], []. cbn. rewrite ?app_nil_r. repeat split; auto.
  - destruct (table s) as [r|]; [|inversion H; subst; acc_solve].
    destruct (get_rec s r) as [x|]; [|inversion H; subst; acc_solve].
    destruct (Nat.eqb (r_owner x) i); inversion H; subst; acc_solve.
Qed.

Lemma start_op_accounted i s o s' p' : start_op i s o = (s', p') -> accounted i s s' Idle p'.
Proof.
  unfold accounted. destruct o; cbn [start_op]; intros H.
  - destruct (table s); inversion H; subst; acc_solve.
  - destruct (table s) as [r|]; [|inversion H; subst; acc_solve].
    destruct (get_rec s r) as [x|]; [|inversion H; subst; acc_solve].
    destruct (Nat.eqb (r_token x) tok); inversion H; subst; acc_solve.
  - destruct (has_rel (rels s) i k); inversion H; subst; acc_solve.
  - destruct (has_rel (rels s) i k); inversion H; subst; acc_solve.
  - destruct (table s) as [r|]; [|inversion H; subst; acc_solve].
    destruct (get_rec s r) as [x|]; [|inversion H; subst; acc_solve].
    destruct (Nat.eqb (r_owner x) i); inversion H; subst; acc_solve.
  - inversion H; subst; acc_solve.
Qed.

Lemma sends_of_app i l1 l2 : sends_of i (l1 ++ l2) = sends_of i l1 ++ sends_of i l2.
Proof. unfold sends_of. rewrite filter_app, map_app. reflexivity. Qed.
Lemma fans_of_app i l1 l2 : fans_of i (l1 ++ l2) = fans_of i l1 ++ fans_of i l2.
Proof. unfold fans_of. rewrite filter_app, map_app. reflexivity. Qed.
Lemma flat_fans_app l1 l2 : flat_fans (l1 ++ l2) = flat_fans l1 ++ flat_fans l2.
Proof. unfold flat_fans. apply flat_map_app. Qed.

Lemma sends_of_own i nl : Forall (fun e => e_by e = i) nl -> sends_of i nl = plain nl.
Proof.
  induction 1 as [|e nl He _ IH]; [reflexivity|].
  unfold sends_of, plain in *. cbn. rewrite He, Nat.eqb_refl. cbn. f_equal. exact IH.
Qed.
Lemma sends_of_other i j nl : i <> j -> Forall (fun e => e_by e = i) nl -> sends_of j nl = [].
Proof.
  intros Hij. induction 1 as [|e nl He _ IH]; [reflexivity|].
  unfold sends_of in *. cbn. rewrite He. destruct (Nat.eqb_spec i j); [contradiction|]. exact IH.
Qed.
Lemma fans_of_own i nf : fans_of i (tagged i nf) = nf.
Proof.
  induction nf as [|f nf IH]; [reflexivity|]. unfold fans_of, tagged in *. cbn. rewrite Nat.eqb_refl. cbn. f_equal. exact IH.
Qed.
Lemma fans_of_other i j nf : i <> j -> fans_of j (tagged i nf) = [].
Proof.
  intros Hij. induction nf as [|f nf IH]; [reflexivity|]. unfold fans_of, tagged in *. cbn.
  destruct (Nat.eqb_spec i j); [contradiction|]. exact IH.
Qed.

(* the invariant: for every actor, what it has pushed plus what its current operation still has
   to push is exactly the flattening of the snapshots it has taken, in order *)
Definition FanInv (c : cfg) : Prop :=
  forall i t, nth_error (thr c) i = Some t ->
    sends_of i (log (sh c)) ++ pend i (t_pc t) = flat_fans (fans_of i (fans (sh c))).

Lemma accounted_preserves c i t s' p' todo' :
  FanInv c -> nth_error (thr c) i = Some t -> accounted i (sh c) s' (t_pc t) p' ->
  FanInv (mk_cfg s' (set_thr (thr c) i (mk_thr p' todo'))).
Proof.
  intros HI Ht (nl & nf & Hl & Hf & Hby & Heq) j tj Hj. cbn [sh thr] in *.
  rewrite Hl, Hf, sends_of_app, fans_of_app, flat_fans_app.
  destruct (Nat.eq_dec i j) as [<-|Hij].
  - rewrite (nth_error_set_thr_same _ _ _ _ Ht) in Hj. inversion Hj; subst tj. cbn [t_pc].
    rewrite (sends_of_own i nl Hby). rewrite fans_of_own.
    rewrite <- (HI i t Ht), <- !app_assoc. f_equal. exact Heq.
  - rewrite nth_error_set_thr_other in Hj by exact Hij.
    rewrite (sends_of_other i j nl Hij Hby). rewrite (fans_of_other i j nf Hij).
    cbn [flat_fans flat_map]. rewrite !app_nil_r. apply HI. exact Hj.
Qed.

Lemma step_FanInv c i c' : FanInv c -> step c i = Some c' -> FanInv c'.
Proof.
  intros HI. unfold step. destruct (nth_error (thr c) i) as [t|] eqn:Ht; [|discriminate].
  destruct (t_pc t) eqn:Hpc.
  1: { destruct (t_todo t) as [|o rest]; [discriminate|].
       destruct (start_op i (sh c) o) as [s' p'] eqn:Hs. intros H; inversion H; subst.
       eapply accounted_preserves; eauto. rewrite Hpc. eapply start_op_accounted; eauto. }
  all: destruct (step_pc i (sh c) _) as [[s' p']|] eqn:Hs;
       try discriminate; intros H; inversion H; subst;
       (eapply accounted_preserves; eauto; rewrite Hpc; eapply step_pc_accounted; eauto).
Qed.

Lemma run_invariant (P : cfg -> Prop) :
  (forall c i c', P c -> step c i = Some c' -> P c') -> forall sched c, P c -> P (run sched c).
Proof.
  intros Hstep sched. induction sched as [|i tl IH]; intros c Hc; cbn [run]; [exact Hc|].
  destruct (step c i) eqn:Hs; [apply IH; eapply Hstep; eauto | apply IH; exact Hc].
Qed.

Lemma FanInv_init progs : FanInv (init_cfg progs).
Proof.
  intros i t Ht. unfold init_cfg in Ht. cbn in Ht. rewrite nth_error_map in Ht.
  destruct (nth_error progs i); inversion Ht; subst. reflexivity.
Qed.

Theorem FanInv_reachable progs sched : FanInv (run sched (init_cfg progs)).
Proof. apply run_invariant; [intros; eapply step_FanInv; eauto | apply FanInv_init]. Qed.

(* ------------------------------------------------------------------------------------------ *)
(* 2. Snapshots have no duplicate receivers; the relation set has no duplicate relation        *)

Definition WF (s : shared) : Prop :=
  NoDup (rels s) /\ Forall (fun f => NoDup (snd (snd f))) (fans s).

Lemma kind_eqb_refl k : kind_eqb k k = true. Proof. destruct k; reflexivity. Qed.
Lemma kind_eqb_eq a b : kind_eqb a b = true -> a = b. Proof. destruct a, b; cbn; congruence. Qed.
Lemma rel_eqb_eq a b : rel_eqb a b = true -> a = b.
Proof.
  destruct a as [x k], b as [y k']. unfold rel_eqb. cbn. intros H. apply andb_true_iff in H as [H1 H2].
  apply Nat.eqb_eq in H1. apply kind_eqb_eq in H2. congruence.
Qed.
Lemma has_rel_false l x k : has_rel l x k = false -> ~ In (x, k) l.
Proof.
  unfold has_rel. intros H Hin. rewrite <- not_true_iff_false in H. apply H. apply existsb_exists.
  exists (x, k). split; [exact Hin|]. unfold rel_eqb. cbn. rewrite Nat.eqb_refl, kind_eqb_refl. reflexivity.
Qed.
Lemma has_rel_true l x k : has_rel l x k = true -> In (x, k) l.
Proof.
  unfold has_rel. intros H. apply existsb_exists in H as (e & Hin & He). apply rel_eqb_eq in He. subst. exact Hin.
Qed.

Lemma NoDup_snoc {A} (l : list A) x : NoDup l -> ~ In x l -> NoDup (l ++ [x]).
Proof.
  induction l as [|y l IH]; intros Hl Hx; cbn.
  - constructor; [intros []|constructor].
  - inversion Hl; subst. constructor.
    + rewrite in_app_iff. intros [H|[H|[]]]; [contradiction|]. subst. apply Hx. left. reflexivity.
    + apply IH; [assumption|]. intros H. apply Hx. right. exact H.
Qed.

Lemma NoDup_rels_of_kind l k : NoDup l -> NoDup (rels_of_kind l k).
Proof.
  unfold rels_of_kind. induction l as [|[x k'] l IH]; intros H; cbn; [constructor|].
  inversion H; subst. destruct (kind_eqb k' k) eqn:Hk; cbn; [|apply IH; assumption].
  constructor; [|apply IH; assumption].
  intros Hin. apply in_map_iff in Hin as ([y k''] & Hy & Hin). cbn in Hy. subst y.
  apply filter_In in Hin as [Hin Hk2]. cbn in Hk2. apply kind_eqb_eq in Hk, Hk2. subst. contradiction.
Qed.

Lemma WF_add_fan s i it l : WF s -> NoDup l -> WF (add_fan s i it l).
Proof.
  intros [H1 H2] Hl. split; cbn; [exact H1|]. apply Forall_app. split; [exact H2|]. constructor; [exact Hl|constructor].
Qed.
Lemma NoDup_single {A} (x : A) : NoDup [x].
Proof. constructor; [intros []|constructor]. Qed.

Ltac wf_same := match goal with HW : WF _ |- _ => destruct HW as [HW1 HW2]; split; cbn; assumption end.

Lemma sub_copy_WF s r s' p : sub_copy s r = (s', p) -> WF s -> WF s'.
Proof. unfold sub_copy. destruct (get_rec s r); intros H HW; inversion H; subst; wf_same. Qed.

Lemma step_pc_WF i s p s' p' : step_pc i s p = Some (s', p') -> WF s -> WF s'.
Proof.
  destruct p; cbn [step_pc]; intros H HW; try discriminate.
  - destruct (locked s r); [discriminate|]. inversion H; subst.
    apply WF_add_fan; [wf_same | apply NoDup_nodup].
  - destruct to; inversion H; subst; wf_same.
  - destruct (table s); inversion H; subst; wf_same.
  - destruct (locked s r); [discriminate|]. destruct (has_rel (rels s) i k) eqn:Hr; inversion H; subst; [wf_same|].
    destruct HW as [HW1 HW2]. split; cbn; [|assumption]. apply NoDup_snoc; [assumption|apply has_rel_false; assumption].
  - destruct (table s); [inversion H as [H1]; eapply sub_copy_WF; eauto | inversion H; subst; wf_same].
  - destruct (has_rel (rels s) i k); [|inversion H as [H1]; eapply sub_copy_WF; eauto].
    inversion H; subst. destruct HW as [HW1 HW2]. split; cbn; [|assumption]. apply NoDup_filter. assumption.
  - destruct (get_rec s r) as [x|]; [|inversion H; subst; wf_same].
    destruct (r_notify x && (r_cnt x + 1 <=? 1)%Z); inversion H; subst; [|wf_same].
    apply WF_add_fan; [wf_same | apply NoDup_single].
  - inversion H; subst; wf_same.
  - destruct (table s); inversion H; subst; wf_same.
  - destruct (has_rel (rels s) i k); inversion H; subst; [|wf_same].
    destruct HW as [HW1 HW2]. split; cbn; [|assumption]. apply NoDup_filter. assumption.
  - destruct (get_rec s r) as [x|]; [|inversion H; subst; wf_same].
    destruct (r_notify x && (r_cnt x - 1 <=? 0)%Z); inversion H; subst; [|wf_same].
    apply WF_add_fan; [wf_same | apply NoDup_single].
  - inversion H; subst; wf_same.
  - inversion H; subst; wf_same.
  - inversion H; subst. destruct HW as [HW1 HW2].
    apply WF_add_fan; [apply WF_add_fan|]; try (apply NoDup_rels_of_kind; assumption).
    split; cbn; [constructor|assumption].
  - destruct exits; [destruct downs; [destruct die|]|]; inversion H; subst; wf_same.
  - inversion H; subst. destruct HW as [HW1 HW2]. split; cbn; [|assumption]. apply NoDup_filter. assumption.
  - destruct ks; [inversion H; subst; wf_same|]. destruct (table s); inversion H; subst; wf_same.
  - destruct (get_rec s r) as [x|]; [|inversion H; subst; wf_same].
    destruct (r_notify x && (r_cnt x - 1 <=? 0)%Z); inversion H; subst; [|wf_same].
    apply WF_add_fan; [wf_same | apply NoDup_single].
  - inversion H; subst; wf_same.
  - destruct (table s) as [r|]; [|inversion H; subst; wf_same].
    destruct (get_rec s r) as [x|]; [|inversion H; subst; wf_same].
    destruct (Nat.eqb (r_owner x) i); inversion H; subst; wf_same.
Qed.

Lemma start_op_WF i s o s' p' : start_op i s o = (s', p') -> WF s -> WF s'.
Proof.
  destruct o; cbn [start_op]; intros H HW.
  - destruct (table s); inversion H; subst; wf_same.
  - destruct (table s) as [r|]; [|inversion H; subst; wf_same].
    destruct (get_rec s r) as [x|]; [|inversion H; subst; wf_same].
    destruct (Nat.eqb (r_token x) tok); inversion H; subst; wf_same.
  - destruct (has_rel (rels s) i k); inversion H; subst; wf_same.
  - destruct (has_rel (rels s) i k); inversion H; subst; wf_same.
  - destruct (table s) as [r|]; [|inversion H; subst; wf_same].
    destruct (get_rec s r) as [x|]; [|inversion H; subst; wf_same].
    destruct (Nat.eqb (r_owner x) i); inversion H; subst; wf_same.
  - inversion H; subst; wf_same.
Qed.

(* a predicate on the shared state kept by every start_op / step_pc is kept by every schedule *)
Lemma shared_invariant (P : shared -> Prop) :
  (forall i s o s' p', start_op i s o = (s', p') -> P s -> P s') ->
  (forall i s p s' p', step_pc i s p = Some (s', p') -> P s -> P s') ->
  forall c i c', P (sh c) -> step c i = Some c' -> P (sh c').
Proof.
  intros H1 H2 c i c' HP. unfold step. destruct (nth_error (thr c) i) as [t|]; [|discriminate].
  destruct (t_pc t) eqn:Hpc.
  1: { destruct (t_todo t) as [|o rest]; [discriminate|].
       destruct (start_op i (sh c) o) as [s' p'] eqn:Hs. intros H; inversion H; subst. cbn. eapply H1; eauto. }
  all: destruct (step_pc i (sh c) _) as [[s' p']|] eqn:Hs; try discriminate; intros H; inversion H; subst; cbn; eapply H2; eauto.
Qed.

Theorem WF_reachable progs sched : WF (sh (run sched (init_cfg progs))).
Proof.
  apply (run_invariant (fun c => WF (sh c))).
  - intros c i c'. apply shared_invariant; [intros; eapply start_op_WF; eauto | intros; eapply step_pc_WF; eauto].
  - split; cbn; constructor.
Qed.

(* ------------------------------------------------------------------------------------------ *)
(* 3. Per receiver: exactly once and in the publisher's order                                  *)

(* items pushed by actor i into the mailbox of x, in push order *)
Definition recv (x i : nat) (l : list entry) : list item :=
  map snd (filter (fun e => Nat.eqb (fst e) x) (sends_of i l)).
Definition pend_to (x i : nat) (p : pc) : list item :=
  map snd (filter (fun e => Nat.eqb (fst e) x) (pend i p)).
(* the snapshots of actor i that contain x, in the order they were taken *)
Definition expected (x : nat) (fs : list (item * list nat)) : list item :=
  flat_map (fun f => if mem x (snd f) then [fst f] else []) fs.

Lemma mem_false_notin x l : mem x l = false -> ~ In x l.
Proof.
  unfold mem. intros H Hin. rewrite <- not_true_iff_false in H. apply H. apply existsb_exists.
  exists x. split; [exact Hin | apply Nat.eqb_refl].
Qed.
Lemma mem_true_in x l : mem x l = true -> In x l.
Proof. unfold mem. intros H. apply existsb_exists in H as (y & Hin & Hy). apply Nat.eqb_eq in Hy. subst. exact Hin. Qed.
Lemma notin_mem_false x l : ~ In x l -> mem x l = false.
Proof. intros H. destruct (mem x l) eqn:E; [|reflexivity]. apply mem_true_in in E. contradiction. Qed.

Lemma one_fan x (it : item) l : NoDup l ->
  map snd (filter (fun e : nat * item => Nat.eqb (fst e) x) (map (fun y => (y, it)) l)) = if mem x l then [it] else [].
Proof.
  induction l as [|y l IH]; intros H; [reflexivity|]. inversion H; subst. cbn.
  rewrite (Nat.eqb_sym x y). destruct (Nat.eqb_spec y x) as [->|Hn]; cbn.
  - rewrite IH by assumption. rewrite notin_mem_false by assumption. reflexivity.
  - apply IH. assumption.
Qed.

Lemma flat_fans_to x fs : Forall (fun f => NoDup (snd f)) fs ->
  map snd (filter (fun e : nat * item => Nat.eqb (fst e) x) (flat_fans fs)) = expected x fs.
Proof.
  induction 1 as [|f fs Hf _ IH]; [reflexivity|].
  unfold flat_fans, expected in *. cbn. rewrite filter_app, map_app, IH. f_equal. apply one_fan. exact Hf.
Qed.

Lemma fans_of_nodup i l : Forall (fun f : nat * (item * list nat) => NoDup (snd (snd f))) l ->
  Forall (fun f => NoDup (snd f)) (fans_of i l).
Proof.
  unfold fans_of. induction 1 as [|f l Hf _ IH]; cbn; [constructor|].
  destruct (Nat.eqb (fst f) i); cbn; [constructor; assumption | assumption].
Qed.

(* C18, live stream.  For every schedule, every publisher / unregistering / notifying actor i and every
   receiver x: what i has pushed to x, followed by what its current operation still has to push to x,
   is exactly the list of i's snapshots that contain x, in snapshot order: each once, none else. *)
Theorem exactly_once_in_order progs sched :
  let c := run sched (init_cfg progs) in
  forall i t x, nth_error (thr c) i = Some t ->
    recv x i (log (sh c)) ++ pend_to x i (t_pc t) = expected x (fans_of i (fans (sh c))).
Proof.
  intros c i t x Ht. subst c. unfold recv, pend_to. rewrite <- map_app, <- filter_app.
  rewrite (FanInv_reachable progs sched i t Ht).
  apply flat_fans_to. apply fans_of_nodup. apply (WF_reachable progs sched).
Qed.

(* the snapshot of a publication is taken in ONE step together with the buffer push and lists every
   actor that holds a relation (link or monitor) at that moment, once *)
Lemma publish_snapshot i s r seq s' p' :
  step_pc i s (P_crit r seq) = Some (s', p') ->
  fans s' = fans s ++ [(i, (IEv i seq, consumers s))] /\ p' = P_send seq (consumers s) /\
  NoDup (consumers s) /\ forall x, In x (consumers s) <-> exists k, In (x, k) (rels s).
Proof.
  cbn [step_pc]. destruct (locked s r); [discriminate|]. intros H; inversion H; subst. cbn.
  repeat split; try apply NoDup_nodup.
  - intros Hx. apply nodup_In, in_map_iff in Hx as ([y k] & Hy & Hin). cbn in Hy. subst. eauto.
  - intros [k Hin]. apply nodup_In, in_map_iff. exists (x, k). auto.
Qed.

Lemma in_rels_of_kind l k x : In x (rels_of_kind l k) <-> In (x, k) l.
Proof.
  unfold rels_of_kind. rewrite in_map_iff. split.
  - intros ([y k'] & Hy & Hin). cbn in Hy. subst. apply filter_In in Hin as [Hin Hk]. cbn in Hk.
    apply kind_eqb_eq in Hk. subst. exact Hin.
  - intros Hin. exists (x, k). split; [reflexivity|]. apply filter_In. split; [exact Hin | apply kind_eqb_refl].
Qed.

(* unregister / owner termination: CleanupTarget takes every relation in one step; exits go to
   exactly the link subscribers, downs to exactly the monitor subscribers, and no relation is left
   (so no second notification for the same subscription can follow) *)
Lemma cleanup_snapshot i s reason die s' p' :
  step_pc i s (X_cleanup reason die) = Some (s', p') ->
  fans s' = fans s ++ [(i, (IExit reason, rels_of_kind (rels s) KLink)); (i, (IDown reason, rels_of_kind (rels s) KMon))] /\
  rels s' = [] /\ p' = X_send reason (rels_of_kind (rels s) KLink) (rels_of_kind (rels s) KMon) die.
Proof.
  cbn [step_pc]. intros H; inversion H; subst. cbn. rewrite <- app_assoc. auto.
Qed.

(* ------------------------------------------------------------------------------------------ *)
(* 4. The last-N buffer                                                                        *)

Lemma skipn_tl {A} k (l : list A) : tl (skipn k l) = skipn (S k) l.
Proof. revert l; induction k as [|k IH]; intros [|x l]; cbn; auto. apply IH. Qed.

Lemma buf_push_lastn cap all m : buf_push cap (lastn cap all) m = lastn cap (all ++ [m]).
Proof.
  unfold buf_push, lastn. rewrite app_length. cbn [length].
  destruct (Nat.eqb_spec cap 0) as [->|Hc].
  - rewrite !Nat.sub_0_r, !skipn_all2; auto. rewrite app_length; cbn; lia.
  - rewrite skipn_length. destruct (Nat.ltb_spec cap (length all - (length all - cap) + 1)) as [Hlt|Hge].
    + rewrite skipn_tl. rewrite skipn_app.
      replace (S (length all - cap)) with (length all + 1 - cap) by lia.
      replace (length all + 1 - cap - length all) with 0 by lia. reflexivity.
    + replace (length all - cap) with 0 by lia. replace (length all + 1 - cap) with 0 by lia. reflexivity.
Qed.

Definition BufInv (s : shared) : Prop := Forall (fun x => r_buf x = lastn (r_cap x) (r_all x)) (recs s).

Lemma Forall_upd_nth {A} (P : A -> Prop) l r f : Forall P l -> (forall x, P x -> P (f x)) -> Forall P (upd_nth l r f).
Proof.
  intros Hl Hf. revert r. induction Hl as [|x l Hx Hl IH]; intros [|r]; cbn; try constructor; auto.
Qed.

Lemma BufInv_upd s r f : BufInv s -> (forall x, r_buf x = lastn (r_cap x) (r_all x) -> r_buf (f x) = lastn (r_cap (f x)) (r_all (f x))) ->
  BufInv (upd_rec s r f).
Proof. intros H Hf. unfold BufInv, upd_rec. cbn. apply Forall_upd_nth; assumption. Qed.

Lemma BufInv_cnt s r d : BufInv s -> BufInv (upd_rec s r (rec_cnt d)).
Proof. intros H. apply BufInv_upd; [exact H | intros x Hx; exact Hx]. Qed.
Lemma BufInv_lock s r b : BufInv s -> BufInv (upd_rec s r (rec_lock b)).
Proof. intros H. apply BufInv_upd; [exact H | intros x Hx; exact Hx]. Qed.
Lemma BufInv_push s r m : BufInv s -> BufInv (upd_rec s r (rec_push m)).
Proof. intros H. apply BufInv_upd; [exact H | intros x Hx; cbn; rewrite Hx; apply buf_push_lastn]. Qed.

Ltac buf_same := match goal with HB : BufInv _ |- _ => exact HB end.

Lemma sub_copy_BufInv s r s' p : sub_copy s r = (s', p) -> BufInv s -> BufInv s'.
Proof. unfold sub_copy. destruct (get_rec s r); intros H HB; inversion H; subst; [apply BufInv_lock|]; buf_same. Qed.

Lemma step_pc_BufInv i s p s' p' : step_pc i s p = Some (s', p') -> BufInv s -> BufInv s'.
Proof.
  destruct p; cbn [step_pc]; intros H HB; try discriminate.
  - destruct (locked s r); [discriminate|]. inversion H; subst. apply (BufInv_push s r (i, seq) HB).
  - destruct to; inversion H; subst; buf_same.
  - destruct (table s); inversion H; subst; buf_same.
  - destruct (locked s r); [discriminate|]. destruct (has_rel (rels s) i k); inversion H; subst; [buf_same|].
    apply (BufInv_lock (set_rels s (rels s ++ [(i, k)])) r true HB).
  - destruct (table s); [inversion H as [H1]; eapply sub_copy_BufInv; eauto | inversion H; subst; buf_same].
  - destruct (has_rel (rels s) i k); [|inversion H as [H1]; eapply sub_copy_BufInv; eauto].
    inversion H; subst. apply (BufInv_lock (set_rels s (del_rel (rels s) i k)) r false HB).
  - destruct (get_rec s r) as [x|]; [|inversion H; subst; buf_same].
    destruct (r_notify x && (r_cnt x + 1 <=? 1)%Z); inversion H; subst; apply (BufInv_cnt s r 1 HB).
  - inversion H; subst; buf_same.
  - destruct (table s); inversion H; subst; buf_same.
  - destruct (has_rel (rels s) i k); inversion H; subst; buf_same.
  - destruct (get_rec s r) as [x|]; [|inversion H; subst; buf_same].
    destruct (r_notify x && (r_cnt x - 1 <=? 0)%Z); inversion H; subst; apply (BufInv_cnt s r (-1) HB).
  - inversion H; subst; buf_same.
  - inversion H; subst; buf_same.
  - inversion H; subst; buf_same.
  - destruct exits; [destruct downs; [destruct die|]|]; inversion H; subst; buf_same.
  - inversion H; subst; buf_same.
  - destruct ks; [inversion H; subst; buf_same|]. destruct (table s); inversion H; subst; buf_same.
  - destruct (get_rec s r) as [x|]; [|inversion H; subst; buf_same].
    destruct (r_notify x && (r_cnt x - 1 <=? 0)%Z); inversion H; subst; apply (BufInv_cnt s r (-1) HB).
  - inversion H; subst; buf_same.
  - destruct (table s) as [r|]; [|inversion H; subst; buf_same].
    destruct (get_rec s r) as [x|]; [|inversion H; subst; buf_same].
    destruct (Nat.eqb (r_owner x) i); inversion H; subst; buf_same.
Qed.

Lemma start_op_BufInv i s o s' p' : start_op i s o = (s', p') -> BufInv s -> BufInv s'.
Proof.
  destruct o; cbn [start_op]; intros H HB.
  - destruct (table s); inversion H; subst; [buf_same|].
    unfold BufInv. cbn. apply Forall_app. split; [exact HB|]. constructor; [reflexivity|constructor].
  - destruct (table s) as [r|]; [|inversion H; subst; buf_same].
    destruct (get_rec s r) as [x|]; [|inversion H; subst; buf_same].
    destruct (Nat.eqb (r_token x) tok); inversion H; subst; buf_same.
  - destruct (has_rel (rels s) i k); inversion H; subst; buf_same.
  - destruct (has_rel (rels s) i k); inversion H; subst; buf_same.
  - destruct (table s) as [r|]; [|inversion H; subst; buf_same].
    destruct (get_rec s r) as [x|]; [|inversion H; subst; buf_same].
    destruct (Nat.eqb (r_owner x) i); inversion H; subst; buf_same.
  - inversion H; subst; buf_same.
Qed.

Lemma lastn_length {A} n (l : list A) : length (lastn n l) = Nat.min n (length l).
Proof. unfold lastn. rewrite skipn_length. lia. Qed.

(* C18, last N.  For every schedule: the buffer of every event record is the last min(N,k) of the k
   publications accepted under that record, oldest first ... *)
Theorem lastN_buffer progs sched :
  let c := run sched (init_cfg progs) in
  forall r x, get_rec (sh c) r = Some x ->
    r_buf x = lastn (r_cap x) (r_all x) /\ length (r_buf x) = Nat.min (r_cap x) (length (r_all x)).
Proof.
  intros c r x Hx. subst c.
  assert (HB : BufInv (sh (run sched (init_cfg progs)))).
  { apply (run_invariant (fun c => BufInv (sh c))).
    - intros c0 i c'. apply shared_invariant; [intros; eapply start_op_BufInv; eauto | intros; eapply step_pc_BufInv; eauto].
    - constructor. }
  unfold BufInv in HB. rewrite Forall_forall in HB. specialize (HB x (nth_error_In _ _ Hx)).
  split; [exact HB | rewrite HB; apply lastn_length].
Qed.

(* ... and a subscriber is handed exactly that buffer: the copy is made in the step that completes the
   lock-protected [relation insert; re-check; copy] section *)
Lemma subscribe_returns_buffer s r x : get_rec s r = Some x ->
  snd (sub_copy s r) = S_counter r (r_buf x).
Proof. unfold sub_copy. intros ->. reflexivity. Qed.

(* ------------------------------------------------------------------------------------------ *)
(* 5. Tokens                                                                                   *)

Ltac crunch H :=
  repeat match type of H with
         | context [match ?x with _ => _ end] => destruct x eqn:?
         end; try discriminate.

Lemma map_token_upd l r f : (forall x, r_token (f x) = r_token x) -> map r_token (upd_nth l r f) = map r_token l.
Proof. intros Hf. revert r; induction l as [|x l IH]; intros [|r]; cbn; auto; f_equal; auto. Qed.

Lemma step_pc_tokens i s p s' p' : step_pc i s p = Some (s', p') ->
  ntok s' = ntok s /\ map r_token (recs s') = map r_token (recs s).
Proof.
  destruct p; cbn [step_pc]; unfold sub_copy, finish; intros H; crunch H; inversion H; subst; cbn;
    rewrite ?map_token_upd by (intros; reflexivity); auto.
Qed.

Definition TokInv (s : shared) : Prop :=
  Forall (fun t => 1 <= t <= ntok s) (map r_token (recs s)) /\ NoDup (map r_token (recs s)).

Lemma start_op_TokInv i s o s' p' : start_op i s o = (s', p') -> TokInv s -> TokInv s'.
Proof.
  intros H [H1 H2]. destruct o; cbn [start_op] in H; unfold finish in H; crunch H; inversion H; subst; cbn; try (split; assumption).
  - split; cbn; [|exact H2]. eapply Forall_impl; [|exact H1]. cbn. intros; lia.
  - unfold TokInv. cbn. rewrite map_app. cbn. split.
    + apply Forall_app. split; [eapply Forall_impl; [|exact H1]; cbn; intros; lia | constructor; [lia|constructor]].
    + apply NoDup_snoc; [exact H2|]. intros Hin. rewrite Forall_forall in H1. specialize (H1 _ Hin). lia.
Qed.

(* C18, token.  For every schedule: tokens of event records are never the empty reference (0) and
   no two records (current or earlier registrations) share a token ... *)
Theorem tokens_fresh progs sched :
  let s := sh (run sched (init_cfg progs)) in
  NoDup (map r_token (recs s)) /\ forall x, In x (recs s) -> 1 <= r_token x.
Proof.
  intros s. subst s.
  assert (HT : TokInv (sh (run sched (init_cfg progs)))).
  { apply (run_invariant (fun c => TokInv (sh c))).
    - intros c0 i c'. apply shared_invariant; [intros; eapply start_op_TokInv; eauto|].
      intros j s p s' p' Hs [H1 H2]. destruct (step_pc_tokens _ _ _ _ _ Hs) as [E1 E2]. unfold TokInv. rewrite E1, E2. auto.
    - split; constructor. }
  destruct HT as [H1 H2]. split; [exact H2|]. intros x Hx. rewrite Forall_forall in H1.
  specialize (H1 (r_token x) (in_map r_token _ _ Hx)). lia.
Qed.

(* ... a SendEvent whose token differs from the token of the registered record (or with no record)
   changes nothing but its own return value, an error: no buffer push, no snapshot, no delivery ... *)
Theorem publish_wrong_token c i tok seq rest :
  nth_error (thr c) i = Some (mk_thr Idle (OPublish tok seq :: rest)) ->
  (forall r x, table (sh c) = Some r -> get_rec (sh c) r = Some x -> r_token x <> tok) ->
  exists e, step c i = Some (mk_cfg (add_res (sh c) i (RErr e)) (set_thr (thr c) i (mk_thr Idle rest))).
Proof.
  intros Ht Hneq. unfold step. rewrite Ht. cbn [t_pc t_todo start_op].
  destruct (table (sh c)) as [r|] eqn:Htab; [|eexists; reflexivity].
  destruct (get_rec (sh c) r) as [x|] eqn:Hr; [|eexists; reflexivity].
  destruct (Nat.eqb_spec (r_token x) tok) as [E|_]; [exfalso; eapply Hneq; eauto | eexists; reflexivity].
Qed.

(* ... and the publishing section is entered only with the token of the record found in the table *)
Lemma publish_accepted i s tok seq s' r seq' :
  start_op i s (OPublish tok seq) = (s', P_crit r seq') ->
  s' = s /\ seq' = seq /\ table s = Some r /\ exists x, get_rec s r = Some x /\ r_token x = tok.
Proof.
  cbn [start_op]. unfold finish. intros H. crunch H; inversion H; subst.
  repeat split; auto. eexists; split; [eassumption|]. apply Nat.eqb_eq. assumption.
Qed.

(* ------------------------------------------------------------------------------------------ *)
(* 6. Sequential histories: the consumer counter is the number of subscriptions, start / stop    *)

Definition SeqInv (s : sst) : Prop :=
  NoDup (q_subs s) /\
  match q_reg s with
  | Some g => g_cnt g = Z.of_nat (length (q_subs s))
  | None => q_subs s = []
  end.

Lemma deliver_frame s x it : q_reg (deliver s x it) = q_reg s /\ q_subs (deliver s x it) = q_subs s /\ q_dead (deliver s x it) = q_dead s.
Proof. unfold deliver. destruct (mem x (q_dead s)); cbn; auto. Qed.
Lemma deliver_all_frame l s it : q_reg (deliver_all s l it) = q_reg s /\ q_subs (deliver_all s l it) = q_subs s /\ q_dead (deliver_all s l it) = q_dead s.
Proof.
  unfold deliver_all. revert s; induction l as [|x l IH]; intros s; cbn; auto.
  destruct (IH (deliver s x it)) as (A & B & C). destruct (deliver_frame s x it) as (A' & B' & C'). rewrite A, B, C. auto.
Qed.

Lemma SeqInv_frame s s' : q_reg s' = q_reg s -> q_subs s' = q_subs s -> SeqInv s -> SeqInv s'.
Proof. unfold SeqInv. intros -> ->. auto. Qed.

Lemma filter_all_id {A} (f : A -> bool) l : (forall x, In x l -> f x = true) -> filter f l = l.
Proof.
  induction l as [|x l IH]; intros H; cbn; [reflexivity|]. rewrite (H x (or_introl eq_refl)). f_equal.
  apply IH. intros y Hy. apply H. right. exact Hy.
Qed.

Lemma del_rel_length l x k : NoDup l -> In (x, k) l -> S (length (del_rel l x k)) = length l.
Proof.
  unfold del_rel. induction l as [|e l IH]; intros Hnd Hin; [destruct Hin|]. inversion Hnd; subst. cbn.
  destruct (rel_eqb (x, k) e) eqn:E; cbn.
  - apply rel_eqb_eq in E. subst e. f_equal.
    assert (Hf : filter (fun e => negb (rel_eqb (x, k) e)) l = l); [|rewrite Hf; reflexivity].
    apply filter_all_id. intros e He. destruct (rel_eqb (x, k) e) eqn:E2; [|reflexivity].
    apply rel_eqb_eq in E2. subst. contradiction.
  - f_equal. apply IH; [assumption|]. destruct Hin as [->|Hin]; [|exact Hin].
    unfold rel_eqb in E. cbn in E. rewrite Nat.eqb_refl, kind_eqb_refl in E. discriminate.
Qed.

Lemma seq_dec_inv s : NoDup (q_subs s) ->
  (match q_reg s with Some g => g_cnt g = Z.of_nat (S (length (q_subs s))) | None => q_subs s = [] end) ->
  SeqInv (seq_dec s).
Proof.
  intros Hnd H. unfold seq_dec. destruct (q_reg s) as [g|] eqn:Hg.
  - assert (SeqInv (q_set_reg s (Some (g_add (-1) g)))) as HI by (split; cbn; [exact Hnd | lia]).
    destruct (g_notify g && (g_cnt g - 1 <=? 0)%Z); [|exact HI].
    destruct (deliver_frame (q_set_reg s (Some (g_add (-1) g))) (g_owner g) IStop) as (A & B & _).
    eapply SeqInv_frame; eauto.
  - split; [exact Hnd|]. rewrite Hg. exact H.
Qed.

Lemma seq_terminate_event_inv s reason : SeqInv (seq_terminate_event s reason).
Proof.
  unfold seq_terminate_event.
  match goal with |- SeqInv (deliver_all (deliver_all ?s0 ?l1 ?i1) ?l2 ?i2) =>
    destruct (deliver_all_frame l2 (deliver_all s0 l1 i1) i2) as (A & B & _);
    destruct (deliver_all_frame l1 s0 i1) as (A' & B' & _) end.
  eapply SeqInv_frame; [rewrite A, A'; reflexivity | rewrite B, B'; reflexivity|]. split; cbn; [constructor|reflexivity].
Qed.

Lemma filter_partition_length {A} (f : A -> bool) l : length (filter f l) + length (filter (fun x => negb (f x)) l) = length l.
Proof. induction l as [|x l IH]; cbn; [reflexivity|]. destruct (f x); cbn; lia. Qed.

(* the decrements of a terminating consumer, one per relation it held *)
Lemma gone_loop_inv n s : NoDup (q_subs s) ->
  (match q_reg s with Some g => g_cnt g = Z.of_nat (n + length (q_subs s)) | None => q_subs s = [] end) ->
  forall ks : list kind, length ks = n -> SeqInv (fold_left (fun s _ => seq_dec s) ks s).
Proof.
  revert s. induction n as [|n IH]; intros s Hnd H ks Hl.
  - destruct ks; [|discriminate]. cbn. split; [exact Hnd|]. destruct (q_reg s); cbn in H; auto.
  - destruct ks as [|k ks]; [discriminate|]. cbn [fold_left]. injection Hl as Hl.
    assert (Hd : q_subs (seq_dec s) = q_subs s).
    { unfold seq_dec. destruct (q_reg s) as [g|]; [|reflexivity].
      destruct (g_notify g && (g_cnt g - 1 <=? 0)%Z); [|reflexivity].
      destruct (deliver_frame (q_set_reg s (Some (g_add (-1) g))) (g_owner g) IStop) as (_ & B & _). exact B. }
    apply IH; [rewrite Hd; exact Hnd | | exact Hl]. rewrite Hd.
    unfold seq_dec. destruct (q_reg s) as [g|] eqn:Hg; [|rewrite Hg; exact H].
    assert (E : q_reg (if g_notify g && (g_cnt g - 1 <=? 0)%Z then deliver (q_set_reg s (Some (g_add (-1) g))) (g_owner g) IStop
                       else q_set_reg s (Some (g_add (-1) g))) = Some (g_add (-1) g)).
    { destruct (g_notify g && (g_cnt g - 1 <=? 0)%Z); [|reflexivity].
      destruct (deliver_frame (q_set_reg s (Some (g_add (-1) g))) (g_owner g) IStop) as (A & _). exact A. }
    rewrite E. cbn. lia.
Qed.

Lemma seq_op_inv s io : SeqInv s -> SeqInv (seq_op s io).
Proof.
  intros [Hnd Hc]. destruct io as [i o]. unfold seq_op. destruct (mem i (q_dead s)); [split; assumption|].
  destruct o.
  - destruct (q_reg s) eqn:Hg; split; cbn; auto; try (rewrite Hg; exact Hc). rewrite Hc. reflexivity.
  - destruct (q_reg s) as [g|] eqn:Hg; [|split; cbn; [exact Hnd | rewrite Hg; exact Hc]].
    destruct (Nat.eqb (g_token g) tok); [|split; cbn; [exact Hnd | rewrite Hg; exact Hc]].
    match goal with |- SeqInv (q_ret (deliver_all ?s0 ?l ?it) _ _) => destruct (deliver_all_frame l s0 it) as (A & B & _) end.
    split; cbn; rewrite ?A, ?B; cbn; auto.
  - destruct (has_rel (q_subs s) i k) eqn:Hr; [split; cbn; auto|].
    destruct (q_reg s) as [g|] eqn:Hg; [|split; cbn; [exact Hnd | rewrite Hg; exact Hc]].
    assert (HI : SeqInv (q_set_reg (q_set_subs s (q_subs s ++ [(i, k)])) (Some (g_add 1 g)))).
    { split; cbn; [apply NoDup_snoc; [exact Hnd | apply has_rel_false; exact Hr] | rewrite app_length; cbn; lia]. }
    destruct (g_notify g && (g_cnt g + 1 <=? 1)%Z).
    + match goal with |- SeqInv (q_ret (deliver ?s0 ?x ?it) _ _) => destruct (deliver_frame s0 x it) as (A & B & _) end.
      destruct HI as [I1 I2]. split; cbn; rewrite ?A, ?B; auto.
    + exact HI.
  - destruct (has_rel (q_subs s) i k) eqn:Hr; [|split; cbn; auto].
    destruct (q_reg s) as [g|] eqn:Hg; [|split; cbn; [exact Hnd | rewrite Hg; exact Hc]].
    assert (HI : SeqInv (seq_dec (q_set_subs s (del_rel (q_subs s) i k)))).
    { apply seq_dec_inv; cbn; [apply NoDup_filter; exact Hnd|]. rewrite Hg.
      rewrite (del_rel_length _ _ _ Hnd (has_rel_true _ _ _ Hr)). exact Hc. }
    exact HI.
  - destruct (q_reg s) as [g|] eqn:Hg; [|split; cbn; [exact Hnd | rewrite Hg; exact Hc]].
    destruct (Nat.eqb (g_owner g) i); [|split; cbn; [exact Hnd | rewrite Hg; exact Hc]].
    destruct (seq_terminate_event_inv s 0) as [T1 T2]. split; cbn; assumption.
  - set (s1 := mk_sst (q_reg s) (del_actor (q_subs s) i) (q_ntok s) (i :: q_dead s) (q_out s) (q_res s)).
    assert (HI : SeqInv (fold_left (fun s _ => seq_dec s) (rels_of_actor (q_subs s) i) s1)).
    { apply (gone_loop_inv (length (rels_of_actor (q_subs s) i))); cbn; [apply NoDup_filter; exact Hnd | | reflexivity].
      destruct (q_reg s) as [g|]; [|rewrite Hc; reflexivity]. rewrite Hc. f_equal.
      unfold rels_of_actor, del_actor. rewrite map_length. symmetry. apply filter_partition_length. }
    destruct (q_reg (fold_left (fun s _ => seq_dec s) (rels_of_actor (q_subs s) i) s1)) as [g|]; [|exact HI].
    destruct (Nat.eqb (g_owner g) i); [apply seq_terminate_event_inv | exact HI].
Qed.

Theorem SeqInv_hist h : SeqInv (seq_hist h).
Proof.
  unfold seq_hist. assert (H0 : SeqInv sst0) by (split; cbn; [constructor|reflexivity]).
  revert H0. generalize sst0. induction h as [|io h IH]; intros s Hs; cbn; [exact Hs|]. apply IH. apply seq_op_inv. exact Hs.
Qed.

(* C18, start / stop (sequential histories).  After any history the counter equals the number of
   subscriptions; therefore a subscribe tells the producer exactly when it is the first subscription
   and an unsubscribe exactly when it was the last one. *)
Theorem start_notify h i k g :
  let s := seq_hist h in
  mem i (q_dead s) = false -> has_rel (q_subs s) i k = false -> q_reg s = Some g ->
  q_out (seq_op s (i, OSub k)) =
  q_out s ++ (if g_notify g && Nat.eqb (length (q_subs s)) 0 && negb (mem (g_owner g) (q_dead s)) then [(g_owner g, IStart)] else []).
Proof.
  intros s Hd Hr Hg. destruct (SeqInv_hist h) as [_ Hc]. fold s in Hc. rewrite Hg in Hc.
  unfold seq_op. rewrite Hd, Hr, Hg. cbn [q_out q_ret].
  replace (g_cnt g + 1 <=? 1)%Z with (Nat.eqb (length (q_subs s)) 0)
    by (destruct (Nat.eqb_spec (length (q_subs s)) 0); lia).
  destruct (g_notify g && Nat.eqb (length (q_subs s)) 0); cbn; [|rewrite app_nil_r; reflexivity].
  unfold deliver. cbn -[mem]. destruct (mem (g_owner g) (q_dead s)); cbn; rewrite ?app_nil_r; reflexivity.
Qed.

Theorem stop_notify h i k g :
  let s := seq_hist h in
  mem i (q_dead s) = false -> has_rel (q_subs s) i k = true -> q_reg s = Some g ->
  q_out (seq_op s (i, OUnsub k)) =
  q_out s ++ (if g_notify g && Nat.eqb (length (q_subs s)) 1 && negb (mem (g_owner g) (q_dead s)) then [(g_owner g, IStop)] else []).
Proof.
  intros s Hd Hr Hg. destruct (SeqInv_hist h) as [_ Hc]. fold s in Hc. rewrite Hg in Hc.
  unfold seq_op. rewrite Hd, Hr, Hg. cbn [q_out q_ret]. unfold seq_dec. cbn [q_reg q_set_subs].
  rewrite Hg.
  assert (Hpos : 1 <= length (q_subs s)).
  { apply has_rel_true in Hr. destruct (q_subs s); [destruct Hr | cbn; lia]. }
  replace (g_cnt g - 1 <=? 0)%Z with (Nat.eqb (length (q_subs s)) 1)
    by (destruct (Nat.eqb_spec (length (q_subs s)) 1); lia).
  destruct (g_notify g && Nat.eqb (length (q_subs s)) 1); cbn; [|rewrite app_nil_r; reflexivity].
  unfold deliver. cbn -[mem]. destruct (mem (g_owner g) (q_dead s)); cbn; rewrite ?app_nil_r; reflexivity.
Qed.

Theorem start_stop_sequential h i k g :
  let s := seq_hist h in
  mem i (q_dead s) = false -> q_reg s = Some g ->
  (has_rel (q_subs s) i k = false ->
   q_out (seq_op s (i, OSub k)) =
   q_out s ++ (if g_notify g && Nat.eqb (length (q_subs s)) 0 && negb (mem (g_owner g) (q_dead s)) then [(g_owner g, IStart)] else [])) /\
  (has_rel (q_subs s) i k = true ->
   q_out (seq_op s (i, OUnsub k)) =
   q_out s ++ (if g_notify g && Nat.eqb (length (q_subs s)) 1 && negb (mem (g_owner g) (q_dead s)) then [(g_owner g, IStop)] else [])).
Proof. intros s Hd Hg. split; intros Hr; [apply start_notify | apply stop_notify]; assumption. Qed.

(* ------------------------------------------------------------------------------------------ *)
(* 7. What does NOT hold under concurrency (witness schedules), and non-vacuity                 *)

(* the counter lives in the record a subscriber loaded BEFORE its relation insert.  If the event is
   unregistered and registered again in between, the subscription is counted on the old record (its
   producer is told "start"), and the later unsubscribe on the new record: the new producer is told
   "stop" (counter -1 <= 0) although it was never told "start". *)
Definition stale_progs : list (list op) :=
  [[ORegister 0 true; OUnregister]; [OSub KLink; OUnsub KLink]; [ORegister 0 true]].
Definition stale_sched : list nat := [0; 1; 1; 0; 0; 0; 0; 2; 1; 1; 1; 1; 1; 1; 1; 1; 1].
Theorem start_stop_concurrent_refuted :
  exists progs sched, let c := run sched (init_cfg progs) in
    quiescent c = true /\ inbox is_sys 2 (log (sh c)) = [IStop] /\ inbox is_sys 0 (log (sh c)) = [IStart].
Proof. exists stale_progs, stale_sched. cbv zeta. repeat split; vm_compute; reflexivity. Qed.

(* the counter update and the push of the notification are two steps: a "stop" computed before a
   "start" can be pushed after it, so the producer's last information is "no subscriber" while one exists *)
Definition reorder_progs : list (list op) :=
  [[ORegister 0 true]; [OSub KLink; OUnsub KLink]; [OSub KMon]].
Definition reorder_sched : list nat := [0; 1; 1; 1; 1; 1; 1; 1; 1; 1; 1; 2; 2; 2; 2; 2; 2; 1; 1].
Theorem start_stop_order_refuted :
  exists progs sched, let c := run sched (init_cfg progs) in
    quiescent c = true /\ rels (sh c) <> [] /\ inbox is_sys 0 (log (sh c)) = [IStart; IStart; IStop].
Proof.
  exists reorder_progs, reorder_sched. cbv zeta. repeat split; try (vm_compute; reflexivity).
  vm_compute. discriminate.
Qed.

(* non-vacuity: two publishers, a link+monitor subscriber and a late subscriber, buffer 2, interleaved *)
Definition ex_progs : list (list op) :=
  [[ORegister 2 true; OPublish 1 10; OPublish 1 11; OUnregister];
   [OSub KLink; OSub KMon; OPublish 1 20];
   [OPublish 0 30; OSub KMon]].
Definition ex_sched : list nat := [0; 1; 1; 1; 1; 1; 1; 0; 0; 0; 0; 1; 1; 1; 1; 1; 2; 0; 0; 0; 0; 2; 2; 2; 2; 2; 1; 1; 1; 1; 1; 0; 0; 0; 0; 0; 0; 0].
Example ex_nontrivial :
  let c := run ex_sched (init_cfg ex_progs) in
  quiescent c = true /\
  recv 1 0 (log (sh c)) = [IEv 0 10; IEv 0 11; IExit 0; IDown 0] /\
  results_of 2 (results (sh c)) = [RErr 3; RList [(0, 10); (0, 11)]] /\
  recv 2 1 (log (sh c)) = [IEv 1 20].
Proof. vm_compute. repeat split; reflexivity. Qed.
