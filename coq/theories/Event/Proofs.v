(* Proofs about the Event model (C18).  All statements are for any number of actors, any
   programs and any schedule unless they say "sequential". *)
From Ergo Require Import Common.Base Event.Model.

(* ------------------------------------------------------------------------------------------ *)
(* generic list facts                                                                         *)

Lemma filter_app_single {A} (f : A -> bool) l x : filter f (l ++ [x]) = filter f l ++ (if f x then [x] else []).
Proof. rewrite filter_app. cbn. destruct (f x); reflexivity. Qed.

Lemma nth_error_set_thr_same l i t t0 : nth_error l i = Some t0 -> nth_error (set_thr l i t) i = Some t.
Proof. revert i; induction l as [|x l IH]; intros [|i] H; cbn in *; try discriminate; auto. Qed.

Lemma nth_error_set_thr_other l i j t : i <> j -> nth_error (set_thr l i t) j = nth_error l j.
Proof. revert i j; induction l as [|x l IH]; intros [|i] [|j] H; cbn; auto; try congruence. Qed.

(* ------------------------------------------------------------------------------------------ *)
(* 1. Every push is accounted for by a snapshot: the fan equation                             *)

Definition tagged (i : nat) (nf : list (item * list nat)) := map (fun f => (i, f)) nf.
Definition plain (nl : list entry) := map (fun e => (e_to e, e_it e)) nl.

(* what one step of actor i does to the log and to the ghost list of snapshots *)
Definition accounted (i : nat) (s s' : shared) (p p' : pc) : Prop :=
  exists nl nf, log s' = log s ++ nl /\ fans s' = fans s ++ tagged i nf /\
    Forall (fun e => e_by e = i) nl /\ plain nl ++ pend i p' = pend i p ++ flat_fans nf.

Ltac acc_solve :=
  first
    [ exists [], []; cbn; rewrite ?app_nil_r; repeat split; auto; fail
    | eexists [_], []; cbn; rewrite ?app_nil_r; repeat split; auto; fail
    | eexists [], [_]; cbn; rewrite ?app_nil_r; repeat split; auto; fail
    | eexists [], [_; _]; cbn; rewrite ?app_nil_r; repeat split; auto; fail ].

Lemma sub_copy_log s r s' p : sub_copy s r = (s', p) -> log s' = log s /\ fans s' = fans s /\ exists got, p = S_counter r got.
Proof.
  unfold sub_copy. destruct (get_rec s r); intros H; inversion H; subst; cbn; eauto.
Qed.

Lemma step_pc_accounted i s p s' p' : step_pc i s p = Some (s', p') -> accounted i s s' p p'.
Proof.
  unfold accounted. destruct p; cbn [step_pc]; intros H; try discriminate.
  - (* P_crit *) destruct (locked s r); [discriminate|]. inversion H; subst; clear H.
    eexists [], [_]. cbn. rewrite ?app_nil_r. repeat split; auto.
  - (* P_send *) destruct to as [|x to]; inversion H; subst; clear H.
    + acc_solve.
    + eexists [_], []. cbn. rewrite ?app_nil_r. repeat split; auto.
  - destruct (table s); inversion H; subst; acc_solve.
  - destruct (locked s r); [discriminate|]. destruct (has_rel (rels s) i k); inversion H; subst; acc_solve.
  - destruct (table s).
    + inversion H as [H1]. destruct (sub_copy_log _ _ _ _ H1) as (Hl & Hf & got & ->).
      exists [], []. cbn. rewrite ?app_nil_r, Hl, Hf. auto.
    + inversion H; subst; acc_solve.
  - destruct (has_rel (rels s) i k).
    + inversion H; subst; acc_solve.
    + inversion H as [H1]. destruct (sub_copy_log _ _ _ _ H1) as (Hl & Hf & got' & ->).
      exists [], []. cbn. rewrite ?app_nil_r, Hl, Hf. auto.
  - destruct (get_rec s r) as [x|]; [|inversion H; subst; acc_solve].
    destruct (r_notify x && (r_cnt x + 1 <=? 1)%Z); inversion H; subst; acc_solve.
  - inversion H; subst. eexists [_], []. cbn. rewrite ?app_nil_r. repeat split; auto.
  - destruct (table s); inversion H; subst; acc_solve.
  - destruct (has_rel (rels s) i k); inversion H; subst; acc_solve.
  - destruct (get_rec s r) as [x|]; [|inversion H; subst; acc_solve].
    destruct (r_notify x && (r_cnt x - 1 <=? 0)%Z); inversion H; subst; acc_solve.
  - inversion H; subst. eexists [_], []. cbn. rewrite ?app_nil_r. repeat split; auto.
  - inversion H; subst; acc_solve.
  - inversion H; subst. eexists [], [_; _]. cbn. rewrite ?app_nil_r, <- ?app_assoc. repeat split; auto.
  - destruct exits as [|x ex]; [destruct downs as [|x dn]|].
    + destruct die; inversion H; subst; acc_solve.
    + inversion H; subst. eexists [_], []. cbn. rewrite ?app_nil_r. repeat split; auto.
    + inversion H; subst. eexists [_], []. cbn. rewrite ?app_nil_r. repeat split; auto.
  - inversion H; subst; acc_solve.
  - destruct ks as [|k ks]; [inversion H; subst; acc_solve|].
    destruct (table s); inversion H; subst; acc_solve.
  - destruct (get_rec s r) as [x|]; [|inversion H; subst; acc_solve].
    destruct (r_notify x && (r_cnt x - 1 <=? 0)%Z); inversion H; subst; acc_solve.
  - inversion H; subst. eexists [_], []. cbn. rewrite ?app_nil_r. repeat split; auto.
  - destruct (table s) as [r|]; [|inversion H; subst; acc_solve].
    destruct (get_rec s r) as [x|]; [|inversion H; subst; acc_solve].
    destruct (Nat.eqb (r_owner x) i); inversion H; subst; acc_solve.
Qed.

Lemma start_op_accounted i s o s' p' : start_op i s o = (s', p') -> accounted i s s' Idle p'.
Proof.
  unfold accounted. destruct o; cbn [start_op]; intros H.
  - destruct (table s); inversion H; subst; acc_solve.
  - destruct (table s) as [r|]; [|inversion H; subst; acc_solve].
    destruct (get_rec s r) as [x|]; [|inversion H; subst; acc_solve].
    destruct (Nat.eqb (r_token x) tok); inversion H; subst; acc_solve.
  - destruct (has_rel (rels s) i k); inversion H; subst; acc_solve.
  - destruct (has_rel (rels s) i k); inversion H; subst; acc_solve.
  - destruct (table s) as [r|]; [|inversion H; subst; acc_solve].
    destruct (get_rec s r) as [x|]; [|inversion H; subst; acc_solve].
    destruct (Nat.eqb (r_owner x) i); inversion H; subst; acc_solve.
  - inversion H; subst; acc_solve.
Qed.

Lemma sends_of_app i l1 l2 : sends_of i (l1 ++ l2) = sends_of i l1 ++ sends_of i l2.
Proof. unfold sends_of. rewrite filter_app, map_app. reflexivity. Qed.
Lemma fans_of_app i l1 l2 : fans_of i (l1 ++ l2) = fans_of i l1 ++ fans_of i l2.
Proof. unfold fans_of. rewrite filter_app, map_app. reflexivity. Qed.
Lemma flat_fans_app l1 l2 : flat_fans (l1 ++ l2) = flat_fans l1 ++ flat_fans l2.
Proof. unfold flat_fans. apply flat_map_app. Qed.

Lemma sends_of_own i nl : Forall (fun e => e_by e = i) nl -> sends_of i nl = plain nl.
Proof.
  induction 1 as [|e nl He _ IH]; [reflexivity|].
  unfold sends_of, plain in *. cbn. rewrite He, Nat.eqb_refl. cbn. f_equal. exact IH.
Qed.
Lemma sends_of_other i j nl : i <> j -> Forall (fun e => e_by e = i) nl -> sends_of j nl = [].
Proof.
  intros Hij. induction 1 as [|e nl He _ IH]; [reflexivity|].
  unfold sends_of in *. cbn. rewrite He. destruct (Nat.eqb_spec i j); [contradiction|]. exact IH.
Qed.
Lemma fans_of_own i nf : fans_of i (tagged i nf) = nf.
Proof.
  induction nf as [|f nf IH]; [reflexivity|]. unfold fans_of, tagged in *. cbn. rewrite Nat.eqb_refl. cbn. f_equal. exact IH.
Qed.
Lemma fans_of_other i j nf : i <> j -> fans_of j (tagged i nf) = [].
Proof.
  intros Hij. induction nf as [|f nf IH]; [reflexivity|]. unfold fans_of, tagged in *. cbn.
  destruct (Nat.eqb_spec i j); [contradiction|]. exact IH.
Qed.

(* the invariant: for every actor, what it has pushed plus what its current operation still has
   to push is exactly the flattening of the snapshots it has taken, in order *)
Definition FanInv (c : cfg) : Prop :=
  forall i t, nth_error (thr c) i = Some t ->
    sends_of i (log (sh c)) ++ pend i (t_pc t) = flat_fans (fans_of i (fans (sh c))).

Lemma accounted_preserves c i t s' p' todo' :
  FanInv c -> nth_error (thr c) i = Some t -> accounted i (sh c) s' (t_pc t) p' ->
  FanInv (mk_cfg s' (set_thr (thr c) i (mk_thr p' todo'))).
Proof.
  intros HI Ht (nl & nf & Hl & Hf & Hby & Heq) j tj Hj. cbn [sh thr] in *.
  rewrite Hl, Hf, sends_of_app, fans_of_app, flat_fans_app.
  destruct (Nat.eq_dec i j) as [<-|Hij].
  - rewrite (nth_error_set_thr_same _ _ _ _ Ht) in Hj. inversion Hj; subst tj. cbn [t_pc].
    rewrite (sends_of_own i nl Hby). rewrite fans_of_own.
    rewrite <- (HI i t Ht), <- !app_assoc. f_equal. exact Heq.
  - rewrite nth_error_set_thr_other in Hj by exact Hij.
    rewrite (sends_of_other i j nl Hij Hby). rewrite (fans_of_other i j nf Hij).
    cbn [flat_fans flat_map]. rewrite !app_nil_r. apply HI. exact Hj.
Qed.

Lemma step_FanInv c i c' : FanInv c -> step c i = Some c' -> FanInv c'.
Proof.
  intros HI. unfold step. destruct (nth_error (thr c) i) as [t|] eqn:Ht; [|discriminate].
  destruct (t_pc t) eqn:Hpc.
  1: { destruct (t_todo t) as [|o rest]; [discriminate|].
       destruct (start_op i (sh c) o) as [s' p'] eqn:Hs. intros H; inversion H; subst.
       eapply accounted_preserves; eauto. rewrite Hpc. eapply start_op_accounted; eauto. }
  all: destruct (step_pc i (sh c) _) as [[s' p']|] eqn:Hs;
       try discriminate; intros H; inversion H; subst;
       (eapply accounted_preserves; eauto; rewrite Hpc; eapply step_pc_accounted; eauto).
Qed.

Lemma run_invariant (P : cfg -> Prop) :
  (forall c i c', P c -> step c i = Some c' -> P c') -> forall sched c, P c -> P (run sched c).
Proof.
  intros Hstep sched. induction sched as [|i tl IH]; intros c Hc; cbn [run]; [exact Hc|].
  destruct (step c i) eqn:Hs; [apply IH; eapply Hstep; eauto | apply IH; exact Hc].
Qed.

Lemma FanInv_init progs : FanInv (init_cfg progs).
Proof.
  intros i t Ht. unfold init_cfg in Ht. cbn in Ht. rewrite nth_error_map in Ht.
  destruct (nth_error progs i); inversion Ht; subst. reflexivity.
Qed.

Theorem FanInv_reachable progs sched : FanInv (run sched (init_cfg progs)).
Proof. apply run_invariant; [intros; eapply step_FanInv; eauto | apply FanInv_init]. Qed.

(* ------------------------------------------------------------------------------------------ *)
(* 2. Snapshots have no duplicate receivers; the relation set has no duplicate relation        *)

Definition WF (s : shared) : Prop :=
  NoDup (rels s) /\ Forall (fun f => NoDup (snd (snd f))) (fans s).

Lemma kind_eqb_refl k : kind_eqb k k = true. Proof. destruct k; reflexivity. Qed.
Lemma kind_eqb_eq a b : kind_eqb a b = true -> a = b. Proof. destruct a, b; cbn; congruence. Qed.
Lemma rel_eqb_eq a b : rel_eqb a b = true -> a = b.
Proof.
  destruct a as [x k], b as [y k']. unfold rel_eqb. cbn. intros H. apply andb_true_iff in H as [H1 H2].
  apply Nat.eqb_eq in H1. apply kind_eqb_eq in H2. congruence.
Qed.
Lemma has_rel_false l x k : has_rel l x k = false -> ~ In (x, k) l.
Proof.
  unfold has_rel. intros H Hin. rewrite <- not_true_iff_false in H. apply H. apply existsb_exists.
  exists (x, k). split; [exact Hin|]. unfold rel_eqb. cbn. rewrite Nat.eqb_refl, kind_eqb_refl. reflexivity.
Qed.
Lemma has_rel_true l x k : has_rel l x k = true -> In (x, k) l.
Proof.
  unfold has_rel. intros H. apply existsb_exists in H as (e & Hin & He). apply rel_eqb_eq in He. subst. exact Hin.
Qed.

Lemma NoDup_snoc {A} (l : list A) x : NoDup l -> ~ In x l -> NoDup (l ++ [x]).
Proof.
  intros Hl Hx. apply NoDup_app_iff_local. exact Hl. exact Hx.
Qed.
