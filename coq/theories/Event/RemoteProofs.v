(* Event engine (C18), subscribers on another node: one-step theorems of the two-node transition system
   (Event/Remote.v), per-publisher order of the live stream over ALL schedules, and the witness schedules
   that refute the completeness clauses under un-quiesced concurrency.  The refinement theorem for quiescent
   histories is in Event/RemoteRefine.v. *)
From Ergo Require Import Common.Base Event.Model Event.Proofs Event.Remote.

(* ---- 1. one frame per remote node ---------------------------------------------------------------- *)

Lemma frames_le_one bs s io : length (frames_of bs s io) <= 1.
Proof.
  destruct io as [i o]. unfold frames_of. destruct (mem i (q_dead s)); cbn; [lia|].
  destruct (q_reg s) as [g|]; cbn; [|lia].
  destruct o; cbn; try lia;
    match goal with |- context [if ?c then _ else _] => destruct c; cbn; lia end.
Qed.

(* an accepted publication is sent to node B exactly when A's target manager holds a consumer of B -
   once, however many consumers B has *)
Lemma publish_one_frame bs s i g tok seq :
  mem i (q_dead s) = false -> q_reg s = Some g -> g_token g = tok ->
  frames_of bs s (i, OPublish tok seq) = if has_remote bs (q_subs s) then [FEv i seq] else [].
Proof.
  intros Hd Hr Ht. unfold frames_of. rewrite Hd, Hr, Ht, Nat.eqb_refl. reflexivity.
Qed.

(* ---- 2. fan-out on the receiving node -------------------------------------------------------------- *)

Definition aliveB (rs : rst) (x : nat) : bool := negb (mem x (r_deadB rs)).

Lemma deliverB_frame rs x it :
  r_a (deliverB rs x it) = r_a rs /\ r_relB (deliverB rs x it) = r_relB rs /\ r_deadB (deliverB rs x it) = r_deadB rs /\
  r_net (deliverB rs x it) = r_net rs /\ r_gone (deliverB rs x it) = r_gone rs /\ r_pend (deliverB rs x it) = r_pend rs /\
  r_outB (deliverB rs x it) = r_outB rs ++ (if aliveB rs x then [(x, it)] else []).
Proof.
  unfold deliverB, aliveB. destruct (mem x (r_deadB rs)); cbn; repeat split; auto. now rewrite app_nil_r.
Qed.

Lemma deliverB_all_spec l : forall rs it,
  r_a (deliverB_all rs l it) = r_a rs /\ r_relB (deliverB_all rs l it) = r_relB rs /\
  r_deadB (deliverB_all rs l it) = r_deadB rs /\ r_net (deliverB_all rs l it) = r_net rs /\
  r_gone (deliverB_all rs l it) = r_gone rs /\ r_pend (deliverB_all rs l it) = r_pend rs /\
  r_outB (deliverB_all rs l it) = r_outB rs ++ map (fun x => (x, it)) (filter (aliveB rs) l).
Proof.
  unfold deliverB_all. induction l as [|x l IH]; intros rs it; cbn [fold_left filter map].
  - rewrite app_nil_r. repeat split; reflexivity.
  - destruct (deliverB_frame rs x it) as (A & B & C & D & E & F & G).
    destruct (IH (deliverB rs x it) it) as (A' & B' & C' & D' & E' & F' & G').
    rewrite A', B', C', D', E', F', G', A, B, C, D, E, F, G.
    repeat split; try reflexivity.
    assert (Hal : forall y, aliveB (deliverB rs x it) y = aliveB rs y) by (intro y; unfold aliveB; now rewrite C).
    rewrite (filter_ext _ _ Hal). destruct (aliveB rs x); cbn; now rewrite <- app_assoc.
Qed.

(* an event frame is pushed exactly once to every distinct live process of B that holds a link or a monitor
   in B's target manager - a process holding both gets it once *)
Theorem remote_fanout_once rs p seq :
  let l := nodup Nat.eq_dec (map fst (r_relB rs)) in
  r_outB (handleB rs (FEv p seq)) = r_outB rs ++ map (fun x => (x, IEv p seq)) (filter (aliveB rs) l) /\
  NoDup l /\ (forall x, In x l <-> exists k, In (x, k) (r_relB rs)) /\
  r_relB (handleB rs (FEv p seq)) = r_relB rs.
Proof.
  cbn zeta. unfold handleB.
  destruct (deliverB_all_spec (nodup Nat.eq_dec (map fst (r_relB rs))) rs (IEv p seq)) as (_ & B & _ & _ & _ & _ & G).
  rewrite G, B. split; [reflexivity|]. split; [apply NoDup_nodup|]. split; [|reflexivity].
  intro x. rewrite nodup_In, in_map_iff. split.
  - intros ((y, k) & E & H). cbn in E. subst y. now exists k.
  - intros (k & H). now exists (x, k).
Qed.

(* a terminate frame takes every relation of B at once: one exit per link subscriber, one down per monitor
   subscriber, nothing is left to be notified again *)
Theorem remote_terminate_once rs reason :
  let ex := rels_of_kind (r_relB rs) KLink in
  let dn := rels_of_kind (r_relB rs) KMon in
  r_relB (handleB rs (FTerm reason)) = [] /\
  r_outB (handleB rs (FTerm reason)) =
    r_outB rs ++ map (fun x => (x, IExit reason)) (filter (aliveB rs) ex) ++ map (fun x => (x, IDown reason)) (filter (aliveB rs) dn).
Proof.
  cbn zeta. unfold handleB.
  set (rs0 := set_relB rs []).
  destruct (deliverB_all_spec (rels_of_kind (r_relB rs) KLink) rs0 (IExit reason)) as (_ & B & C & _ & _ & _ & G).
  destruct (deliverB_all_spec (rels_of_kind (r_relB rs) KMon) (deliverB_all rs0 (rels_of_kind (r_relB rs) KLink) (IExit reason)) (IDown reason))
    as (_ & B' & _ & _ & _ & _ & G').
  rewrite B', B, G', G. split; [reflexivity|]. cbn [rs0 set_relB r_outB]. rewrite <- app_assoc. f_equal. f_equal.
  apply f_equal. apply filter_ext. intro y. unfold aliveB. now rewrite C.
Qed.

(* ---- 3. witness schedules: what does NOT hold without quiescence ----------------------------------- *)

Definition ev_of (rs : rst) (x : nat) : list item := sinbox is_ev x (r_outB rs).
Definition sys_of (rs : rst) (x : nat) : list item := sinbox is_sys x (r_outB rs).
Definition ghost_ev (rs : rst) (x : nat) : list item := sinbox is_ev x (q_out (r_a rs)).
Definition item_eqb' (a b : item) : bool :=
  match a, b with
  | IEv f s, IEv f' s' => Nat.eqb f f' && Nat.eqb s s'
  | IStart, IStart | IStop, IStop => true
  | IExit r, IExit r' | IDown r, IDown r' => Nat.eqb r r'
  | _, _ => false
  end.
Fixpoint items_eqb (a b : list item) : bool :=
  match a, b with
  | [], [] => true
  | x :: a', y :: b' => item_eqb' x y && items_eqb a' b'
  | _, _ => false
  end.
Definition settled (rs : rst) : bool :=
  Nat.eqb (length (r_net rs)) 0 && Nat.eqb (length (r_gone rs)) 0 && Nat.eqb (length (r_pend rs)) 0.

(* (a) subscribe gap: B actor 1 subscribes; A records it and answers (empty buffer); a publication accepted
   AFTER that is sent to B and handled there before the reply has made B record the relation: the
   subscriber, still subscribed at the end, never gets it. *)
Definition gap_sched : list rlabel :=
  [LA 0 (ORegister 0 false); LSubReq 1 KLink; LA 0 (OPublish 1 7); LDeliver 0; LSubFin 1].
Definition gap_b : bool :=
  let rs := rrun [1] gap_sched rst0 in
  settled rs && has_rel (r_relB rs) 1 KLink && has_rel (q_subs (r_a rs)) 1 KLink &&
  items_eqb (ghost_ev rs 1) [IEv 0 7] && items_eqb (ev_of rs 1) [] &&
  match results_of 1 (q_res (r_a rs)) with [RList []] => true | _ => false end.
Theorem remote_subscribe_gap_refuted :
  exists bs ls, let rs := rrun bs ls rst0 in
    settled rs = true /\ has_rel (r_relB rs) 1 KLink = true /\
    results_of 1 (q_res (r_a rs)) = [RList []] /\ ghost_ev rs 1 = [IEv 0 7] /\ ev_of rs 1 = [].
Proof. exists [1], gap_sched. vm_compute. repeat split; reflexivity. Qed.

(* (b) duplicate: B actor 2 is subscribed, so publication 7 is on its way to B when actor 1 subscribes;
   the reply (which carries 7 in the last-N list) is handled on B before the frame: actor 1 gets 7 in the
   returned list AND as a live message. *)
Definition dup_sched : list rlabel :=
  [LA 0 (ORegister 2 false); LSubReq 2 KMon; LSubFin 2; LA 0 (OPublish 1 7); LSubReq 1 KLink; LSubFin 1; LDeliver 0].
Theorem remote_subscribe_dup_refuted :
  exists bs ls, let rs := rrun bs ls rst0 in
    settled rs = true /\ results_of 1 (q_res (r_a rs)) = [RList [(0, 7)]] /\ ev_of rs 1 = [IEv 0 7] /\ ghost_ev rs 1 = [].
Proof. exists [1; 2], dup_sched. vm_compute. repeat split; reflexivity. Qed.

(* (c) publish then unregister by the OWNER (one actor, two calls in a row): the terminate frame (order
   byte 0) is handled on B before the event frame: the remote monitor gets the down and never the
   publication. *)
Definition overtake_sched : list rlabel :=
  [LA 0 (ORegister 0 false); LSubReq 1 KMon; LSubFin 1; LA 0 (OPublish 1 7); LA 0 OUnregister; LDeliver 1; LDeliver 0].
Theorem remote_unregister_overtakes_refuted :
  exists bs ls, let rs := rrun bs ls rst0 in
    settled rs = true /\ ghost_ev rs 1 = [IEv 0 7] /\ ev_of rs 1 = [] /\ sys_of rs 1 = [IDown 0].
Proof. exists [1], overtake_sched. vm_compute. repeat split; reflexivity. Qed.

(* the same three histories run quiescently deliver everything (non-vacuity of the refinement theorem) *)
Example quiet_gap_ok :
  let rs := q_hist [1] [(0, ORegister 0 false); (1, OSub KLink); (0, OPublish 1 7)] in
  ev_of rs 1 = [IEv 0 7] /\ ghost_ev rs 1 = [IEv 0 7].
Proof. vm_compute. split; reflexivity. Qed.
Example quiet_overtake_ok :
  let rs := q_hist [1] [(0, ORegister 0 false); (1, OSub KMon); (0, OPublish 1 7); (0, OUnregister)] in
  ev_of rs 1 = [IEv 0 7] /\ sys_of rs 1 = [IDown 0].
Proof. vm_compute. split; reflexivity. Qed.
