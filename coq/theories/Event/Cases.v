(* Correspondence + monitor definitions evaluated over implementation observations
   (cases files written by go/harness/cmd/event). *)
From Ergo Require Import Common.Base Event.Model.

(* what one actor of the implementation logged *)
Record obs := mk_obs {
  o_ev : list pubm;        (* MessageEvent payloads (publisher, seq) in handling order *)
  o_sys : list item;       (* MessageEventStart / Stop / MessageDownEvent in handling order *)
  o_exit : list nat;       (* reasons of MessageExitEvent *)
  o_res : list res         (* return values of its operations on this event, in call order *)
}.

(* a sequential history on a real node, projected on one event name *)
Record ecase := mk_ecase { c_n : nat; c_hist : list (nat * op); c_obs : list obs }.
(* a controlled schedule: programs, granted choices, (enabled, label code after the grant) per choice *)
Record hcase := mk_hcase { h_progs : list (list op); h_sched : list nat; h_trace : list (bool * nat); h_obs : list obs }.

Fixpoint list_eqb {A} (f : A -> A -> bool) (a b : list A) : bool :=
  match a, b with
  | [], [] => true
  | x :: a', y :: b' => f x y && list_eqb f a' b'
  | _, _ => false
  end.
Definition pubm_eqb (a b : pubm) : bool := Nat.eqb (fst a) (fst b) && Nat.eqb (snd a) (snd b).
Definition item_eqb (a b : item) : bool :=
  match a, b with
  | IEv f s, IEv f' s' => Nat.eqb f f' && Nat.eqb s s'
  | IStart, IStart | IStop, IStop => true
  | IExit r, IExit r' | IDown r, IDown r' => Nat.eqb r r'
  | _, _ => false
  end.
Definition res_eqb (a b : res) : bool :=
  match a, b with
  | ROk, ROk => true
  | RTok t, RTok t' => Nat.eqb t t'
  | RList l, RList l' => list_eqb pubm_eqb l l'
  | RErr e, RErr e' => Nat.eqb e e'
  | _, _ => false
  end.
Definition obs_eqb (a b : obs) : bool :=
  list_eqb pubm_eqb (o_ev a) (o_ev b) && list_eqb item_eqb (o_sys a) (o_sys b) &&
  list_eqb Nat.eqb (o_exit a) (o_exit b) && list_eqb res_eqb (o_res a) (o_res b).

Definition ev_payload (it : item) : pubm := match it with IEv f s => (f, s) | _ => (0, 0) end.
Definition exit_reason (it : item) : nat := match it with IExit r => r | _ => 0 end.

(* observation of the small-step model / of the sequential model *)
Definition obs_lts (c : cfg) (x : nat) : obs :=
  mk_obs (map ev_payload (inbox is_ev x (log (sh c)))) (inbox is_sys x (log (sh c)))
         (map exit_reason (inbox is_exit x (log (sh c)))) (results_of x (results (sh c))).
Definition obs_seq (s : sst) (x : nat) : obs :=
  mk_obs (map ev_payload (sinbox is_ev x (q_out s))) (sinbox is_sys x (q_out s))
         (map exit_reason (sinbox is_exit x (q_out s))) (results_of x (q_res s)).

(* ---- sequential histories ------------------------------------------------------------- *)

(* small-step model (each operation run to completion) = implementation *)
Definition corr_lts (c : ecase) : bool :=
  list_eqb obs_eqb (map (obs_lts (run_hist (c_n c) (c_hist c))) (seq 0 (c_n c))) (c_obs c).
(* sequential model = implementation *)
Definition corr_seq (c : ecase) : bool :=
  list_eqb obs_eqb (map (obs_seq (seq_hist (c_hist c))) (seq 0 (c_n c))) (c_obs c).

Definition spec_obs (c : ecase) : list obs := map (obs_seq (seq_hist (c_hist c))) (seq 0 (c_n c)).
Definition both {A} (f : obs -> A) (e : A -> A -> bool) (c : ecase) : bool :=
  list_eqb e (map f (spec_obs c)) (map f (c_obs c)).

Fixpoint nodup_b (l : list pubm) : bool :=
  match l with [] => true | x :: tl => negb (existsb (pubm_eqb x) tl) && nodup_b tl end.
(* payload numbers of one publisher strictly increase (the generators number publications in call order) *)
Fixpoint incr_from (f : nat) (last : option nat) (l : list pubm) : bool :=
  match l with
  | [] => true
  | (g, s) :: tl =>
      if Nat.eqb g f
      then match last with Some p => Nat.ltb p s | None => true end && incr_from f (Some s) tl
      else incr_from f last tl
  end.
Definition in_order (n : nat) (l : list pubm) : bool := forallb (fun f => incr_from f None l) (seq 0 n).

(* the property, clause by clause, on what the implementation delivered / returned:
   every subscriber sees every publication made while it is subscribed once and in order *)
Definition spec_once_in_order (c : ecase) : bool :=
  both o_ev (list_eqb pubm_eqb) c &&
  forallb (fun o => nodup_b (o_ev o) && in_order (c_n c) (o_ev o)) (c_obs c).
(* only the token holder publishes: return values of every call (errors for wrong tokens, ErrTaken, ...) *)
Definition not_list (r : res) : bool := match r with RList _ => false | _ => true end.
Definition spec_token (c : ecase) : bool :=
  both (fun o => filter not_list (o_res o)) (list_eqb res_eqb) c.
(* a new subscriber is handed the last N publications in order *)
Definition spec_lastN (c : ecase) : bool :=
  both (fun o => filter (fun r => negb (not_list r)) (o_res o)) (list_eqb res_eqb) c.
(* unregister / owner termination: one exit per link subscriber, one down per monitor subscriber *)
Definition is_down (it : item) : bool := match it with IDown _ => true | _ => false end.
Definition spec_unregister_once (c : ecase) : bool :=
  both o_exit (list_eqb Nat.eqb) c && both (fun o => filter is_down (o_sys o)) (list_eqb item_eqb) c.
(* start at the first subscriber, stop at the last *)
Definition spec_start_stop (c : ecase) : bool :=
  both (fun o => filter (fun it => negb (is_down it)) (o_sys o)) (list_eqb item_eqb) c.

(* the theorems speak about this case: somebody received a publication *)
Definition premise_delivery (c : ecase) : bool := existsb (fun o => negb (Nat.eqb (length (o_ev o)) 0)) (c_obs c).

(* ---- controlled schedules --------------------------------------------------------------- *)

Definition pc_code (t : thread) : nat :=
  match t_pc t, t_todo t with
  | Idle, [] => 0
  | Dead, _ => 0
  | Idle, _ => 1
  | P_crit _ _, _ => 2
  | S_ins _ _, _ => 3
  | S_counter _ _, _ => 4
  | U_counter _, _ => 4
  | _, _ => 9
  end.

Fixpoint htrace (sched : list nat) (c : cfg) : list (bool * nat) * cfg :=
  match sched with
  | [] => ([], c)
  | i :: tl =>
      match hstep c i with
      | Some c' =>
          let '(t, cf) := htrace tl c' in
          ((true, match nth_error (thr c') i with Some th => pc_code th | None => 9 end) :: t, cf)
      | None => let '(t, cf) := htrace tl c in ((false, 0) :: t, cf)
      end
  end.

Definition trace_eqb (a b : bool * nat) : bool :=
  Bool.eqb (fst a) (fst b) && (negb (fst a) || Nat.eqb (snd a) (snd b)).

(* an actor runs its whole program inside one callback, so what is pushed to it meanwhile is handled
   after the program - or never, if the program ends with its termination: for such actors only the
   return values are compared *)
Definition terminates (p : list op) : bool := existsb (fun o => match o with OTerminate => true | _ => false end) p.
Definition obs_eqb_prog (pa : list op * (obs * obs)) : bool :=
  let '(p, (a, b)) := pa in
  if terminates p then list_eqb res_eqb (o_res a) (o_res b) else obs_eqb a b.

Definition corr_hooked (c : hcase) : bool :=
  let '(t, cf) := htrace (h_sched c) (init_cfg (h_progs c)) in
  list_eqb trace_eqb t (h_trace c) &&
  Nat.eqb (length (h_obs c)) (length (h_progs c)) &&
  forallb obs_eqb_prog (combine (h_progs c) (combine (map (obs_lts cf) (seq 0 (length (h_progs c)))) (h_obs c))).

Definition count_subs (p : list op) : nat :=
  length (filter (fun o => match o with OSub _ => true | _ => false end) p).
Definition returned (o : obs) : list pubm :=
  flat_map (fun r => match r with RList l => l | _ => [] end) (o_res o).
Fixpoint disjoint_b (a b : list pubm) : bool :=
  match a with [] => true | x :: tl => negb (existsb (pubm_eqb x) b) && disjoint_b tl b end.

(* exactly once, in order, and never both in the returned list and in the live stream of ONE
   subscription (checked for actors that subscribe at most once), on the implementation's logs *)
Definition spec_hooked (c : hcase) : bool :=
  let n := length (h_progs c) in
  forallb (fun po => let '(p, o) := po in
             nodup_b (o_ev o) && in_order n (o_ev o) &&
             (Nat.ltb 1 (count_subs p) || disjoint_b (returned o) (o_ev o)))
          (combine (h_progs c) (h_obs c)).

(* a producer is never told "stop" more often than "start" (every prefix of its notifications) *)
Fixpoint stops_le_starts (bal : nat) (l : list item) : bool :=
  match l with
  | [] => true
  | IStart :: tl => stops_le_starts (S bal) tl
  | IStop :: tl => match bal with O => false | S b => stops_le_starts b tl end
  | _ :: tl => stops_le_starts bal tl
  end.
Definition spec_hooked_notify (c : hcase) : bool := forallb (fun o => stops_le_starts 0 (o_sys o)) (h_obs c).

Definition premise_hooked (c : hcase) : bool :=
  existsb (fun o => negb (Nat.eqb (length (o_ev o)) 0)) (h_obs c).
