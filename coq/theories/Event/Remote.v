(* Event engine (C18), subscribers on ANOTHER node.  Definitions only - proofs are in Event/RemoteProofs.v.

   Two nodes: A owns the event (producers and local subscribers are actors of A), B hosts remote
   subscribers.  Transcribed from (after the fix commits listed in findings/C18.md):

   consumer side (B)
     node/process.go  LinkEvent / MonitorEvent: HasLink/HasMonitor in B's OWN target manager -> ErrTargetExist
                      UnlinkEvent / DemonitorEvent: HasLink/HasMonitor == false -> ErrTargetUnknown
     node/core.go     RouteLinkEvent, target.Node != n.name:
                          connection.LinkEvent(pid, target)      request/reply, the reply carries the last-N list
                          n.targetManager.AddLink(pid, target)   only AFTER the reply
                      RouteUnlinkEvent, remote: connection.UnlinkEvent; then RemoveLink
     node/node.go     unregisterProcess: CleanupConsumer; for a relation with an event of another node
                      eventConsumerGone sends the Unlink/Demonitor request to that node (nobody waits for the answer)
     net/proto        protoMessageEvent frame -> core.RouteSendEvent(from, gen.Ref{}, ...) with from.Node != n.name:
                          consumers = GetConsumersForTarget(event)  (B's target manager), one sendEventMessage per
                          distinct pid
                      protoMessageTerminateEvent frame -> core.RouteTerminateEvent: CleanupTarget on B,
                          MessageExitEvent per link consumer, MessageDownEvent per monitor consumer
   producer side (A)
     net/proto        MessageLinkEvent / MessageMonitorEvent / MessageUnlinkEvent / MessageDemonitorEvent requests run
                      core.Route{Link,Monitor,Unlink,Demonitor}Event(m.Source, m.Target) - THE SAME functions a local
                      subscriber runs, with the remote pid: one relation per remote CONSUMER in A's target manager
                      (gen/default_target_manager.go keys relations by (consumer pid, target, kind); there is no
                      per-node record), the consumer counter counts remote consumers, MessageEventStart/Stop likewise.
     node/core.go     RouteSendEvent (local producer): the consumer snapshot lists remote pids; remote[pid.Node] = true;
                      ONE connection.SendEvent per remote node.  RouteTerminateEvent: CleanupTarget; exit/down to the
                      local consumers (sendExitMessage / RouteSendPID to a remote pid deliver nothing: the process is
                      not in A's table, MessageDownEvent is not a network type); ONE connection.SendTerminateEvent per
                      remote node.
   order of frames (net/proto/connection.go)
     SendEvent: order byte = from.ID%255+1 (KeepNetworkOrder, the default): the frames of ONE publisher use one pool
     link (order % len(pool)) and one receive queue (order % len(recvQueues)) - they are handled on B in send order
     (C13: frames of one order byte keep their order).  SendTerminateEvent: order byte 0 = next pool link round
     robin, receive queue round robin: NOT ordered with the event frames, not even with those of the owner.
     Replies (MessageResult) travel with order 0 / the requester's queue: NOT ordered with event frames.

   Model: A's state is the sequential model [sst] of Event/Model.v - remote consumers are ordinary consumers there
   (same code).  What A pushes "to a remote consumer" is a ghost entry of [q_out]; the real deliveries on B come from
   the frames ([r_outB]).  Results of all calls are logged in [q_res] of A's state (an observation log). *)
From Ergo Require Import Common.Base Event.Model.

Inductive frame :=
| FEv (from seq : nat)          (* protoMessageEvent *)
| FTerm (reason : nat).         (* protoMessageTerminateEvent, order byte 0 *)

(* a B actor between the request handled on A and the reply handled on B *)
Record pending := mk_pend { p_x : nat; p_k : kind; p_sub : bool; p_res : res }.

Record rst := mk_rst {
  r_a : sst;                       (* node A *)
  r_relB : list (nat * kind);      (* node B: relations of its actors with gen.Event{name, A} *)
  r_deadB : list nat;              (* terminated actors of B *)
  r_net : list frame;              (* A -> B event / terminate frames in send order *)
  r_gone : list (nat * kind);      (* B -> A unlink / demonitor requests of terminated consumers *)
  r_pend : list pending;
  r_outB : list (nat * item) }.    (* mailbox pushes on B, in push order *)

Definition rst0 : rst := mk_rst sst0 [] [] [] [] [] [].

Definition set_a rs a := mk_rst a (r_relB rs) (r_deadB rs) (r_net rs) (r_gone rs) (r_pend rs) (r_outB rs).
Definition set_relB rs x := mk_rst (r_a rs) x (r_deadB rs) (r_net rs) (r_gone rs) (r_pend rs) (r_outB rs).
Definition set_net rs x := mk_rst (r_a rs) (r_relB rs) (r_deadB rs) x (r_gone rs) (r_pend rs) (r_outB rs).
Definition set_gone rs x := mk_rst (r_a rs) (r_relB rs) (r_deadB rs) (r_net rs) x (r_pend rs) (r_outB rs).
Definition set_pend rs x := mk_rst (r_a rs) (r_relB rs) (r_deadB rs) (r_net rs) (r_gone rs) x (r_outB rs).

(* sendEventMessage / sendExitMessage / RouteSendPID on B: dropped when the process is gone *)
Definition deliverB (rs : rst) (x : nat) (it : item) : rst :=
  if mem x (r_deadB rs) then rs
  else mk_rst (r_a rs) (r_relB rs) (r_deadB rs) (r_net rs) (r_gone rs) (r_pend rs) (r_outB rs ++ [(x, it)]).
Definition deliverB_all (rs : rst) (l : list nat) (it : item) : rst := fold_left (fun s x => deliverB s x it) l rs.

Definition has_remote (bs : list nat) (subs : list (nat * kind)) : bool := existsb (fun e => mem (fst e) bs) subs.

(* frames node A sends while an actor of A performs [io] in state [s] (conditions of seq_op) *)
Definition frames_of (bs : list nat) (s : sst) (io : nat * op) : list frame :=
  let '(i, o) := io in
  if mem i (q_dead s) then [] else
  match q_reg s with
  | None => []
  | Some g =>
      match o with
      | OPublish tok seq => if Nat.eqb (g_token g) tok && has_remote bs (q_subs s) then [FEv i seq] else []
      | OUnregister => if Nat.eqb (g_owner g) i && has_remote bs (q_subs s) then [FTerm 0] else []
      | OTerminate => if Nat.eqb (g_owner g) i && has_remote bs (q_subs s) then [FTerm 1] else []
      | _ => []
      end
  end.

(* Route{Link,Monitor}Event on A for the remote pid x: events.Load; AddLink; buffer copy; counter; start *)
Definition a_sub (s : sst) (x : nat) (k : kind) : sst * res :=
  match q_reg s with
  | None => (s, RErr 2)
  | Some g =>
      if has_rel (q_subs s) x k then (s, RErr 4) else
      let s1 := q_set_reg (q_set_subs s (q_subs s ++ [(x, k)])) (Some (g_add 1 g)) in
      let s2 := if g_notify g && (g_cnt g + 1 <=? 1)%Z then deliver s1 (g_owner g) IStart else s1 in
      (s2, RList (g_buf g))
  end.

(* Route{Unlink,Demonitor}Event on A for the remote pid x *)
Definition a_unsub (s : sst) (x : nat) (k : kind) : sst * res :=
  match q_reg s with
  | None => (s, RErr 2)
  | Some g =>
      if has_rel (q_subs s) x k then (seq_dec (q_set_subs s (del_rel (q_subs s) x k)), ROk) else (s, RErr 5)
  end.

Definition mark_dead (s : sst) (x : nat) : sst :=
  mk_sst (q_reg s) (q_subs s) (q_ntok s) (x :: q_dead s) (q_out s) (q_res s).

(* the frame at position n may be handled next on B: an event frame only when no earlier event frame of the
   same publisher (same order byte) is still in flight; a terminate frame at any time *)
Definition same_pub (p : nat) (g : frame) : bool := match g with FEv q _ => Nat.eqb q p | FTerm _ => false end.
Definition deliverable (net : list frame) (n : nat) : bool :=
  match nth_error net n with
  | None => false
  | Some (FTerm _) => true
  | Some (FEv p _) => negb (existsb (same_pub p) (firstn n net))
  end.
Fixpoint remove_nth {A} (l : list A) (n : nat) : list A :=
  match l, n with
  | [], _ => []
  | _ :: tl, O => tl
  | x :: tl, S m => x :: remove_nth tl m
  end.

(* B handles one frame *)
Definition handleB (rs : rst) (f : frame) : rst :=
  match f with
  | FEv p seq => deliverB_all rs (nodup Nat.eq_dec (map fst (r_relB rs))) (IEv p seq)
  | FTerm reason =>
      let ex := rels_of_kind (r_relB rs) KLink in
      let dn := rels_of_kind (r_relB rs) KMon in
      deliverB_all (deliverB_all (set_relB rs []) ex (IExit reason)) dn (IDown reason)
  end.

Inductive rlabel :=
| LA (i : nat) (o : op)          (* an actor of A performs o *)
| LSubReq (x : nat) (k : kind)   (* B actor x: local check, request handled on A *)
| LSubFin (x : nat)              (* the reply reaches x: relation recorded on B, call returns *)
| LUnsubReq (x : nat) (k : kind)
| LUnsubFin (x : nat)
| LTermB (x : nat)               (* B actor x terminates *)
| LGone                          (* A handles the oldest unlink/demonitor request of a terminated consumer *)
| LDeliver (n : nat).            (* B handles the frame at position n *)

Definition busy (rs : rst) (x : nat) : bool := existsb (fun p => Nat.eqb (p_x p) x) (r_pend rs).
Definition take_pend (rs : rst) (x : nat) : option pending := find (fun p => Nat.eqb (p_x p) x) (r_pend rs).
Definition drop_pend (rs : rst) (x : nat) : rst := set_pend rs (filter (fun p => negb (Nat.eqb (p_x p) x)) (r_pend rs)).
Definition ret (rs : rst) (x : nat) (r : res) : rst := set_a rs (q_ret (r_a rs) x r).

Definition is_list (r : res) : bool := match r with RList _ => true | _ => false end.
Definition is_ok (r : res) : bool := match r with ROk => true | _ => false end.

(* [bs]: the actors living on node B; None = the label is not enabled *)
Definition rstep (bs : list nat) (rs : rst) (l : rlabel) : option rst :=
  match l with
  | LA i o =>
      if mem i bs then None else
      Some (set_net (set_a rs (seq_op (r_a rs) (i, o))) (r_net rs ++ frames_of bs (r_a rs) (i, o)))
  | LSubReq x k =>
      if negb (mem x bs) || mem x (r_deadB rs) || busy rs x then None else
      if has_rel (r_relB rs) x k then Some (ret rs x (RErr 4)) else
      let '(a', r) := a_sub (r_a rs) x k in
      Some (set_pend (set_a rs a') (r_pend rs ++ [mk_pend x k true r]))
  | LSubFin x =>
      match take_pend rs x with
      | Some p =>
          if p_sub p then
            let rs1 := drop_pend rs x in
            let rs2 := if is_list (p_res p) && negb (has_rel (r_relB rs1) x (p_k p))
                       then set_relB rs1 (r_relB rs1 ++ [(x, p_k p)]) else rs1 in
            Some (ret rs2 x (p_res p))
          else None
      | None => None
      end
  | LUnsubReq x k =>
      if negb (mem x bs) || mem x (r_deadB rs) || busy rs x then None else
      if negb (has_rel (r_relB rs) x k) then Some (ret rs x (RErr 5)) else
      let '(a', r) := a_unsub (r_a rs) x k in
      Some (set_pend (set_a rs a') (r_pend rs ++ [mk_pend x k false r]))
  | LUnsubFin x =>
      match take_pend rs x with
      | Some p =>
          if p_sub p then None else
          let rs1 := drop_pend rs x in
          let rs2 := if is_ok (p_res p) then set_relB rs1 (del_rel (r_relB rs1) x (p_k p)) else rs1 in
          Some (ret rs2 x (p_res p))
      | None => None
      end
  | LTermB x =>
      if negb (mem x bs) || mem x (r_deadB rs) || busy rs x then None else
      let ks := rels_of_actor (r_relB rs) x in
      Some (mk_rst (mark_dead (r_a rs) x) (del_actor (r_relB rs) x) (x :: r_deadB rs) (r_net rs)
                   (r_gone rs ++ map (fun k => (x, k)) ks) (r_pend rs) (r_outB rs))
  | LGone =>
      match r_gone rs with
      | [] => None
      | (x, k) :: tl => Some (set_gone (set_a rs (fst (a_unsub (r_a rs) x k))) tl)
      end
  | LDeliver n =>
      if deliverable (r_net rs) n then
        match nth_error (r_net rs) n with
        | Some f => Some (handleB (set_net rs (remove_nth (r_net rs) n)) f)
        | None => None
        end
      else None
  end.

Fixpoint rrun (bs : list nat) (ls : list rlabel) (rs : rst) : rst :=
  match ls with
  | [] => rs
  | l :: tl => match rstep bs rs l with Some rs' => rrun bs tl rs' | None => rrun bs tl rs end
  end.

(* ---- quiescent histories: every call and everything it causes on the other node completes before the next
   call starts.  One particular family of schedules of the transition system above. *)
Definition q_labels (bs : list nat) (io : nat * op) : list rlabel :=
  let '(i, o) := io in
  if mem i bs then
    match o with
    | OSub k => [LSubReq i k; LSubFin i]
    | OUnsub k => [LUnsubReq i k; LUnsubFin i]
    | OTerminate => [LTermB i; LGone; LGone]
    | _ => []
    end
  else [LA i o; LDeliver 0].
Definition q_op (bs : list nat) (rs : rst) (io : nat * op) : rst := rrun bs (q_labels bs io) rs.
Definition q_hist (bs : list nat) (h : list (nat * op)) : rst := fold_left (q_op bs) h rst0.

(* actors of B only subscribe, unsubscribe and terminate (the event lives on A) *)
Definition consumer_op (o : op) : bool := match o with OSub _ | OUnsub _ | OTerminate => true | _ => false end.
Definition valid_hist (bs : list nat) (h : list (nat * op)) : bool :=
  forallb (fun io => negb (mem (fst io) bs) || consumer_op (snd io)) h.

(* what actor x of the two-node system handles / is returned *)
Definition r_inbox (bs : list nat) (rs : rst) (f : item -> bool) (x : nat) : list item :=
  if mem x bs then sinbox f x (r_outB rs) else sinbox f x (q_out (r_a rs)).
