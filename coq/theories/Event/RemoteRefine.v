(* Event engine (C18): quiescent histories of the two-node model refine the sequential model. *)
From Ergo Require Import Common.Base Event.Model Event.Proofs Event.Remote.

Definition onB (bs : list nat) (e : nat * kind) : bool := mem (fst e) bs.

(* ---- list helpers ---- *)
Lemma mem_in_iff x l : mem x l = true <-> In x l.
Proof.
  unfold mem. rewrite existsb_exists. split.
  - intros (y & Hy & E). apply Nat.eqb_eq in E. subst. exact Hy.
  - intros H. exists x. split; [exact H | apply Nat.eqb_refl].
Qed.

Lemma mem_ext x l l' : (In x l <-> In x l') -> mem x l = mem x l'.
Proof. intros H. apply eq_true_iff_eq. rewrite !mem_in_iff. exact H. Qed.

Lemma mem_nodup x l : mem x (nodup Nat.eq_dec l) = mem x l.
Proof. apply mem_ext. apply nodup_In. Qed.

Lemma mem_rels_of_kind l y k : mem y (rels_of_kind l k) = has_rel l y k.
Proof.
  unfold rels_of_kind, has_rel, mem. induction l as [|[a k'] l IH]; [reflexivity|].
  cbn [filter map existsb snd fst]. change (rel_eqb (y, k) (a, k')) with (Nat.eqb y a && kind_eqb k k').
  destruct k, k'; cbn [kind_eqb map fst existsb]; rewrite IH, ?andb_true_r, ?andb_false_r; reflexivity.
Qed.

Lemma mem_cons y x l : mem y (x :: l) = Nat.eqb y x || mem y l.
Proof. reflexivity. Qed.

Lemma filter_comm {A} (f g : A -> bool) l : filter f (filter g l) = filter g (filter f l).
Proof.
  induction l as [|a l IH]; [reflexivity|]. cbn. destruct (f a) eqn:Ef, (g a) eqn:Eg; cbn; rewrite ?Ef, ?Eg, IH; reflexivity.
Qed.

Lemma filter_filter_imp {A} (f g : A -> bool) l : (forall a, f a = true -> g a = true) -> filter f (filter g l) = filter f l.
Proof.
  intros H. induction l as [|a l IH]; [reflexivity|]. cbn. destruct (f a) eqn:Ef.
  - rewrite (H a Ef). cbn. rewrite Ef, IH. reflexivity.
  - destruct (g a); cbn; rewrite ?Ef, IH; reflexivity.
Qed.

Section OnB.
Variable bs : list nat.

Lemma onB_neq y a : mem y bs = true -> mem a bs = false -> Nat.eqb y a = false.
Proof. intros H1 H2. destruct (Nat.eqb_spec y a); [congruence|reflexivity]. Qed.

Lemma mem_fst_filter_onB l y : mem y bs = true -> mem y (map fst (filter (onB bs) l)) = mem y (map fst l).
Proof.
  intros Hy. induction l as [|[a k] l IH]; [reflexivity|]. cbn [filter map fst]. unfold onB at 1. cbn [fst].
  destruct (mem a bs) eqn:Ea; cbn [map fst]; rewrite !mem_cons, ?IH; [reflexivity|].
  rewrite (onB_neq y a Hy Ea). reflexivity.
Qed.

Lemma has_rel_filter_onB l y k : mem y bs = true -> has_rel (filter (onB bs) l) y k = has_rel l y k.
Proof.
  intros Hy. unfold has_rel. induction l as [|[a k'] l IH]; [reflexivity|]. cbn [filter]. unfold onB at 1. cbn [fst].
  destruct (mem a bs) eqn:Ea; cbn [existsb]; rewrite IH; [reflexivity|].
  unfold rel_eqb at 2. cbn [fst snd]. rewrite (onB_neq y a Hy Ea). reflexivity.
Qed.

Lemma rels_of_actor_filter_onB l y : mem y bs = true -> rels_of_actor (filter (onB bs) l) y = rels_of_actor l y.
Proof.
  intros Hy. unfold rels_of_actor. induction l as [|[a k'] l IH]; [reflexivity|]. cbn [filter]. unfold onB at 1. cbn [fst].
  destruct (mem a bs) eqn:Ea; cbn [filter fst]; [destruct (Nat.eqb a y); cbn [map]; rewrite IH; reflexivity|].
  rewrite Nat.eqb_sym, (onB_neq y a Hy Ea). exact IH.
Qed.

Lemma has_remote_false l : has_remote bs l = false -> filter (onB bs) l = [].
Proof.
  unfold has_remote. induction l as [|e l IH]; [reflexivity|]. cbn. intros H. apply orb_false_iff in H as [H1 H2].
  unfold onB at 1. rewrite H1. auto.
Qed.

Lemma filter_onB_del_rel_A l i k : mem i bs = false -> filter (onB bs) (del_rel l i k) = filter (onB bs) l.
Proof.
  intros Hi. unfold del_rel. apply filter_filter_imp. intros [a k']. unfold onB, rel_eqb. cbn. intros Ha.
  destruct (Nat.eqb_spec i a); [congruence|reflexivity].
Qed.

Lemma filter_onB_del_actor_A l i : mem i bs = false -> filter (onB bs) (del_actor l i) = filter (onB bs) l.
Proof.
  intros Hi. unfold del_actor. apply filter_filter_imp. intros [a k']. unfold onB. cbn. intros Ha.
  destruct (Nat.eqb_spec a i); [congruence|reflexivity].
Qed.

End OnB.

Lemma has_rel_del_actor_neq l i y k : y <> i -> has_rel (del_actor l i) y k = has_rel l y k.
Proof.
  intros Hn. unfold has_rel, del_actor. induction l as [|[a k'] l IH]; [reflexivity|]. cbn [filter fst].
  destruct (Nat.eqb_spec a i); cbn [negb existsb]; rewrite IH; [|reflexivity].
  unfold rel_eqb at 2. cbn [fst snd]. destruct (Nat.eqb_spec y a); [congruence|reflexivity].
Qed.

(* ---- mailbox pushes, common to both nodes ---- *)
Definition push (dead : list nat) (out : list (nat * item)) (x : nat) (it : item) : list (nat * item) :=
  if mem x dead then out else out ++ [(x, it)].
Definition push_all (dead : list nat) (out : list (nat * item)) (l : list nat) (it : item) : list (nat * item) :=
  fold_left (fun o x => push dead o x it) l out.

Definition extra (c : bool) (f : item -> bool) (it : item) : list item := if c && f it then [it] else [].

Lemma deliver_eq s x it :
  deliver s x it = mk_sst (q_reg s) (q_subs s) (q_ntok s) (q_dead s) (push (q_dead s) (q_out s) x it) (q_res s).
Proof.
  unfold deliver, push. destruct s as [rg sb nt dd ou re]; cbn [q_reg q_subs q_ntok q_dead q_out q_res].
  destruct (mem x dd); reflexivity.
Qed.

Lemma deliver_all_eq l s it :
  deliver_all s l it = mk_sst (q_reg s) (q_subs s) (q_ntok s) (q_dead s) (push_all (q_dead s) (q_out s) l it) (q_res s).
Proof.
  unfold deliver_all, push_all. revert s. induction l as [|x l IH]; intros s; cbn [fold_left]; [destruct s; reflexivity|].
  rewrite IH, deliver_eq. reflexivity.
Qed.

Lemma deliverB_eq rs x it :
  deliverB rs x it = mk_rst (r_a rs) (r_relB rs) (r_deadB rs) (r_net rs) (r_gone rs) (r_pend rs) (push (r_deadB rs) (r_outB rs) x it).
Proof.
  unfold deliverB, push. destruct rs as [a rl dd nt gn pd ou]; cbn [r_a r_relB r_deadB r_net r_gone r_pend r_outB].
  destruct (mem x dd); reflexivity.
Qed.

Lemma deliverB_all_eq l rs it :
  deliverB_all rs l it =
  mk_rst (r_a rs) (r_relB rs) (r_deadB rs) (r_net rs) (r_gone rs) (r_pend rs) (push_all (r_deadB rs) (r_outB rs) l it).
Proof.
  unfold deliverB_all, push_all. revert rs. induction l as [|x l IH]; intros rs; cbn [fold_left]; [destruct rs; reflexivity|].
  rewrite IH, deliverB_eq. reflexivity.
Qed.

Lemma sinbox_app f y l1 l2 : sinbox f y (l1 ++ l2) = sinbox f y l1 ++ sinbox f y l2.
Proof. unfold sinbox. rewrite filter_app, map_app. reflexivity. Qed.

Lemma sinbox_push f y dead out x it :
  sinbox f y (push dead out x it) = sinbox f y out ++ extra (Nat.eqb x y && negb (mem x dead)) f it.
Proof.
  unfold push, extra. destruct (mem x dead); cbn [negb].
  - rewrite andb_false_r. cbn. rewrite app_nil_r. reflexivity.
  - rewrite sinbox_app. f_equal. unfold sinbox. cbn. rewrite andb_true_r. destruct (Nat.eqb x y && f it); reflexivity.
Qed.

Lemma extra_false f it : extra false f it = [].
Proof. reflexivity. Qed.

Lemma sinbox_push_all f y dead it l : NoDup l -> forall out,
  sinbox f y (push_all dead out l it) = sinbox f y out ++ extra (mem y l && negb (mem y dead)) f it.
Proof.
  unfold push_all. induction 1 as [|x l Hx Hnd IH]; intros out; cbn [fold_left].
  - cbn. rewrite app_nil_r. reflexivity.
  - rewrite IH, sinbox_push, <- app_assoc. f_equal. rewrite mem_cons. destruct (Nat.eqb_spec x y) as [->|Hn].
    + rewrite Nat.eqb_refl. cbn [orb andb]. rewrite (notin_mem_false _ _ Hx). cbn [andb]. rewrite extra_false, app_nil_r. reflexivity.
    + destruct (Nat.eqb_spec y x) as [E|_]; [congruence|]. reflexivity.
Qed.

(* deliveries to the owner never reach an actor of B *)
Definition regown (s : sst) : option nat := option_map g_owner (q_reg s).
Definition OwnA (bs : list nat) (s : sst) : Prop :=
  match regown s with Some w => mem w bs = false | None => True end.

Definition quietB (bs : list nat) (s s' : sst) : Prop :=
  q_subs s' = q_subs s /\ q_dead s' = q_dead s /\ regown s' = regown s /\
  (forall f y, mem y bs = true -> sinbox f y (q_out s') = sinbox f y (q_out s)).

Lemma quietB_refl bs s : quietB bs s s.
Proof. repeat split. Qed.

Lemma quietB_trans bs s1 s2 s3 : quietB bs s1 s2 -> quietB bs s2 s3 -> quietB bs s1 s3.
Proof.
  intros (A1 & A2 & A3 & A4) (B1 & B2 & B3 & B4). repeat split; try congruence.
  intros f y Hy. rewrite B4, A4; auto.
Qed.

Lemma OwnA_quietB bs s s' : quietB bs s s' -> OwnA bs s -> OwnA bs s'.
Proof. intros (_ & _ & A & _). unfold OwnA. rewrite A. auto. Qed.

Lemma sinbox_deliver_A bs s w it f y : mem w bs = false -> mem y bs = true ->
  sinbox f y (q_out (deliver s w it)) = sinbox f y (q_out s).
Proof.
  intros Hw Hy. rewrite deliver_eq. cbn [q_out]. rewrite sinbox_push.
  destruct (Nat.eqb_spec w y); [congruence|]. cbn. rewrite app_nil_r. reflexivity.
Qed.

Lemma seq_dec_quiet bs s : OwnA bs s -> quietB bs s (seq_dec s).
Proof.
  unfold OwnA, regown, seq_dec. destruct (q_reg s) as [g|] eqn:Hg; cbn [option_map]; intros Ho; [|apply quietB_refl].
  destruct (g_notify g && (g_cnt g - 1 <=? 0)%Z).
  - rewrite deliver_eq. unfold quietB, regown. cbn [q_subs q_dead q_reg q_out q_set_reg option_map g_add g_owner].
    rewrite Hg. split; [reflexivity|split; [reflexivity|split; [reflexivity|]]]. intros f y Hy. rewrite sinbox_push.
    destruct (Nat.eqb_spec (g_owner g) y); [congruence|]. cbn. rewrite app_nil_r. reflexivity.
  - unfold quietB, regown. cbn. rewrite Hg. repeat split.
Qed.

Lemma seq_dec_loop_quiet bs {K} (ks : list K) s : OwnA bs s -> quietB bs s (fold_left (fun s _ => seq_dec s) ks s).
Proof.
  revert s. induction ks as [|k ks IH]; intros s Ho; cbn [fold_left]; [apply quietB_refl|].
  eapply quietB_trans; [apply seq_dec_quiet; exact Ho|]. apply IH. eapply OwnA_quietB; [apply seq_dec_quiet|]; exact Ho.
Qed.

Lemma seq_dec_set_subs s l : seq_dec (q_set_subs s l) = q_set_subs (seq_dec s) l.
Proof.
  unfold seq_dec. cbn [q_set_subs q_reg]. destruct (q_reg s) as [g|]; [|reflexivity].
  destruct (g_notify g && (g_cnt g - 1 <=? 0)%Z); [|reflexivity]. rewrite !deliver_eq. reflexivity.
Qed.

Lemma seq_dec_loop_set_subs {K} (ks : list K) s l :
  fold_left (fun s _ => seq_dec s) ks (q_set_subs s l) = q_set_subs (fold_left (fun s _ => seq_dec s) ks s) l.
Proof. revert s. induction ks as [|k ks IH]; intros s; cbn [fold_left]; [reflexivity|]. rewrite seq_dec_set_subs. apply IH. Qed.

(* ---- the simulation invariant ---- *)
Definition Sim (bs : list nat) (rs : rst) (s : sst) : Prop :=
  r_a rs = s /\ r_net rs = [] /\ r_gone rs = [] /\ r_pend rs = [] /\
  r_relB rs = filter (onB bs) (q_subs s) /\
  (forall y, mem y bs = true -> mem y (r_deadB rs) = mem y (q_dead s)) /\
  OwnA bs s /\ SeqInv s /\
  (forall f y, mem y bs = true -> sinbox f y (r_outB rs) = sinbox f y (q_out s)).

Lemma Sim_intro bs s' rl dd ou :
  SeqInv s' -> OwnA bs s' -> rl = filter (onB bs) (q_subs s') ->
  (forall y, mem y bs = true -> mem y dd = mem y (q_dead s')) ->
  (forall f y, mem y bs = true -> sinbox f y ou = sinbox f y (q_out s')) ->
  Sim bs (mk_rst s' rl dd [] [] [] ou) s'.
Proof. intros. unfold Sim. cbn. repeat (split; [solve [auto]|]). auto. Qed.

Lemma sim_quiet bs s s' dd ou :
  (forall y, mem y bs = true -> mem y dd = mem y (q_dead s)) ->
  (forall f y, mem y bs = true -> sinbox f y ou = sinbox f y (q_out s)) ->
  SeqInv s' -> OwnA bs s' ->
  filter (onB bs) (q_subs s') = filter (onB bs) (q_subs s) ->
  (forall y, mem y bs = true -> mem y (q_dead s') = mem y (q_dead s)) ->
  (forall f y, mem y bs = true -> sinbox f y (q_out s') = sinbox f y (q_out s)) ->
  Sim bs (mk_rst s' (filter (onB bs) (q_subs s)) dd [] [] [] ou) s'.
Proof.
  intros Hd Ho HI Hw Hs Hd' Ho'. apply Sim_intro; auto.
  - intros y Hy. rewrite Hd, Hd'; auto.
  - intros f y Hy. rewrite Ho, Ho'; auto.
Qed.

Lemma OwnA_regown bs s s' : regown s' = regown s -> OwnA bs s -> OwnA bs s'.
Proof. unfold OwnA. intros ->. auto. Qed.

(* ---- explicit forms of the fan-outs ---- *)
Lemma seq_terminate_event_eq s r :
  seq_terminate_event s r =
  mk_sst None [] (q_ntok s) (q_dead s)
    (push_all (q_dead s) (push_all (q_dead s) (q_out s) (rels_of_kind (q_subs s) KLink) (IExit r))
              (rels_of_kind (q_subs s) KMon) (IDown r)) (q_res s).
Proof. unfold seq_terminate_event. rewrite !deliver_all_eq. reflexivity. Qed.

Lemma handleB_term_eq rs r :
  handleB rs (FTerm r) =
  mk_rst (r_a rs) [] (r_deadB rs) (r_net rs) (r_gone rs) (r_pend rs)
    (push_all (r_deadB rs) (push_all (r_deadB rs) (r_outB rs) (rels_of_kind (r_relB rs) KLink) (IExit r))
              (rels_of_kind (r_relB rs) KMon) (IDown r)).
Proof. unfold handleB. rewrite !deliverB_all_eq. reflexivity. Qed.

Lemma handleB_ev_eq rs p seq :
  handleB rs (FEv p seq) =
  mk_rst (r_a rs) (r_relB rs) (r_deadB rs) (r_net rs) (r_gone rs) (r_pend rs)
    (push_all (r_deadB rs) (r_outB rs) (nodup Nat.eq_dec (map fst (r_relB rs))) (IEv p seq)).
Proof. unfold handleB. rewrite !deliverB_all_eq. reflexivity. Qed.

Lemma handleB_nil rs f : r_relB rs = [] -> handleB rs f = rs.
Proof.
  intros H. destruct f; [rewrite handleB_ev_eq | rewrite handleB_term_eq]; rewrite H; destruct rs; cbn in *; subst; reflexivity.
Qed.

Lemma out_ev bs subs dd dead ou out it :
  (forall y, mem y bs = true -> mem y dd = mem y dead) ->
  (forall f y, mem y bs = true -> sinbox f y ou = sinbox f y out) ->
  forall f y, mem y bs = true ->
  sinbox f y (push_all dd ou (nodup Nat.eq_dec (map fst (filter (onB bs) subs))) it) =
  sinbox f y (push_all dead out (nodup Nat.eq_dec (map fst subs)) it).
Proof.
  intros Hd Ho f y Hy. rewrite !sinbox_push_all by apply NoDup_nodup.
  rewrite !mem_nodup, mem_fst_filter_onB, Hd, Ho by assumption. reflexivity.
Qed.

Lemma out_term bs subsB subs dd dead ou out r :
  NoDup subsB -> NoDup subs ->
  (forall y k, mem y bs = true -> has_rel subsB y k = has_rel subs y k) ->
  (forall y, mem y bs = true -> mem y dd = mem y dead) ->
  (forall f y, mem y bs = true -> sinbox f y ou = sinbox f y out) ->
  forall f y, mem y bs = true ->
  sinbox f y (push_all dd (push_all dd ou (rels_of_kind subsB KLink) (IExit r)) (rels_of_kind subsB KMon) (IDown r)) =
  sinbox f y (push_all dead (push_all dead out (rels_of_kind subs KLink) (IExit r)) (rels_of_kind subs KMon) (IDown r)).
Proof.
  intros N1 N2 Hr Hd Ho f y Hy. rewrite !sinbox_push_all by (apply NoDup_rels_of_kind; assumption).
  rewrite !mem_rels_of_kind, !Hr, Hd, Ho by assumption. reflexivity.
Qed.

(* ---- an actor of A ---- *)
Lemma frames_of_shape bs s io : frames_of bs s io = [] \/ exists f, frames_of bs s io = [f].
Proof.
  destruct io as [i o]. unfold frames_of. destruct (mem i (q_dead s)); [left; reflexivity|].
  destruct (q_reg s) as [g|]; [|left; reflexivity].
  destruct o; try (left; reflexivity);
  match goal with |- context [if ?c then _ else _] => destruct c end; eauto.
Qed.

Lemma q_op_A bs rs i o : mem i bs = false -> r_net rs = [] ->
  q_op bs rs (i, o) =
  match frames_of bs (r_a rs) (i, o) with
  | [] => set_a rs (seq_op (r_a rs) (i, o))
  | f :: _ => handleB (set_a rs (seq_op (r_a rs) (i, o))) f
  end.
Proof.
  intros Hi Hn. unfold q_op, q_labels. rewrite Hi. cbn [rrun rstep]. rewrite Hi.
  destruct rs as [a rl dd nt gn pd ou]. cbn [r_net r_a] in *. subst nt.
  generalize (seq_op a (i, o)). intros a'.
  destruct (frames_of_shape bs a (i, o)) as [E|[f E]]; rewrite E.
  - reflexivity.
  - cbn. destruct f; reflexivity.
Qed.

Lemma filter_onB_snoc_A bs l i (k : kind) : mem i bs = false -> filter (onB bs) (l ++ [(i, k)]) = filter (onB bs) l.
Proof. intros Hi. rewrite filter_app_single. unfold onB at 2. cbn [fst]. rewrite Hi. apply app_nil_r. Qed.

Lemma mem_cons_A bs y i l : mem y bs = true -> mem i bs = false -> mem y (i :: l) = mem y l.
Proof. intros Hy Hi. rewrite mem_cons, (onB_neq bs y i Hy Hi). reflexivity. Qed.

Lemma step_A bs rs s i o : Sim bs rs s -> mem i bs = false -> Sim bs (q_op bs rs (i, o)) (seq_op s (i, o)).
Proof.
  intros (Ha & Hn & Hgo & Hp & Hrel & Hdead & Hown & HI & Hout) Hi.
  rewrite (q_op_A bs rs i o Hi Hn).
  destruct rs as [a rl dd nt gn pd ou]. cbn [r_a r_relB r_deadB r_net r_gone r_pend r_outB] in *. subst a nt gn pd rl.
  assert (HI' := seq_op_inv s (i, o) HI). revert HI'.
  pose proof (sim_quiet bs s) as Q. specialize (fun s' => Q s' dd ou Hdead Hout).
  unfold set_a. cbn [r_a r_relB r_deadB r_net r_gone r_pend r_outB].
  unfold frames_of, seq_op. destruct (mem i (q_dead s)) eqn:Hd.
  { intros HI'. apply Q; auto. }
  destruct o as [cap nf|tok seq|k|k| |].
  - (* ORegister *)
    unfold OwnA, regown in Hown. destruct (q_reg s) as [g|] eqn:Hg; cbn [option_map] in Hown; intros HI'; apply Q; auto;
      unfold OwnA, regown; cbn; rewrite ?Hg; cbn; auto.
  - (* OPublish *)
    unfold OwnA, regown in Hown. destruct (q_reg s) as [g|] eqn:Hg; cbn [option_map] in Hown.
    2:{ intros HI'; apply Q; auto. unfold OwnA, regown; cbn; rewrite ?Hg; cbn; auto. }
    destruct (Nat.eqb (g_token g) tok) eqn:Et; cbn [andb].
    2:{ intros HI'; apply Q; auto. unfold OwnA, regown; cbn; rewrite ?Hg; cbn; auto. }
    rewrite deliver_all_eq. cbn [q_set_reg q_reg q_subs q_ntok q_dead q_out q_res q_ret].
    match goal with |- _ -> Sim _ ?R ?S =>
      assert (E : R = handleB (mk_rst S (filter (onB bs) (q_subs s)) dd [] [] [] ou) (FEv i seq)) end.
    { destruct (has_remote bs (q_subs s)) eqn:Hr; [reflexivity|]. rewrite handleB_nil; [reflexivity|].
      cbn [r_relB]. apply has_remote_false. exact Hr. }
    rewrite E. clear E. rewrite handleB_ev_eq. cbn [r_a r_relB r_deadB r_net r_gone r_pend r_outB].
    intros HI'. apply Sim_intro; [exact HI' | unfold OwnA, regown; cbn; exact Hown | reflexivity | exact Hdead |].
    cbn [q_out q_dead q_ret]. apply out_ev; assumption.
  - (* OSub *)
    unfold OwnA, regown in Hown. destruct (q_reg s) as [g|] eqn:Hg; cbn [option_map] in Hown.
    2:{ destruct (has_rel (q_subs s) i k); intros HI'; (apply Q; [exact HI' | unfold OwnA, regown; cbn; rewrite Hg; exact I | reflexivity | reflexivity | reflexivity]). }
    destruct (has_rel (q_subs s) i k) eqn:Hr.
    { intros HI'. apply Q; [exact HI' | unfold OwnA, regown; cbn; rewrite Hg; exact Hown | reflexivity | reflexivity | reflexivity]. }
    destruct (g_notify g && (g_cnt g + 1 <=? 1)%Z); [rewrite deliver_eq|];
      cbn [q_set_reg q_set_subs q_reg q_subs q_ntok q_dead q_out q_res q_ret g_add g_owner]; intros HI';
      (apply Q; [exact HI' | unfold OwnA, regown; cbn; exact Hown | cbn; apply filter_onB_snoc_A; exact Hi | reflexivity |]).
    + intros f y Hy. cbn [q_out q_ret]. rewrite sinbox_push. destruct (Nat.eqb_spec (g_owner g) y); [congruence|]. cbn. apply app_nil_r.
    + reflexivity.
  - (* OUnsub *)
    unfold OwnA, regown in Hown. destruct (q_reg s) as [g|] eqn:Hg; cbn [option_map] in Hown.
    2:{ destruct (has_rel (q_subs s) i k); intros HI'; (apply Q; [exact HI' | unfold OwnA, regown; cbn; rewrite Hg; exact I | reflexivity | reflexivity | reflexivity]). }
    destruct (has_rel (q_subs s) i k) eqn:Hr.
    2:{ intros HI'. apply Q; [exact HI' | unfold OwnA, regown; cbn; rewrite Hg; exact Hown | reflexivity | reflexivity | reflexivity]. }
    assert (Ho1 : OwnA bs (q_set_subs s (del_rel (q_subs s) i k))) by (unfold OwnA, regown; cbn; rewrite Hg; exact Hown).
    destruct (seq_dec_quiet bs _ Ho1) as (Q1 & Q2 & Q3 & Q4).
    intros HI'. apply Q; [exact HI' | | | | ].
    + eapply OwnA_regown; [|exact Ho1]. exact Q3.
    + cbn [q_ret q_subs]. rewrite Q1. cbn. apply filter_onB_del_rel_A. exact Hi.
    + intros y Hy. cbn [q_ret q_dead]. rewrite Q2. reflexivity.
    + intros f y Hy. cbn [q_ret q_out]. rewrite Q4 by exact Hy. reflexivity.
  - (* OUnregister *)
    unfold OwnA, regown in Hown. destruct (q_reg s) as [g|] eqn:Hg; cbn [option_map] in Hown.
    2:{ intros HI'; (apply Q; [exact HI' | unfold OwnA, regown; cbn; rewrite Hg; exact I | reflexivity | reflexivity | reflexivity]). }
    destruct (Nat.eqb (g_owner g) i) eqn:Eo; cbn [andb].
    2:{ intros HI'. apply Q; [exact HI' | unfold OwnA, regown; cbn; rewrite Hg; exact Hown | reflexivity | reflexivity | reflexivity]. }
    rewrite seq_terminate_event_eq.
    match goal with |- _ -> Sim _ ?R ?S =>
      assert (E : R = handleB (mk_rst S (filter (onB bs) (q_subs s)) dd [] [] [] ou) (FTerm 0)) end.
    { destruct (has_remote bs (q_subs s)) eqn:Hr; [reflexivity|]. rewrite handleB_nil; [reflexivity|].
      cbn [r_relB]. apply has_remote_false. exact Hr. }
    rewrite E. clear E. rewrite handleB_term_eq. cbn [r_a r_relB r_deadB r_net r_gone r_pend r_outB].
    intros HI'. apply Sim_intro; [exact HI' | unfold OwnA, regown; cbn; exact I | reflexivity | exact Hdead |].
    cbn [q_out q_dead q_ret]. destruct HI as [Hnd _]. apply out_term; auto.
    + apply NoDup_filter. exact Hnd.
    + intros y k Hy. apply has_rel_filter_onB. exact Hy.
  - (* OTerminate *)
    set (s1 := mk_sst (q_reg s) (del_actor (q_subs s) i) (q_ntok s) (i :: q_dead s) (q_out s) (q_res s)).
    assert (Ho1 : OwnA bs s1) by exact Hown.
    pose proof (seq_dec_loop_quiet bs (rels_of_actor (q_subs s) i) s1 Ho1) as (Q1 & Q2 & Q3 & Q4).
    set (s2 := fold_left (fun s _ => seq_dec s) (rels_of_actor (q_subs s) i) s1) in *.
    assert (Ho2 : OwnA bs s2) by (eapply OwnA_regown; [exact Q3 | exact Ho1]).
    assert (Hq : SeqInv s2 -> Sim bs (mk_rst s2 (filter (onB bs) (q_subs s)) dd [] [] [] ou) s2).
    { intros HI'. apply Q; [exact HI' | exact Ho2 | | | ].
      - rewrite Q1. cbn. apply filter_onB_del_actor_A. exact Hi.
      - intros y Hy. rewrite Q2. cbn [s1 q_dead]. apply (mem_cons_A bs); assumption.
      - intros f y Hy. rewrite Q4 by exact Hy. reflexivity. }
    unfold regown in Q3. cbn [s1 q_reg] in Q3. unfold OwnA, regown in Hown.
    destruct (q_reg s) as [g|] eqn:Hg; destruct (q_reg s2) as [g2|] eqn:Hg2; cbn [option_map] in Q3, Hown; try discriminate Q3;
      [|exact Hq].
    injection Q3 as Q3. rewrite Q3.
    destruct (Nat.eqb (g_owner g) i) eqn:Eo; cbn [andb]; [|exact Hq].
    rewrite seq_terminate_event_eq.
    match goal with |- _ -> Sim _ ?R ?S =>
      assert (E : R = handleB (mk_rst S (filter (onB bs) (q_subs s)) dd [] [] [] ou) (FTerm 1)) end.
    { destruct (has_remote bs (q_subs s)) eqn:Hr; [reflexivity|]. rewrite handleB_nil; [reflexivity|].
      cbn [r_relB]. apply has_remote_false. exact Hr. }
    rewrite E. clear E. rewrite handleB_term_eq. cbn [r_a r_relB r_deadB r_net r_gone r_pend r_outB].
    intros HI'. apply Sim_intro; [exact HI' | unfold OwnA, regown; cbn; exact I | reflexivity | |].
    + intros y Hy. cbn [q_dead]. rewrite Q2. cbn [s1 q_dead]. rewrite (mem_cons_A bs) by assumption. apply Hdead. exact Hy.
    + cbn [q_out q_dead]. rewrite Q1, Q2. cbn [s1 q_subs q_dead]. destruct HI as [Hnd _]. apply out_term.
      * apply NoDup_filter. exact Hnd.
      * apply NoDup_filter. exact Hnd.
      * intros y k Hy. rewrite has_rel_filter_onB by exact Hy. symmetry. apply has_rel_del_actor_neq.
        intros ->. congruence.
      * intros y Hy. rewrite (mem_cons_A bs) by assumption. apply Hdead. exact Hy.
      * intros f y Hy. rewrite Q4 by exact Hy. cbn [s1 q_out]. apply Hout. exact Hy.
Qed.

(* ---- an actor of B: the label sequences computed on a quiet state ---- *)
Lemma sub_run bs s rl dd ou x k : mem x bs = true -> mem x dd = false ->
  rrun bs [LSubReq x k; LSubFin x] (mk_rst s rl dd [] [] [] ou) =
  if has_rel rl x k then mk_rst (q_ret s x (RErr 4)) rl dd [] [] [] ou
  else mk_rst (q_ret (fst (a_sub s x k)) x (snd (a_sub s x k)))
              (if is_list (snd (a_sub s x k)) then rl ++ [(x, k)] else rl) dd [] [] [] ou.
Proof.
  intros Hx Hd. cbn -[has_rel mem a_sub]. rewrite Hx, Hd. cbn -[has_rel mem a_sub].
  destruct (has_rel rl x k) eqn:Hr.
  - reflexivity.
  - destruct (a_sub s x k) as [a' r]. cbn -[has_rel mem a_sub]. rewrite Nat.eqb_refl. cbn -[has_rel mem a_sub].
    rewrite Hr. destruct (is_list r); unfold ret, drop_pend, set_relB, set_pend, set_a; cbn -[has_rel mem a_sub];
      rewrite Nat.eqb_refl; reflexivity.
Qed.

Lemma unsub_run bs s rl dd ou x k : mem x bs = true -> mem x dd = false ->
  rrun bs [LUnsubReq x k; LUnsubFin x] (mk_rst s rl dd [] [] [] ou) =
  if has_rel rl x k
  then mk_rst (q_ret (fst (a_unsub s x k)) x (snd (a_unsub s x k)))
              (if is_ok (snd (a_unsub s x k)) then del_rel rl x k else rl) dd [] [] [] ou
  else mk_rst (q_ret s x (RErr 5)) rl dd [] [] [] ou.
Proof.
  intros Hx Hd. cbn -[has_rel mem a_unsub del_rel]. rewrite Hx, Hd. cbn -[has_rel mem a_unsub del_rel].
  destruct (has_rel rl x k) eqn:Hr.
  - destruct (a_unsub s x k) as [a' r]. cbn -[has_rel mem a_unsub del_rel]. rewrite Nat.eqb_refl. cbn -[has_rel mem a_unsub del_rel].
    destruct (is_ok r); unfold ret, drop_pend, set_relB, set_pend, set_a; cbn -[has_rel mem a_unsub del_rel];
      rewrite Nat.eqb_refl; reflexivity.
  - reflexivity.
Qed.

Lemma dead_run bs s rl dd ou x o : mem x bs = true -> mem x dd = true ->
  q_op bs (mk_rst s rl dd [] [] [] ou) (x, o) = mk_rst s rl dd [] [] [] ou.
Proof.
  intros Hx Hd. unfold q_op, q_labels. rewrite Hx.
  destruct o; cbn -[mem]; rewrite ?Hx, ?Hd; cbn -[mem]; reflexivity.
Qed.

Definition gone_fold (a : sst) (x : nat) (ks : list kind) : sst := fold_left (fun a k => fst (a_unsub a x k)) ks a.

Lemma term_run bs s rl dd ou x : mem x bs = true -> mem x dd = false -> length (rels_of_actor rl x) <= 2 ->
  rrun bs [LTermB x; LGone; LGone] (mk_rst s rl dd [] [] [] ou) =
  mk_rst (gone_fold (mark_dead s x) x (rels_of_actor rl x)) (del_actor rl x) (x :: dd) [] [] [] ou.
Proof.
  intros Hx Hd Hl. cbn -[mem a_unsub del_actor rels_of_actor mark_dead]. rewrite Hx, Hd. cbn -[mem a_unsub del_actor rels_of_actor mark_dead].
  destruct (rels_of_actor rl x) as [|k1 [|k2 [|k3 ks]]]; cbn -[mem a_unsub del_actor rels_of_actor mark_dead] in *; try reflexivity. lia.
Qed.

(* ---- a terminating consumer of B: its requests handled one by one on A ---- *)
Lemma in_rels_of_actor l x k : In k (rels_of_actor l x) <-> In (x, k) l.
Proof.
  unfold rels_of_actor. rewrite in_map_iff. split.
  - intros ([y k'] & E & Hin). cbn in E. subst k'. apply filter_In in Hin as [Hin E]. cbn in E. apply Nat.eqb_eq in E. subst. exact Hin.
  - intros Hin. exists (x, k). split; [reflexivity|]. apply filter_In. split; [exact Hin|]. cbn. apply Nat.eqb_refl.
Qed.

Lemma NoDup_rels_of_actor l x : NoDup l -> NoDup (rels_of_actor l x).
Proof.
  induction l as [|[a k] l IH]; intros H; [constructor|]. inversion H; subst. unfold rels_of_actor. cbn [filter fst].
  destruct (Nat.eqb_spec a x); [|apply IH; assumption]. subst. cbn [map snd]. constructor; [|apply IH; assumption].
  intros Hin. apply in_rels_of_actor in Hin. contradiction.
Qed.

Lemma kinds_le2 (ks : list kind) : NoDup ks -> length ks <= 2.
Proof.
  intros H. apply (NoDup_incl_length (l' := [KLink; KMon]) H). intros []; cbn; auto.
Qed.

Lemma has_rel_del_rel_neq l x k k' : k <> k' -> has_rel (del_rel l x k) x k' = has_rel l x k'.
Proof.
  intros Hn. unfold has_rel, del_rel. induction l as [|[a k2] l IH]; [reflexivity|]. cbn [filter].
  destruct (rel_eqb (x, k) (a, k2)) eqn:E; cbn [negb existsb]; rewrite IH; [|reflexivity].
  apply rel_eqb_eq in E. injection E as <- <-. unfold rel_eqb at 2. cbn [fst snd].
  destruct k, k'; try congruence; cbn; rewrite andb_false_r; reflexivity.
Qed.

Lemma seq_dec_reg s : q_reg s <> None -> q_reg (seq_dec s) <> None.
Proof.
  unfold seq_dec. destruct (q_reg s) as [g|] eqn:Hg; [|congruence]. intros _.
  destruct (g_notify g && (g_cnt g - 1 <=? 0)%Z); [rewrite deliver_eq|]; cbn; congruence.
Qed.

Lemma gone_fold_eq x ks : forall a, q_reg a <> None -> NoDup ks ->
  (forall k, In k ks -> has_rel (q_subs a) x k = true) ->
  gone_fold a x ks =
  q_set_subs (fold_left (fun s _ => seq_dec s) ks a) (fold_left (fun l k => del_rel l x k) ks (q_subs a)).
Proof.
  unfold gone_fold. induction ks as [|k ks IH]; intros a Hreg Hnd Hall; cbn [fold_left].
  - destruct a; reflexivity.
  - inversion Hnd as [|? ? Hk Hnd']; subst.
    assert (E : fst (a_unsub a x k) = q_set_subs (seq_dec a) (del_rel (q_subs a) x k)).
    { unfold a_unsub. destruct (q_reg a) as [g|]; [|congruence]. rewrite (Hall k (or_introl eq_refl)). cbn [fst].
      apply seq_dec_set_subs. }
    rewrite E. rewrite IH; [| cbn; apply seq_dec_reg; exact Hreg | exact Hnd' |].
    + rewrite seq_dec_loop_set_subs. reflexivity.
    + intros k' Hk'. cbn [q_set_subs q_subs]. rewrite has_rel_del_rel_neq; [apply Hall; right; exact Hk'|].
      intros ->. contradiction.
Qed.

Lemma filter_filter_and {A} (f g : A -> bool) l : filter f (filter g l) = filter (fun a => g a && f a) l.
Proof. induction l as [|a l IH]; [reflexivity|]. cbn. destruct (g a); cbn; [destruct (f a)|]; rewrite IH; reflexivity. Qed.

Lemma fold_del_rel l x ks :
  fold_left (fun l k => del_rel l x k) ks l =
  filter (fun e => negb (Nat.eqb (fst e) x && existsb (kind_eqb (snd e)) ks)) l.
Proof.
  revert l. induction ks as [|k ks IH]; intros l; cbn [fold_left].
  - symmetry. apply filter_all_id. intros e _. cbn. rewrite andb_false_r. reflexivity.
  - rewrite IH. unfold del_rel. rewrite filter_filter_and. apply filter_ext. intros [a k']. unfold rel_eqb. cbn [fst snd existsb].
    rewrite (Nat.eqb_sym x a). destruct (Nat.eqb a x); cbn; [|reflexivity].
    destruct k, k'; cbn; reflexivity.
Qed.

Lemma fold_del_rel_actor l x : fold_left (fun l k => del_rel l x k) (rels_of_actor l x) l = del_actor l x.
Proof.
  rewrite fold_del_rel. unfold del_actor. apply filter_ext_in. intros [a k] Hin. cbn [fst snd].
  destruct (Nat.eqb_spec a x); [|reflexivity]. subst. cbn [andb]. f_equal.
  apply existsb_exists. exists k. split; [apply in_rels_of_actor; exact Hin | apply kind_eqb_refl].
Qed.

Lemma in_has_rel l x k : In (x, k) l -> has_rel l x k = true.
Proof. intros H. destruct (has_rel l x k) eqn:E; [reflexivity|]. exfalso. exact (has_rel_false _ _ _ E H). Qed.

Lemma step_B bs rs s x o : Sim bs rs s -> mem x bs = true -> consumer_op o = true ->
  Sim bs (q_op bs rs (x, o)) (seq_op s (x, o)).
Proof.
  intros (Ha & Hn & Hgo & Hp & Hrel & Hdead & Hown & HI & Hout) Hx Hc.
  destruct rs as [a rl dd nt gn pd ou]. cbn [r_a r_relB r_deadB r_net r_gone r_pend r_outB] in *. subst a nt gn pd rl.
  assert (HI' := seq_op_inv s (x, o) HI). revert HI'.
  pose proof (sim_quiet bs s) as Q. specialize (fun s' => Q s' dd ou Hdead Hout).
  assert (Hdx := Hdead x Hx).
  destruct (mem x (q_dead s)) eqn:Hd.
  { rewrite dead_run by assumption. unfold seq_op. rewrite Hd. intros HI'. apply Q; auto. }
  unfold q_op, q_labels. rewrite Hx. unfold seq_op. rewrite Hd.
  destruct o as [cap nf|tok seq|k|k| |]; try discriminate Hc.
  - (* OSub *)
    rewrite sub_run by assumption. rewrite has_rel_filter_onB by exact Hx.
    unfold OwnA, regown in Hown.
    destruct (has_rel (q_subs s) x k) eqn:Hr.
    { intros HI'. apply Q; [exact HI' | exact Hown | reflexivity | reflexivity | reflexivity]. }
    unfold a_sub. rewrite Hr. destruct (q_reg s) as [g|] eqn:Hg; cbn [option_map fst snd is_list] in *.
    2:{ intros HI'. apply Q; [exact HI' | unfold OwnA, regown; cbn; rewrite Hg; exact I | reflexivity | reflexivity | reflexivity]. }
    destruct (g_notify g && (g_cnt g + 1 <=? 1)%Z); [rewrite deliver_eq|];
      cbn [q_set_reg q_set_subs q_reg q_subs q_ntok q_dead q_out q_res g_add g_owner]; intros HI';
      (apply Sim_intro; [exact HI' | unfold OwnA, regown; cbn; exact Hown
                        | cbn [q_ret q_subs q_set_reg q_set_subs]; rewrite filter_app_single; unfold onB at 3; cbn [fst]; rewrite Hx; reflexivity
                        | exact Hdead |]).
    + intros f y Hy. cbn [q_out q_ret]. rewrite sinbox_push. destruct (Nat.eqb_spec (g_owner g) y); [congruence|].
      cbn. rewrite app_nil_r. apply Hout. exact Hy.
    + exact Hout.
  - (* OUnsub *)
    rewrite unsub_run by assumption. rewrite has_rel_filter_onB by exact Hx.
    destruct (has_rel (q_subs s) x k) eqn:Hr.
    2:{ intros HI'. apply Q; [exact HI' | exact Hown | reflexivity | reflexivity | reflexivity]. }
    unfold a_unsub. rewrite Hr. destruct (q_reg s) as [g|] eqn:Hg; cbn [fst snd is_ok].
    2:{ intros HI'. apply Q; [exact HI' | exact Hown | reflexivity | reflexivity | reflexivity]. }
    assert (Ho1 : OwnA bs (q_set_subs s (del_rel (q_subs s) x k))) by exact Hown.
    destruct (seq_dec_quiet bs _ Ho1) as (Q1 & Q2 & Q3 & Q4).
    intros HI'. apply Sim_intro; [exact HI' | | | | ].
    + eapply OwnA_regown; [|exact Ho1]. exact Q3.
    + cbn [q_ret q_subs]. rewrite Q1. cbn [q_set_subs q_subs]. unfold del_rel. apply filter_comm.
    + intros y Hy. cbn [q_ret q_dead]. rewrite Q2. apply Hdead. exact Hy.
    + intros f y Hy. cbn [q_ret q_out]. rewrite Q4 by exact Hy. apply Hout. exact Hy.
  - (* OTerminate *)
    destruct HI as [Hnd Hcnt].
    assert (Hks : rels_of_actor (filter (onB bs) (q_subs s)) x = rels_of_actor (q_subs s) x)
      by (apply rels_of_actor_filter_onB; exact Hx).
    assert (Hndk : NoDup (rels_of_actor (q_subs s) x)) by (apply NoDup_rels_of_actor; exact Hnd).
    rewrite term_run; [| exact Hx | exact Hdx | rewrite Hks; apply kinds_le2; exact Hndk].
    rewrite Hks.
    set (s1 := mk_sst (q_reg s) (del_actor (q_subs s) x) (q_ntok s) (x :: q_dead s) (q_out s) (q_res s)).
    assert (E1 : s1 = q_set_subs (mark_dead s x) (del_actor (q_subs s) x)) by reflexivity.
    set (ks := rels_of_actor (q_subs s) x) in *.
    set (m := fold_left (fun s _ => seq_dec s) ks (mark_dead s x)).
    assert (E2 : fold_left (fun s _ => seq_dec s) ks s1 = q_set_subs m (del_actor (q_subs s) x)).
    { rewrite E1. apply seq_dec_loop_set_subs. }
    assert (Ho1 : OwnA bs (mark_dead s x)) by exact Hown.
    pose proof (seq_dec_loop_quiet bs ks _ Ho1) as (Q1 & Q2 & Q3 & Q4). fold m in Q1, Q2, Q3, Q4.
    assert (E3 : gone_fold (mark_dead s x) x ks = q_set_subs m (del_actor (q_subs s) x)).
    { destruct (q_reg s) as [g|] eqn:Hg.
      - rewrite gone_fold_eq; [| cbn; rewrite Hg; discriminate | exact Hndk |].
        + fold m. cbn [mark_dead q_subs]. unfold ks. rewrite fold_del_rel_actor. reflexivity.
        + intros k Hk. cbn [mark_dead q_subs]. apply in_has_rel. apply in_rels_of_actor. exact Hk.
      - unfold m, ks. rewrite Hcnt. cbn. unfold mark_dead. rewrite Hcnt. reflexivity. }
    rewrite E2, E3.
    assert (E4 : match q_reg (q_set_subs m (del_actor (q_subs s) x)) with
                 | Some g => if Nat.eqb (g_owner g) x then seq_terminate_event (q_set_subs m (del_actor (q_subs s) x)) 1
                             else q_set_subs m (del_actor (q_subs s) x)
                 | None => q_set_subs m (del_actor (q_subs s) x)
                 end = q_set_subs m (del_actor (q_subs s) x)).
    { cbn [q_set_subs q_reg]. assert (Ho2 : OwnA bs m) by (eapply OwnA_regown; [exact Q3 | exact Ho1]).
      unfold OwnA, regown in Ho2. destruct (q_reg m) as [g2|]; [|reflexivity]. cbn [option_map] in Ho2.
      destruct (Nat.eqb_spec (g_owner g2) x); [congruence|reflexivity]. }
    rewrite E4. intros HI'. apply Sim_intro; [exact HI' | | | | ].
    + eapply OwnA_regown; [|exact Ho1]. exact Q3.
    + cbn [q_set_subs q_subs]. unfold del_actor. apply filter_comm.
    + intros y Hy. cbn [q_set_subs q_dead]. rewrite Q2. cbn [mark_dead q_dead]. rewrite !mem_cons, (Hdead y Hy). reflexivity.
    + intros f y Hy. cbn [q_set_subs q_out]. rewrite Q4 by exact Hy. cbn [mark_dead q_out]. apply Hout. exact Hy.
Qed.

(* ---- histories ---- *)
Lemma Sim_init bs : Sim bs rst0 sst0.
Proof.
  apply Sim_intro; try reflexivity; try exact I.
  split; cbn; [constructor | reflexivity].
Qed.

Lemma sim_hist bs h : forall rs s, Sim bs rs s -> valid_hist bs h = true ->
  Sim bs (fold_left (q_op bs) h rs) (fold_left seq_op h s).
Proof.
  induction h as [|[i o] h IH]; intros rs s HS Hv; cbn [fold_left]; [exact HS|].
  unfold valid_hist in Hv. cbn [forallb fst snd] in Hv. apply andb_true_iff in Hv as [H1 H2].
  apply IH; [|exact H2]. destruct (mem i bs) eqn:Hi.
  - apply step_B; [exact HS | exact Hi | exact H1].
  - apply step_A; [exact HS | exact Hi].
Qed.

Theorem quiet_refines_sequential : forall bs h,
  valid_hist bs h = true ->
  let rs := q_hist bs h in
  r_a rs = seq_hist h /\
  r_net rs = [] /\ r_gone rs = [] /\ r_pend rs = [] /\
  r_relB rs = filter (fun e => mem (fst e) bs) (q_subs (seq_hist h)) /\
  (forall f x, mem x bs = true -> sinbox f x (r_outB rs) = sinbox f x (q_out (seq_hist h))).
Proof.
  intros bs h Hv rs.
  destruct (sim_hist bs h rst0 sst0 (Sim_init bs) Hv) as (A & B & C & D & E & _ & _ & _ & F).
  repeat split; assumption.
Qed.

Print Assumptions quiet_refines_sequential.
