(* Correspondence + monitor definitions for histories with stuck subscribers (bounded mailbox, blocked
   handler) on a real node; cases written by go/harness/cmd/event (sub-command bounded). *)
From Ergo Require Import Common.Base Event.Model Event.Cases Event.Bounded.

(* b_stk: (actor, MailboxSize) of the subscribers whose HandleEvent blocks from the first event message to
   the end of the history; b_obs: what every actor logged (the stuck ones after they were released) *)
Record bcase := mk_bcase { b_n : nat; b_stk : stuck; b_hist : list (nat * op); b_obs : list obs }.

Definition bmodel_obs (c : bcase) : list obs := map (obs_seq (bseq_hist (b_stk c) (b_hist c))) (seq 0 (b_n c)).
Definition umodel_obs (c : bcase) : list obs := map (obs_seq (seq_hist (b_hist c))) (seq 0 (b_n c)).

(* model with bounded mailboxes = implementation, every actor, every list *)
Definition corr_bounded (c : bcase) : bool := list_eqb obs_eqb (bmodel_obs c) (b_obs c).

(* (actor, what the node WITHOUT stuck subscribers gives it, what the implementation gave it) *)
Definition rows (c : bcase) : list (nat * (obs * obs)) :=
  combine (seq 0 (b_n c)) (combine (umodel_obs c) (b_obs c)).
Definition shape_ok (c : bcase) : bool := Nat.eqb (length (b_obs c)) (b_n c).

Fixpoint subseq_b (a b : list pubm) : bool :=
  match b with
  | [] => match a with [] => true | _ => false end
  | y :: b' =>
      match a with
      | [] => true
      | x :: a' => if pubm_eqb x y then subseq_b a' b' else subseq_b a b'
      end
  end.

(* the publications made for x while it was subscribed, each once, in order ([expect]: theorem
   bounded_healthy_exactly_once) *)
Definition expected_evs (c : bcase) (x : nat) : list pubm := map ev_payload (expect x sst0 (b_hist c)).

(* every healthy subscriber sees every publication made after its subscription once, in order -
   whatever the stuck / full / terminated subscribers do *)
Definition spec_b_healthy (c : bcase) : bool :=
  shape_ok c &&
  forallb (fun r => let '(x, (_, o)) := r in
             match stuck_cap (b_stk c) x with
             | None => list_eqb pubm_eqb (expected_evs c x) (o_ev o) && nodup_b (o_ev o) && in_order (b_n c) (o_ev o)
             | Some _ => true
             end) (rows c).

(* a stuck subscriber: a sub-sequence (no repeat, in order) of the publications made for it, at most
   MailboxSize + 1 of them (theorem bounded_stuck_exactly_prefix: the first MailboxSize + 1) *)
Definition spec_b_stuck (c : bcase) : bool :=
  shape_ok c &&
  forallb (fun r => let '(x, (_, o)) := r in
             match stuck_cap (b_stk c) x with
             | Some cap => subseq_b (o_ev o) (expected_evs c x) && Nat.leb (length (o_ev o)) (S cap) &&
                           nodup_b (o_ev o) && in_order (b_n c) (o_ev o)
             | None => true
             end) (rows c).

(* return values of every call (errors, tokens, the returned last-N lists) are those of the node without
   stuck subscribers: a full mailbox is no error for the publisher and does not touch the buffer
   (theorem bounded_state_independent) *)
Definition spec_b_state (c : bcase) : bool :=
  shape_ok c && forallb (fun r => let '(_, (u, o)) := r in list_eqb res_eqb (o_res u) (o_res o)) (rows c).

(* exit / down at unregister, start / stop: once each, also for stuck subscribers *)
Definition spec_b_notify (c : bcase) : bool :=
  shape_ok c &&
  forallb (fun r => let '(_, (u, o)) := r in
             list_eqb item_eqb (o_sys u) (o_sys o) && list_eqb Nat.eqb (o_exit u) (o_exit o)) (rows c).

(* the case is about the theorem: the capacities are real bounds, stuck actors only subscribe, some stuck
   subscriber was full (a publication made for it was refused) and a healthy subscriber received something *)
Definition only_subs (c : bcase) (x : nat) : bool :=
  forallb (fun io => negb (Nat.eqb (fst io) x) || match snd io with OSub _ => true | _ => false end) (b_hist c).
Definition premise_bounded (c : bcase) : bool :=
  forallb (fun xc => Nat.leb 1 (snd xc) && only_subs c (fst xc)) (b_stk c) &&
  existsb (fun xc => Nat.ltb (S (snd xc)) (length (expected_evs c (fst xc)))) (b_stk c) &&
  existsb (fun r => let '(x, (_, o)) := r in
             match stuck_cap (b_stk c) x with None => negb (Nat.eqb (length (o_ev o)) 0) | Some _ => false end) (rows c).
