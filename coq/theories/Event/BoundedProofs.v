(* C18, bounded / stuck subscribers: the node with stuck subscribers is the unbounded sequential model
   with the event messages a full mailbox refused taken out of the delivery log - and nothing else:
   state, buffer, return values and what every OTHER actor receives are the same (all histories). *)
From Ergo Require Import Common.Base Event.Model Event.Proofs Event.Bounded.

Lemma gseq_op_unbounded s io : gseq_op deliver_all s io = seq_op s io.
Proof. destruct io as [i o]; destruct o; reflexivity. Qed.

(* ---- the delivery log under the bound ------------------------------------------------------------- *)

Lemma bout_snoc stk l e :
  bout stk (l ++ [e]) = if keep stk (bout stk l) e then bout stk l ++ [e] else bout stk l.
Proof. unfold bout. rewrite fold_left_app. reflexivity. Qed.

Lemma sinbox_snoc f x l e :
  sinbox f x (l ++ [e]) = sinbox f x l ++ (if Nat.eqb (fst e) x && f (snd e) then [snd e] else []).
Proof.
  unfold sinbox. rewrite filter_app_single, map_app.
  destruct (Nat.eqb (fst e) x && f (snd e)); reflexivity.
Qed.

Lemma room_healthy stk acc x : stuck_cap stk x = None -> room stk acc x = true.
Proof. intros H. unfold room. rewrite H. reflexivity. Qed.

(* a healthy receiver: nothing addressed to it is ever taken out *)
Lemma bout_healthy stk x l : stuck_cap stk x = None -> onx x (bout stk l) = onx x l.
Proof.
  intros Hx. induction l as [|e l IH] using rev_ind; [reflexivity|].
  rewrite bout_snoc. unfold onx in *. rewrite (filter_app_single _ l).
  destruct (keep stk (bout stk l) e) eqn:K.
  - rewrite filter_app_single, IH. reflexivity.
  - rewrite IH. unfold keep in K.
    destruct (is_ev (snd e)); [|discriminate].
    destruct (Nat.eqb (fst e) x) eqn:E; [|rewrite app_nil_r; reflexivity].
    apply Nat.eqb_eq in E. subst x. rewrite room_healthy in K by exact Hx. discriminate.
Qed.

(* exit / down / start / stop: never taken out, for any receiver *)
Lemma bout_other_items stk f x l :
  (forall it, f it = true -> is_ev it = false) -> sinbox f x (bout stk l) = sinbox f x l.
Proof.
  intros Hf. induction l as [|e l IH] using rev_ind; [reflexivity|].
  rewrite bout_snoc, (sinbox_snoc f x l).
  destruct (keep stk (bout stk l) e) eqn:K.
  - rewrite sinbox_snoc, IH. reflexivity.
  - rewrite IH. unfold keep in K.
    destruct (is_ev (snd e)) eqn:E; [|discriminate].
    destruct (f (snd e)) eqn:F; [apply Hf in F; congruence|].
    rewrite andb_false_r, app_nil_r. reflexivity.
Qed.

Lemma firstn_snoc {A} n (l : list A) a :
  firstn n (l ++ [a]) = if Nat.ltb (length l) n then firstn n l ++ [a] else firstn n l.
Proof.
  revert n. induction l as [|b l IH]; intros n.
  - destruct n; [reflexivity|]. cbn. rewrite firstn_nil. reflexivity.
  - destruct n; [reflexivity|]. cbn [firstn app length]. rewrite IH.
    change (Nat.ltb (S (length l)) (S n)) with (Nat.ltb (length l) n).
    destruct (Nat.ltb (length l) n); reflexivity.
Qed.

Lemma push_ok_spec cap n : 1 <= cap ->
  mbox_push_ok cap (Nat.min (S cap) n) = Nat.ltb n (S cap).
Proof.
  intros Hc. unfold mbox_push_ok, qlen.
  destruct (Nat.ltb_spec n (S cap)) as [H|H].
  - rewrite Nat.min_r by lia.
    destruct (Nat.ltb_spec cap (pred n + 1)) as [H1|H1]; [lia|reflexivity].
  - rewrite Nat.min_l by lia.
    destruct (Nat.ltb_spec cap (pred (S cap) + 1)) as [H1|H1]; [reflexivity|cbn in H1; lia].
Qed.

(* a stuck receiver with MailboxSize cap keeps exactly the first cap+1 event messages addressed to it
   (one in the blocked handler, cap in the queue) - a prefix, in order *)
Lemma bout_stuck stk x cap l : stuck_cap stk x = Some cap -> 1 <= cap ->
  sinbox is_ev x (bout stk l) = firstn (S cap) (sinbox is_ev x l).
Proof.
  intros Hx Hc. induction l as [|e l IH] using rev_ind; [reflexivity|].
  rewrite bout_snoc, (sinbox_snoc is_ev x l).
  destruct (Nat.eqb (fst e) x && is_ev (snd e)) eqn:C.
  - apply andb_true_iff in C. destruct C as [E V]. apply Nat.eqb_eq in E.
    unfold keep. rewrite V. unfold room. rewrite E, Hx. unfold accepted. rewrite IH.
    rewrite firstn_length, push_ok_spec by exact Hc. rewrite firstn_snoc.
    destruct (Nat.ltb (length (sinbox is_ev x l)) (S cap)).
    + rewrite sinbox_snoc, IH, V, <- E, Nat.eqb_refl. reflexivity.
    + exact IH.
  - rewrite app_nil_r.
    destruct (keep stk (bout stk l) e); [|exact IH].
    rewrite sinbox_snoc, C, app_nil_r. exact IH.
Qed.

(* ---- simulation: one call on the bounded node = the call on the unbounded node, projected ------------ *)

Lemma bsend_bproj stk u x it : is_ev it = true ->
  fst (bsend stk (bproj stk u) x it) = bproj stk (deliver u x it).
Proof.
  intros V. unfold bsend, deliver. cbn [bproj q_dead q_out q_reg q_subs q_ntok q_res].
  destruct (mem x (q_dead u)); [reflexivity|].
  unfold bproj at 2. cbn [q_dead q_out q_reg q_subs q_ntok q_res].
  rewrite bout_snoc. unfold keep. cbn [fst snd]. rewrite V.
  destruct (room stk (bout stk (q_out u)) x); reflexivity.
Qed.

Lemma deliver_bproj stk u x it : is_ev it = false ->
  deliver (bproj stk u) x it = bproj stk (deliver u x it).
Proof.
  intros V. unfold deliver. cbn [bproj q_dead q_out q_reg q_subs q_ntok q_res].
  destruct (mem x (q_dead u)); [reflexivity|].
  unfold bproj. cbn [q_dead q_out q_reg q_subs q_ntok q_res].
  rewrite bout_snoc. unfold keep. cbn [fst snd]. rewrite V. reflexivity.
Qed.

Lemma deliver_all_bproj stk l u it : is_ev it = false ->
  deliver_all (bproj stk u) l it = bproj stk (deliver_all u l it).
Proof.
  intros V. revert u. induction l as [|y l IH]; intros u; [reflexivity|].
  unfold deliver_all in *. cbn [fold_left]. rewrite deliver_bproj by exact V. apply IH.
Qed.

Lemma bfan_bproj stk l u it : is_ev it = true ->
  bfan stk (bproj stk u) l it = bproj stk (deliver_all u l it).
Proof.
  intros V. revert u. induction l as [|y l IH]; intros u; [reflexivity|].
  unfold bfan, deliver_all in *. cbn [fold_left]. rewrite bsend_bproj by exact V. apply IH.
Qed.

Lemma seq_dec_bproj stk u : seq_dec (bproj stk u) = bproj stk (seq_dec u).
Proof.
  unfold seq_dec. change (q_reg (bproj stk u)) with (q_reg u).
  destruct (q_reg u) as [g|]; [|reflexivity].
  change (q_set_reg (bproj stk u) (Some (g_add (-1) g))) with (bproj stk (q_set_reg u (Some (g_add (-1) g)))).
  destruct (g_notify g && (g_cnt g - 1 <=? 0)%Z); [|reflexivity].
  apply deliver_bproj. reflexivity.
Qed.

Lemma seq_terminate_event_bproj stk u reason :
  seq_terminate_event (bproj stk u) reason = bproj stk (seq_terminate_event u reason).
Proof.
  unfold seq_terminate_event. change (q_subs (bproj stk u)) with (q_subs u).
  change (q_set_subs (q_set_reg (bproj stk u) None) []) with (bproj stk (q_set_subs (q_set_reg u None) [])).
  rewrite !deliver_all_bproj by reflexivity. reflexivity.
Qed.

Lemma gone_loop_bproj stk {A} (ks : list A) u :
  fold_left (fun s _ => seq_dec s) ks (bproj stk u) = bproj stk (fold_left (fun s _ => seq_dec s) ks u).
Proof.
  revert u. induction ks as [|k ks IH]; intros u; [reflexivity|].
  cbn [fold_left]. rewrite seq_dec_bproj. apply IH.
Qed.

Lemma bseq_op_bproj stk u io : bseq_op stk (bproj stk u) io = bproj stk (seq_op u io).
Proof.
  destruct io as [i o]. unfold bseq_op, gseq_op, seq_op.
  change (q_dead (bproj stk u)) with (q_dead u).
  change (q_reg (bproj stk u)) with (q_reg u).
  change (q_subs (bproj stk u)) with (q_subs u).
  destruct (mem i (q_dead u)); [reflexivity|].
  destruct o as [cap nf|tok sq|k|k| |].
  - destruct (q_reg u); reflexivity.
  - destruct (q_reg u) as [g|]; [|reflexivity].
    destruct (Nat.eqb (g_token g) tok); [|reflexivity].
    change (q_set_reg (bproj stk u) (Some (g_push (i, sq) g))) with (bproj stk (q_set_reg u (Some (g_push (i, sq) g)))).
    rewrite bfan_bproj by reflexivity. reflexivity.
  - destruct (has_rel (q_subs u) i k); [reflexivity|].
    destruct (q_reg u) as [g|]; [|reflexivity].
    destruct (g_notify g && (g_cnt g + 1 <=? 1)%Z); [|reflexivity].
    change (q_set_reg (q_set_subs (bproj stk u) (q_subs u ++ [(i, k)])) (Some (g_add 1 g)))
      with (bproj stk (q_set_reg (q_set_subs u (q_subs u ++ [(i, k)])) (Some (g_add 1 g)))).
    rewrite deliver_bproj by reflexivity. reflexivity.
  - destruct (has_rel (q_subs u) i k); [|reflexivity].
    destruct (q_reg u) as [g|]; [|reflexivity].
    change (q_set_subs (bproj stk u) (del_rel (q_subs u) i k)) with (bproj stk (q_set_subs u (del_rel (q_subs u) i k))).
    rewrite seq_dec_bproj. reflexivity.
  - destruct (q_reg u) as [g|]; [|reflexivity].
    destruct (Nat.eqb (g_owner g) i); [|reflexivity].
    rewrite seq_terminate_event_bproj. reflexivity.
  - change (q_ntok (bproj stk u)) with (q_ntok u).
    change (q_res (bproj stk u)) with (q_res u).
    change (mk_sst (q_reg u) (del_actor (q_subs u) i) (q_ntok u) (i :: q_dead u) (q_out (bproj stk u)) (q_res u))
      with (bproj stk (mk_sst (q_reg u) (del_actor (q_subs u) i) (q_ntok u) (i :: q_dead u) (q_out u) (q_res u))).
    rewrite gone_loop_bproj.
    set (u2 := fold_left (fun s _ => seq_dec s) (rels_of_actor (q_subs u) i) _).
    change (q_reg (bproj stk u2)) with (q_reg u2).
    destruct (q_reg u2) as [g|]; [|reflexivity].
    destruct (Nat.eqb (g_owner g) i); [|reflexivity].
    apply seq_terminate_event_bproj.
Qed.

Lemma bseq_fold_bproj stk h u :
  fold_left (bseq_op stk) h (bproj stk u) = bproj stk (fold_left seq_op h u).
Proof.
  revert u. induction h as [|io h IH]; intros u; [reflexivity|].
  cbn [fold_left]. rewrite bseq_op_bproj. apply IH.
Qed.

(* THE simulation: whatever the stuck subscribers, whatever the history *)
Theorem bounded_is_projection stk h : bseq_hist stk h = bproj stk (seq_hist h).
Proof. unfold bseq_hist, seq_hist. rewrite <- bseq_fold_bproj. reflexivity. Qed.

(* state, buffer (last N), tokens, counter, relations and every return value (also the returned last-N
   lists) are those of the node without stuck subscribers *)
Theorem bounded_state_independent stk h :
  let b := bseq_hist stk h in let u := seq_hist h in
  q_reg b = q_reg u /\ q_subs b = q_subs u /\ q_ntok b = q_ntok u /\ q_dead b = q_dead u /\ q_res b = q_res u.
Proof. cbv zeta. rewrite bounded_is_projection. repeat split; reflexivity. Qed.

(* everything delivered to a healthy actor (event messages, exits, downs, start / stop), in order *)
Theorem bounded_healthy_independent stk h x : stuck_cap stk x = None ->
  onx x (q_out (bseq_hist stk h)) = onx x (q_out (seq_hist h)).
Proof. intros Hx. rewrite bounded_is_projection. apply bout_healthy. exact Hx. Qed.

(* a stuck subscriber: the first MailboxSize+1 of its event messages, every exit / down / start / stop *)
Theorem bounded_stuck_prefix stk h x cap : stuck_cap stk x = Some cap -> 1 <= cap ->
  sinbox is_ev x (q_out (bseq_hist stk h)) = firstn (S cap) (sinbox is_ev x (q_out (seq_hist h))) /\
  sinbox is_sys x (q_out (bseq_hist stk h)) = sinbox is_sys x (q_out (seq_hist h)) /\
  sinbox is_exit x (q_out (bseq_hist stk h)) = sinbox is_exit x (q_out (seq_hist h)).
Proof.
  intros Hx Hc. rewrite bounded_is_projection. cbn [bproj q_out]. split; [|split].
  - apply bout_stuck; assumption.
  - apply bout_other_items. intros [] H; try discriminate; reflexivity.
  - apply bout_other_items. intros [] H; try discriminate; reflexivity.
Qed.

(* ---- exactly once, in order, at history level (unbounded node) ----------------------------------------- *)

Lemma deliver_evs x s y it : is_ev it = false ->
  sinbox is_ev x (q_out (deliver s y it)) = sinbox is_ev x (q_out s).
Proof.
  intros V. unfold deliver. destruct (mem y (q_dead s)); [reflexivity|].
  cbn [q_out]. rewrite sinbox_snoc. cbn [snd]. rewrite V, andb_false_r, app_nil_r. reflexivity.
Qed.

Lemma deliver_all_evs x l s it : is_ev it = false ->
  sinbox is_ev x (q_out (deliver_all s l it)) = sinbox is_ev x (q_out s).
Proof.
  intros V. revert s. induction l as [|y l IH]; intros s; [reflexivity|].
  unfold deliver_all in *. cbn [fold_left]. rewrite IH. apply deliver_evs. exact V.
Qed.

Lemma seq_dec_evs x s : sinbox is_ev x (q_out (seq_dec s)) = sinbox is_ev x (q_out s).
Proof.
  unfold seq_dec. destruct (q_reg s) as [g|]; [|reflexivity].
  destruct (g_notify g && (g_cnt g - 1 <=? 0)%Z); [|reflexivity].
  rewrite deliver_evs by reflexivity. reflexivity.
Qed.

Lemma seq_terminate_event_evs x s reason :
  sinbox is_ev x (q_out (seq_terminate_event s reason)) = sinbox is_ev x (q_out s).
Proof. unfold seq_terminate_event. rewrite !deliver_all_evs by reflexivity. reflexivity. Qed.

Lemma gone_loop_evs x {A} (ks : list A) s :
  sinbox is_ev x (q_out (fold_left (fun s _ => seq_dec s) ks s)) = sinbox is_ev x (q_out s).
Proof.
  revert s. induction ks as [|k ks IH]; intros s; [reflexivity|].
  cbn [fold_left]. rewrite IH. apply seq_dec_evs.
Qed.

Lemma mem_cons x y l : mem x (y :: l) = Nat.eqb x y || mem x l.
Proof. reflexivity. Qed.

(* one fan-out over a duplicate-free consumer list: one message for every live member, none for others *)
Lemma deliver_all_pub x l s it : NoDup l -> is_ev it = true ->
  sinbox is_ev x (q_out (deliver_all s l it)) =
  sinbox is_ev x (q_out s) ++ (if mem x l && negb (mem x (q_dead s)) then [it] else []).
Proof.
  intros ND V. revert s. induction ND as [|y l Hy ND IH]; intros s.
  - cbn. rewrite app_nil_r. reflexivity.
  - unfold deliver_all in *. cbn [fold_left]. rewrite IH.
    destruct (deliver_frame s y it) as [_ [_ Hd]]. rewrite Hd.
    rewrite mem_cons. unfold deliver.
    destruct (Nat.eqb x y) eqn:E.
    + apply Nat.eqb_eq in E. subst y. rewrite (notin_mem_false _ _ Hy). cbn [orb andb].
      rewrite app_nil_r.
      destruct (mem x (q_dead s)); cbn [negb]; [rewrite app_nil_r; reflexivity|].
      cbn [q_out]. rewrite sinbox_snoc. cbn [fst snd]. rewrite Nat.eqb_refl, V. reflexivity.
    + cbn [orb].
      destruct (mem y (q_dead s)); [reflexivity|].
      cbn [q_out]. rewrite sinbox_snoc. cbn [fst snd].
      rewrite Nat.eqb_sym, E. cbn [andb]. rewrite app_nil_r. reflexivity.
Qed.

Lemma mem_nodup x l : mem x (nodup Nat.eq_dec l) = mem x l.
Proof.
  destruct (mem x l) eqn:M.
  - apply mem_true_in in M. apply (nodup_In Nat.eq_dec) in M.
    destruct (mem x (nodup Nat.eq_dec l)) eqn:M2; [reflexivity|].
    apply mem_false_notin in M2. contradiction.
  - apply mem_false_notin in M. apply notin_mem_false. intros H. apply nodup_In in H. contradiction.
Qed.

(* one call: the event messages x receives grow by exactly the publication this call makes for x *)
Lemma seq_op_evs x s io :
  sinbox is_ev x (q_out (seq_op s io)) = sinbox is_ev x (q_out s) ++ pub_for x s io.
Proof.
  destruct io as [i o]. unfold seq_op, pub_for. cbn [fst snd].
  destruct (mem i (q_dead s)) eqn:D.
  - destruct o; try (rewrite app_nil_r; reflexivity).
    destruct (q_reg s); cbn [negb andb]; rewrite app_nil_r; reflexivity.
  - destruct o as [cap nf|tok sq|k|k| |]; cbn [negb andb].
    + rewrite app_nil_r. destruct (q_reg s); reflexivity.
    + destruct (q_reg s) as [g|]; [|rewrite app_nil_r; reflexivity].
      destruct (Nat.eqb (g_token g) tok); [|rewrite app_nil_r; reflexivity].
      cbn [q_ret q_out andb].
      rewrite deliver_all_pub by (try apply NoDup_nodup; reflexivity).
      rewrite mem_nodup. reflexivity.
    + rewrite app_nil_r. destruct (has_rel (q_subs s) i k); [reflexivity|].
      destruct (q_reg s) as [g|]; [|reflexivity].
      destruct (g_notify g && (g_cnt g + 1 <=? 1)%Z); [|reflexivity].
      cbn [q_ret q_out]. rewrite deliver_evs by reflexivity. reflexivity.
    + rewrite app_nil_r. destruct (has_rel (q_subs s) i k); [|reflexivity].
      destruct (q_reg s) as [g|]; [|reflexivity].
      cbn [q_ret q_out]. rewrite seq_dec_evs. reflexivity.
    + rewrite app_nil_r. destruct (q_reg s) as [g|]; [|reflexivity].
      destruct (Nat.eqb (g_owner g) i); [|reflexivity].
      cbn [q_ret q_out]. rewrite seq_terminate_event_evs. reflexivity.
    + rewrite app_nil_r.
      set (s2 := fold_left (fun s _ => seq_dec s) (rels_of_actor (q_subs s) i) _).
      assert (H2 : sinbox is_ev x (q_out s2) = sinbox is_ev x (q_out s)) by (unfold s2; rewrite gone_loop_evs; reflexivity).
      destruct (q_reg s2) as [g|]; [|exact H2].
      destruct (Nat.eqb (g_owner g) i); [|exact H2].
      rewrite seq_terminate_event_evs. exact H2.
Qed.

Lemma seq_fold_evs x h s :
  sinbox is_ev x (q_out (fold_left seq_op h s)) = sinbox is_ev x (q_out s) ++ expect x s h.
Proof.
  revert s. induction h as [|io h IH]; intros s.
  - cbn. rewrite app_nil_r. reflexivity.
  - cbn [fold_left expect]. rewrite IH, seq_op_evs, app_assoc. reflexivity.
Qed.

(* what x handles as event messages is the list of publications made for it (accepted while it was
   subscribed and alive), each exactly once, in history order *)
Theorem seq_exactly_once_in_order h x : sinbox is_ev x (q_out (seq_hist h)) = expect x sst0 h.
Proof. unfold seq_hist. rewrite seq_fold_evs. reflexivity. Qed.

Lemma sinbox_onx f x l : sinbox f x l = map snd (filter (fun e => f (snd e)) (onx x l)).
Proof.
  unfold sinbox, onx. induction l as [|e l IH]; [reflexivity|].
  cbn [filter]. destruct (Nat.eqb (fst e) x); cbn [andb filter]; [|exact IH].
  destruct (f (snd e)); cbn [map]; rewrite IH; reflexivity.
Qed.

(* ... and stuck, full or terminated subscribers change nothing about that for the healthy ones *)
Theorem bounded_healthy_exactly_once stk h x : stuck_cap stk x = None ->
  sinbox is_ev x (q_out (bseq_hist stk h)) = expect x sst0 h.
Proof.
  intros Hx. rewrite sinbox_onx, bounded_healthy_independent by exact Hx.
  rewrite <- sinbox_onx. apply seq_exactly_once_in_order.
Qed.

Theorem bounded_stuck_exactly_prefix stk h x cap : stuck_cap stk x = Some cap -> 1 <= cap ->
  sinbox is_ev x (q_out (bseq_hist stk h)) = firstn (S cap) (expect x sst0 h).
Proof.
  intros Hx Hc. destruct (bounded_stuck_prefix stk h x cap Hx Hc) as [H _].
  rewrite H, seq_exactly_once_in_order. reflexivity.
Qed.

(* ---- the loop that gives up at the first delivery error ------------------------------------------------ *)

(* actor 0 registers and publishes 1 2 3; actor 1 (MailboxSize 1, blocked) links, actor 2 monitors *)
Definition er_stk : stuck := [(1, 1)].
Definition er_hist : list (nat * op) :=
  [(0, ORegister 0 false); (1, OSub KLink); (2, OSub KMon);
   (0, OPublish 1 1); (0, OPublish 1 2); (0, OPublish 1 3)].

(* with the early return the healthy subscriber 2 misses publication 3: it was refused by subscriber 1 *)
Theorem early_return_refuted :
  exists stk h x, stuck_cap stk x = None /\
    expect x sst0 h = [IEv 0 1; IEv 0 2; IEv 0 3] /\
    sinbox is_ev x (q_out (early_hist stk h)) = [IEv 0 1; IEv 0 2].
Proof. exists er_stk, er_hist, 2. repeat split; vm_compute; reflexivity. Qed.

(* the loop of the code on the same history: 2 gets all three, the stuck subscriber the first two *)
Example bounded_nontrivial :
  stuck_cap er_stk 2 = None /\ stuck_cap er_stk 1 = Some 1 /\
  sinbox is_ev 2 (q_out (bseq_hist er_stk er_hist)) = [IEv 0 1; IEv 0 2; IEv 0 3] /\
  sinbox is_ev 1 (q_out (bseq_hist er_stk er_hist)) = [IEv 0 1; IEv 0 2] /\
  sinbox is_ev 1 (q_out (seq_hist er_hist)) = [IEv 0 1; IEv 0 2; IEv 0 3].
Proof. repeat split; vm_compute; reflexivity. Qed.
