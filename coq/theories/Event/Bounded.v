(* Event engine (C18): subscribers with a BOUNDED mailbox that do not consume ("stuck": handler blocked),
   and the fan-out loop of RouteSendEvent that must not care about them.  Definitions only - proofs are
   in Event/BoundedProofs.v.

   Transcribed from /repo:
     node/node.go  spawn:  if options.MailboxSize > 0 { p.mailbox.Main = lib.NewQueueLimitMPSC(options.MailboxSize, false) ... }
     lib/mpsc.go   queueLimitMPSC.Push:  if q.Len()+1 > q.limit { if q.flush == false { return false } ... }
     node/core.go  sendEventMessage:
                     value, loaded := n.processes.Load(to); if loaded == false { return gen.ErrProcessUnknown }
                     ... queue = p.mailbox.Main (publisher priority normal) ...
                     if ok := queue.Push(qm); ok == false { return gen.ErrProcessMailboxFull }
                     ...; return nil
                   RouteSendEvent, local delivery:
                     for _, pid := range consumers { if pid.Node == n.name { (once per distinct pid)
                         n.sendEventMessage(from, pid, options.Priority, message)        <- the error is IGNORED
                         continue } ... }
   The sequential model of Event/Model.v ([seq_op]) is taken as it is, with the publication fan-out as a
   parameter:  [gseq_op deliver_all] is [seq_op] (lemma gseq_op_unbounded), [gseq_op (bfan stk)] is the node
   with the stuck subscribers [stk], [gseq_op (bfan_early stk)] is the variant whose loop returns the first
   delivery error to the publisher (the seeded change).

   A stuck subscriber (actor x, MailboxSize c >= 1) handles no event message to its end: the first one it
   accepted is held by its blocked HandleEvent callback (popped from the queue: histories are quiescent,
   every call and what it causes completes before the next), the following ones stay in the Main queue.
   Exit / down / start / stop use the Urgent / System queues (a blocked subscriber gets at most one of each
   in a history: it cannot subscribe again) and are not subject to the bound here. *)
From Ergo Require Import Common.Base Event.Model.

(* (actor, MailboxSize) of the stuck subscribers *)
Definition stuck := list (nat * nat).

Fixpoint stuck_cap (stk : stuck) (x : nat) : option nat :=
  match stk with
  | [] => None
  | (y, c) :: tl => if Nat.eqb y x then Some c else stuck_cap tl x
  end.

(* event messages x has accepted so far *)
Definition accepted (x : nat) (out : list (nat * item)) : nat := length (sinbox is_ev x out).

(* q.Len() of the Main queue of a stuck subscriber: everything it accepted but the one held by the handler *)
Definition qlen (acc : nat) : nat := pred acc.
(* queueLimitMPSC.Push (flush = false): if q.Len()+1 > q.limit { return false } *)
Definition mbox_push_ok (cap acc : nat) : bool := negb (Nat.ltb cap (qlen acc + 1)).

(* will sendEventMessage(to = x) push?  (the receiver is known to be in the process table) *)
Definition room (stk : stuck) (out : list (nat * item)) (x : nat) : bool :=
  match stuck_cap stk x with
  | Some cap => mbox_push_ok cap (accepted x out)
  | None => true
  end.

(* sendEventMessage: (state, err == nil) *)
Definition bsend (stk : stuck) (s : sst) (x : nat) (it : item) : sst * bool :=
  if mem x (q_dead s) then (s, false)                                 (* ErrProcessUnknown *)
  else if room stk (q_out s) x
       then (mk_sst (q_reg s) (q_subs s) (q_ntok s) (q_dead s) (q_out s ++ [(x, it)]) (q_res s), true)
       else (s, false).                                               (* ErrProcessMailboxFull *)

(* RouteSendEvent, local delivery loop: the error of one delivery is ignored, the loop goes on *)
Definition bfan (stk : stuck) (s : sst) (l : list nat) (it : item) : sst :=
  fold_left (fun s x => fst (bsend stk s x it)) l s.

(* the loop of the seeded change:  if err := n.sendEventMessage(...); err != nil { return err } *)
Fixpoint bfan_early (stk : stuck) (s : sst) (l : list nat) (it : item) : sst :=
  match l with
  | [] => s
  | x :: tl => let '(s1, ok) := bsend stk s x it in if ok then bfan_early stk s1 tl it else s1
  end.

(* [seq_op] of Event/Model.v with the publication fan-out as a parameter (same text otherwise) *)
Definition gseq_op (fan : sst -> list nat -> item -> sst) (s : sst) (io : nat * op) : sst :=
  let '(i, o) := io in
  if mem i (q_dead s) then s else
  match o with
  | ORegister cap nf =>
      let t := S (q_ntok s) in
      let s1 := mk_sst (q_reg s) (q_subs s) t (q_dead s) (q_out s) (q_res s) in
      match q_reg s with
      | Some _ => q_ret s1 i (RErr 1)
      | None => q_ret (q_set_reg s1 (Some (mk_sreg i t nf cap 0 [] []))) i (RTok t)
      end
  | OPublish tok seq =>
      match q_reg s with
      | None => q_ret s i (RErr 2)
      | Some g =>
          if Nat.eqb (g_token g) tok
          then q_ret (fan (q_set_reg s (Some (g_push (i, seq) g)))
                          (nodup Nat.eq_dec (map fst (q_subs s))) (IEv i seq)) i ROk
          else q_ret s i (RErr 3)
      end
  | OSub k =>
      if has_rel (q_subs s) i k then q_ret s i (RErr 4) else
      match q_reg s with
      | None => q_ret s i (RErr 2)
      | Some g =>
          let s1 := q_set_reg (q_set_subs s (q_subs s ++ [(i, k)])) (Some (g_add 1 g)) in
          let s2 := if g_notify g && (g_cnt g + 1 <=? 1)%Z then deliver s1 (g_owner g) IStart else s1 in
          q_ret s2 i (RList (g_buf g))
      end
  | OUnsub k =>
      if has_rel (q_subs s) i k then
        match q_reg s with
        | None => q_ret s i (RErr 2)
        | Some g => q_ret (seq_dec (q_set_subs s (del_rel (q_subs s) i k))) i ROk
        end
      else q_ret s i (RErr 5)
  | OUnregister =>
      match q_reg s with
      | None => q_ret s i (RErr 2)
      | Some g => if Nat.eqb (g_owner g) i then q_ret (seq_terminate_event s 0) i ROk else q_ret s i (RErr 3)
      end
  | OTerminate =>
      let s1 := mk_sst (q_reg s) (del_actor (q_subs s) i) (q_ntok s) (i :: q_dead s) (q_out s) (q_res s) in
      let s2 := fold_left (fun s _ => seq_dec s) (rels_of_actor (q_subs s) i) s1 in
      match q_reg s2 with
      | Some g => if Nat.eqb (g_owner g) i then seq_terminate_event s2 1 else s2
      | None => s2
      end
  end.

Definition bseq_op (stk : stuck) : sst -> nat * op -> sst := gseq_op (bfan stk).
Definition bseq_hist (stk : stuck) (h : list (nat * op)) : sst := fold_left (bseq_op stk) h sst0.
Definition early_hist (stk : stuck) (h : list (nat * op)) : sst := fold_left (gseq_op (bfan_early stk)) h sst0.

(* ---- what the unbounded node turns into when the stuck subscribers stop taking messages -------------- *)

(* an entry of the delivery log survives iff it is no event message or its receiver had room *)
Definition keep (stk : stuck) (acc : list (nat * item)) (e : nat * item) : bool :=
  if is_ev (snd e) then room stk acc (fst e) else true.
Definition bout (stk : stuck) (l : list (nat * item)) : list (nat * item) :=
  fold_left (fun acc e => if keep stk acc e then acc ++ [e] else acc) l [].
Definition bproj (stk : stuck) (u : sst) : sst :=
  mk_sst (q_reg u) (q_subs u) (q_ntok u) (q_dead u) (bout stk (q_out u)) (q_res u).

(* ---- the property at history level ---------------------------------------------------------------- *)

(* the publication a call makes for subscriber x: accepted (live caller, token of the record in the table)
   while x is alive and holds a link or a monitor *)
Definition pub_for (x : nat) (s : sst) (io : nat * op) : list item :=
  match snd io with
  | OPublish tok seq =>
      match q_reg s with
      | Some g =>
          if negb (mem (fst io) (q_dead s)) && Nat.eqb (g_token g) tok &&
             mem x (map fst (q_subs s)) && negb (mem x (q_dead s))
          then [IEv (fst io) seq] else []
      | None => []
      end
  | _ => []
  end.

(* every publication made for x along a history, in history order, each once *)
Fixpoint expect (x : nat) (s : sst) (h : list (nat * op)) : list item :=
  match h with
  | [] => []
  | io :: tl => pub_for x s io ++ expect x (seq_op s io) tl
  end.

(* all entries addressed to x *)
Definition onx (x : nat) (l : list (nat * item)) : list (nat * item) := filter (fun e => Nat.eqb (fst e) x) l.
