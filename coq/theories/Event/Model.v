(* Event engine (C18): one event name of one node, any number of actors (producers / consumers),
   every operation a thread program of atomic steps in exactly the order of the Go code.
   Definitions only - proofs are in Event/Proofs.v.

   Transcribed from (after the fix commits d4d0d3a, db3d47f, 92c6eb2, 49b95f1 of /repo):
     node/node.go   eventOwner{name, producer, token, notify, consumers, lock, last}
                    registerEvent:   event.token = MakeRef(); events.LoadOrStore(ev, event)
                    unregisterEvent: events.Load; producer compare; events.Delete; RouteTerminateEvent
                    unregisterProcess: processes.Delete; ...; CleanupConsumer + eventConsumerGone per
                                     removed relation; ...; p.events.Range{events.Delete; RouteTerminateEvent}
     node/core.go   RouteSendEvent:  events.Load; token compare; "event.push": lock{last.Push;
                                     GetConsumersForTarget}; one sendEventMessage per distinct consumer
                    RouteLinkEvent / RouteMonitorEvent: events.Load; "event.insert": lock{AddLink/AddMonitor;
                                     re-check events.Load (+Remove); copy of the last-N buffer};
                                     "event.counter": AddInt32(+1); MessageEventStart when notify && c <= 1
                    RouteUnlinkEvent / RouteDemonitorEvent: events.Load; Remove; "event.counter":
                                     AddInt32(-1); MessageEventStop when notify && c <= 0
                    RouteTerminateEvent: CleanupTarget; exit per link consumer; down per monitor consumer
     node/process.go LinkEvent/MonitorEvent (HasLink/HasMonitor -> ErrTargetExist), UnlinkEvent/
                    DemonitorEvent (-> ErrTargetUnknown), SendEvent, RegisterEvent, UnregisterEvent
     lib/mpsc.go    queueLimitMPSC.Push with flush: if Len()+1 > limit { Pop() }; push
     gen/default_target_manager.go: abstracted as the set [rels] of (consumer, kind) for this event
       (Add* fails if present, Remove* fails if absent, CleanupTarget takes all, CleanupConsumer takes
        all of one consumer, GetConsumersForTarget lists one pid per relation)

   What is modelled / abstracted:
   - ONE event name. Other names have their own record and relation keys; the harness projects a
     history on each name (terminations apply to every name).
   - Actors are numbered 0..; an actor is at the same time a possible producer and consumer.
   - MakeRef is a fresh counter (uniqueness of refs: C06); token 0 is the empty gen.Ref.
   - A remote subscriber is one more consumer whose delivery is a frame to its node (one frame per node,
     fanned out there by the same RouteSendEvent loop); it is NOT exercised by the harness.
   - Mailboxes are unbounded (a bounded mailbox drops event messages: ErrProcessMailboxFull ignored).
   - The per-event lock is held only inside S_ins..S_undo; P_crit (push + consumer snapshot) is one
     step: CleanupTarget/Remove* between push and snapshot commute with the push. *)
From Ergo Require Import Common.Base.

Inductive kind := KLink | KMon.
Definition kind_eqb (a b : kind) : bool :=
  match a, b with KLink, KLink | KMon, KMon => true | _, _ => false end.

Definition pubm := (nat * nat)%type.      (* (publisher actor, payload sequence number) *)

Inductive item :=
| IEv (from seq : nat)      (* gen.MessageEvent, queue Main (publisher priority normal) *)
| IStart                    (* gen.MessageEventStart, queue System *)
| IStop                     (* gen.MessageEventStop, queue System *)
| IExit (reason : nat)      (* gen.MessageExitEvent, queue Urgent *)
| IDown (reason : nat).     (* gen.MessageDownEvent, queue System *)
(* reasons: 0 = gen.ErrUnregistered, 1 = termination reason of the owner *)

Inductive res :=
| ROk
| RTok (t : nat)            (* RegisterEvent: the token *)
| RList (l : list pubm)     (* LinkEvent / MonitorEvent: the last events *)
| RErr (e : nat).           (* 1 ErrTaken 2 ErrEventUnknown 3 ErrEventOwner 4 ErrTargetExist 5 ErrTargetUnknown *)

Inductive op :=
| ORegister (cap : nat) (notify : bool)
| OPublish (tok seq : nat)
| OSub (k : kind)
| OUnsub (k : kind)
| OUnregister
| OTerminate.

Record rec := mk_rec {
  r_owner : nat; r_token : nat; r_notify : bool; r_cap : nat;
  r_cnt : Z;                 (* consumers int32 *)
  r_lock : bool;
  r_buf : list pubm;         (* last: oldest first *)
  r_all : list pubm          (* ghost: every publication pushed under this record *)
}.

Record entry := mk_e { e_to : nat; e_by : nat; e_it : item; e_ok : bool }.
(* e_by: the actor whose goroutine performed the push; e_ok = false: receiver no longer in the
   process table, the message is dropped (ErrProcessUnknown, ignored by the callers) *)

Record shared := mk_sh {
  recs : list rec;               (* heap of eventOwner records; goroutines hold indices *)
  table : option nat;            (* n.events[ev] *)
  rels : list (nat * kind);      (* target manager, this event *)
  ntok : nat;                    (* MakeRef counter *)
  dead : list nat;               (* actors removed from n.processes *)
  log : list entry;              (* every mailbox push in push order *)
  results : list (nat * res);    (* return values in completion order *)
  fans : list (nat * (item * list nat))  (* ghost: (actor, item, receivers) fixed at the snapshot step *)
}.

Definition set_recs s x := mk_sh x (table s) (rels s) (ntok s) (dead s) (log s) (results s) (fans s).
Definition set_table s x := mk_sh (recs s) x (rels s) (ntok s) (dead s) (log s) (results s) (fans s).
Definition set_rels s x := mk_sh (recs s) (table s) x (ntok s) (dead s) (log s) (results s) (fans s).
Definition set_ntok s x := mk_sh (recs s) (table s) (rels s) x (dead s) (log s) (results s) (fans s).
Definition set_dead s x := mk_sh (recs s) (table s) (rels s) (ntok s) x (log s) (results s) (fans s).
Definition add_log s e := mk_sh (recs s) (table s) (rels s) (ntok s) (dead s) (log s ++ [e]) (results s) (fans s).
Definition add_res s i r := mk_sh (recs s) (table s) (rels s) (ntok s) (dead s) (log s) (results s ++ [(i, r)]) (fans s).
Definition add_fan s i it l := mk_sh (recs s) (table s) (rels s) (ntok s) (dead s) (log s) (results s) (fans s ++ [(i, (it, l))]).

Definition mem (x : nat) (l : list nat) : bool := existsb (Nat.eqb x) l.
Definition rel_eqb (a b : nat * kind) : bool := Nat.eqb (fst a) (fst b) && kind_eqb (snd a) (snd b).
Definition has_rel (l : list (nat * kind)) (x : nat) (k : kind) : bool := existsb (rel_eqb (x, k)) l.
Definition del_rel (l : list (nat * kind)) (x : nat) (k : kind) := filter (fun e => negb (rel_eqb (x, k) e)) l.
Definition rels_of_kind (l : list (nat * kind)) (k : kind) : list nat :=
  map fst (filter (fun e => kind_eqb (snd e) k) l).
Definition rels_of_actor (l : list (nat * kind)) (x : nat) : list kind :=
  map snd (filter (fun e => Nat.eqb (fst e) x) l).
Definition del_actor (l : list (nat * kind)) (x : nat) := filter (fun e => negb (Nat.eqb (fst e) x)) l.

(* RouteSendEvent: the consumer list, one delivery per distinct pid *)
Definition consumers (s : shared) : list nat := nodup Nat.eq_dec (map fst (rels s)).

Fixpoint upd_nth {A} (l : list A) (i : nat) (f : A -> A) : list A :=
  match l, i with
  | [], _ => []
  | x :: tl, O => f x :: tl
  | x :: tl, S j => x :: upd_nth tl j f
  end.
Definition upd_rec (s : shared) (r : nat) (f : rec -> rec) : shared := set_recs s (upd_nth (recs s) r f).
Definition get_rec (s : shared) (r : nat) : option rec := nth_error (recs s) r.

Definition rec_cnt (d : Z) (x : rec) : rec :=
  mk_rec (r_owner x) (r_token x) (r_notify x) (r_cap x) (r_cnt x + d) (r_lock x) (r_buf x) (r_all x).
Definition rec_lock (b : bool) (x : rec) : rec :=
  mk_rec (r_owner x) (r_token x) (r_notify x) (r_cap x) (r_cnt x) b (r_buf x) (r_all x).

(* queueLimitMPSC.Push with flush; no queue at all when Buffer = 0 *)
Definition buf_push (cap : nat) (b : list pubm) (m : pubm) : list pubm :=
  if Nat.eqb cap 0 then b else if Nat.ltb cap (length b + 1) then tl b ++ [m] else b ++ [m].
Definition rec_push (m : pubm) (x : rec) : rec :=
  mk_rec (r_owner x) (r_token x) (r_notify x) (r_cap x) (r_cnt x) (r_lock x)
         (buf_push (r_cap x) (r_buf x) m) (r_all x ++ [m]).

Definition lastn {A} (n : nat) (l : list A) : list A := skipn (length l - n) l.

(* one mailbox push by actor [by] *)
Definition push_to (s : shared) (x by_ : nat) (it : item) : shared :=
  add_log s (mk_e x by_ it (negb (mem x (dead s)))).

Inductive pc :=
| Idle                                           (* harness hook "event.op": next operation starts *)
| Dead
| P_crit (r seq : nat)                           (* "event.push": lock{push; consumer snapshot} *)
| P_send (seq : nat) (to : list nat)             (* one sendEventMessage per step *)
| S_load (k : kind)                              (* events.Load *)
| S_ins (k : kind) (r : nat)                     (* "event.insert": Lock; AddLink / AddMonitor *)
| S_recheck (k : kind) (r : nat)                 (* events.Load again (fix 7a3cd90) *)
| S_undo (k : kind) (r : nat)                    (* RemoveLink / RemoveMonitor *)
| S_counter (r : nat) (got : list pubm)          (* "event.counter": AddInt32(+1) *)
| S_notify (to : nat) (got : list pubm)          (* MessageEventStart to the producer *)
| U_load (k : kind)
| U_remove (k : kind) (r : nat)
| U_counter (r : nat)                            (* "event.counter": AddInt32(-1) *)
| U_notify (to : nat)                            (* MessageEventStop to the producer *)
| X_delete (reason : nat) (die : bool)           (* events.Delete *)
| X_cleanup (reason : nat) (die : bool)          (* CleanupTarget *)
| X_send (reason : nat) (exits downs : list nat) (die : bool)
| T_clean                                        (* CleanupConsumer *)
| T_gone (ks : list kind)                        (* eventConsumerGone: events.Load *)
| T_gone_dec (r : nat) (ks : list kind)          (* AddInt32(-1) *)
| T_gone_notify (to : nat) (ks : list kind)
| T_events.                                      (* p.events.Range *)

(* the subscriber copies the buffer and releases the lock *)
Definition sub_copy (s : shared) (r : nat) : shared * pc :=
  match get_rec s r with
  | Some x => (upd_rec s r (rec_lock false), S_counter r (r_buf x))
  | None => (s, S_counter r [])
  end.

Definition finish (s : shared) (i : nat) (r : res) : shared * pc := (add_res s i r, Idle).

(* start of an operation (pc = Idle): the first shared access of the API call *)
Definition start_op (i : nat) (s : shared) (o : op) : shared * pc :=
  match o with
  | ORegister cap nf =>
      (* event.token = MakeRef(); LoadOrStore *)
      let t := S (ntok s) in
      let s1 := set_ntok s t in
      match table s with
      | Some _ => finish s1 i (RErr 1)
      | None =>
          let s2 := set_table (set_recs s1 (recs s ++ [mk_rec i t nf cap 0 false [] []])) (Some (length (recs s))) in
          finish s2 i (RTok t)
      end
  | OPublish tok seq =>
      match table s with
      | None => finish s i (RErr 2)
      | Some r =>
          match get_rec s r with
          | None => finish s i (RErr 2)
          | Some x => if Nat.eqb (r_token x) tok then (s, P_crit r seq) else finish s i (RErr 3)
          end
      end
  | OSub k => if has_rel (rels s) i k then finish s i (RErr 4) else (s, S_load k)
  | OUnsub k => if has_rel (rels s) i k then (s, U_load k) else finish s i (RErr 5)
  | OUnregister =>
      match table s with
      | None => finish s i (RErr 2)
      | Some r =>
          match get_rec s r with
          | None => finish s i (RErr 2)
          | Some x => if Nat.eqb (r_owner x) i then (s, X_delete 0 false) else finish s i (RErr 3)
          end
      end
  | OTerminate => (set_dead s (i :: dead s), T_clean)
  end.

Definition locked (s : shared) (r : nat) : bool :=
  match get_rec s r with Some x => r_lock x | None => false end.

(* one step of actor i in the middle of an operation; None = not enabled *)
Definition step_pc (i : nat) (s : shared) (p : pc) : option (shared * pc) :=
  match p with
  | Idle | Dead => None
  | P_crit r seq =>
      if locked s r then None else
      let s1 := upd_rec s r (rec_push (i, seq)) in
      let l := consumers s in
      Some (add_fan s1 i (IEv i seq) l, P_send seq l)
  | P_send seq [] => Some (finish s i ROk)
  | P_send seq (x :: to) => Some (push_to s x i (IEv i seq), P_send seq to)
  | S_load k =>
      match table s with
      | None => Some (finish s i (RErr 2))
      | Some r => Some (s, S_ins k r)
      end
  | S_ins k r =>
      if locked s r then None else
      if has_rel (rels s) i k then Some (finish s i (RErr 4))
      else Some (upd_rec (set_rels s (rels s ++ [(i, k)])) r (rec_lock true), S_recheck k r)
  | S_recheck k r =>
      match table s with
      | Some _ => Some (sub_copy s r)
      | None => Some (s, S_undo k r)
      end
  | S_undo k r =>
      if has_rel (rels s) i k
      then Some (finish (upd_rec (set_rels s (del_rel (rels s) i k)) r (rec_lock false)) i (RErr 2))
      else Some (sub_copy s r)
  | S_counter r got =>
      match get_rec s r with
      | None => Some (finish s i (RList got))
      | Some x =>
          let s1 := upd_rec s r (rec_cnt 1) in
          (* if event.notify == false || c > 1 { return } *)
          if r_notify x && (r_cnt x + 1 <=? 1)%Z
          then Some (add_fan s1 i IStart [r_owner x], S_notify (r_owner x) got)
          else Some (finish s1 i (RList got))
      end
  | S_notify to got => Some (finish (push_to s to i IStart) i (RList got))
  | U_load k =>
      match table s with
      | None => Some (finish s i (RErr 2))
      | Some r => Some (s, U_remove k r)
      end
  | U_remove k r =>
      if has_rel (rels s) i k then Some (set_rels s (del_rel (rels s) i k), U_counter r)
      else Some (finish s i (RErr 5))
  | U_counter r =>
      match get_rec s r with
      | None => Some (finish s i ROk)
      | Some x =>
          let s1 := upd_rec s r (rec_cnt (-1)) in
          (* if event.notify == false || c > 0 { return } *)
          if r_notify x && (r_cnt x - 1 <=? 0)%Z
          then Some (add_fan s1 i IStop [r_owner x], U_notify (r_owner x))
          else Some (finish s1 i ROk)
      end
  | U_notify to => Some (finish (push_to s to i IStop) i ROk)
  | X_delete reason die => Some (set_table s None, X_cleanup reason die)
  | X_cleanup reason die =>
      let ex := rels_of_kind (rels s) KLink in
      let dn := rels_of_kind (rels s) KMon in
      Some (add_fan (add_fan (set_rels s []) i (IExit reason) ex) i (IDown reason) dn, X_send reason ex dn die)
  | X_send reason (x :: ex) dn die => Some (push_to s x i (IExit reason), X_send reason ex dn die)
  | X_send reason [] (x :: dn) die => Some (push_to s x i (IDown reason), X_send reason [] dn die)
  | X_send reason [] [] die => if die then Some (s, Dead) else Some (finish s i ROk)
  | T_clean => Some (set_rels s (del_actor (rels s) i), T_gone (rels_of_actor (rels s) i))
  | T_gone [] => Some (s, T_events)
  | T_gone (k :: ks) =>
      match table s with
      | None => Some (s, T_gone ks)
      | Some r => Some (s, T_gone_dec r ks)
      end
  | T_gone_dec r ks =>
      match get_rec s r with
      | None => Some (s, T_gone ks)
      | Some x =>
          let s1 := upd_rec s r (rec_cnt (-1)) in
          if r_notify x && (r_cnt x - 1 <=? 0)%Z
          then Some (add_fan s1 i IStop [r_owner x], T_gone_notify (r_owner x) ks)
          else Some (s1, T_gone ks)
      end
  | T_gone_notify to ks => Some (push_to s to i IStop, T_gone ks)
  | T_events =>
      (* p.events holds the name iff the current record was registered by this process *)
      match table s with
      | None => Some (s, Dead)
      | Some r =>
          match get_rec s r with
          | Some x => if Nat.eqb (r_owner x) i then Some (s, X_delete 1 true) else Some (s, Dead)
          | None => Some (s, Dead)
          end
      end
  end.

Record thread := mk_thr { t_pc : pc; t_todo : list op }.
Record cfg := mk_cfg { sh : shared; thr : list thread }.

Fixpoint set_thr (l : list thread) (i : nat) (t : thread) : list thread :=
  match l, i with
  | [], _ => []
  | _ :: tl, O => t :: tl
  | x :: tl, S j => x :: set_thr tl j t
  end.

Definition step (c : cfg) (i : nat) : option cfg :=
  match nth_error (thr c) i with
  | None => None
  | Some t =>
      match t_pc t, t_todo t with
      | Idle, o :: rest =>
          let '(s', p') := start_op i (sh c) o in
          Some (mk_cfg s' (set_thr (thr c) i (mk_thr p' rest)))
      | Idle, [] => None
      | p, todo =>
          match step_pc i (sh c) p with
          | None => None
          | Some (s', p') => Some (mk_cfg s' (set_thr (thr c) i (mk_thr p' todo)))
          end
      end
  end.

(* a schedule is any list of actor indices; choices that are not enabled are skipped *)
Fixpoint run (sched : list nat) (c : cfg) : cfg :=
  match sched with
  | [] => c
  | i :: tl => match step c i with Some c' => run tl c' | None => run tl c end
  end.

Definition init_shared : shared := mk_sh [] None [] 0 [] [] [] [].
Definition init_cfg (progs : list (list op)) : cfg := mk_cfg init_shared (map (mk_thr Idle) progs).

Definition thread_done (t : thread) : bool :=
  match t_pc t, t_todo t with Idle, [] => true | Dead, _ => true | _, _ => false end.
Definition quiescent (c : cfg) : bool := forallb thread_done (thr c).

(* ---- observations --------------------------------------------------------------------- *)

(* what actor x handles, queue by queue (event messages: Main; start/stop/down: System; exit: Urgent) *)
Definition is_ev (it : item) : bool := match it with IEv _ _ => true | _ => false end.
Definition is_exit (it : item) : bool := match it with IExit _ => true | _ => false end.
Definition is_sys (it : item) : bool := match it with IStart | IStop | IDown _ => true | _ => false end.
Definition inbox (f : item -> bool) (x : nat) (l : list entry) : list item :=
  map e_it (filter (fun e => e_ok e && Nat.eqb (e_to e) x && f (e_it e)) l).
Definition results_of (x : nat) (l : list (nat * res)) : list res :=
  map snd (filter (fun e => Nat.eqb (fst e) x) l).

(* pushes performed by actor i, and its snapshots *)
Definition sends_of (i : nat) (l : list entry) : list (nat * item) :=
  map (fun e => (e_to e, e_it e)) (filter (fun e => Nat.eqb (e_by e) i) l).
Definition fans_of (i : nat) (l : list (nat * (item * list nat))) : list (item * list nat) :=
  map snd (filter (fun f => Nat.eqb (fst f) i) l).
Definition flat_fans (l : list (item * list nat)) : list (nat * item) :=
  flat_map (fun f => map (fun x => (x, fst f)) (snd f)) l.

(* pushes an actor still has to do in its current operation *)
Definition pend (i : nat) (p : pc) : list (nat * item) :=
  match p with
  | P_send seq to => map (fun x => (x, IEv i seq)) to
  | S_notify to _ => [(to, IStart)]
  | U_notify to => [(to, IStop)]
  | T_gone_notify to _ => [(to, IStop)]
  | X_send reason ex dn _ => map (fun x => (x, IExit reason)) ex ++ map (fun x => (x, IDown reason)) dn
  | _ => []
  end.

(* ---- the sequential (atomic-operation) reading: one operation runs to completion ------- *)

Definition in_op (t : thread) : bool := match t_pc t with Idle | Dead => false | _ => true end.

Fixpoint complete (fuel : nat) (c : cfg) (i : nat) : cfg :=
  match fuel with
  | O => c
  | S f =>
      match nth_error (thr c) i with
      | Some t => if in_op t then match step c i with Some c' => complete f c' i | None => c end else c
      | None => c
      end
  end.

Fixpoint add_todo (l : list thread) (i : nat) (o : op) : list thread :=
  match l, i with
  | [], _ => []
  | t :: tl, O => mk_thr (t_pc t) (t_todo t ++ [o]) :: tl
  | t :: tl, S j => t :: add_todo tl j o
  end.

(* actor i performs operation o atomically (dead actors ignore requests) *)
Definition do_op (c : cfg) (io : nat * op) : cfg :=
  let '(i, o) := io in
  let c1 := mk_cfg (sh c) (add_todo (thr c) i o) in
  match step c1 i with
  | Some c2 => complete (20 + 3 * length (thr c)) c2 i
  | None => c
  end.

Definition seq_cfg (n : nat) : cfg := mk_cfg init_shared (repeat (mk_thr Idle []) n).
Definition run_hist (n : nat) (h : list (nat * op)) : cfg := fold_left do_op h (seq_cfg n).

(* ---- hook-granularity execution used by the correspondence on controlled schedules ----- *)

(* the implementation parks a goroutine only at these pcs; the steps in between run in one grant *)
Definition hooked (p : pc) : bool :=
  match p with
  | Idle | Dead | P_crit _ _ | S_ins _ _ | S_counter _ _ | U_counter _ => true
  | _ => false
  end.

Fixpoint glide (fuel : nat) (c : cfg) (i : nat) : cfg :=
  match fuel with
  | O => c
  | S f =>
      match nth_error (thr c) i with
      | Some t => if hooked (t_pc t) then c else match step c i with Some c' => glide f c' i | None => c end
      | None => c
      end
  end.

Definition hstep (c : cfg) (i : nat) : option cfg :=
  match step c i with
  | Some c' => Some (glide (20 + 3 * length (thr c)) c' i)
  | None => None
  end.

Fixpoint hrun (sched : list nat) (c : cfg) : cfg :=
  match sched with
  | [] => c
  | i :: tl => match hstep c i with Some c' => hrun tl c' | None => hrun tl c end
  end.

(* ---- the sequential model: every operation is ONE atomic function ------------------------
   Same code, read without interleaving (what a history of completed calls does). Used for the
   history-level theorems; tied to the implementation by its own correspondence checker and to
   the small-step model through [run_hist] on every case. *)

Record sreg := mk_sreg {
  g_owner : nat; g_token : nat; g_notify : bool; g_cap : nat; g_cnt : Z;
  g_buf : list pubm; g_all : list pubm }.
Record sst := mk_sst {
  q_reg : option sreg; q_subs : list (nat * kind); q_ntok : nat; q_dead : list nat;
  q_out : list (nat * item);      (* deliveries to live actors, in order *)
  q_res : list (nat * res) }.

Definition sst0 : sst := mk_sst None [] 0 [] [] [].

Definition q_set_reg s x := mk_sst x (q_subs s) (q_ntok s) (q_dead s) (q_out s) (q_res s).
Definition q_set_subs s x := mk_sst (q_reg s) x (q_ntok s) (q_dead s) (q_out s) (q_res s).
Definition q_ret s i r := mk_sst (q_reg s) (q_subs s) (q_ntok s) (q_dead s) (q_out s) (q_res s ++ [(i, r)]).
Definition deliver (s : sst) (x : nat) (it : item) : sst :=
  if mem x (q_dead s) then s
  else mk_sst (q_reg s) (q_subs s) (q_ntok s) (q_dead s) (q_out s ++ [(x, it)]) (q_res s).
Definition deliver_all (s : sst) (l : list nat) (it : item) : sst := fold_left (fun s x => deliver s x it) l s.

Definition g_add (d : Z) (g : sreg) : sreg :=
  mk_sreg (g_owner g) (g_token g) (g_notify g) (g_cap g) (g_cnt g + d) (g_buf g) (g_all g).
Definition g_push (m : pubm) (g : sreg) : sreg :=
  mk_sreg (g_owner g) (g_token g) (g_notify g) (g_cap g) (g_cnt g)
          (buf_push (g_cap g) (g_buf g) m) (g_all g ++ [m]).

(* eventConsumerGone / the tail of RouteUnlinkEvent: counter - 1, stop when it reaches 0 *)
Definition seq_dec (s : sst) : sst :=
  match q_reg s with
  | None => s
  | Some g =>
      let s1 := q_set_reg s (Some (g_add (-1) g)) in
      if g_notify g && (g_cnt g - 1 <=? 0)%Z then deliver s1 (g_owner g) IStop else s1
  end.

Definition seq_terminate_event (s : sst) (reason : nat) : sst :=
  let ex := rels_of_kind (q_subs s) KLink in
  let dn := rels_of_kind (q_subs s) KMon in
  deliver_all (deliver_all (q_set_subs (q_set_reg s None) []) ex (IExit reason)) dn (IDown reason).

Definition seq_op (s : sst) (io : nat * op) : sst :=
  let '(i, o) := io in
  if mem i (q_dead s) then s else
  match o with
  | ORegister cap nf =>
      let t := S (q_ntok s) in
      let s1 := mk_sst (q_reg s) (q_subs s) t (q_dead s) (q_out s) (q_res s) in
      match q_reg s with
      | Some _ => q_ret s1 i (RErr 1)
      | None => q_ret (q_set_reg s1 (Some (mk_sreg i t nf cap 0 [] []))) i (RTok t)
      end
  | OPublish tok seq =>
      match q_reg s with
      | None => q_ret s i (RErr 2)
      | Some g =>
          if Nat.eqb (g_token g) tok
          then q_ret (deliver_all (q_set_reg s (Some (g_push (i, seq) g)))
                                  (nodup Nat.eq_dec (map fst (q_subs s))) (IEv i seq)) i ROk
          else q_ret s i (RErr 3)
      end
  | OSub k =>
      if has_rel (q_subs s) i k then q_ret s i (RErr 4) else
      match q_reg s with
      | None => q_ret s i (RErr 2)
      | Some g =>
          let s1 := q_set_reg (q_set_subs s (q_subs s ++ [(i, k)])) (Some (g_add 1 g)) in
          let s2 := if g_notify g && (g_cnt g + 1 <=? 1)%Z then deliver s1 (g_owner g) IStart else s1 in
          q_ret s2 i (RList (g_buf g))
      end
  | OUnsub k =>
      if has_rel (q_subs s) i k then
        match q_reg s with
        | None => q_ret s i (RErr 2)
        | Some g => q_ret (seq_dec (q_set_subs s (del_rel (q_subs s) i k))) i ROk
        end
      else q_ret s i (RErr 5)
  | OUnregister =>
      match q_reg s with
      | None => q_ret s i (RErr 2)
      | Some g => if Nat.eqb (g_owner g) i then q_ret (seq_terminate_event s 0) i ROk else q_ret s i (RErr 3)
      end
  | OTerminate =>
      let s1 := mk_sst (q_reg s) (del_actor (q_subs s) i) (q_ntok s) (i :: q_dead s) (q_out s) (q_res s) in
      let s2 := fold_left (fun s _ => seq_dec s) (rels_of_actor (q_subs s) i) s1 in
      match q_reg s2 with
      | Some g => if Nat.eqb (g_owner g) i then seq_terminate_event s2 1 else s2
      | None => s2
      end
  end.

Definition seq_hist (h : list (nat * op)) : sst := fold_left seq_op h sst0.

Definition sinbox (f : item -> bool) (x : nat) (l : list (nat * item)) : list item :=
  map snd (filter (fun e => Nat.eqb (fst e) x && f (snd e)) l).
