(* Checkers evaluated over observations of TWO real nodes (go/harness/cmd/event remote). *)
From Ergo Require Import Common.Base Event.Model Event.Cases Event.Remote.

(* a quiescent history on two real nodes: rc_bs = the actors living on node B (the event lives on A) *)
Record rcase := mk_rcase { rc_n : nat; rc_bs : list nat; rc_hist : list (nat * op); rc_obs : list obs }.

Definition obs_remote (bs : list nat) (rs : rst) (x : nat) : obs :=
  mk_obs (map ev_payload (r_inbox bs rs is_ev x)) (r_inbox bs rs is_sys x)
         (map exit_reason (r_inbox bs rs is_exit x)) (results_of x (q_res (r_a rs))).

(* two-node model (frames, B's own target manager, request / reply) = implementation *)
Definition corr_remote (c : rcase) : bool :=
  list_eqb obs_eqb (map (obs_remote (rc_bs c) (q_hist (rc_bs c) (rc_hist c))) (seq 0 (rc_n c))) (rc_obs c).

(* the property clauses of Event/Cases.v on what the two real nodes delivered: by
   RemoteProofs.quiet_refines_sequential the two-node model of a quiescent history is the sequential model
   in which remote subscribers are ordinary consumers, so the monitors are the SAME definitions *)
Definition as_ecase (c : rcase) : ecase := mk_ecase (rc_n c) (rc_hist c) (rc_obs c).
Definition spec_r_once_in_order (c : rcase) : bool := spec_once_in_order (as_ecase c).
Definition spec_r_token (c : rcase) : bool := spec_token (as_ecase c).
Definition spec_r_lastN (c : rcase) : bool := spec_lastN (as_ecase c).
Definition spec_r_unregister_once (c : rcase) : bool := spec_unregister_once (as_ecase c).
Definition spec_r_start_stop (c : rcase) : bool := spec_start_stop (as_ecase c).

(* hypotheses of the refinement theorem hold and a subscriber on B received a publication *)
Definition premise_remote (c : rcase) : bool :=
  valid_hist (rc_bs c) (rc_hist c) &&
  existsb (fun xo => mem (fst xo) (rc_bs c) && negb (Nat.eqb (length (o_ev (snd xo))) 0))
          (combine (seq 0 (rc_n c)) (rc_obs c)).
