(* Hostile/FramesProofs.v — C16: no byte stream makes the un-recovered serve goroutine index out of
   range (after cda3993); the guards of handleRecvQueue cover every index the cases read (after
   da1e55c); witnesses for the code before the two fixes; the compression envelope allocates its
   declared size. *)
From Coq Require Import String.
From Ergo Require Import Common.Base Common.Bytes Hostile.Frames.
Local Open Scope N_scope.

Lemma idx_some f i : i < blen f -> exists x, idx f i = Some x.
Proof.
  unfold idx, blen. intros H. destruct (nth_error f (N.to_nat i)) as [x|] eqn:E; [eauto|].
  apply nth_error_None in E. lia.
Qed.

Lemma btake_len l s : l <= blen s -> blen (btake l s) = l.
Proof. unfold btake, blen. intros H. rewrite firstn_length. lia. Qed.

Lemma read1_frame c s f rest :
  read1 c s = RFrame f rest -> r_min c <= blen f /\ s = f ++ rest.
Proof.
  unfold read1. destruct (blen s <? 8); [discriminate|].
  destruct (be32_at s 2) as [l|]; [|discriminate].
  destruct (l <? r_min c) eqn:E1; [discriminate|].
  destruct ((0 <? r_max c) && (r_max c <? l)); [discriminate|].
  destruct (blen s <? l) eqn:E2; [discriminate|].
  intros H. inversion H; subst. split.
  - rewrite btake_len by lia. lia.
  - unfold btake, bdrop. symmetry. apply firstn_skipn.
Qed.

Lemma serve1_no_crash f : 7 <= blen f -> forall i, serve1 f <> SCrash i.
Proof.
  intros H i. unfold serve1.
  destruct (idx_some f 0) as [m ->]; [lia|]. destruct (negb (m =? protoMagic)); [discriminate|].
  destruct (idx_some f 1) as [v ->]; [lia|]. destruct (negb (v =? protoVersion)); [discriminate|].
  destruct (idx_some f 6) as [x ->]; [lia|]. discriminate.
Qed.

Lemma run_no_crash c tbl : 7 <= r_min c ->
  forall fuel s n acc, is_crash (run c tbl fuel s n acc) = false.
Proof.
  intros Hc. induction fuel as [|fuel IH]; intros s n acc; cbn [run]; [reflexivity|].
  destruct (read1 c s) as [| |f rest] eqn:E; try reflexivity.
  apply read1_frame in E as [L _].
  destruct (serve1 f) as [i| |] eqn:Es; try reflexivity.
  - exfalso. eapply serve1_no_crash; [|exact Es]. lia.
  - apply IH.
Qed.

(* every byte stream, every size limit, every dispatch table: the process survives the reader *)
Theorem frames_safe max tbl s : is_crash (run_stream (cfg_now max) tbl s) = false.
Proof. unfold run_stream. apply run_no_crash. cbn. lia. Qed.

(* before cda3993: header 78 1 | 0 0 0 3 | 0 101 *)
Definition w_short : bytes := [78; 1; 0; 0; 0; 3; 0; 101].

Theorem frames_refuted_before_fix :
  t_fin (run_stream (cfg_old 0) rows w_short) = FCrash 6 /\
  t_fin (run_stream (cfg_now 0) rows w_short) = FClosed.
Proof. split; vm_compute; reflexivity. Qed.

(* a declared length of 0 makes buf.B[0] itself fail *)
Example frames_refuted_len0 : t_fin (run_stream (cfg_old 0) rows [78; 1; 0; 0; 0; 0; 0; 101]) = FCrash 0.
Proof. vm_compute. reflexivity. Qed.

(* ---- guards ---------------------------------------------------------------------------------------- *)
Definition row_ok (r : row) : bool :=
  forallb (fun i => i <? w_guard r) (w_idx r) &&
  match w_name r with
  | Some (i, _) => i <? w_guard r
  | None => w_from r <=? N.max (w_guard r) (w_guard2 r)
  end.

Lemma rows_ok : forallb (fun p => row_ok (snd p)) rows = true.
Proof. vm_compute. reflexivity. Qed.

Lemma rows_old_not_ok : forallb (fun p => row_ok (snd p)) rows_old = false.
Proof. vm_compute. reflexivity. Qed.

Lemma lookup_in t l r : lookup t l = Some r -> In (t, r) l.
Proof.
  induction l as [|[t' r'] l IH]; cbn [lookup]; [discriminate|].
  destruct (t' =? t) eqn:E; intros H.
  - apply N.eqb_eq in E. inversion H; subst. now left.
  - right. now apply IH.
Qed.

Lemma dispatch_row_no_panic r f : row_ok r = true -> dispatch_row r f <> DPanic.
Proof.
  unfold row_ok, dispatch_row. intros H. apply andb_true_iff in H as [H1 H2].
  destruct (blen f <? w_guard r) eqn:G; [discriminate|].
  assert (Hall : forallb (fun i => i <? blen f) (w_idx r) = true).
  { rewrite forallb_forall in *. intros i Hi. specialize (H1 i Hi). lia. }
  rewrite Hall. cbn [negb].
  destruct (w_name r) as [[i base]|].
  - destruct (idx_some f i) as [l ->]; [lia|]. destruct (blen f <? base + l); discriminate.
  - destruct (blen f <? w_guard2 r) eqn:G2; [discriminate|].
    destruct (blen f <? w_from r) eqn:G3; [lia|discriminate].
Qed.

Lemma be32_at_some f k : k + 4 <= blen f -> exists v, be32_at f k = Some v.
Proof.
  intros H. unfold be32_at.
  destruct (get_be 4 (bdrop k f)) as [[v r]|] eqn:E; [eauto|].
  exfalso. assert (L : (4 <= length (bdrop k f))%nat).
  { unfold bdrop. rewrite skipn_length. unfold blen in H. lia. }
  destruct (bdrop k f) as [|a [|b [|c [|d l]]]]; cbn in L; try lia. cbn in E. discriminate.
Qed.

(* with the table as it is now, a frame handed over by serve (>= 8 bytes) never panics in the
   dispatcher: every malformed frame is logged and ignored *)
Theorem dispatch_no_panic f : 8 <= blen f -> dispatch rows f <> DPanic.
Proof.
  intros H. unfold dispatch.
  destruct (idx_some f 7) as [t ->]; [lia|].
  destruct (t =? protoMessageZ).
  - destruct (blen f <? 10) eqn:E; [discriminate|].
    destruct (idx_some f 8) as [ct ->]; [lia|].
    destruct ((ct =? 100) || (ct =? 101) || (ct =? 102)); [|discriminate].
    destruct (blen f <? 13) eqn:E2; [discriminate|].
    destruct (be32_at_some f 9) as [d ->]; [lia|]. discriminate.
  - destruct (lookup t rows) as [r|] eqn:E; [|discriminate].
    apply dispatch_row_no_panic. apply lookup_in in E.
    pose proof rows_ok as Hall. rewrite forallb_forall in Hall. exact (Hall _ E).
Qed.

(* before da1e55c: a 30-byte MessagePID frame and an 18-byte MessageName frame pass their guards and
   panic (buf.B[33:], buf.B[25]); now they are ignored *)
Definition zeros (n : N) : bytes := N.iter n (cons 0) [].
Definition w_pid30 : bytes := [78; 1; 0; 0; 0; 30; 0; 101] ++ zeros 22.
Definition w_name18 : bytes := [78; 1; 0; 0; 0; 18; 0; 102] ++ zeros 10.

Theorem guards_refuted_before_fix :
  dispatch rows_old w_pid30 = DPanic /\ dispatch rows_old w_name18 = DPanic /\
  dispatch rows w_pid30 = DDrop /\ dispatch rows w_name18 = DDrop.
Proof. repeat split; vm_compute; reflexivity. Qed.

(* the inflated frame is dispatched without a length check: declared size < 8 -> recovered panic *)
Definition w_z_short : bytes := [78; 1; 0; 0; 0; 14; 0; 200; 100; 0; 0; 0; 3; 0].
Example inflated_short_panics :
  dispatch_z (fun _ _ => Some [78; 1; 0]) rows 3 w_z_short = DPanic.
Proof. vm_compute. reflexivity. Qed.

(* ---- compression envelope: 14 bytes make the node allocate 4 GiB (8 GiB with the doubling) ------ *)
Definition w_z_bomb : bytes := [78; 1; 0; 0; 0; 14; 0; 200; 100; 255; 255; 255; 255; 0].

Theorem z_alloc_refuted : blen w_z_bomb = 14 /\ z_alloc w_z_bomb = 4294967295.
Proof. split; vm_compute; reflexivity. Qed.
