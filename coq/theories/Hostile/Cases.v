(* Hostile/Cases.v — checkers evaluated (vm_compute) on observations of the real code written by
   go/harness/cmd/hostile.
   hcase: one hostile byte string given to the real edf.Decode in a child process.
   fcase: one hostile byte stream written to a link of a real proto connection in a child process. *)
From Ergo Require Import Common.Base Common.Bytes Common.Codec Edf.Model Edf.Cases
                         Hostile.Alloc Hostile.Frames Hostile.HsMsg.
Local Open Scope N_scope.

Record hcase := mk_hcase {
  h_opts : opts;                        (* the PEER's encoding options; the decoder runs with [dual h_opts] *)
  h_in : bytes;
  h_skip : bool;                        (* input class evaluated by the Go monitor only (see scan_ok) *)
  h_dec : option (ty * val * N);        (* implementation: dynamic type, value, tail length; None = error *)
  h_alloc : N;                          (* runtime.MemStats.TotalAlloc delta of the Decode call *)
  h_reenc : bool;                       (* implementation: Encode accepted the decoded value (with h_opts) *)
  h_redec : option (ty * val * N)       (* implementation: Decode of the re-encoded bytes *)
}.

(* The model iterates an array decoder N.to_nat n times: evaluation is only feasible when the
   array lengths that can occur in a type descriptor of the input are small.  Conservative scan:
   the product of all 4-byte values following a byte 158 (edtArray) anywhere in the input. *)
Fixpoint arr_product (b : bytes) (acc : N) : N :=
  match b with
  | x :: r =>
    if x =? edtArray then
      match get_be 4 r with
      | Some (n, _) => arr_product r (acc * N.max 1 n)
      | None => acc
      end
    else arr_product r acc
  | [] => acc
  end.
Definition scan_ok (b : bytes) : bool := arr_product b 1 <=? 1048576.

Definition evaluated (c : hcase) : bool := negb (h_skip c) && scan_ok (h_in c).

(* ---- correspondence ------------------------------------------------------------------------------- *)
(* decoder: same accept / reject, dynamic type, value and tail on the same bytes *)
(* ---- normal form for the comparison of decoded values ------------------------------------------------
   Things the typed model and the Go value present differently although they are the same value:
   * a type descriptor "edtSlice edtUint8" denotes []uint8, which IS []byte in Go: the printer shows
     the binary form;
   * Go maps keep one entry per key (the last one on the wire wins; NaN keys never collide, +0 = -0);
   * a float32 decoded into a typed destination goes through float64 (signalling NaN quieted);
   * time.Time is printed through MarshalBinary, which normalises what UnmarshalBinary accepted
     (the model checks version and length only): time-shaped byte strings compare equal. *)
Definition is_u8 (t : ty) : bool := match t with TPrim PUint8 => true | _ => false end.
Definition as_byte (v : val) : N := match v with VInt z => Z.to_N z | _ => 0 end.

Fixpoint tnorm (t : ty) : ty :=
  match t with
  | TSlice t' => if is_u8 t' then TPrim PBinary else TSlice (tnorm t')
  | TArray n t' => TArray n (tnorm t')
  | TMap k e => TMap (tnorm k) (tnorm e)
  | _ => t
  end.

Definition is_nan64 (n : N) : bool := ((n / 2 ^ 52) mod 2048 =? 2047) && negb (n mod 2 ^ 52 =? 0).

Fixpoint key_eqb (a b : val) {struct a} : bool :=
  match a, b with
  | VF64 x, VF64 y =>
    if is_nan64 x || is_nan64 y then false
    else if (x mod 2 ^ 63 =? 0) && (y mod 2 ^ 63 =? 0) then true else x =? y
  | VF32 x, VF32 y =>
    if is_nan32 x || is_nan32 y then false
    else if (x mod 2 ^ 31 =? 0) && (y mod 2 ^ 31 =? 0) then true else x =? y
  | VAny t x, VAny t' y => ty_eqb t t' && key_eqb x y
  | VList l, VList l' =>
    (fix go (l l' : list val) : bool :=
       match l, l' with
       | [], [] => true
       | x :: r, y :: r' => key_eqb x y && go r r'
       | _, _ => false
       end) l l'
  | _, _ => val_eqb a b
  end.

(* one entry per key, the last occurrence wins *)
Definition dedup (m : list (val * val)) : list (val * val) :=
  fold_right (fun kv acc => if existsb (fun kv' => key_eqb (fst kv) (fst kv')) acc then acc else kv :: acc) [] m.

Fixpoint vn (ot : option ty) (v : val) {struct v} : val :=
  match v with
  | VAny t x => VAny (tnorm t) (vn (Some t) x)
  | VNil => match ot with Some (TSlice t') => if is_u8 t' then VBinNil else VNil | _ => VNil end
  | VList l =>
    match ot with
    | Some (TSlice t') => if is_u8 t' then VBytes (map as_byte l) else VList (map (vn (Some t')) l)
    | Some (TArray _ t') => VList (map (vn (Some t')) l)
    | _ => VList (map (vn None) l)
    end
  | VMap m =>
    match ot with
    | Some (TMap k e) => VMap (dedup (map (fun kv => (vn (Some k) (fst kv), vn (Some e) (snd kv))) m))
    | _ => VMap (dedup (map (fun kv => (vn None (fst kv), vn None (snd kv))) m))
    end
  | VF32 n => VF32 (quiet32 n)
  | VBytes b => if time_valid b then VBytes [170] else v
  | _ => v
  end.

(* reflect.Value.SetMapIndex panics ("hash of unhashable type") when an interface key holds a slice or
   a map: Decode recovers and returns an error where the model has a value *)
Definition unhashable_ty (t : ty) : bool := match t with TSlice _ | TMap _ _ => true | _ => false end.
Fixpoint unhashable_key (k : val) : bool :=
  match k with
  | VAny t x => unhashable_ty t || unhashable_key x
  | VList l => existsb unhashable_key l
  | _ => false
  end.
Fixpoint has_unhashable (v : val) : bool :=
  match v with
  | VAny _ x => has_unhashable x
  | VList l => existsb has_unhashable l
  | VMap m => existsb (fun kv => unhashable_key (fst kv) || has_unhashable (fst kv) || has_unhashable (snd kv)) m
  | _ => false
  end.

(* reflect.MapOf panics ("invalid key type") for a key type that is not comparable ([]byte, slices,
   maps, arrays / registered structs containing them): decodeType runs under Decode's recover, the
   implementation answers with an error where the model unfolds the descriptor *)
Fixpoint comparable (f : nat) (o : opts) (t : ty) {struct f} : bool :=
  match f with
  | O => true
  | S f' =>
    match t with
    | TPrim PBinary => false
    | TPrim _ | TAny => true
    | TSlice _ | TMap _ _ => false
    | TArray _ t' => comparable f' o t'
    | TReg name =>
      match lookup_reg o name with
      | Some (RStruct fs) => forallb (comparable f' o) fs
      | Some (RSlice _) | Some (RMap _ _) => false
      | Some (RArray _ t') => comparable f' o t'
      | _ => true
      end
    end
  end.

Fixpoint bad_map_ty (o : opts) (t : ty) : bool :=
  match t with
  | TMap k e => negb (comparable 20 o k) || bad_map_ty o k || bad_map_ty o e
  | TSlice t' | TArray _ t' => bad_map_ty o t'
  | _ => false
  end.

Fixpoint bad_map_val (o : opts) (v : val) : bool :=
  match v with
  | VAny t x => bad_map_ty o t || bad_map_val o x
  | VList l => existsb (bad_map_val o) l
  | VMap m => existsb (fun kv => bad_map_val o (fst kv) || bad_map_val o (snd kv)) m
  | _ => false
  end.

(* a top-level nil error (edtError ff ff) reaches the caller of Decode as a nil interface, like edtNil *)
Definition norm_nil (t : ty) (v : val) : ty * val :=
  match v with VErrNil => (TAny, VAnyNil) | _ => norm_top t v end.

Definition corr_dec (c : hcase) : bool :=
  if negb (evaluated c) then true else
  match decode (dual (h_opts c)) (h_in c), h_dec c with
  | Ok (t, v, r), Some (it, iv, tail) =>
    let '(t', v') := norm_nil t v in
    ty_eqb (tnorm t') it && val_eqb (vn (Some t') v') (vn (Some it) iv) && (blen r =? tail)
  | Ok (t, v, _), None => has_unhashable v || bad_map_ty (h_opts c) t || bad_map_val (h_opts c) v
  | Err EData, None => true
  | _, _ => false
  end.

(* allocation: what the model charges really is allocated (the model counts a copy per consumed
   byte of every primitive, hence the factor 2), and what the implementation allocates beyond the
   model's account is bounded by fixed costs per input byte (boxing, decoder closures, reflect type
   objects, error texts) *)
Definition AL_K : N := 16384.           (* bytes per input byte *)
Definition AL_K0 : N := 524288.         (* fixed slack *)

Definition corr_alloc (c : hcase) : bool :=
  if negb (evaluated c) then true else
  let m := alloc (dual (h_opts c)) (h_in c) in
  (m <=? 2 * h_alloc c + 4096) && (h_alloc c <=? 4 * m + AL_K * blen (h_in c) + AL_K0).

(* ---- the property on what the implementation did --------------------------------------------- *)
(* memory in proportion to the input *)
Definition spec_alloc (c : hcase) : bool :=
  if h_skip c then true else h_alloc c <=? AL_K * blen (h_in c) + AL_K0.

(* a value that decodes successfully re-encodes to bytes that decode to the same value *)
Definition spec_idem (c : hcase) : bool :=
  if h_skip c then true else
  match h_dec c with
  | None => true
  | Some (_, VAnyNil, _) => true      (* Decode returned nil: not a value (Encode(nil) = "nothing to encode") *)
  | Some (t, v, _) =>
    h_reenc c &&
    match h_redec c with
    | Some (t', v', tail) =>
      (* time.Time is compared up to the normal form of Go's own MarshalBinary (it is not stable for
         zone offsets with negative seconds): [vn] makes time-shaped byte strings equal *)
      ty_eqb t' t && val_eqb (vn (Some t) (canon (h_opts c) v')) (vn (Some t) (canon (h_opts c) v)) && (tail =? 0)
    | None => false
    end
  end.

(* ---- non-vacuity ----------------------------------------------------------------------------------- *)
(* the bound theorem for accepted inputs applies and its conclusion holds in the model *)
Definition premise_accept (c : hcase) : bool :=
  evaluated c && is_ok (decode (dual (h_opts c)) (h_in c)) &&
  (alloc (dual (h_opts c)) (h_in c) <=? KA * blen (h_in c)).

(* the idempotence theorem applies to the decoded value *)
Definition premise_idem (c : hcase) : bool :=
  evaluated c &&
  match decode (dual (h_opts c)) (h_in c) with
  | Ok (t, v, _) => reenc_guard (dual (h_opts c)) t v && is_ok (encode (h_opts c) t v)
  | Err _ => false
  end.

(* rejected inputs: the model predicts the rejection *)
Definition premise_reject (c : hcase) : bool :=
  evaluated c && negb (is_ok (decode (dual (h_opts c)) (h_in c))).

(* ---- frames ------------------------------------------------------------------------------------------ *)
Record fcase := mk_fcase {
  f_max : N;                 (* node_maxmessagesize *)
  f_acache : bool;           (* the connection has a decoding atom cache *)
  f_stream : bytes;          (* everything written to the link *)
  f_obs : N;                 (* 0 link open; 1 link closed by the node; 2 recovered panic logged; 3 process died *)
  f_frames : N               (* MessagesIn: frames that passed the magic / version check *)
}.

Definition f_trace (c : fcase) : trace := run_stream (cfg_now (f_max c)) rows (f_stream c).

(* a decoded MessageAny is routed by type; with absent caches that code may panic (recovered) *)
Definition may_panic (l : list dres) : bool :=
  has_panic l || has_inflate l || existsb (fun d => match d with DDecode 8 => true | _ => false end) l.

Definition corr_frames (c : fcase) : bool :=
  let t := f_trace c in
  match f_obs c with
  | 0 => (match t_fin t with FWait => true | _ => false end) && (t_frames t =? f_frames c) && negb (has_panic (t_disp t))
  | 1 => (match t_fin t with FClosed => true | _ => false end) && (t_frames t =? f_frames c) && negb (has_panic (t_disp t))
  | 2 => may_panic (t_disp t)
  | _ => is_crash t
  end.

(* the property: the process survives whatever arrives *)
Definition spec_frames (c : fcase) : bool := negb (f_obs c =? 3).

(* the model says the same (the theorem C16_frames_safe evaluated on the case) *)
Definition premise_frames (c : fcase) : bool := negb (is_crash (f_trace c)) && (1 <=? t_frames (f_trace c)).

(* ---- handshake messages of a peer that knows the cookie (go/harness/cmd/hostile hsnode) ------------- *)
Record ncase := mk_ncase {
  n_msg : hsmsg;
  n_obs : Z            (* 0 connection established; 1 refused; 2 the node died / the caller of GetNode panicked; 3 no answer *)
}.

Definition hsout_code (o : hsout) : Z :=
  match o with HConnected => 0 | HRejected => 1 | HCrash _ => 2 end.

(* the model of the guarded code predicts what the real node did *)
Definition corr_hsnode (c : ncase) : bool := Z.eqb (hsout_code (hs_outcome true (n_msg c))) (n_obs c).

(* the property: whatever such a peer declares, the node survives and answers *)
Definition spec_hsnode (c : ncase) : bool := Z.ltb (n_obs c) 2.

(* invalid messages (the theorem C16_hs_invalid_rejected speaks about them) *)
Definition premise_hsnode (c : ncase) : bool := negb (hs_msg_ok (n_msg c)).
