(* Hostile/Cases.v — checkers evaluated (vm_compute) on observations of the real code written by
   go/harness/cmd/hostile.
   hcase: one hostile byte string given to the real edf.Decode in a child process.
   fcase: one hostile byte stream written to a link of a real proto connection in a child process. *)
From Ergo Require Import Common.Base Common.Bytes Common.Codec Edf.Model Edf.Cases
                         Hostile.Alloc Hostile.Frames.
Local Open Scope N_scope.

Record hcase := mk_hcase {
  h_opts : opts;                        (* the PEER's encoding options; the decoder runs with [dual h_opts] *)
  h_in : bytes;
  h_skip : bool;                        (* input class evaluated by the Go monitor only (see scan_ok) *)
  h_dec : option (ty * val * N);        (* implementation: dynamic type, value, tail length; None = error *)
  h_alloc : N;                          (* runtime.MemStats.TotalAlloc delta of the Decode call *)
  h_reenc : bool;                       (* implementation: Encode accepted the decoded value (with h_opts) *)
  h_redec : option (ty * val * N)       (* implementation: Decode of the re-encoded bytes *)
}.

(* The model iterates an array decoder N.to_nat n times: evaluation is only feasible when the
   array lengths that can occur in a type descriptor of the input are small.  Conservative scan:
   the product of all 4-byte values following a byte 158 (edtArray) anywhere in the input. *)
Fixpoint arr_product (b : bytes) (acc : N) : N :=
  match b with
  | x :: r =>
    if x =? edtArray then
      match get_be 4 r with
      | Some (n, _) => arr_product r (acc * N.max 1 n)
      | None => acc
      end
    else arr_product r acc
  | [] => acc
  end.
Definition scan_ok (b : bytes) : bool := arr_product b 1 <=? 1048576.

Definition evaluated (c : hcase) : bool := negb (h_skip c) && scan_ok (h_in c).

(* ---- correspondence ------------------------------------------------------------------------------- *)
(* decoder: same accept / reject, dynamic type, value and tail on the same bytes *)
Definition corr_dec (c : hcase) : bool :=
  if negb (evaluated c) then true else
  match decode (dual (h_opts c)) (h_in c), h_dec c with
  | Ok (t, v, r), Some (it, iv, tail) =>
    let '(t', v') := norm_top t v in ty_eqb t' it && val_eqb v' iv && (blen r =? tail)
  | Err EData, None => true
  | _, _ => false
  end.

(* allocation: what the model charges really is allocated (the model counts a copy per consumed
   byte of every primitive, hence the factor 2), and what the implementation allocates beyond the
   model's account is bounded by fixed costs per input byte (boxing, decoder closures, reflect type
   objects, error texts) *)
Definition AL_K : N := 16384.           (* bytes per input byte *)
Definition AL_K0 : N := 524288.         (* fixed slack *)

Definition corr_alloc (c : hcase) : bool :=
  if negb (evaluated c) then true else
  let m := alloc (dual (h_opts c)) (h_in c) in
  (m <=? 2 * h_alloc c + 4096) && (h_alloc c <=? 4 * m + AL_K * blen (h_in c) + AL_K0).

(* ---- the property on what the implementation did --------------------------------------------- *)
(* memory in proportion to the input *)
Definition spec_alloc (c : hcase) : bool :=
  if h_skip c then true else h_alloc c <=? AL_K * blen (h_in c) + AL_K0.

(* a value that decodes successfully re-encodes to bytes that decode to the same value *)
Definition spec_idem (c : hcase) : bool :=
  if h_skip c then true else
  match h_dec c with
  | None => true
  | Some (t, v, _) =>
    h_reenc c &&
    match h_redec c with
    | Some (t', v', tail) =>
      ty_eqb t' t && val_eqb (canon (h_opts c) v') (canon (h_opts c) v) && (tail =? 0)
    | None => false
    end
  end.

(* ---- non-vacuity ----------------------------------------------------------------------------------- *)
(* the bound theorem for accepted inputs applies and its conclusion holds in the model *)
Definition premise_accept (c : hcase) : bool :=
  evaluated c && is_ok (decode (dual (h_opts c)) (h_in c)) &&
  (alloc (dual (h_opts c)) (h_in c) <=? KA * blen (h_in c)).

(* the idempotence theorem applies to the decoded value *)
Definition premise_idem (c : hcase) : bool :=
  evaluated c &&
  match decode (dual (h_opts c)) (h_in c) with
  | Ok (t, v, _) => reenc_guard (dual (h_opts c)) t v && is_ok (encode (h_opts c) t v)
  | Err _ => false
  end.

(* rejected inputs: the model predicts the rejection *)
Definition premise_reject (c : hcase) : bool :=
  evaluated c && negb (is_ok (decode (dual (h_opts c)) (h_in c))).

(* ---- frames ------------------------------------------------------------------------------------------ *)
Record fcase := mk_fcase {
  f_max : N;                 (* node_maxmessagesize *)
  f_acache : bool;           (* the connection has a decoding atom cache *)
  f_stream : bytes;          (* everything written to the link *)
  f_obs : N;                 (* 0 link open; 1 link closed by the node; 2 recovered panic logged; 3 process died *)
  f_frames : N               (* MessagesIn: frames that passed the magic / version check *)
}.

Definition f_trace (c : fcase) : trace := run_stream (cfg_now (f_max c)) rows (f_stream c).

(* a decoded MessageAny is routed by type; with absent caches that code may panic (recovered) *)
Definition may_panic (l : list dres) : bool :=
  has_panic l || has_inflate l || existsb (fun d => match d with DDecode 8 => true | _ => false end) l.

Definition corr_frames (c : fcase) : bool :=
  let t := f_trace c in
  match f_obs c with
  | 0 => (match t_fin t with FWait => true | _ => false end) && (t_frames t =? f_frames c) && negb (has_panic (t_disp t))
  | 1 => (match t_fin t with FClosed => true | _ => false end) && (t_frames t =? f_frames c) && negb (has_panic (t_disp t))
  | 2 => may_panic (t_disp t)
  | _ => is_crash t
  end.

(* the property: the process survives whatever arrives *)
Definition spec_frames (c : fcase) : bool := negb (f_obs c =? 3).

(* the model says the same (the theorem C16_frames_safe evaluated on the case) *)
Definition premise_frames (c : fcase) : bool := negb (is_crash (f_trace c)) && (1 <=? t_frames (f_trace c)).
