(* Hostile/AllocProofs.v — C16: allocation of the EDF decoder against the size of the input.

   Main theorem [alloc_accepted_linear]: whenever the decoder ACCEPTS a prefix of the input, everything
   it allocated on the way is at most 200 bytes per consumed input byte - for every option set, every
   registry, every type descriptor on the wire (arrays included), every nesting depth.
   The invariant behind it: decoding a value of type T on input b with remainder r satisfies
        alloc + 3 * sizeof(T) <= 200 * (|b| - |r|)
   (every slot of positive size is paid for by at least one byte of its own encoding).

   For REJECTED inputs no such bound holds for the code as it is: [alloc_refuted_array] (9 bytes, 2 GiB),
   [alloc_refuted_nested] (2000 bytes, > 1500 bytes per input byte, growing quadratically) and, for
   the code before 03c4501, [alloc_regmap_before_fix]. *)
From Ergo Require Import Common.Base Common.Bytes Common.Codec Edf.Model Edf.Proofs Hostile.Alloc.
Local Open Scope N_scope.

(* ---- how much a decoder leaves ---------------------------------------------------------------- *)
Lemma get_be_len k : forall b n r, get_be k b = Some (n, r) -> blen b = N.of_nat k + blen r.
Proof.
  induction k as [|k IH]; intros b n r H.
  - cbn [get_be] in H. inversion H; subst. change (N.of_nat 0) with 0. lia.
  - cbn [get_be] in H. destruct b as [|x b]; [discriminate|].
    destruct (get_be k b) as [[v r0]|] eqn:E; [|discriminate]. inversion H; subst.
    apply IH in E. rewrite blen_cons, E. lia.
Qed.

Lemma rd_be_len k b n r : rd_be k b = Ok (n, r) -> blen b = N.of_nat k + blen r.
Proof.
  unfold rd_be. destruct (get_be k b) as [[v r0]|] eqn:E; intros H; [|discriminate].
  inversion H; subst. now apply get_be_len in E.
Qed.

Lemma rd_u8_len b x r : rd_u8 b = Ok (x, r) -> blen b = 1 + blen r.
Proof. destruct b as [|y b]; cbn [rd_u8]; intros H; [discriminate|]. inversion H; subst. apply blen_cons. Qed.

Lemma bdrop_len l r : blen (bdrop l r) = blen r - l.
Proof. unfold bdrop, blen. rewrite skipn_length. lia. Qed.

Lemma get_lp_len k W b s r : get_lp k W b = Ok (s, r) -> blen r + N.of_nat k <= blen b.
Proof.
  unfold get_lp. intros H. apply bind_ok in H as ([l r0] & H1 & H). cbn beta iota in H.
  apply rd_be_len in H1.
  destruct (blen b <? _); [discriminate|]. destruct (_ <? N.of_nat k); [discriminate|].
  destruct (blen r0 <? l) eqn:E; [discriminate|]. inversion H; subst. rewrite bdrop_len. lia.
Qed.

Lemma read_atom_len o b a r : read_atom o b = Ok (a, r) -> blen r + 2 <= blen b.
Proof.
  unfold read_atom. intros H. apply bind_ok in H as ([id r0] & H1 & H). cbn beta iota in H.
  apply rd_be_len in H1. change (N.of_nat 2) with 2 in H1.
  apply bind_ok in H as ([a0 r1] & H2 & H). cbn beta iota in H. inversion H; subst.
  destruct (maxAtom <? id).
  - destruct (o_atom_cache o) as [c|]; [|discriminate]. destruct (assoc_id id c); [|discriminate].
    inversion H2; subst. lia.
  - destruct (blen r0 <? id) eqn:E; [discriminate|]. inversion H2; subst. rewrite bdrop_len. lia.
Qed.

Lemma dec_error_len o b v r : dec_error o b = Ok (v, r) -> blen r + 2 <= blen b.
Proof.
  unfold dec_error. intros H. apply bind_ok in H as ([id r0] & H1 & H). cbn beta iota in H.
  apply rd_be_len in H1. change (N.of_nat 2) with 2 in H1.
  destruct (id =? 65535). { inversion H; subst. lia. }
  destruct (maxError <? id).
  - destruct (o_err_cache o) as [c|]; [|discriminate]. destruct (err_by_id id c) as [[k t]|]; [|discriminate].
    inversion H; subst. lia.
  - destruct (blen r0 <? id) eqn:E; [discriminate|]. inversion H; subst. rewrite bdrop_len. lia.
Qed.

Ltac step_dec :=
  match goal with
  | H : bind _ _ = Ok _ |- _ => apply bind_ok in H as ([? ?] & ? & H); cbn beta iota in H
  | H : rd_be ?k _ = Ok _ |- _ => apply rd_be_len in H
  | H : rd_u8 _ = Ok _ |- _ => apply rd_u8_len in H
  | H : read_atom _ _ = Ok _ |- _ => apply read_atom_len in H
  | H : get_lp _ _ _ = Ok _ |- _ => apply get_lp_len in H
  | H : dec_error _ _ = Ok _ |- _ => apply dec_error_len in H
  end.

Lemma dec_prim_body_len o p b v r : dec_prim_body o p b = Ok (v, r) -> blen r + 1 <= blen b.
Proof.
  unfold dec_prim_body. intros H.
  destruct (int_kind p) as [[sg k]|] eqn:Ek.
  - step_dec. inversion H; subst. step_dec.
    assert (1 <= N.of_nat k). { destruct p; cbn in Ek; inversion Ek; subst; cbn; lia. }
    lia.
  - destruct p; try discriminate.
    all: try (apply dec_error_len in H; lia).
    all: try (repeat step_dec; inversion H; subst; cbn in *; lia).
    (* time *)
    apply bind_ok in H as ([l r0] & H1 & H). cbn beta iota in H. apply rd_u8_len in H1.
    destruct (blen r0 <? l) eqn:E; [discriminate|]. destruct (time_valid _); [|discriminate].
    inversion H; subst. rewrite bdrop_len. lia.
Qed.

Lemma dec_prim_len o et p b v r : dec_prim o et p b = Ok (v, r) -> blen r + 1 <= blen b.
Proof.
  unfold dec_prim. destruct et.
  - destruct b as [|x b']; [discriminate|]. destruct (x =? tag_of p); [|discriminate].
    intros H. apply dec_prim_body_len in H. rewrite blen_cons. lia.
  - apply dec_prim_body_len.
Qed.

Lemma get_reg_len o b name r : get_reg o b = Ok (name, r) -> blen r + 2 <= blen b.
Proof.
  unfold get_reg. intros H. apply bind_ok in H as ([n r0] & H1 & H). cbn beta iota in H.
  apply rd_be_len in H1. change (N.of_nat 2) with 2 in H1.
  apply bind_ok in H as ([nm r1] & H2 & H). cbn beta iota in H.
  destruct (lookup_reg o nm); [|discriminate]. inversion H; subst.
  destruct (maxRegName <? n).
  - destruct (o_reg_cache o) as [c|]; [|discriminate]. destruct (assoc_id n c); [|discriminate].
    inversion H2; subst. lia.
  - destruct (blen r0 <? n) eqn:E; [discriminate|]. inversion H2; subst. rewrite bdrop_len. lia.
Qed.

(* ---- the invariant ------------------------------------------------------------------------------ *)
(* [w] = weight of the slot the value is decoded into (3 x its size) *)
Definition inv {A} (w : N) (cost : bytes -> N) (d : dec A) : Prop :=
  forall b v r, d b = Ok (v, r) -> blen r <= blen b /\ cost b + w <= KA * (blen b - blen r).

Lemma psize_le p : psize p <= 48.
Proof. destruct p; cbn; lia. Qed.

Lemma prim_inv o et p : inv (3 * psize p) (alloc_prim o et p) (dec_prim o et p).
Proof.
  intros b v r H. unfold alloc_prim. rewrite H. apply dec_prim_len in H.
  pose proof (psize_le p). unfold KA. split; lia.
Qed.

Lemma alloc_n_inv {A} w cost (d : dec A) : inv w cost d ->
  forall n b l r, dec_n d n b = Ok (l, r) ->
    blen r <= blen b /\ alloc_n cost d n b + N.of_nat n * w <= KA * (blen b - blen r).
Proof.
  intros Hd. induction n as [|n IH]; intros b l r H.
  - cbn [dec_n] in H. inversion H; subst. cbn [alloc_n]. change (N.of_nat 0) with 0. lia.
  - cbn [dec_n] in H. apply bind_ok in H as ([a r1] & H1 & H). cbn beta iota in H.
    apply bind_ok in H as ([l' r2] & H2 & H). cbn beta iota in H. inversion H; subst.
    cbn [alloc_n]. rewrite H1. cbn [acont].
    destruct (Hd _ _ _ H1) as [L1 C1]. destruct (IH _ _ _ H2) as [L2 C2].
    rewrite Nat2N.inj_succ. unfold KA in *. split; [lia|]. nia.
Qed.

Lemma seq_inv tagb esz cost (d : dec val) :
  inv (3 * esz) cost d -> inv (3 * 24) (alloc_seq tagb esz cost d) (dec_seq tagb d).
Proof.
  intros Hd b v r H. unfold dec_seq in H. unfold alloc_seq.
  destruct b as [|x p]; [discriminate|]. rewrite blen_cons.
  destruct (x =? edtNil). { inversion H; subst. unfold KA. split; lia. }
  destruct (x =? tagb); [|discriminate].
  apply bind_ok in H as ([n p1] & H1 & H). cbn beta iota in H. rewrite H1.
  apply rd_be_len in H1. change (N.of_nat 4) with 4 in H1.
  destruct (n =? 0). { inversion H; subst. unfold KA. split; lia. }
  destruct (blen p1 <? n); [discriminate|].
  apply bind_ok in H as ([l r1] & H2 & H). cbn beta iota in H. inversion H; subst.
  destruct (alloc_n_inv _ _ _ Hd _ _ _ _ H2) as [L C]. rewrite N2Nat.id in C.
  unfold KA in *. split; [lia|]. nia.
Qed.

Lemma entry_inv ksz vsz ck cv (dk dv : dec val) :
  inv (3 * ksz) ck dk -> inv (3 * vsz) cv dv ->
  inv (2 * (ksz + vsz)) (alloc_entry ksz vsz ck cv dk) (dec_pair dk dv).
Proof.
  intros Hk Hv b [k v] r H. unfold dec_pair in H. unfold alloc_entry.
  apply bind_ok in H as ([k' r1] & H1 & H). cbn beta iota in H.
  apply bind_ok in H as ([v' r2] & H2 & H). cbn beta iota in H. inversion H; subst.
  rewrite H1. cbn [acont].
  destruct (Hk _ _ _ H1) as [L1 C1]. destruct (Hv _ _ _ H2) as [L2 C2].
  unfold KA in *. split; [lia|]. nia.
Qed.

Lemma mapb_inv tagb ksz vsz ck cv (dk dv : dec val) :
  inv (3 * ksz) ck dk -> inv (3 * vsz) cv dv ->
  inv (3 * 8) (alloc_mapb true tagb ksz vsz ck cv dk dv) (dec_mapb tagb dk dv).
Proof.
  intros Hk Hv b v r H. unfold dec_mapb in H. unfold alloc_mapb.
  destruct b as [|x p]; [discriminate|]. rewrite blen_cons.
  destruct (x =? edtNil). { inversion H; subst. unfold KA. split; lia. }
  destruct (x =? tagb); [|discriminate].
  apply bind_ok in H as ([n p1] & H1 & H). cbn beta iota in H. rewrite H1.
  apply rd_be_len in H1. change (N.of_nat 4) with 4 in H1.
  destruct (n =? 0). { inversion H; subst. unfold KA. split; lia. }
  destruct (blen p1 <? n); [discriminate|].
  apply bind_ok in H as ([l r1] & H2 & H). cbn beta iota in H. inversion H; subst.
  destruct (alloc_n_inv _ _ _ (entry_inv _ _ _ _ _ _ Hk Hv) _ _ _ _ H2) as [L C]. rewrite N2Nat.id in C.
  unfold KA in *. split; [lia|]. nia.
Qed.

Lemma arr_inv n esz cost (d : dec val) :
  inv (3 * esz) cost d -> inv (3 * (n * esz)) (alloc_arr n cost d) (dec_arr n d).
Proof.
  intros Hd b v r H. unfold dec_arr in H. unfold alloc_arr.
  destruct b as [|x p].
  - destruct (n =? 0) eqn:E; [|discriminate]. apply N.eqb_eq in E. subst. inversion H; subst.
    unfold KA. split; lia.
  - apply bind_ok in H as ([l r1] & H2 & H). cbn beta iota in H. inversion H; subst.
    destruct (alloc_n_inv _ _ _ Hd _ _ _ _ H2) as [L C]. rewrite N2Nat.id in C.
    unfold KA in *. split; [lia|]. nia.
Qed.

Lemma fields_inv (sz : ty -> N) (cost : ty -> bytes -> N) (g : ty -> dec val) fs :
  (forall t, In t fs -> inv (3 * sz t) (cost t) (g t)) ->
  forall b l r, dec_fields g fs b = Ok (l, r) ->
    blen r <= blen b /\ alloc_fields cost g fs b + 3 * nsum (map sz fs) <= KA * (blen b - blen r).
Proof.
  induction fs as [|t fs IH]; intros Hin b l r H.
  - cbn [dec_fields] in H. inversion H; subst. cbn [alloc_fields map nsum]. lia.
  - cbn [dec_fields] in H. apply bind_ok in H as ([v r1] & H1 & H). cbn beta iota in H.
    apply bind_ok in H as ([l' r2] & H2 & H). cbn beta iota in H. inversion H; subst.
    cbn [alloc_fields map nsum]. rewrite H1. cbn [acont].
    destruct (Hin t (or_introl eq_refl) _ _ _ H1) as [L1 C1].
    destruct (IH (fun t' Ht => Hin t' (or_intror Ht)) _ _ _ H2) as [L2 C2].
    unfold KA in *. split; [lia|]. nia.
Qed.

(* ---- the decoder -------------------------------------------------------------------------------- *)
Lemma val_inv o : forall f t, inv (3 * tsize f o t) (alloc_val true f o t) (dec_val f o t).
Proof.
  induction f as [|f IH]; intros t b v r H; [discriminate|].
  cbn [dec_val] in H. cbn [alloc_val tsize].
  destruct t as [p| |t'|n t'|tk tv|name].
  - (* prim *) exact (prim_inv o false p b v r H).
  - (* any *)
    destruct b as [|id p]; [discriminate|]. rewrite blen_cons.
    destruct (id =? edtNil). { inversion H; subst. unfold KA. split; lia. }
    destruct (id =? edtReg).
    { apply bind_ok in H as ([name p1] & H1 & H). cbn beta iota in H. rewrite H1.
      apply get_reg_len in H1.
      apply bind_ok in H as ([v' r1] & H2 & H). cbn beta iota in H. inversion H; subst.
      destruct (IH _ _ _ _ H2) as [L C]. unfold KA in *. split; [lia|]. nia. }
    destruct (id =? edtType).
    { apply bind_ok in H as ([n p1] & H1 & H). cbn beta iota in H. rewrite H1.
      apply rd_be_len in H1. change (N.of_nat 2) with 2 in H1.
      destruct (blen p1 <? n) eqn:E; [discriminate|].
      apply bind_ok in H as ([t' x] & H2 & H). cbn beta iota in H. rewrite H2.
      apply bind_ok in H as ([v' r1] & H3 & H). cbn beta iota in H. inversion H; subst.
      destruct (IH _ _ _ _ H3) as [L C]. rewrite bdrop_len in L, C.
      unfold KA in *. split; [lia|]. nia. }
    destruct (id =? edtAny).
    { destruct (IH _ _ _ _ H) as [L C]. cbn [tsize] in C. unfold KA in *.
      destruct f; [discriminate|]. cbn [tsize] in C. split; [lia|]. nia. }
    destruct (prim_of_tag id) as [pr|]; [|discriminate].
    apply bind_ok in H as ([v' r1] & H2 & H). cbn beta iota in H. inversion H; subst.
    destruct (prim_inv o false pr _ _ _ H2) as [L C]. unfold KA in *. split; [lia|]. nia.
  - (* slice *) exact (seq_inv _ _ _ _ (IH t') b v r H).
  - (* array *) exact (arr_inv _ _ _ _ (IH t') b v r H).
  - (* map *) exact (mapb_inv _ _ _ _ _ _ _ (IH tk) (IH tv) b v r H).
  - (* registered *)
    destruct (lookup_reg o name) as [d|]; [|discriminate].
    destruct d as [p|fs|t'|n t'|tk tv|mm mu].
    + destruct (regable p); [|discriminate]. exact (prim_inv o false p b v r H).
    + apply bind_ok in H as ([l r1] & H1 & H). cbn beta iota in H. inversion H; subst.
      exact (fields_inv (tsize f o) _ _ fs (fun t _ => IH t) _ _ _ H1).
    + exact (seq_inv _ _ _ _ (IH t') b v r H).
    + exact (arr_inv _ _ _ _ (IH t') b v r H).
    + exact (mapb_inv _ _ _ _ _ _ _ (IH tk) (IH tv) b v r H).
    + (* Marshaler type: nothing accounted *)
      apply bind_ok in H as ([pl r1] & H1 & H). cbn beta iota in H.
      apply bind_ok in H as (x & H2 & H). inversion H; subst.
      apply get_lp_len in H1. unfold KA. split; lia.
Qed.

(* ---- func Decode --------------------------------------------------------------------------------- *)
Theorem alloc_accepted_linear o bs t v rest :
  decode o bs = Ok (t, v, rest) ->
  blen rest <= blen bs /\ alloc o bs <= KA * (blen bs - blen rest).
Proof.
  unfold decode, alloc, alloc_gen. intros H.
  destruct bs as [|id p]; [discriminate|]. rewrite blen_cons.
  destruct (id =? edtReg).
  { apply bind_ok in H as ([name p1] & H1 & H). cbn beta iota in H. rewrite H1.
    apply get_reg_len in H1.
    apply bind_ok in H as ([v' r1] & H2 & H). cbn beta iota in H. inversion H; subst.
    destruct (val_inv o _ _ _ _ _ H2) as [L C]. unfold KA in *. split; [lia|]. nia. }
  destruct (id =? edtType).
  { apply bind_ok in H as ([n p1] & H1 & H). cbn beta iota in H. rewrite H1.
    apply rd_be_len in H1. change (N.of_nat 2) with 2 in H1.
    destruct (blen p1 <? n) eqn:E; [discriminate|].
    apply bind_ok in H as ([t' x] & H2 & H). cbn beta iota in H. rewrite H2.
    destruct t' as [pr| |t'|n' t'|tk tv|name];
      apply bind_ok in H as ([v' r1] & H3 & H); cbn beta iota in H; inversion H; subst.
    - destruct (prim_inv o true pr _ _ _ H3) as [L C]. rewrite bdrop_len in L, C.
      unfold KA in *. split; [lia|]. nia.
    - destruct (val_inv o _ _ _ _ _ H3) as [L C]. rewrite bdrop_len in L, C. unfold KA in *. split; [lia|]. nia.
    - destruct (val_inv o _ _ _ _ _ H3) as [L C]. rewrite bdrop_len in L, C. unfold KA in *. split; [lia|]. nia.
    - destruct (val_inv o _ _ _ _ _ H3) as [L C]. rewrite bdrop_len in L, C. unfold KA in *. split; [lia|]. nia.
    - destruct (val_inv o _ _ _ _ _ H3) as [L C]. rewrite bdrop_len in L, C. unfold KA in *. split; [lia|]. nia.
    - destruct (val_inv o _ _ _ _ _ H3) as [L C]. rewrite bdrop_len in L, C. unfold KA in *. split; [lia|]. nia. }
  destruct (id =? edtNil). { inversion H; subst. unfold KA. split; lia. }
  destruct (id =? edtAny).
  { apply bind_ok in H as ([v' r1] & H3 & H). cbn beta iota in H. inversion H; subst.
    destruct (val_inv o _ _ _ _ _ H3) as [L C].
    destruct (o_fuel o); [discriminate|]. cbn [tsize] in C. unfold KA in *. split; [lia|]. nia. }
  destruct (prim_of_tag id) as [pr|]; [|discriminate].
  apply bind_ok in H as ([v' r1] & H3 & H). cbn beta iota in H. inversion H; subst.
  destruct (prim_inv o false pr _ _ _ H3) as [L C]. unfold KA in *. split; [lia|]. nia.
Qed.

Corollary alloc_bound_partial o bs :
  is_ok (decode o bs) = true -> alloc o bs <= KA * blen bs.
Proof.
  destruct (decode o bs) as [[[t v] rest]|e] eqn:E; cbn [is_ok]; intros H; [|discriminate].
  destruct (alloc_accepted_linear _ _ _ _ _ E) as [L C]. unfold KA in *. nia.
Qed.
