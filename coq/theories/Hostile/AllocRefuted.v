(* Hostile/AllocRefuted.v — C16: inputs the decoder REJECTS after allocating out of all proportion.
   Witness theorems in boolean form (vm_compute).  Every witness was replayed on the real
   edf.Decode in a child process (findings/C16.md). *)
From Coq Require Import String.
From Ergo Require Import Common.Base Common.Bytes Common.Codec Edf.Model Hostile.Alloc.
Local Open Scope N_scope.

Definition o_plain : opts := mk_opts 16 [] None None None None.

(* (1) array type descriptor: edtType 0 6 | edtArray 7f ff ff ff edtUint8.   Decode performs
   reflect.New([2147483647]uint8) before it finds that no element follows. *)
Definition w_array : bytes := hx "8200069e7fffffff97".

Lemma w_array_b :
  (blen w_array =? 9) && negb (is_ok (decode o_plain w_array)) && (2147483647 <=? alloc o_plain w_array) = true.
Proof. vm_compute. reflexivity. Qed.

Theorem alloc_refuted_array :
  exists bs, blen bs = 9 /\ is_ok (decode o_plain bs) = false /\ 2147483647 <= alloc o_plain bs.
Proof.
  exists w_array. pose proof w_array_b as H.
  apply andb_true_iff in H as [H H3]. apply andb_true_iff in H as [H1 H2].
  apply N.eqb_eq in H1. apply N.leb_le in H3. apply negb_true_iff in H2. auto.
Qed.

(* (1b) two nested array descriptors: [4294967295][4294967295]uint8 - more than 2^63 bytes in one
   reflect.New: the Go runtime aborts the process ("fatal error: out of memory"), no recover possible *)
Definition w_array2 : bytes := hx "82000b9effffffff9effffffff97".

Lemma w_array2_b :
  (blen w_array2 =? 14) && negb (is_ok (decode o_plain w_array2)) && (2 ^ 63 <=? alloc o_plain w_array2) = true.
Proof. vm_compute. reflexivity. Qed.

Theorem alloc_refuted_array_fatal :
  exists bs, blen bs = 14 /\ is_ok (decode o_plain bs) = false /\ 2 ^ 63 <= alloc o_plain bs.
Proof.
  exists w_array2. pose proof w_array2_b as H.
  apply andb_true_iff in H as [H H3]. apply andb_true_iff in H as [H1 H2].
  apply N.eqb_eq in H1. apply N.leb_le in H3. apply negb_true_iff in H2. auto.
Qed.

(* the unguarded statement of the bound, with the constant of the theorem for accepted inputs and
   one MiB of slack, is false *)
Theorem alloc_bound_refuted : exists o bs, KA * blen bs + 1048576 < alloc o bs.
Proof.
  exists o_plain, w_array. apply N.ltb_lt. vm_compute. reflexivity.
Qed.

(* (2) nested count amplification: k levels of  []any{ []any{ ... } }, every level declaring as many
   elements as bytes remain.  Every level passes its "n > len(packet)" check and allocates
   16 * n bytes; the innermost level fails.  No array involved. *)
Fixpoint nested (k : nat) (rem : N) : bytes :=
  match k with
  | O => []
  | S k' => [130; 0; 2; 157; 132; 157] ++ put_be 4 (N.max 1 (rem - 10)) ++ nested k' (rem - 10)
  end.

Definition o_deep : opts := mk_opts 500 [] None None None None.
Definition w_nested : bytes := nested 200 2000.

Lemma w_nested_b :
  (blen w_nested =? 2000) && negb (is_ok (decode o_deep w_nested)) &&
  (1500 * blen w_nested <=? alloc o_deep w_nested) = true.
Proof. vm_compute. reflexivity. Qed.

Theorem alloc_refuted_nested :
  exists bs, blen bs = 2000 /\ is_ok (decode o_deep bs) = false /\ 1500 * blen bs <= alloc o_deep bs.
Proof.
  exists w_nested. pose proof w_nested_b as H.
  apply andb_true_iff in H as [H H3]. apply andb_true_iff in H as [H1 H2].
  apply N.eqb_eq in H1. apply N.leb_le in H3. apply negb_true_iff in H2. auto.
Qed.

(* doubling the input quadruples the allocation *)
Lemma nested_quadratic :
  (3 * alloc o_deep (nested 100 1000) <? alloc o_deep (nested 200 2000)) = true.
Proof. vm_compute. reflexivity. Qed.

(* (3) registered map type, BEFORE fix 03c4501: reflect.MakeMapWithSize(declared count) came before
   the count was compared with the remaining bytes.  "#M" = map[string]int. *)
Definition o_regmap : opts :=
  mk_opts 16 [([35; 77], RMap (TPrim PString) (TPrim PInt))] None None None None.
Definition w_regmap : bytes := hx "830002234d83ffffffff".

Theorem alloc_regmap_before_fix :
  blen w_regmap = 10 /\ is_ok (decode o_regmap w_regmap) = false /\
  4294967295 * 24 <= alloc_gen false o_regmap w_regmap /\ alloc_gen true o_regmap w_regmap = 8.
Proof. repeat split; try (vm_compute; reflexivity). apply N.leb_le. vm_compute. reflexivity. Qed.
