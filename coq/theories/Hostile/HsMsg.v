(* Hostile/HsMsg.v — C16, handshake messages of a peer that knows the cookie: what a decoded
   MessageIntroduce / MessageAccept declares is validated before any of it is used.

   Model of the code paths between the decoding of the message and the first use of its fields
   (net/handshake/accept.go, start.go, handshake.go makeDecodeErrCache; node/network.go accept /
   connect; net/proto/enp.go NewConnection; net/proto/connection.go serve), in code order.
   [guards] = true: the code after fixes 3b195ea (checkIntroduce) and 46fa1fe (pool size 1..1024 in
   Start, pool size >= 1 in NewConnection); false: the code before them.

   role 0: Accept receives the peer's MessageIntroduce (the pool size is the acceptor's own);
   role 1: Start receives the peer's MessageAccept (then a valid MessageIntroduce);
   role 2: Start receives the peer's MessageIntroduce (after a valid MessageAccept). *)
From Ergo Require Import Common.Base.
Local Open Scope Z_scope.

Record hsmsg := mk_hsmsg {
  m_role : Z;
  m_pool : Z;            (* MessageAccept.PoolSize (role 1) *)
  m_err_nil : bool;      (* MessageIntroduce.ErrCache has an entry whose value is the nil error *)
  m_node : Z;            (* MessageIntroduce.Node: 0 a proper name (the expected one when dialing), 1 empty,
                            2 the receiving node's own name, 3 another name than the one dialed *)
  m_creation : Z         (* MessageIntroduce.Creation *)
}.

Inductive hsout :=
| HConnected             (* connection registered, serve running *)
| HRejected              (* error returned / connection refused; nothing of the message was used *)
| HCrash (why : Z).      (* 1 nil dereference in makeDecodeErrCache, 2 integer divide by zero in serve,
                            3 out of memory building the receive queues *)

Definition maxPoolSize : Z := 1024.
Definition wrap64 (z : Z) : Z := let m := z mod 2 ^ 64 in if m <? 2 ^ 63 then m else m - 2 ^ 64.

(* makeDecodeErrCache: for k, v := range remote { ... v.Error() ... } *)
Definition build_err_cache (m : hsmsg) (k : hsout) : hsout := if m_err_nil m then HCrash 1 else k.

(* NewConnection + Join + serve on the first message *)
Definition new_connection (guards : bool) (pool creation : Z) : hsout :=
  if creation =? 0 then HRejected                              (* gen.ErrNotAllowed *)
  else if guards && (pool <? 1) then HRejected                 (* 46fa1fe: "incorrect pool size" *)
  else
    let nq := wrap64 (pool * 4) in                            (* for i := 0; i < opts.PoolSize*4; i++ { append queue } *)
    if nq <=? 0 then HCrash 2                                  (* recvN % len(c.recvQueues) *)
    else if 2 ^ 22 <=? nq then HCrash 3
    else HConnected.

Definition intro_path (guards : bool) (m : hsmsg) (pool : Z) : hsout :=
  if m_node m =? 2 then HRejected                              (* "same name" *)
  else if guards && m_err_nil m then HRejected                 (* 3b195ea: checkIntroduce *)
  else build_err_cache m
    (if negb (m_node m =? 0) then HRejected                    (* network.accept: Peer == "" ; network.connect: Peer != name *)
     else new_connection guards pool (m_creation m)).

Definition hs_outcome (guards : bool) (m : hsmsg) : hsout :=
  if m_role m =? 1 then
    if guards && ((m_pool m <? 1) || (maxPoolSize <? m_pool m)) then HRejected     (* 46fa1fe in Start *)
    else new_connection guards (m_pool m) 1
  else intro_path guards m 3.

(* the validity predicate *)
Definition hs_msg_ok (m : hsmsg) : bool :=
  if m_role m =? 1 then (1 <=? m_pool m) && (m_pool m <=? maxPoolSize)
  else negb (m_err_nil m) && (m_node m =? 0) && negb (m_creation m =? 0).

(* ---- theorems ------------------------------------------------------------------------------------- *)
Lemma wrap64_small z : 0 <= z < 2 ^ 63 -> wrap64 z = z.
Proof.
  intros H. unfold wrap64. rewrite Z.mod_small by lia.
  destruct (Z.ltb_spec z (2 ^ 63)); lia.
Qed.

(* every decoded-but-invalid message is rejected, and rejected BEFORE any use of its fields: the
   outcome is the plain rejection, never one of the crashes the uses can produce *)
Theorem hs_invalid_rejected m : hs_msg_ok m = false -> hs_outcome true m = HRejected.
Proof.
  unfold hs_msg_ok, hs_outcome, intro_path, build_err_cache, new_connection, maxPoolSize.
  destruct (m_role m =? 1) eqn:Er; cbn [andb].
  - intros H. destruct (m_pool m <? 1) eqn:E1; cbn [orb]; [reflexivity|].
    destruct (1024 <? m_pool m) eqn:E2; [reflexivity|]. lia.
  - intros H. destruct (m_node m =? 2) eqn:E2; [reflexivity|].
    destruct (m_err_nil m); [reflexivity|]. cbn [negb andb] in *.
    destruct (m_node m =? 0) eqn:E0; cbn [negb andb] in *; [|reflexivity].
    destruct (m_creation m =? 0); [reflexivity|discriminate].
Qed.

(* a valid message leads to an established connection: none of the uses can fail *)
Theorem hs_valid_connected m : hs_msg_ok m = true -> hs_outcome true m = HConnected.
Proof.
  unfold hs_msg_ok, hs_outcome, intro_path, build_err_cache, new_connection, maxPoolSize.
  destruct (m_role m =? 1) eqn:Er; cbn [andb].
  - intros H. apply andb_true_iff in H as [H1 H2].
    destruct (m_pool m <? 1) eqn:E1; [lia|]. destruct (1024 <? m_pool m) eqn:E2; [lia|]. cbn [orb].
    change (1 =? 0) with false. cbv iota. rewrite wrap64_small by lia.
    destruct (m_pool m * 4 <=? 0) eqn:E3; [lia|]. destruct (2 ^ 22 <=? m_pool m * 4) eqn:E4; [lia|]. reflexivity.
  - intros H. apply andb_true_iff in H as [H H3]. apply andb_true_iff in H as [H1 H2].
    apply negb_true_iff in H1, H3. rewrite H1, H2, H3.
    assert (E : (m_node m =? 2) = false) by lia. rewrite E. cbn. reflexivity.
Qed.

Corollary hs_never_crash m : forall w, hs_outcome true m <> HCrash w.
Proof.
  intros w. destruct (hs_msg_ok m) eqn:E.
  - rewrite (hs_valid_connected _ E). discriminate.
  - rewrite (hs_invalid_rejected _ E). discriminate.
Qed.

(* before the fixes *)
Definition w_errnil : hsmsg := mk_hsmsg 0 3 true 0 1700000001.
Definition w_errnil_dial : hsmsg := mk_hsmsg 2 3 true 0 1700000001.
Definition w_pool0 : hsmsg := mk_hsmsg 1 0 false 0 1.
Definition w_pool_neg : hsmsg := mk_hsmsg 1 (-1) false 0 1.
Definition w_pool_wrap : hsmsg := mk_hsmsg 1 (2 ^ 62) false 0 1.
Definition w_pool_big : hsmsg := mk_hsmsg 1 (2 ^ 20) false 0 1.

Theorem hs_errcache_refuted_before_fix :
  hs_outcome false w_errnil = HCrash 1 /\ hs_outcome false w_errnil_dial = HCrash 1 /\
  hs_outcome true w_errnil = HRejected /\ hs_outcome true w_errnil_dial = HRejected.
Proof. repeat split; vm_compute; reflexivity. Qed.

Theorem hs_poolsize_refuted_before_fix :
  hs_outcome false w_pool0 = HCrash 2 /\ hs_outcome false w_pool_neg = HCrash 2 /\
  hs_outcome false w_pool_wrap = HCrash 2 /\ hs_outcome false w_pool_big = HCrash 3 /\
  hs_outcome true w_pool0 = HRejected /\ hs_outcome true w_pool_neg = HRejected /\
  hs_outcome true w_pool_wrap = HRejected /\ hs_outcome true w_pool_big = HRejected.
Proof. repeat split; vm_compute; reflexivity. Qed.

Example hs_valid_example :
  hs_msg_ok (mk_hsmsg 1 1024 false 0 1) = true /\ hs_msg_ok (mk_hsmsg 0 3 false 0 1700000001) = true /\
  hs_msg_ok (mk_hsmsg 1 1025 false 0 1) = false.
Proof. vm_compute. repeat split. Qed.
