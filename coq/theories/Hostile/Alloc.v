(* Hostile/Alloc.v — allocation accounting for the EDF decoder (property C16).  Definitions only.

   The decoder itself is NOT re-modelled: [Edf.Model.decode] (total on arbitrary byte lists,
   differential-tested against edf.Decode) gives the result; the functions below walk the same
   control flow and add up what the Go code allocates on the way, at the place where it allocates:

     Decode:        v := reflect.Indirect(reflect.New(dec.Type))            size of the top-level type
     decodeAny:     v := reflect.Indirect(reflect.New(dec.Type))            size of the dynamic type
                    (not when dec.Type is the interface type itself)
     slice (unnamed and registered, register.go after 03c4501 for maps):
                    if n > len(packet) { error };  reflect.MakeSlice(vtype, n, n)     n * size(elem)
     map:           if n > len(packet) { error };  reflect.MakeMapWithSize(vtype, n)  n * (size k + size v)
                    per entry reflect.New(key type), reflect.New(value type)          size k + size v
     array:         no allocation of its own (its storage is part of what the caller allocated);
                    a type descriptor "edtArray n T" makes the caller's reflect.New allocate n * size T
                    BEFORE any element has been read - there is no check of n against the input
     string / []byte / atom / error text:  a copy of the bytes taken from the input; modelled by the
                    number of bytes the primitive consumed (an upper bound of the copy), 0 when it fails
   Sizes are Go's unsafe.Sizeof on a 64-bit platform (struct padding ignored).  Constant-size boxing
   (reflect.ValueOf of a decoded primitive), sync.Pool states and the type objects made by
   reflect.SliceOf / ArrayOf / MapOf (cached for ever by reflect) are not counted.

   [chk_first] = true describes the registered-map decoder after fix 03c4501 (count checked before
   MakeMapWithSize); false = the code before it (allocation first). *)
From Ergo Require Import Common.Base Common.Bytes Common.Codec Edf.Model.
Local Open Scope N_scope.

(* ---- sizes --------------------------------------------------------------------------------------- *)
Definition psize (p : prim) : N :=
  match p with
  | PBool | PInt8 | PUint8 => 1
  | PInt16 | PUint16 => 2
  | PInt32 | PUint32 | PFloat32 => 4
  | PInt | PInt64 | PUint | PUint64 | PFloat64 => 8
  | PString | PAtom | PError => 16          (* string header; error = interface *)
  | PBinary | PTime => 24                   (* slice header; time.Time = {uint64, int64, *Location} *)
  | PPid | PProcessID | PEvent => 32        (* Atom + 2 x 8;  2 x Atom *)
  | PRef | PAlias => 48                     (* Atom + int64 + [3]uint64 *)
  end.

Fixpoint nsum (l : list N) : N := match l with [] => 0 | x :: r => x + nsum r end.

(* fuel in lockstep with [dec_val]: the elements of a composite are sized with the fuel they are
   decoded with *)
Fixpoint tsize (f : nat) (o : opts) (t : ty) {struct f} : N :=
  match f with
  | O => 0
  | S f' =>
    match t with
    | TPrim p => psize p
    | TAny => 16
    | TSlice _ => 24
    | TArray n t' => n * tsize f' o t'
    | TMap _ _ => 8
    | TReg name =>
      match lookup_reg o name with
      | None => 0
      | Some (RPrim p) => psize p
      | Some (RStruct fs) => nsum (map (tsize f' o) fs)
      | Some (RSlice _) => 24
      | Some (RArray n t') => n * tsize f' o t'
      | Some (RMap _ _) => 8
      | Some (RMarsh _ _) => 0      (* Marshaler type: size and allocations are the user's, not accounted *)
      end
    end
  end.

(* ---- accounting combinators ------------------------------------------------------------------- *)
(* continue on the remainder of a successful decode; a failed decode ends the accounting *)
Definition acont {A} (r : res (A * bytes)) (k : bytes -> N) : N :=
  match r with Ok (_, r') => k r' | Err _ => 0 end.

(* the loop "for i := 0; i < n; i++ { item decode }": element i is decoded (and accounted) on what
   the elements before it left; the first failure ends the loop *)
Fixpoint alloc_n {A} (cost : bytes -> N) (d : dec A) (n : nat) (b : bytes) : N :=
  match n with
  | O => 0
  | S n' => cost b + acont (d b) (alloc_n cost d n')
  end.

Fixpoint alloc_fields (cost : ty -> bytes -> N) (g : ty -> dec val) (ts : list ty) (b : bytes) : N :=
  match ts with
  | [] => 0
  | t :: ts' => cost t b + acont (g t b) (alloc_fields cost g ts')
  end.

(* one map entry: New(key), key decode, New(value), value decode *)
Definition alloc_entry (ksz vsz : N) (ck cv : bytes -> N) (dk : dec val) : bytes -> N :=
  fun b => ksz + ck b + acont (dk b) (fun r => vsz + cv r).

Definition alloc_prim (o : opts) (et : bool) (p : prim) (b : bytes) : N :=
  match dec_prim o et p b with
  | Ok (_, r) => blen b - blen r
  | Err _ => 0
  end.

Definition alloc_seq (tagb esz : N) (cost : bytes -> N) (d : dec val) (b : bytes) : N :=
  match b with
  | [] => 0
  | x :: p =>
    if x =? edtNil then 0
    else if x =? tagb then
      match rd_be 4 p with
      | Ok (n, p1) =>
        if n =? 0 then 0
        else if blen p1 <? n then 0                                    (* checked BEFORE MakeSlice *)
        else n * esz + alloc_n cost d (N.to_nat n) p1
      | Err _ => 0
      end
    else 0
  end.

Definition alloc_mapb (chk_first : bool) (tagb ksz vsz : N) (ck cv : bytes -> N) (dk dv : dec val) (b : bytes) : N :=
  match b with
  | [] => 0
  | x :: p =>
    if x =? edtNil then 0
    else if x =? tagb then
      match rd_be 4 p with
      | Ok (n, p1) =>
        if n =? 0 then 0
        else if blen p1 <? n then (if chk_first then 0 else n * (ksz + vsz))
        else n * (ksz + vsz) + alloc_n (alloc_entry ksz vsz ck cv dk) (dec_pair dk dv) (N.to_nat n) p1
      | Err _ => 0
      end
    else 0
  end.

Definition alloc_arr (n : N) (cost : bytes -> N) (d : dec val) (b : bytes) : N :=
  match b with
  | [] => 0
  | _ => alloc_n cost d (N.to_nat n) b
  end.

(* ---- the decoder's allocation ----------------------------------------------------------------- *)
Fixpoint alloc_val (cf : bool) (f : nat) (o : opts) (t : ty) (b : bytes) {struct f} : N :=
  match f with
  | O => 0
  | S f' =>
    match t with
    | TPrim p => alloc_prim o false p b
    | TAny =>
      match b with
      | [] => 0
      | id :: p =>
        if id =? edtNil then 0
        else if id =? edtReg then
          match get_reg o p with
          | Ok (name, p1) => tsize f' o (TReg name) + alloc_val cf f' o (TReg name) p1
          | Err _ => 0
          end
        else if id =? edtType then
          match rd_be 2 p with
          | Ok (n, p1) =>
            if blen p1 <? n then 0 else
            match dec_type_fold o (btake n p1) with
            | Ok (t', _) => tsize f' o t' + alloc_val cf f' o t' (bdrop n p1)
            | Err _ => 0
            end
          | Err _ => 0
          end
        else if id =? edtAny then alloc_val cf f' o TAny p
        else match prim_of_tag id with
             | Some pr => psize pr + alloc_prim o false pr p
             | None => 0
             end
      end
    | TSlice t' => alloc_seq edtSlice (tsize f' o t') (alloc_val cf f' o t') (dec_val f' o t') b
    | TArray n t' => alloc_arr n (alloc_val cf f' o t') (dec_val f' o t') b
    | TMap tk tv =>
      alloc_mapb true edtMap (tsize f' o tk) (tsize f' o tv)
                 (alloc_val cf f' o tk) (alloc_val cf f' o tv) (dec_val f' o tk) (dec_val f' o tv) b
    | TReg name =>
      match lookup_reg o name with
      | None => 0
      | Some d =>
        match d with
        | RPrim p => if regable p then alloc_prim o false p b else 0
        | RStruct fs => alloc_fields (alloc_val cf f' o) (dec_val f' o) fs b
        | RSlice t' => alloc_seq edtReg (tsize f' o t') (alloc_val cf f' o t') (dec_val f' o t') b
        | RArray n t' => alloc_arr n (alloc_val cf f' o t') (dec_val f' o t') b
        | RMap tk tv =>
          alloc_mapb cf edtReg (tsize f' o tk) (tsize f' o tv)
                     (alloc_val cf f' o tk) (alloc_val cf f' o tv) (dec_val f' o tk) (dec_val f' o tv) b
        | RMarsh _ _ => 0
        end
      end
    end
  end.

(* func Decode *)
Definition alloc_gen (cf : bool) (o : opts) (b : bytes) : N :=
  match b with
  | [] => 0
  | id :: p =>
    if id =? edtReg then
      match get_reg o p with
      | Ok (name, p1) => tsize (o_fuel o) o (TReg name) + alloc_val cf (o_fuel o) o (TReg name) p1
      | Err _ => 0
      end
    else if id =? edtType then
      match rd_be 2 p with
      | Ok (n, p1) =>
        if blen p1 <? n then 0 else
        match dec_type_fold o (btake n p1) with
        | Ok (t, _) =>
          match t with
          | TPrim pr => psize pr + alloc_prim o true pr (bdrop n p1)
          | _ => tsize (o_fuel o) o t + alloc_val cf (o_fuel o) o t (bdrop n p1)
          end
        | Err _ => 0
        end
      | Err _ => 0
      end
    else if id =? edtNil then 0
    else if id =? edtAny then 16 + alloc_val cf (o_fuel o) o TAny p
    else match prim_of_tag id with
         | Some pr => psize pr + alloc_prim o false pr p
         | None => 0
         end
  end.

(* the code as it is now (after 03c4501) *)
Definition alloc (o : opts) (b : bytes) : N := alloc_gen true o b.

(* the constant of the bound for accepted inputs *)
Definition KA : N := 200.

(* ---- re-encoding guard (idempotence) -----------------------------------------------------------
   what has to hold of a decoded (type, value) for the round-trip theorem of the Edf engine to
   apply to its re-encoding with the options of the opposite direction *)
Definition reenc_guard (o : opts) (t : ty) (v : val) : bool :=
  wf_opts_b (dual o) && supported (dual o) t v &&
  (* registries with Marshaler types: re-encoding runs user code; the Edf theorem then needs the
     hypothesis [marsh_inv] (C11) - not covered here *)
  forallb (fun e => negb (is_marsh (snd e))) (o_reg o).
