(* Hostile/Frames.v — C16: the frame reader and dispatcher of net/proto/connection.go on an ARBITRARY
   byte stream.  Definitions only (proofs in FramesProofs.v).

   Modelled: read() (declared length against the header size [fix cda3993], against
   node_maxmessagesize, against the bytes available), the three index expressions of serve()
   (buf.B[0], buf.B[1], buf.B[6]) which run in a goroutine WITHOUT recover, and for every case of
   handleRecvQueue (which runs under a deferred recover that terminates the connection): the
   minimum-length guard, the index expressions buf.B[i] (panic when i >= len), the open slices
   buf.B[k:] handed to edf.Decode (panic when k > len), the one-byte name lengths with their second
   guard, and the compression envelope (declared size, allocation BEFORE inflating, re-dispatch of
   the inflated frame).
   Closed slices buf.B[a:b] with constant bounds never panic here: they are checked against the
   CAPACITY of the pooled buffer (>= 4096), not its length - with a too small guard they read stale
   bytes of the next frame, which is why the guards matter even where nothing panics.
   Not modelled: what edf.Decode does with the payload (Hostile/Alloc.v, Edf/Model.v) and the
   routing of the decoded message.  The segmentation of the stream into reads is the Proto engine's
   subject (C12); here the stream is what has arrived so far. *)
From Ergo Require Import Common.Base Common.Bytes.
Local Open Scope N_scope.

Definition protoMagic : N := 78.
Definition protoVersion : N := 1.
Definition protoMessageZ : N := 200.

(* buf.B[i] *)
Definition idx (f : bytes) (i : N) : option N := nth_error f (N.to_nat i).

Definition be32_at (f : bytes) (k : N) : option N :=
  match get_be 4 (bdrop k f) with Some (v, _) => Some v | None => None end.

(* ---- read() -------------------------------------------------------------------------------------- *)
Record rcfg := mk_rcfg {
  r_max : N;       (* node_maxmessagesize, 0 = unlimited *)
  r_min : N        (* smallest declared length accepted: 8 since cda3993, 0 before *)
}.

Inductive rd :=
| RWait                          (* fewer bytes than expected: blocks in conn.Read (EOF closes the link) *)
| RErr                           (* read() returns an error: serve closes the link *)
| RFrame (f rest : bytes).       (* buf.B = buf.B[:l], tail = buf.B[l:] *)

Definition read1 (c : rcfg) (s : bytes) : rd :=
  if blen s <? 8 then RWait
  else match be32_at s 2 with
       | None => RWait
       | Some l =>
         if l <? r_min c then RErr
         else if (0 <? r_max c) && (r_max c <? l) then RErr
         else if blen s <? l then RWait
         else RFrame (btake l s) (bdrop l s)
       end.

(* ---- serve(): runs without recover --------------------------------------------------------------- *)
Inductive sres :=
| SCrash (i : N)                 (* index out of range [i]: un-recovered panic, the PROCESS dies *)
| SClose                         (* incorrect proto / version: the link is closed *)
| SQueue.                        (* frame pushed to a receive queue *)

Definition serve1 (f : bytes) : sres :=
  match idx f 0 with
  | None => SCrash 0
  | Some m =>
    if negb (m =? protoMagic) then SClose else
    match idx f 1 with
    | None => SCrash 1
    | Some v =>
      if negb (v =? protoVersion) then SClose else
      match idx f 6 with
      | None => SCrash 6
      | Some _ => SQueue
      end
    end
  end.

(* ---- handleRecvQueue: one row per case ---------------------------------------------------------- *)
Record row := mk_row {
  w_guard : N;                   (* if buf.Len() < guard { log; continue } *)
  w_guard2 : N;                  (* second fixed guard of the *Cache variants (0 = none) *)
  w_idx : list N;                (* index expressions buf.B[i] evaluated after the guards *)
  w_name : option (N * N);       (* (i, base): l := buf.B[i]; if buf.Len() < base+l { continue }; payload buf.B[base+l:] *)
  w_from : N                     (* payload buf.B[from:] when there is no name *)
}.

(* the table after fix da1e55c *)
Definition rows : list (N * row) :=
  [ (101, mk_row 33 0 [16] None 33);                 (* MessagePID: B[8:16] B[16] B[17:25] B[25:33] B[33:] *)
    (102, mk_row 26 0 [16] (Some (25, 26)) 0);       (* MessageName *)
    (103, mk_row 26 28 [16] None 27);                (* MessageNameCache: B[25:27], B[27:] *)
    (104, mk_row 49 0 [16] None 49);                 (* MessageAlias *)
    (105, mk_row 28 0 [16] (Some (25, 26)) 0);       (* MessageEvent *)
    (106, mk_row 28 0 [16] None 27);                 (* MessageEventCache *)
    (107, mk_row 26 0 [] None 25);                   (* MessageExit *)
    (121, mk_row 50 0 [16] None 49);                 (* RequestPID *)
    (122, mk_row 43 0 [16] (Some (41, 42)) 0);       (* RequestName *)
    (123, mk_row 43 0 [16] None 43);                 (* RequestNameCache *)
    (124, mk_row 66 0 [16] None 65);                 (* RequestAlias *)
    (129, mk_row 49 0 [16] None 49);                 (* MessageResponse *)
    (130, mk_row 50 0 [16; 49] None 50);             (* MessageResponseError: switch buf.B[49] *)
    (181, mk_row 18 0 [] None 17);                   (* TerminatePID *)
    (182, mk_row 12 0 [] (Some (9, 10)) 0);          (* TerminateName *)
    (183, mk_row 12 0 [] None 11);                   (* TerminateNameCache *)
    (184, mk_row 34 0 [] None 33);                   (* TerminateAlias *)
    (185, mk_row 12 0 [] (Some (9, 10)) 0);          (* TerminateEvent *)
    (186, mk_row 12 0 [] None 11);                   (* TerminateEventCache *)
    (199, mk_row 9 0 [] None 8) ].                   (* MessageAny *)

(* the guards before da1e55c: MessagePID 30, MessageName* 18 *)
Definition rows_old : list (N * row) :=
  map (fun p => match p with
                | (t, r) =>
                  if t =? 101 then (t, mk_row 30 0 (w_idx r) (w_name r) (w_from r))
                  else if (t =? 102) || (t =? 103) then (t, mk_row 18 (w_guard2 r) (w_idx r) (w_name r) (w_from r))
                  else (t, r)
                end) rows.

Fixpoint lookup (t : N) (l : list (N * row)) : option row :=
  match l with
  | [] => None
  | (t', r) :: l' => if t' =? t then Some r else lookup t l'
  end.

Inductive dres :=
| DPanic                          (* recovered panic: logged, the whole connection is terminated *)
| DDrop                           (* "malformed message ..." logged, frame ignored *)
| DDecode (off : N)               (* edf.Decode(buf.B[off:]) *)
| DUnknown                        (* unknown type: logged, ignored *)
| DInflate (ct declared : N).     (* lib.Decompress*: Allocate(declared) then inflate buf.B[13:] *)

Definition dispatch_row (r : row) (f : bytes) : dres :=
  if blen f <? w_guard r then DDrop
  else if negb (forallb (fun i => i <? blen f) (w_idx r)) then DPanic
  else match w_name r with
       | Some (i, base) =>
         match idx f i with
         | None => DPanic
         | Some l => if blen f <? base + l then DDrop else DDecode (base + l)
         end
       | None =>
         if blen f <? w_guard2 r then DDrop
         else if blen f <? w_from r then DPanic          (* slice bounds out of range [from:len] *)
         else DDecode (w_from r)
       end.

Definition dispatch (tbl : list (N * row)) (f : bytes) : dres :=
  match idx f 7 with
  | None => DPanic                                        (* switch buf.B[7] *)
  | Some t =>
    if t =? protoMessageZ then
      if blen f <? 10 then DDrop
      else match idx f 8 with
           | None => DPanic
           | Some ct =>
             if (ct =? 100) || (ct =? 101) || (ct =? 102) then
               if blen f <? 13 then DDrop                 (* "too short source buffer" *)
               else match be32_at f 9 with Some d => DInflate ct d | None => DPanic end
             else DDrop                                   (* unknown compression type *)
           end
    else match lookup t tbl with
         | Some r => dispatch_row r f
         | None => DUnknown                               (* logs buf.B[6] *)
         end
  end.

(* the inflated frame is dispatched again ("goto re"); [inflate] is the Go standard library
   (None = error or size mismatch; on success the result has exactly the declared length) *)
Fixpoint dispatch_z (inflate : N -> bytes -> option bytes) (tbl : list (N * row)) (fuel : nat) (f : bytes) : dres :=
  match dispatch tbl f with
  | DInflate ct d =>
    match fuel with
    | O => DDrop
    | S fuel' =>
      match inflate ct (bdrop 13 f) with
      | Some g => if blen g =? d then dispatch_z inflate tbl fuel' g else DDrop
      | None => DDrop
      end
    end
  | x => x
  end.

(* what lib.DecompressLZW allocates for a frame before a single byte is inflated
   (Buffer.Allocate doubles the capacity from 4096 until it fits: up to twice the declared size).
   DecompressZLIB / DecompressGZIP do the same once zlib.NewReader / gzip.NewReader accepted the
   2 / 10 byte stream header (not modelled: counted as 0 here). *)
Definition z_alloc (f : bytes) : N :=
  match dispatch rows f with DInflate ct d => if ct =? 100 then d else 0 | _ => 0 end.

(* ---- a whole stream ---------------------------------------------------------------------------------- *)
Inductive fin := FWait | FClosed | FCrash (i : N).

Record trace := mk_trace {
  t_frames : N;                  (* frames that passed the magic / version check (messagesIn) *)
  t_disp : list dres;            (* their dispatch results, in order (compressed frames: the envelope) *)
  t_fin : fin
}.

Fixpoint run (c : rcfg) (tbl : list (N * row)) (fuel : nat) (s : bytes) (n : N) (acc : list dres) : trace :=
  match fuel with
  | O => mk_trace n (rev acc) FWait
  | S fuel' =>
    match read1 c s with
    | RWait => mk_trace n (rev acc) FWait
    | RErr => mk_trace n (rev acc) FClosed
    | RFrame f rest =>
      match serve1 f with
      | SCrash i => mk_trace n (rev acc) (FCrash i)
      | SClose => mk_trace n (rev acc) FClosed
      | SQueue => run c tbl fuel' rest (n + 1) (dispatch tbl f :: acc)
      end
    end
  end.

(* every frame consumes at least one byte when r_min > 0; with r_min = 0 a zero-length frame crashes *)
Definition run_stream (c : rcfg) (tbl : list (N * row)) (s : bytes) : trace :=
  run c tbl (S (length s)) s 0 [].

Definition cfg_now (max : N) : rcfg := mk_rcfg max 8.
Definition cfg_old (max : N) : rcfg := mk_rcfg max 0.

Definition is_crash (t : trace) : bool := match t_fin t with FCrash _ => true | _ => false end.
Definition has_panic (l : list dres) : bool := existsb (fun d => match d with DPanic => true | _ => false end) l.
Definition has_inflate (l : list dres) : bool := existsb (fun d => match d with DInflate _ _ => true | _ => false end) l.
