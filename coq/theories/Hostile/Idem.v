(* Hostile/Idem.v — C16: a value that decodes successfully re-encodes to bytes that decode to the
   same value.  Obtained from the Edf engine's round-trip theorem applied in the opposite direction
   ([dual (dual o) = o]); the guard [reenc_guard] is what that theorem needs of the decoded (type,
   value): unique in-range cache ids and the `supported` class of C11 (it excludes exactly the three
   known findings of C11).  That decoded values are accepted by the encoder at all is observed on the
   implementation (checker [spec_idem], premise counter [premise_idem]), not proved. *)
From Ergo Require Import Common.Base Common.Bytes Common.Codec Edf.Model Edf.Proofs Hostile.Alloc.
Local Open Scope N_scope.

Lemma dual_involutive o : dual (dual o) = o.
Proof.
  destruct o as [f rg ac am rc ec]. unfold dual. cbn. f_equal.
  destruct am as [l|]; cbn [option_map]; [|reflexivity]. f_equal.
  rewrite map_map. rewrite <- (map_id l) at 2. apply map_ext. intros [a b]. reflexivity.
Qed.

Theorem idempotent o bs t v rest bs' :
  decode o bs = Ok (t, v, rest) ->
  reenc_guard o t v = true ->
  encode (dual o) t v = Ok bs' ->
  forall rest', decode o (bs' ++ rest') = Ok (t, canon (dual o) v, rest').
Proof.
  intros _ G E rest'. unfold reenc_guard in G. apply andb_true_iff in G as [G Gm].
  apply andb_true_iff in G as [Gw Gs].
  rewrite <- (dual_involutive o) at 1.
  apply roundtrip_partial; try assumption. apply marsh_inv_none. exact Gm.
Qed.

(* ... to the SAME value when the decoded value is in canonical form (no float32 signalling NaN,
   no sentinel error missing from the error cache) *)
Corollary idempotent_same o bs t v rest bs' :
  decode o bs = Ok (t, v, rest) ->
  reenc_guard o t v = true ->
  canon (dual o) v = v ->
  encode (dual o) t v = Ok bs' ->
  exists v', (forall rest', decode o (bs' ++ rest') = Ok (t, v', rest')) /\ v' = v.
Proof.
  intros D G C E. exists (canon (dual o) v). split; [|exact C].
  intros rest'. eapply idempotent; eassumption.
Qed.

(* non-vacuity: a hostile-looking but valid input (interface holding a slice of interfaces) meets
   every hypothesis *)
Definition ex_idem_in : bytes := [130; 0; 2; 157; 132; 157; 0; 0; 0; 2; 255; 141; 0; 1; 97; 7].
Definition ex_idem_o : opts := mk_opts 16 [] None None None None.

Definition ex_idem_b : bool :=
  match decode ex_idem_o ex_idem_in with
  | Ok (t, v, rest) =>
    bytes_eqb rest [7] && reenc_guard ex_idem_o t v &&
    match encode (dual ex_idem_o) t v with
    | Ok bs' => match decode ex_idem_o (bs' ++ [9]) with
                | Ok (t', v', r') => bytes_eqb r' [9] && (blen bs' =? 15)
                | Err _ => false
                end
    | Err _ => false
    end
  | Err _ => false
  end.

Example idempotent_example : ex_idem_b = true.
Proof. vm_compute. reflexivity. Qed.
