(* C08 — Supervisor restart semantics by type and strategy.  Property theorems only; proofs live in Sup/.
   Everything is about the machines of Sup/Machine.v (supOFO / supARFO / supSOFO transcribed function by
   function) and holds for ANY machine state: any number of child specs, any pids, any wait set, hence after
   any history; the theorems over [reachable] quantify over all histories of machine calls explicitly. *)
From Ergo Require Import Common.Base Sup.Intensity Sup.Machine Sup.MachineCases Sup.MachineProofs Sup.OfoLoop Sup.SofoLoop Sup.ArfoLoop Sup.ArfoMore.
Local Open Scope Z_scope.

(* No child termination goes unnoticed: the spec list after childTerminated is the old one with the pid of the
   exited child cleared and nothing else changed, before/whatever else is decided. *)
Theorem C08_every_exit_noticed : forall k s name pid reason now,
  k_kind k <> SOFO -> shutting k s = false -> pid <> 0 ->
  let s' := fst (childTerminated k s name pid reason now) in
  specs s' = clear_matching name pid (specs s) /\ Forall (fun c => c_pid c <> pid) (specs s').
Proof. exact every_exit_noticed. Qed.
Print Assumptions C08_every_exit_noticed.

Theorem C08_sofo_exit_noticed : forall k s name pid reason now,
  ~ In pid (map fst (pids (fst (sofo_childTerminated k s name pid reason now)))).
Proof. exact sofo_exit_noticed. Qed.
Print Assumptions C08_sofo_exit_noticed.

(* one-for-one replaces only the terminated child *)
Theorem C08_ofo_restarts_only_failed : forall k s name pid reason now j sp,
  shut s = false -> last_match name pid (specs s) 0 = Some (j, sp) ->
  forall c s', ofo_childTerminated k s name pid reason now = (s', RAct (StartChild c)) ->
  c = sp /\ specs s' = clear_matching name pid (specs s) /\
  (forall c', In c' (specs s) -> matches name pid c' = false -> In c' (specs s')).
Proof. exact ofo_restarts_only_failed. Qed.
Print Assumptions C08_ofo_restarts_only_failed.

(* all-for-one / rest-for-one: what a restart-worthy exit decides (range = everything / the exited spec and
   those behind it; stop list of the range or, if nothing runs there, start of its first enabled spec) *)
Theorem C08_arfo_restart_decision : forall k s name pid reason now j sp,
  (mode s =? 3) = false -> (mode s =? 2) = false -> last_match name pid (specs s) 0 = Some (j, sp) ->
  forall rs, c_dis sp = false -> strategy_stops k reason = false ->
  check (restarts s) now (k_per k) (k_int k) = (rs, false) ->
  let s1 := set_specs (set_wait s (zremove pid (wait s))) (clear_matching name pid (specs s)) in
  let s2 := set_restarts s1 rs in
  let s3 := if match k_kind k with RFO => true | _ => false end then set_restartI s2 j else s2 in
  let t := snd (childrenForTermination k s3) in
  let s4 := fst (childrenForTermination k s3) in
  arfo_childTerminated k s name pid reason now =
    if is_nil t then
      match childForStart s4 with
      | None => (s4, RPanic)
      | Some c => (set_mode s4 1, RAct (StartChild c))
      end
    else (set_mode s4 2, RAct (TerminateChildren t reason)).
Proof. exact arfo_restart_decision. Qed.
Print Assumptions C08_arfo_restart_decision.

(* always starting in spec order, nothing startable skipped, back to normal mode when done *)
Theorem C08_afo_restarts_all_in_spec_order : forall s i name pid sp,
  mode s = 1 -> nth_error (specs s) i = Some sp -> c_name sp = name ->
  let s1 := set_specs s (update_nth i (fun c => with_pid c pid) (specs s)) in
  (exists c pre c0 post,
      ofo_childStarted true s i name pid = (s1, RAct (StartChild c)) /\
      skipn (S i) (specs s1) = pre ++ c0 :: post /\
      forallb (fun x => negb (startable x)) pre = true /\ startable c0 = true /\
      c_name c = c_name c0 /\ c_i c = (S i + length pre)%nat /\ (i < c_i c)%nat) \/
  (ofo_childStarted true s i name pid = (set_mode s1 0, RAct DoNothing) /\
   forall x, In x (skipn (S i) (specs s1)) -> startable x = false).
Proof. exact afo_restarts_all_in_spec_order. Qed.
Print Assumptions C08_afo_restarts_all_in_spec_order.

(* rest-for-one: stop list, first start and the start chain only touch positions >= restartI *)
Theorem C08_rfo_restarts_suffix : forall k s,
  let '(s', t) := childrenForTermination k s in
  specs s' = specs s /\
  (forall p, In p t -> exists c, In c (skipn (restartI s) (specs s)) /\ c_pid c = p /\ stoppable c = true) /\
  (forall c, childForStart s = Some c -> In c (skipn (restartI s) (specs s))) /\
  (forall i f, (restartI s <= i)%nat -> firstn (restartI s) (update_nth i f (specs s)) = firstn (restartI s) (specs s)).
Proof. exact rfo_restarts_suffix. Qed.
Print Assumptions C08_rfo_restarts_suffix.

(* with KeepOrder, stopping in reverse order, one by one *)
Theorem C08_keeporder_stops_reverse_one_by_one : forall k s,
  k_keep k = true ->
  let t := snd (childrenForTermination k s) in
  let all := map c_pid (filter stoppable (rev (skipn (restartI s) (specs s)))) in
  t = firstn 1 all /\ (length t <= 1)%nat.
Proof. exact keeporder_stops_reverse_one_by_one. Qed.
Print Assumptions C08_keeporder_stops_reverse_one_by_one.

Theorem C08_nokeeporder_stops_all_reverse : forall k s,
  k_keep k = false ->
  snd (childrenForTermination k s) = map c_pid (filter stoppable (rev (skipn (restartI s) (specs s)))).
Proof. exact nokeeporder_stops_all_reverse. Qed.
Print Assumptions C08_nokeeporder_stops_all_reverse.

(* while stopping for a restart: any exit (expected or not) only waits as long as a stop is outstanding ... *)
Theorem C08_arfo_stopping_waits : forall k s name pid reason now j sp,
  mode s = 2 -> last_match name pid (specs s) 0 = Some (j, sp) ->
  let s1 := set_specs (set_wait s (zremove pid (wait s))) (clear_matching name pid (specs s)) in
  let s2 := if Nat.ltb j (restartI s) then set_restartI s1 j else s1 in
  wait s2 <> [] ->
  arfo_childTerminated k s name pid reason now = (s2, RAct (TerminateChildren [] 0)).
Proof. exact arfo_stopping_waits. Qed.
Print Assumptions C08_arfo_stopping_waits.

(* ... and the panic(gen.ErrInternal) sites of supARFO are unreachable, for all histories of calls *)
Theorem C08_arfo_panic_unreachable : forall k cs s c,
  is_arfo k = true -> cs <> [] -> reachable k cs s -> valid_call s c ->
  snd (apply_call k s c) <> RPanic.
Proof. exact arfo_panic_unreachable. Qed.
Print Assumptions C08_arfo_panic_unreachable.

(* Temporary never (all histories, all machines) *)
Theorem C08_temporary_never_restarted : forall k cs s name pid reason now x,
  k_strat k = Temporary -> reachable k cs s ->
  snd (childTerminated k s name pid reason now) <> RAct (StartChild x).
Proof. exact temporary_never_restarted. Qed.
Print Assumptions C08_temporary_never_restarted.

(* Transient only after an abnormal termination *)
Theorem C08_transient_iff_abnormal : forall k s name pid reason now j sp,
  shut s = false -> last_match name pid (specs s) 0 = Some (j, sp) ->
  k_strat k = Transient -> c_dis sp = false ->
  snd (check (restarts s) now (k_per k) (k_int k)) = false ->
  (exists s', ofo_childTerminated k s name pid reason now = (s', RAct (StartChild sp))) <-> is_normal reason = false.
Proof. exact ofo_transient_iff_abnormal. Qed.
Print Assumptions C08_transient_iff_abnormal.

Theorem C08_transient_normal_never_restarted : forall k s name pid reason now x,
  k_strat k = Transient -> is_normal reason = true -> mode s <> 2 ->
  snd (childTerminated k s name pid reason now) <> RAct (StartChild x).
Proof. exact transient_normal_never_restarted. Qed.
Print Assumptions C08_transient_normal_never_restarted.

(* Permanent restarts after any termination *)
Theorem C08_permanent_always : forall k s name pid reason now j sp,
  shut s = false -> last_match name pid (specs s) 0 = Some (j, sp) ->
  k_strat k = Permanent -> c_dis sp = false ->
  snd (check (restarts s) now (k_per k) (k_int k)) = false ->
  exists s', ofo_childTerminated k s name pid reason now = (s', RAct (StartChild sp)).
Proof. exact ofo_permanent_always. Qed.
Print Assumptions C08_permanent_always.

Theorem C08_sofo_restart_iff : forall k s name pid reason now sp,
  shut s = false -> find_name name (specs s) = Some sp ->
  snd (check (restarts s) now (k_per k) (k_int k)) = false ->
  (exists s', sofo_childTerminated k s name pid reason now = (s', RAct (StartChild sp))) <->
  strategy_stops k reason = false /\ c_dis sp = false.
Proof. exact sofo_restart_iff. Qed.
Print Assumptions C08_sofo_restart_iff.

(* a disabled child stays down: no call on any state of any machine answers the start of a disabled spec *)
Theorem C08_disabled_stays_down : forall k s c s' x,
  apply_call k s c = (s', RAct (StartChild x)) -> c_dis x = false.
Proof. exact disabled_stays_down. Qed.
Print Assumptions C08_disabled_stays_down.

(* significant children and auto-shutdown end the supervisor exactly as documented *)
Theorem C08_significant_shutdown : forall k s name pid reason now j sp,
  shut s = false -> last_match name pid (specs s) 0 = Some (j, sp) ->
  c_dis sp = false -> strategy_stops k reason = true -> c_sig sp = true ->
  let run := running_others name pid (specs s) in
  let s1 := set_specs (set_wait s (zremove pid (wait s))) (clear_matching name pid (specs s)) in
  ofo_childTerminated k s name pid reason now =
    if is_nil run then (s1, RAct (Terminate reason))
    else (set_shut (set_wait s1 (zset run)) true reason, RAct (TerminateChildren run reason)).
Proof. exact ofo_significant_shutdown. Qed.
Print Assumptions C08_significant_shutdown.

Theorem C08_significant_shutdown_arfo : forall k s name pid reason now j sp,
  (mode s =? 3) = false -> (mode s =? 2) = false -> last_match name pid (specs s) 0 = Some (j, sp) ->
  c_dis sp = false -> strategy_stops k reason = true -> c_sig sp = true ->
  let run := running_others name pid (specs s) in
  let s1 := set_specs (set_wait s (zremove pid (wait s))) (clear_matching name pid (specs s)) in
  arfo_childTerminated k s name pid reason now =
    if is_nil run then (s1, RAct (Terminate reason))
    else (set_sreason (set_mode (set_wait s1 (zset run)) 3) reason, RAct (TerminateChildren run reason)).
Proof. exact arfo_significant_shutdown. Qed.
Print Assumptions C08_significant_shutdown_arfo.

Theorem C08_autoshutdown : forall k s name pid reason now j sp,
  shut s = false -> last_match name pid (specs s) 0 = Some (j, sp) ->
  c_dis sp = false -> strategy_stops k reason = true -> c_sig sp = false ->
  let run := running_others name pid (specs s) in
  let s1 := set_specs (set_wait s (zremove pid (wait s))) (clear_matching name pid (specs s)) in
  ofo_childTerminated k s name pid reason now =
    (s1, RAct (if is_nil run && k_auto k then Terminate reason else DoNothing)).
Proof. exact ofo_autoshutdown. Qed.
Print Assumptions C08_autoshutdown.

Theorem C08_autoshutdown_arfo : forall k s name pid reason now j sp,
  (mode s =? 3) = false -> (mode s =? 2) = false -> last_match name pid (specs s) 0 = Some (j, sp) ->
  c_dis sp = false -> strategy_stops k reason = true -> c_sig sp = false ->
  let run := running_others name pid (specs s) in
  let s1 := set_specs (set_wait s (zremove pid (wait s))) (clear_matching name pid (specs s)) in
  arfo_childTerminated k s name pid reason now =
    (s1, RAct (if is_nil run && k_auto k then Terminate reason else DoNothing)).
Proof. exact arfo_autoshutdown. Qed.
Print Assumptions C08_autoshutdown_arfo.

(* The closed loop, one-for-one: for every number of children and EVERY history of child exits (any child, any
   reason, any time, also the freshly restarted instance again), starting from any state meeting the invariant Iv
   (all children of the spec list recorded with distinct pids, as after ProcessInit: ofo_start_meets_invariant):
   as long as the supervisor has not started to stop, the children its machine records as running are exactly
   the prescribed ones (a_view of the specification a_exit), and it starts to stop exactly when and why the
   specification says (significant child / auto-shutdown / intensity exceeded), stopping every running child.
   Missing for the full C08_quiescent_children: the same closed loop for all-for-one / rest-for-one (simple
   one-for-one follows below) and for histories with DisableChild/EnableChild/AddChild and spawn failures; there the
   statement is evaluated as the monitor spec_prescribed on every observed history (machine level and real node),
   and each single decision of those machines is a theorem above. *)
Theorem C08_quiescent_children_ofo : forall k h s a next,
  Iv k s a next ->
  let '(s', a', st) := ofo_loop k s next a h in
  match st with
  | None => a_phase a' = ANormal /\ m_view k s' = a_view a' /\ shut s' = false /\ mode s' = 0
  | Some act => stop_ok s' a' act
  end.
Proof. exact ofo_closed_loop. Qed.
Print Assumptions C08_quiescent_children_ofo.

Theorem C08_quiescent_children_ofo_from_init : forall k cs h,
  k_kind k = OFO -> cs <> [] -> NoDup (map fst cs) ->
  let s := start k cs 0 in
  alive s = true /\
  let '(s', a', st) := ofo_loop k (m s) (nextpid s) (a_init k cs) h in
  match st with
  | None => a_phase a' = ANormal /\ m_view k s' = a_view a' /\ shut s' = false /\ mode s' = 0
  | Some act => stop_ok s' a' act
  end.
Proof. exact ofo_closed_loop_from_init. Qed.
Print Assumptions C08_quiescent_children_ofo_from_init.

(* The closed loop, simple-one-for-one: every spec list with distinct names, every history of StartChild calls and
   child exits from ProcessInit on: the number of running instances recorded per spec is the prescribed one, and
   the supervisor gives up (stopping every instance, waiting for all of them, exceeded reason) exactly when the
   specification does. *)
Theorem C08_quiescent_children_sofo_from_init : forall k cs h,
  k_kind k = SOFO -> NoDup (map fst cs) ->
  let s := start k cs 0 in
  alive s = true /\
  let '(s', a', st) := sofo_loop k (m s) (nextpid s) (a_init k cs) h in
  match st with
  | None => a_phase a' = ANormal /\ m_view k s' = a_view a' /\ shut s' = false
  | Some act => sofo_stop_ok s' a' act
  end.
Proof. exact sofo_closed_loop_from_init. Qed.
Print Assumptions C08_quiescent_children_sofo_from_init.

(* The closed loop, all-for-one / rest-for-one (supARFO, KeepOrder on and off), through the DRIVER of Sup/Machine.v
   (step = exit branch of ProcessRun + handleAction + environment).  [Inv k s a] is the loop invariant between a driver
   state s and a state a of the specification (one constructor per phase: normal / stopping for a restart /
   shutting down / dead).  [op_ok]: the environment guard (exit of ANY live child -- told to stop or not, during a
   restart or a shutdown, of a freshly restarted instance --, exit of a pid that is no child, clock shift; each pid
   exits once; no spawn failure).  [settle]/[chk] are the two halves of the monitor step [agree]. *)

(* one operation keeps the invariant, for every state meeting it *)
Theorem C08_arfo_step_invariant : forall k, is_arfo k = true -> forall s a o,
  Inv k s a -> op_ok s o ->
  Inv k (step k s o) (settle (snap_of (step k s o)) (a_step k a (children s) o)).
Proof. exact step_ok. Qed.
Print Assumptions C08_arfo_step_invariant.

(* what the invariant says: quiescent (no exit signal outstanding) <-> normal mode; in normal mode the children the
   machine records as running are the prescribed ones; otherwise the machine is in mode 2 or 3 *)
Theorem C08_arfo_quiescent_iff_normal : forall k s a, is_arfo k = true -> Inv k s a -> alive s = true ->
  (is_nil (outstanding s) = true <-> mode (m s) = 0) /\
  (mode (m s) = 0 -> a_phase a = ANormal /\ m_view k (m s) = a_view a /\ wait (m s) = []) /\
  (mode (m s) = 0 \/ mode (m s) = 2 \/ mode (m s) = 3).
Proof. exact Inv_quiescent. Qed.
Print Assumptions C08_arfo_quiescent_iff_normal.

(* the monitor verdict is true in every state meeting the invariant (alive + quiescent: normal and views equal;
   dead: the specification is dead with the same reason; busy: the specification is not dead) *)
Theorem C08_arfo_invariant_verdict : forall k s a, is_arfo k = true -> Inv k s a -> chk k a (snap_of s) = true.
Proof. exact Inv_chk. Qed.
Print Assumptions C08_arfo_invariant_verdict.

(* ProcessInit establishes it, for every child list with distinct non-empty names *)
Theorem C08_arfo_start_establishes_invariant : forall k cs,
  is_arfo k = true -> cs <> [] -> NoDup (map fst cs) -> Forall (fun c => fst c <> 0) cs ->
  let s := start k cs 0 in alive s = true /\ Inv k s (a_init k cs).
Proof. exact arfo_start_establishes_invariant. Qed.
Print Assumptions C08_arfo_start_establishes_invariant.

(* C08_quiescent_children for supARFO: from any state meeting the invariant, for EVERY history allowed by env_ok, the monitor
   walk of Sup/MachineCases.v (the definition the run-time monitor spec_prescribed evaluates on implementation
   observations) is true on the run of the driver *)
Theorem C08_quiescent_children_arfo : forall k, is_arfo k = true -> forall ops s a,
  Inv k s a -> env_ok k s ops -> walk k a (snap_of s) ops (fst (run_snaps k s ops)) = true.
Proof. exact arfo_walk. Qed.
Print Assumptions C08_quiescent_children_arfo.

Theorem C08_quiescent_children_arfo_from_init : forall k cs ops,
  is_arfo k = true -> cs <> [] -> NoDup (map fst cs) -> Forall (fun c => fst c <> 0) cs ->
  env_ok k (start k cs 0) ops ->
  spec_prescribed (model_case k cs ops) = true.
Proof. exact arfo_closed_loop_from_init. Qed.
Print Assumptions C08_quiescent_children_arfo_from_init.

(* group restart in spec order, on the event log of the driver: in any driver state in starting mode whose restart
   range [r..] is down, the start chain of handleAction spawns exactly the specs of the range in spec order with
   consecutive fresh pids and records them at their positions (the closed loop reaches the chain only in such states:
   leaf_chain in Sup/ArfoLoop.v) *)
Theorem C08_arfo_restart_in_spec_order : forall k s r x post,
  is_arfo k = true -> indexed (specs (m s)) -> mode (m s) = 1 -> skipn r (specs (m s)) = x :: post ->
  Forall (fun c => c_pid c = 0 /\ c_dis c = false) (x :: post) ->
  (forall q, In q (map fst (children s)) -> q < nextpid s) ->
  let res := handleAction k (fuel_of s) 0 s (RAct (StartChild x)) in
  snd res = HNil /\
  events (fst res) = events s ++ spawn_events (assign (x :: post) (nextpid s)) /\
  specs (m (fst res)) = firstn r (specs (m s)) ++ assign (x :: post) (nextpid s) /\
  mode (m (fst res)) = 0.
Proof. exact arfo_restart_in_spec_order. Qed.
Print Assumptions C08_arfo_restart_in_spec_order.

(* known finding C08-stale-exit as a witness: DisableChild + EnableChild with the old instance's exit still queued ->
   alive, quiescent, normal mode, but a live child is recorded by no spec; no invariant Inv holds afterwards.  The
   closed-loop theorems therefore allow no management calls (op_ok); for them C08_quiescent_children stays a monitor. *)
Theorem C08_arfo_stale_exit_refuted :
  exists k cs ops,
    is_arfo k = true /\
    let s := run k cs 0 ops in
    alive s = true /\ is_nil (outstanding s) = true /\ mode (m s) = 0 /\ unrecorded_live_child s = true /\
    spec_prescribed (model_case k cs ops) = true.
Proof. exact arfo_stale_exit_refuted. Qed.
Print Assumptions C08_arfo_stale_exit_refuted.

Theorem C08_arfo_stale_exit_breaks_invariant :
  forall a, ~ Inv stale_cfg (run stale_cfg stale_children 0 stale_ops) a.
Proof. exact arfo_stale_exit_breaks_invariant. Qed.
Print Assumptions C08_arfo_stale_exit_breaks_invariant.

(* stopping in reverse order, one by one (closed loop part): while the machine stops the range for a restart its wait
   set is exactly the set of outstanding exit signals and its restart index is the range of the specification; with
   C08_arfo_stopping_waits (nothing more is sent while that set is non-empty) and
   C08_keeporder_stops_reverse_one_by_one (the next stop list is the last running child of the range) the children of the
   range are told to stop last-first, each only after the previous one is gone *)
Theorem C08_arfo_stopping_wait_is_outstanding : forall k s a,
  Inv k s a -> alive s = true -> mode (m s) = 2 ->
  (forall p, In p (wait (m s)) <-> In p (outstanding s)) /\
  exists r, a_phase a = ARestart r /\ restartI (m s) = r.
Proof. exact arfo_stopping_wait_is_outstanding. Qed.
Print Assumptions C08_arfo_stopping_wait_is_outstanding.
