(* C10 - No orphans, application / node part.  Statements only; proofs in App/Proofs.v and
   App/SeqProofs.v.  (The supervisor part is Properties/C10.v.) *)
From Ergo Require Import Common.Base App.Seq App.Cases App.Model App.SeqProofs App.Proofs.

(* ApplicationStop / ApplicationStopForce report success only in states where every member process
   has left the node and the group - every guarded schedule of concurrent deaths, stops, starts, member
   deaths and stop calls during the spawn loop of start included (rbk: a failed start has just been
   rolled back and a member it killed has not terminated yet, known finding rollback-busy of C17) *)
Theorem C10_app_stop_waits n m threads sched i p s' :
  forallb initial_pc threads = true ->
  let c := run_adm sched (init_cfg n m threads) in
  nth_error (thr c) i = Some p -> returns_ok p = true ->
  step_pc (sh c) p = Some (s', Done 0) ->
  rbk (sh c) = false -> na (sh c) = 0 /\ ng (sh c) = 0.
Proof. intros H. exact (stop_truthful n m threads sched H i p s'). Qed.
Print Assumptions C10_app_stop_waits.

(* an application that is back to loaded (or unloaded) has no member left *)
Theorem C10_app_loaded_no_member n m threads sched :
  forallb initial_pc threads = true ->
  let c := run_adm sched (init_cfg n m threads) in
  st (sh c) = SL \/ st (sh c) = SUnl -> rbk (sh c) = false -> na (sh c) = 0 /\ ng (sh c) = 0.
Proof. intros H. exact (loaded_clean n m threads sched H). Qed.
Print Assumptions C10_app_loaded_no_member.

(* sequential model: a graceful stop of a running application ends with no member *)
Theorem C10_app_stop_takes_members a x force :
  a_st x = 2 -> a_live (fst (fst (app_stop a x force))) = [] /\ a_st (fst (fst (app_stop a x force))) = 1.
Proof. intros H. rewrite (seq_stop a x force H). split; reflexivity. Qed.
Print Assumptions C10_app_stop_takes_members.
