(* C07 - Request/response correlation.  Property theorems only; proofs live in Call/. *)
From Ergo Require Import Common.Base Ids.Model Ids.Proofs Call.Model Call.Proofs.
From Ergo Require NetFail.Model NetFail.Guard NetFail.GuardCases NetFail.GuardProofs.
Local Open Scope Z_scope.

(* For EVERY history (any interleaving of calls, replies from any process with any reference - in time, late,
   duplicated, forged -, timeouts, kill of the caller): what call k returns is, by the type [outcome], a timeout, the
   delivery error of the request, "terminated", or a response; a returned response carries the reference of call k and
   is one that some process really sent (event r_id x of the history). *)
Theorem C07_correlated : forall h k r x,
  In (k, r, OReply x) (results (run h)) ->
  r_ref x = r /\ is_resp_event h x /\ In (k, r) (calls (run h)) /\ In r (call_refs h).
Proof. exact correlated. Qed.
Print Assumptions C07_correlated.

(* ... never one made for a different request, given pairwise distinct references *)
Theorem C07_not_for_other_request : forall h k r x j,
  NoDup (call_refs h) ->
  In (k, r, OReply x) (results (run h)) -> In (j, r_ref x) (calls (run h)) -> j = k.
Proof. exact not_for_other_request. Qed.
Print Assumptions C07_not_for_other_request.

(* the references of one caller are a sub-sequence of what MakeRef hands out: pairwise distinct (Ids engine) *)
Theorem C07_refs_fresh : forall n c (f : ref -> bool) h,
  (c + N.of_nat n < two64)%N -> call_refs h = filter f (make_refs n c) -> NoDup (call_refs h).
Proof. exact refs_fresh. Qed.
Print Assumptions C07_refs_fresh.

(* a response discarded by the retry loop had another reference and is never returned by that or any later call *)
Theorem C07_late_dropped : forall h x k,
  In (x, k) (dropped (run h)) ->
  (exists r, In (k, r) (calls (run h)) /\ r_ref x <> r) /\
  forall h' y, In y (returned (run (h ++ h'))) -> r_id y <> r_id x.
Proof. exact late_dropped. Qed.
Print Assumptions C07_late_dropped.

Theorem C07_stale_head_discarded : forall s k r x tl,
  waiting s = Some (k, r) -> chan s = x :: tl -> r_ref x <> r ->
  let s' := step s ERecv in
  chan s' = tl /\ waiting s' = Some (k, r) /\ dropped s' = (x, k) :: dropped s /\ results s' = results s.
Proof. exact recv_stale. Qed.
Print Assumptions C07_stale_head_discarded.

(* one response is consumed by at most one call *)
Theorem C07_at_most_once_caller : forall h,
  NoDup (map r_id (consumed (run h))) /\ NoDup (map r_id (returned (run h))).
Proof. exact at_most_once_caller. Qed.
Print Assumptions C07_at_most_once_caller.

(* a request is presented to the callee at most once, and only a request that was issued *)
Theorem C07_at_most_once_callee : forall h,
  NoDup (call_refs h) ->
  NoDup (map pend_ref (presented (run h))) /\
  forall c q, In (c, q) (presented (run h)) -> In q (calls (run h)).
Proof. exact at_most_once_callee. Qed.
Print Assumptions C07_at_most_once_callee.

(* duplicate replies: of all responses carrying one reference at most one is ever returned *)
Theorem C07_duplicate_reply : forall h x y,
  NoDup (call_refs h) -> In x (returned (run h)) -> In y (returned (run h)) -> r_ref x = r_ref y -> x = y.
Proof. exact duplicate_reply. Qed.
Print Assumptions C07_duplicate_reply.

(* a reply with the awaited reference behind n stale responses is returned after n+1 receive steps *)
Theorem C07_reply_delivered : forall pre s k r x post,
  waiting s = Some (k, r) -> killed s = false -> chan s = pre ++ x :: post ->
  Forall (fun y => r_ref y <> r) pre -> r_ref x = r ->
  let s' := run_from s (repeat ERecv (S (length pre))) in
  results s' = (k, r, OReply x) :: results s /\ chan s' = post /\ waiting s' = None.
Proof. exact reply_delivered. Qed.
Print Assumptions C07_reply_delivered.

(* the buffer of 10 is the only acceptance test: ten stale replies make the node refuse (ErrResponseIgnored) the
   in-time reply to a caller that IS waiting for it; that call can then only time out *)
Theorem C07_in_time_reply_refused : exists h k r from pay,
  NoDup (call_refs h) /\ waiting (run h) = Some (k, r) /\ killed (run h) = false /\
  let s' := run (h ++ [EResp from r pay false]) in
  sends s' = (length h, 1) :: sends (run h) /\ chan s' = chan (run h) /\
  forallb (fun y => negb (ref_eqb (r_ref y) r)) (chan s') = true.
Proof. exact in_time_reply_refused. Qed.
Print Assumptions C07_in_time_reply_refused.

(* non-vacuity: a late reply to the timed-out call 0 and a forged one are discarded by call 1, which returns its own reply;
   a duplicate of that reply is discarded by call 2 *)
Example C07_example :
  let h := [ECall 0 r0 7 0; EHandle 7; ETimeout; EResp 7 r0 100 false; EResp 8 (9%N,9%N,9%N) 999001 false;
            ECall 1 r1 7 0; EHandle 7; EResp 8 r1 1002 false; EResp 7 r1 1003 false; ERecv; ERecv; ERecv;
            ECall 2 (3%N,0%N,0%N) 7 0; ERecv; ETimeout] in
  NoDup (call_refs h) /\
  map (fun t => (fst (fst t), match snd t with OReply x => r_pay x | _ => -1 end)) (results (run h)) = [(2, -1); (1, 1002); (0, -1)] /\
  map (fun d => (r_pay (fst d), snd d)) (dropped (run h)) = [(1003, 2); (999001, 1); (100, 1)].
Proof. split; [cbn; repeat constructor; cbn; intuition discriminate | vm_compute; split; reflexivity]. Qed.

(* Remote calls across a restart of the peer.  A reply (SendResponse / SendResponseError) or a request (CallPID /
   CallAlias) stamped with the creation of a PREVIOUS incarnation of the connected node is refused by the sending
   connection with the incarnation error and not a single frame is written - so a late reply to a request of the
   previous incarnation cannot reach the process that got the same numeric id (and may be waiting on a reference with
   the same numeric id) after the restart.  The receiver stamps whatever arrives with its own creation, so this guard
   is the only barrier (NetFail/Guard.v quotes the Go lines; the table is tied to the real connection on every run). *)
Theorem C07_stale_incarnation : forall op i cr pc from fcr mcr live rnode rcr,
  In op NetFail.GuardCases.call_ops -> NetFail.Guard.accepts op i = true ->
  NetFail.Guard.ident_creation i = Some cr -> cr <> pc ->
  NetFail.Guard.conn_op NetFail.Guard.conn_table op from fcr mcr i pc = (NetFail.Model.NErr NetFail.Model.e_incarnation, []) /\
  NetFail.Guard.delivered live rnode rcr (snd (NetFail.Guard.conn_op NetFail.Guard.conn_table op from fcr mcr i pc)) = [].
Proof.
  intros op i cr pc from fcr mcr live rnode rcr Hop Ha Hc Hne.
  assert (T : NetFail.Guard.takes_stamped op = true).
  { cbn in Hop. destruct Hop as [<-|[<-|[<-|[<-|[]]]]]; reflexivity. }
  split; [now apply NetFail.GuardProofs.guard_refuses_stale with (cr := cr)|].
  now apply NetFail.GuardProofs.stale_reaches_nobody with (cr := cr).
Qed.
Print Assumptions C07_stale_incarnation.

(* ... and the current incarnation is not refused (the table does not refuse everything) *)
Theorem C07_current_incarnation_passes : forall op i pc from fcr mcr rnode,
  NetFail.Guard.takes_stamped op = true -> NetFail.Guard.accepts op i = true -> NetFail.Guard.ident_creation i = Some pc ->
  (match i with NetFail.Guard.IPid n _ _ | NetFail.Guard.IAlias n _ _ => n | NetFail.Guard.IName _ n | NetFail.Guard.IEvent _ n => n end) = rnode ->
  exists w, NetFail.Guard.conn_op NetFail.Guard.conn_table op from fcr mcr i pc = (NetFail.Model.NOk, [w]) /\
            NetFail.Guard.resolve rnode pc (NetFail.Guard.w_to w) = i.
Proof. exact NetFail.GuardProofs.guard_passes_current. Qed.
Print Assumptions C07_current_incarnation_passes.
