(* C01 - Serial execution: at most one callback of a process executes at any instant.
   Property theorems only; model in Sched/Model.v, proofs in Sched/Token*.v. *)
From Ergo Require Import Common.Base Sched.Model Sched.CountFacts Sched.TokenInv Sched.TokenProofs
  Sched.MetaModel Sched.MetaProofs.

(* For every number of sender goroutines (by pid or by name, any messages, any callback
   behaviour incl. errors, panics and synchronous calls), every number of Node.Kill callers,
   self-sends during init, and EVERY schedule of their atomic steps: in the reached
   configuration at most one goroutine is inside a callback of the process (init, message
   handling incl. a pending Call, terminate). *)
Theorem C01_process_serial : forall sched named lim fb selfs initok others,
  Forall (fun p => init_pc p = true) others ->
  count open_cb (thr (run sched (init_cfg named lim fb selfs initok others))) <= 1.
Proof. intros. apply Inv_no_overlap. apply Inv_reachable. assumption. Qed.
Print Assumptions C01_process_serial.

(* The mechanism: at most one goroutine owns the process (spawner in Init, runner between a
   successful wake-up CAS and its return to Sleep, the finaliser after Swap(Terminated)). *)
Theorem C01_single_owner : forall sched named lim fb selfs initok others,
  Forall (fun p => init_pc p = true) others ->
  let c := run sched (init_cfg named lim fb selfs initok others) in
  count spawn_pre (thr c) + count run_pre (thr c) + count post_early (thr c) + count post_late (thr c) <= 1.
Proof. intros. apply Inv_owner_le1. apply Inv_reachable. assumption. Qed.
Print Assumptions C01_single_owner.

(* The wake-up CAS issued by a self-send inside ProcessInit can never start a runner. *)
Theorem C01_no_runner_during_init : forall sched named lim fb selfs initok others,
  Forall (fun p => init_pc p = true) others ->
  count impossible (thr (run sched (init_cfg named lim fb selfs initok others))) = 0.
Proof.
  intros. pose proof (Inv_reachable sched named lim fb selfs initok others H) as HI.
  unfold Inv, InvN in HI. tauto.
Qed.
Print Assumptions C01_no_runner_during_init.

(* Meta-processes (node/meta.go, after the fix 477dde5): Start() runs by design concurrently with
   the mailbox handler; the handler's callbacks (HandleMessage / HandleCall / HandleInspect / exit
   handling) and Terminate are serial, for every schedule, any number of senders to the alias,
   the parent's termination, and any moment at which Start() returns. *)
Theorem C01_meta_serial : forall sched n r others,
  Forall (fun p => m_init_pc p = true) others ->
  mcount m_open (mthr (mrun true sched (m_init_cfg n r others))) <= 1.
Proof. exact meta_no_overlap. Qed.
Print Assumptions C01_meta_serial.

(* the code as it was violated this: Start() returning while the handler is inside a callback *)
Theorem C01_meta_serial_refuted_before_fix :
  mcount m_open (mthr (mrun false refut_sched refut_cfg)) = 2.
Proof. exact meta_no_overlap_refuted_before_fix. Qed.
Print Assumptions C01_meta_serial_refuted_before_fix.

(* non-vacuity: a reachable configuration in which a callback IS executing while a second
   sender and two Kill callers are in flight *)
Example C01_example :
  let c := run [0;0;0;0;0;0;0; 1;1;1;1;1;1; 4;4;4;4;4;4;4;4;4;4;4;4;4;4;4;4; 5;5;5;5;5;5;5; 2;2;3;3]
               (init_cfg false 0 false [] true
                  [S_load false [mk_msg 1 2 (BOk 2)]; K_load; K_load; S_load false [mk_msg 2 0 (BCall 0)]]) in
  count open_cb (thr c) = 1 /\ st (sh c) = Zombee.
Proof. vm_compute. split; reflexivity. Qed.
