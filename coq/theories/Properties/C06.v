(* C06 — Registry integrity: unique identities, complete release on termination.
   Property theorems only; proofs live in Ids/ and Rel/. *)
From Ergo Require Import Common.Base Ids.Model Ids.Proofs Ids.Cases Rel.Amap Rel.Model Rel.Cases.
Local Open Scope N_scope.

(* MakeRef (after the fix) is injective on the 64-bit counter: no two calls of one node life give
   the same reference / alias *)
Theorem C06_ref_injective : forall a b, a < two64 -> b < two64 -> a <> b -> makeref a <> makeref b.
Proof. exact makeref_injective. Qed.
Print Assumptions C06_ref_injective.

Theorem C06_refs_never_repeat : forall k c, c + N.of_nat k < two64 -> NoDup (make_refs k c).
Proof. exact refs_never_repeat. Qed.
Print Assumptions C06_refs_never_repeat.

(* process ids strictly increase (hence are fresh) while the 64-bit counter has not wrapped *)
Theorem C06_pid_fresh : forall k c, c + N.of_nat k < two64 ->
  increasing_from c (spawn_pids k c) /\ NoDup (spawn_pids k c).
Proof. intros k c H. split; [exact (pids_increasing k c H) | exact (pids_never_repeat k c H)]. Qed.
Print Assumptions C06_pid_fresh.
