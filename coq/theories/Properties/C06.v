(* C06 — Registry integrity: unique identities, complete release on termination.
   Property theorems only; proofs live in Ids/ and Rel/. *)
From Ergo Require Import Common.Base Ids.Model Ids.Proofs Ids.Cases Rel.Amap Rel.Model Rel.TMProofs Rel.RegProofs Rel.Cases.
Local Open Scope N_scope.

(* MakeRef (after the fix) is injective on the 64-bit counter: no two calls of one node life give
   the same reference / alias *)
Theorem C06_ref_injective : forall a b, a < Ids.Model.two64 -> b < Ids.Model.two64 -> a <> b -> makeref a <> makeref b.
Proof. exact makeref_injective. Qed.
Print Assumptions C06_ref_injective.

Theorem C06_refs_never_repeat : forall k c, c + N.of_nat k < Ids.Model.two64 -> NoDup (make_refs k c).
Proof. exact refs_never_repeat. Qed.
Print Assumptions C06_refs_never_repeat.

(* process ids strictly increase (hence are fresh) while the 64-bit counter has not wrapped *)
Theorem C06_pid_fresh : forall k c, c + N.of_nat k < Ids.Model.two64 ->
  increasing_from c (spawn_pids k c) /\ NoDup (spawn_pids k c).
Proof. intros k c H. split; [exact (pids_increasing k c H) | exact (pids_never_repeat k c H)]. Qed.
Print Assumptions C06_pid_fresh.

(* the folded reference of important deliveries is injective inside a block of 2^18 counters only *)
Theorem C06_important_ref_partial : forall a b, a < Ids.Model.two64 -> b < Ids.Model.two64 ->
  a / 262144 = b / 262144 -> fold_ref (makeref a) = fold_ref (makeref b) -> a = b.
Proof. exact fold_ref_window. Qed.
Print Assumptions C06_important_ref_partial.
Theorem C06_important_ref_refuted : exists a b, a <> b /\ fold_ref (makeref a) = fold_ref (makeref b).
Proof. exists 1, 262144. destruct fold_ref_collides as [E NE]. split; [exact NE | exact E]. Qed.
Print Assumptions C06_important_ref_refuted.

(* names: RegisterName succeeds only on a free name and then the name resolves to the registrant;
   on a taken name it fails and changes nothing *)
Theorem C06_name_unique : forall p pr n s,
  (forall s', register_name p pr n s = (s', ROk) ->
     ahas N.eq_dec n (s_names s) = false /\ aget N.eq_dec n (s_names s') = Some p /\
     (forall n', n' <> n -> aget N.eq_dec n' (s_names s') = aget N.eq_dec n' (s_names s))) /\
  (forall q, aget N.eq_dec n (s_names s) = Some q -> register_name p pr n s = (s, RErr e_taken)).
Proof. intros p pr n s. split; [intros s'; apply register_name_unique | intros q; apply register_name_taken]. Qed.
Print Assumptions C06_name_unique.

Theorem C06_alias_unique : forall p pr s s' a, create_alias p pr s = (s', RAlias a) ->
  ahas N.eq_dec a (s_aliases s) = false /\ aget N.eq_dec a (s_aliases s') = Some p /\ a = s_uniq s + 1.
Proof. exact create_alias_unique. Qed.
Print Assumptions C06_alias_unique.

Theorem C06_event_unique : forall p pr e s,
  (forall s', register_event p pr e s = (s', ROk) ->
     ahas N.eq_dec e (s_events s) = false /\ aget N.eq_dec e (s_events s') = Some p) /\
  (forall q, aget N.eq_dec e (s_events s) = Some q -> register_event p pr e s = (s, RErr e_taken)).
Proof. intros p pr e s. split; [intros s'; apply register_event_unique | intros q; apply register_event_taken]. Qed.
Print Assumptions C06_event_unique.

(* racing registrants of one free name, in whatever order their LoadOrStore takes effect:
   exactly one succeeds (the first), all others get an error, the name resolves to the winner *)
Theorem C06_register_race : forall n p tl names,
  ahas N.eq_dec n names = false ->
  aget N.eq_dec n (fst (race_register n (p :: tl) names)) = Some p /\
  exists rest, snd (race_register n (p :: tl) names) = true :: rest /\
               Forall (fun b => b = false) rest /\ length rest = length tl.
Proof. exact race_register_one_wins. Qed.
Print Assumptions C06_register_race.

(* release: after unregisterProcess(p) has completed (in any reachable state): p is in no table, its
   name / aliases / events are free again, and no relation mentions p as requester, nor p's pid,
   name, aliases or events as target *)
Theorem C06_release : forall ops nextpid uniq p pr r k,
  let s := fst (run_ops ops (st0 nextpid uniq)) in
  aget pid_dec p (s_procs s) = Some pr ->
  let s' := terminate p r s in
  (aget pid_dec p (s_procs s') = None /\
   (forall n, pr_name pr = Some n -> aget N.eq_dec n (s_names s') = None) /\
   (forall a, In a (pr_aliases pr) -> aget N.eq_dec a (s_aliases s') = None) /\
   (forall e, In e (pr_events pr) -> aget N.eq_dec e (s_events s') = None)) /\
  (In k (rels (s_tm s')) ->
   In k (rels (s_tm s)) /\ kc k <> p /\ kt k <> TPid p /\
   (forall n, pr_name pr = Some n -> kt k <> TName n me) /\
   (forall a, In a (pr_aliases pr) -> kt k <> TAlias me a) /\
   (forall e, In e (pr_events pr) -> kt k <> TEvent e me)).
Proof.
  intros ops nextpid uniq p pr r k s E s'. split.
  - apply terminate_release_tables, E.
  - apply terminate_release_relations; [apply run_ops_idx_ok, idx_ok_empty | exact E].
Qed.
Print Assumptions C06_release.

(* non-vacuity: a process with a name, two aliases (one deleted), an event and relations in both
   directions terminates: every table is empty afterwards and no relation is left *)
Example C06_example :
  let ops := [OSpawnNode (Some 5); OSpawnNode None; OCreateAlias (lpid 1001); OCreateAlias (lpid 1001);
              ODeleteAlias (lpid 1001) 2; ORegisterEvent (lpid 1001) 7; OLink (lpid 1002) (TAlias me 1);
              OMonitor (lpid 1001) (TPid (lpid 1002)); OTerminate (lpid 1001) 12] in
  let s := fst (run_ops ops (st0 1000 0)) in
  s_names s = [] /\ s_aliases s = [] /\ s_events s = [] /\ rels (s_tm s) = [] /\
  map fst (s_procs s) = [lpid 1002] /\ inbox_of (lpid 1002) s = [mknote false (TAlias me 1) 12].
Proof. vm_compute. repeat split; reflexivity. Qed.
