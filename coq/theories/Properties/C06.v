(* C06 — Registry integrity: unique identities, complete release on termination.
   Property theorems only; proofs live in Ids/ and Rel/. *)
From Ergo Require Import Common.Base Ids.Model Ids.Proofs Ids.Cases Rel.Amap Rel.Model Rel.TMProofs Rel.RegProofs Rel.AgreeProofs Rel.DangleProofs Rel.Cases.
Local Open Scope N_scope.

(* MakeRef (after the fix) is injective on the 64-bit counter: no two calls of one node life give
   the same reference / alias *)
Theorem C06_ref_injective : forall a b, a < Ids.Model.two64 -> b < Ids.Model.two64 -> a <> b -> makeref a <> makeref b.
Proof. exact makeref_injective. Qed.
Print Assumptions C06_ref_injective.

Theorem C06_refs_never_repeat : forall k c, c + N.of_nat k < Ids.Model.two64 -> NoDup (make_refs k c).
Proof. exact refs_never_repeat. Qed.
Print Assumptions C06_refs_never_repeat.

(* process ids strictly increase (hence are fresh) while the 64-bit counter has not wrapped *)
Theorem C06_pid_fresh : forall k c, c + N.of_nat k < Ids.Model.two64 ->
  increasing_from c (spawn_pids k c) /\ NoDup (spawn_pids k c).
Proof. intros k c H. split; [exact (pids_increasing k c H) | exact (pids_never_repeat k c H)]. Qed.
Print Assumptions C06_pid_fresh.

(* the folded reference of important deliveries is injective inside a block of 2^18 counters only *)
Theorem C06_important_ref_partial : forall a b, a < Ids.Model.two64 -> b < Ids.Model.two64 ->
  a / 262144 = b / 262144 -> fold_ref (makeref a) = fold_ref (makeref b) -> a = b.
Proof. exact fold_ref_window. Qed.
Print Assumptions C06_important_ref_partial.
Theorem C06_important_ref_refuted : exists a b, a <> b /\ fold_ref (makeref a) = fold_ref (makeref b).
Proof. exists 1, 262144. destruct fold_ref_collides as [E NE]. split; [exact NE | exact E]. Qed.
Print Assumptions C06_important_ref_refuted.

(* names: RegisterName succeeds only on a free name and then the name resolves to the registrant;
   on a taken name it fails and changes nothing *)
Theorem C06_name_unique : forall p pr n s,
  (forall s', register_name p pr n s = (s', ROk) ->
     ahas N.eq_dec n (s_names s) = false /\ aget N.eq_dec n (s_names s') = Some p /\
     (forall n', n' <> n -> aget N.eq_dec n' (s_names s') = aget N.eq_dec n' (s_names s))) /\
  (forall q, aget N.eq_dec n (s_names s) = Some q -> register_name p pr n s = (s, RErr e_taken)).
Proof. intros p pr n s. split; [intros s'; apply register_name_unique | intros q; apply register_name_taken]. Qed.
Print Assumptions C06_name_unique.

Theorem C06_alias_unique : forall p pr s s' a, create_alias p pr s = (s', RAlias a) ->
  ahas N.eq_dec a (s_aliases s) = false /\ aget N.eq_dec a (s_aliases s') = Some p /\ a = s_uniq s + 1.
Proof. exact create_alias_unique. Qed.
Print Assumptions C06_alias_unique.

Theorem C06_event_unique : forall p pr e s,
  (forall s', register_event p pr e s = (s', ROk) ->
     ahas N.eq_dec e (s_events s) = false /\ aget N.eq_dec e (s_events s') = Some p) /\
  (forall q, aget N.eq_dec e (s_events s) = Some q -> register_event p pr e s = (s, RErr e_taken)).
Proof. intros p pr e s. split; [intros s'; apply register_event_unique | intros q; apply register_event_taken]. Qed.
Print Assumptions C06_event_unique.

(* racing registrants of one free name, in whatever order their LoadOrStore takes effect:
   exactly one succeeds (the first), all others get an error, the name resolves to the winner *)
Theorem C06_register_race : forall n p tl names,
  ahas N.eq_dec n names = false ->
  aget N.eq_dec n (fst (race_register n (p :: tl) names)) = Some p /\
  exists rest, snd (race_register n (p :: tl) names) = true :: rest /\
               Forall (fun b => b = false) rest /\ length rest = length tl.
Proof. exact race_register_one_wins. Qed.
Print Assumptions C06_register_race.

(* The agreement invariant, over ALL histories of complete registry operations (spawn with/without
   name and links, RegisterName/UnregisterName, CreateAlias/DeleteAlias with its swap-remove exactly
   as coded, RegisterEvent/UnregisterEvent, link/unlink/monitor/demonitor, terminate, cascade), as
   long as the 64-bit process id counter does not wrap: for every live process p the name field, the
   alias list and the event map of p's own record name exactly the names / aliases / events the node
   tables map to p, without duplicates; every table entry belongs to a live process; table keys are
   unique.  (This is what unregisterProcess relies on when it reads the record to decide what to
   delete and drain - the class of the DeleteAlias defect.) *)
Theorem C06_agreement_hist : forall ops nextpid uniq,
  nextpid + N.of_nat (length ops) < Rel.Model.two64 ->
  let s := fst (run_ops ops (st0 nextpid uniq)) in
  (forall p pr, aget pid_dec p (s_procs s) = Some pr ->
     (forall n, pr_name pr = Some n <-> aget N.eq_dec n (s_names s) = Some p) /\
     NoDup (pr_aliases pr) /\ (forall a, In a (pr_aliases pr) <-> aget N.eq_dec a (s_aliases s) = Some p) /\
     NoDup (pr_events pr) /\ (forall e, In e (pr_events pr) <-> aget N.eq_dec e (s_events s) = Some p)) /\
  ((forall n q, aget N.eq_dec n (s_names s) = Some q -> live q s = true) /\
   (forall a q, aget N.eq_dec a (s_aliases s) = Some q -> live q s = true) /\
   (forall e q, aget N.eq_dec e (s_events s) = Some q -> live q s = true)) /\
  agree s.
Proof.
  intros ops nextpid uniq NW s.
  assert (AG : agree s) by (apply run_ops_agree; [apply agree_st0 | exact NW]).
  split; [apply agree_spelled, AG|]. split; [apply agree_entries_live, AG | exact AG].
Qed.
Print Assumptions C06_agreement_hist.

(* every single operation preserves it (the inductive step, for any state satisfying it) *)
Theorem C06_agreement_step : forall o s,
  agree s -> s_nextpid s + 1 < Rel.Model.two64 -> agree (fst (exec o s)).
Proof. intros o s AG NW. apply (exec_agree o s AG NW). Qed.
Print Assumptions C06_agreement_step.

(* Release, history level and record free: after ANY history, when a live process p terminates
   (unregisterProcess completes): p is not listed; NO table entry maps to p; every name, alias and
   event the tables mapped to p is free again; no relation has p as requester, nor p's pid or any of
   the names / aliases / events the tables mapped to p as target (all other relations are kept or
   were relations of those targets); and the invariant holds again, so this stays true for what
   other processes own. *)
Theorem C06_release_hist : forall ops nextpid uniq p r,
  nextpid + N.of_nat (length ops) < Rel.Model.two64 ->
  let s := fst (run_ops ops (st0 nextpid uniq)) in
  live p s = true ->
  let s' := fst (exec (OTerminate p r) s) in
  live p s' = false /\
  ((forall n, aget N.eq_dec n (s_names s') <> Some p) /\
   (forall a, aget N.eq_dec a (s_aliases s') <> Some p) /\
   (forall e, aget N.eq_dec e (s_events s') <> Some p)) /\
  ((forall n, aget N.eq_dec n (s_names s) = Some p -> aget N.eq_dec n (s_names s') = None) /\
   (forall a, aget N.eq_dec a (s_aliases s) = Some p -> aget N.eq_dec a (s_aliases s') = None) /\
   (forall e, aget N.eq_dec e (s_events s) = Some p -> aget N.eq_dec e (s_events s') = None)) /\
  (forall k, In k (rels (s_tm s')) ->
     In k (rels (s_tm s)) /\ kc k <> p /\ kt k <> TPid p /\
     (forall n, aget N.eq_dec n (s_names s) = Some p -> kt k <> TName n me) /\
     (forall a, aget N.eq_dec a (s_aliases s) = Some p -> kt k <> TAlias me a) /\
     (forall e, aget N.eq_dec e (s_events s) = Some p -> kt k <> TEvent e me)) /\
  agree s'.
Proof.
  intros ops nextpid uniq p r NW s L. apply release_hist; [|apply run_ops_idx_ok, idx_ok_empty | exact L].
  apply run_ops_agree; [apply agree_st0 | exact NW].
Qed.
Print Assumptions C06_release_hist.

(* the record-relative form (what unregisterProcess reads off p's record is released) - now a
   corollary of the invariant *)
Theorem C06_release : forall ops nextpid uniq p pr r k,
  nextpid + N.of_nat (length ops) < Rel.Model.two64 ->
  let s := fst (run_ops ops (st0 nextpid uniq)) in
  aget pid_dec p (s_procs s) = Some pr ->
  let s' := terminate p r s in
  (aget pid_dec p (s_procs s') = None /\
   (forall n, pr_name pr = Some n -> aget N.eq_dec n (s_names s') = None) /\
   (forall a, In a (pr_aliases pr) -> aget N.eq_dec a (s_aliases s') = None) /\
   (forall e, In e (pr_events pr) -> aget N.eq_dec e (s_events s') = None)) /\
  (In k (rels (s_tm s')) ->
   In k (rels (s_tm s)) /\ kc k <> p /\ kt k <> TPid p /\
   (forall n, pr_name pr = Some n -> kt k <> TName n me) /\
   (forall a, In a (pr_aliases pr) -> kt k <> TAlias me a) /\
   (forall e, In e (pr_events pr) -> kt k <> TEvent e me)).
Proof.
  intros ops nextpid uniq p pr r k NW s E s'. apply release_record; [|apply run_ops_idx_ok, idx_ok_empty | exact E].
  apply run_ops_agree; [apply agree_st0 | exact NW].
Qed.
Print Assumptions C06_release.

(* ... and it stays so: in the state after ANY history every link / monitor relation has a live
   requester and, for a target of this node, a target that is present in its table and belongs to
   a live process (a pid target is a live process).  Hence a process that has terminated - at any
   point of the history - is in no relation, neither as requester nor through its pid, and no
   relation points to a name / alias / event that is not currently owned by a live process. *)
Theorem C06_no_dangling_hist : forall ops nextpid uniq,
  nextpid + N.of_nat (length ops) < Rel.Model.two64 ->
  let s := fst (run_ops ops (st0 nextpid uniq)) in
  forall k, In k (rels (s_tm s)) ->
    live (kc k) s = true /\
    match kt k with
    | TPid q => live q s = true
    | TName n nd => nd = me -> exists q, aget N.eq_dec n (s_names s) = Some q /\ live q s = true
    | TAlias nd a => nd = me -> exists q, aget N.eq_dec a (s_aliases s) = Some q /\ live q s = true
    | TEvent e nd => nd = me -> exists q, aget N.eq_dec e (s_events s) = Some q /\ live q s = true
    | TNode _ => True
    end.
Proof. exact no_dangling_hist. Qed.
Print Assumptions C06_no_dangling_hist.

Theorem C06_dead_in_no_relation : forall ops nextpid uniq p,
  nextpid + N.of_nat (length ops) < Rel.Model.two64 ->
  let s := fst (run_ops ops (st0 nextpid uniq)) in
  live p s = false -> forall k, In k (rels (s_tm s)) -> kc k <> p /\ kt k <> TPid p.
Proof.
  intros ops nextpid uniq p NW s D k HI. destruct (no_dangling_hist ops nextpid uniq NW k HI) as [L T]. fold s in L, T.
  split; [intros E; rewrite E in L; congruence|]. intros E. rewrite E in T. congruence.
Qed.
Print Assumptions C06_dead_in_no_relation.

(* The DeleteAlias defect (before commit 234e1d4: `p.aliases[0] = p.aliases[i]; p.aliases = p.aliases[1:]`)
   is exactly a violation of the invariant, with four operations: spawn; CreateAlias (1);
   CreateAlias (2); DeleteAlias 2 leaves the record [2] and the table {1 -> p}.  Killing p then
   leaves alias 1 resolving to the dead process; with the code as it is now everything is released. *)
Theorem C06_delete_alias_refuted_before_fix :
  let ops := [OSpawnNode None; OCreateAlias (lpid 1001); OCreateAlias (lpid 1001); ODeleteAlias (lpid 1001) 2] in
  ~ agree (fst (run_ops_old ops (st0 1000 0))) /\
  agree (fst (run_ops ops (st0 1000 0))) /\
  refute_leak_b = true.
Proof.
  split; [exact delete_alias_breaks_agreement_before_fix|]. split; [|exact refute_leak].
  apply run_ops_agree; [apply agree_st0 | vm_compute; reflexivity].
Qed.
Print Assumptions C06_delete_alias_refuted_before_fix.

(* non-vacuity: a process with a name, two aliases (one deleted), an event and relations in both
   directions terminates: every table is empty afterwards and no relation is left *)
Example C06_example :
  let ops := [OSpawnNode (Some 5); OSpawnNode None; OCreateAlias (lpid 1001); OCreateAlias (lpid 1001);
              ODeleteAlias (lpid 1001) 2; ORegisterEvent (lpid 1001) 7; OLink (lpid 1002) (TAlias me 1);
              OMonitor (lpid 1001) (TPid (lpid 1002)); OTerminate (lpid 1001) 12] in
  let s := fst (run_ops ops (st0 1000 0)) in
  s_names s = [] /\ s_aliases s = [] /\ s_events s = [] /\ rels (s_tm s) = [] /\
  map fst (s_procs s) = [lpid 1002] /\ inbox_of (lpid 1002) s = [mknote false (TAlias me 1) 12].
Proof. vm_compute. repeat split; reflexivity. Qed.

(* non-vacuity of the history-level statements: a history (well below the counter limit) after which
   process 1001 is alive and the tables map a name, an alias and an event to it, while 1002 holds
   relations on them *)
Example C06_hist_example :
  let ops := [OSpawnNode (Some 5); OSpawnNode None; OCreateAlias (lpid 1001); OCreateAlias (lpid 1001);
              ODeleteAlias (lpid 1001) 1; ORegisterEvent (lpid 1001) 7; OLink (lpid 1002) (TAlias me 2);
              OMonitor (lpid 1002) (TName 5 me); OMonitor (lpid 1002) (TEvent 7 me)] in
  let s := fst (run_ops ops (st0 1000 0)) in
  (1000 + N.of_nat (length ops) <? Rel.Model.two64) = true /\ live (lpid 1001) s = true /\
  aget N.eq_dec 5 (s_names s) = Some (lpid 1001) /\ aget N.eq_dec 2 (s_aliases s) = Some (lpid 1001) /\
  aget N.eq_dec 7 (s_events s) = Some (lpid 1001) /\ length (rels (s_tm s)) = 3%nat /\
  rels (s_tm (fst (exec (OTerminate (lpid 1001) 12) s))) = [].
Proof. vm_compute. repeat split; reflexivity. Qed.
Print Assumptions C06_hist_example.

(* ---- the registered name of a process that is still initialising (Rel/InitFail.v; node.spawn claims the name
   before ProcessInit runs and gives it back when ProcessInit fails) ------------------------------------------
   After EVERY history of SpawnRegister calls held inside ProcessInit, successful and failing initialisations,
   node.UnregisterName / node.RegisterName by anybody in between and terminations: whoever the name table binds
   a name to holds that name in its record and exists, and whoever holds a name in its record owns the table
   entry - a failing initialisation never takes away a name that meanwhile belongs to somebody else *)
Require Ergo.Rel.InitFail Ergo.Rel.InitFailProofs.
Theorem C06_initfail_agree : forall l, Ergo.Rel.InitFail.agree_tr (Ergo.Rel.InitFail.irun l).
Proof. exact Ergo.Rel.InitFailProofs.initfail_agree. Qed.
Print Assumptions C06_initfail_agree.

(* giving back the name the spawn ASKED for instead of the name the process HOLDS is refuted *)
Theorem C06_initfail_by_requested_name_refuted :
  exists req l, ~ Ergo.Rel.InitFail.agree_tr (fold_left (Ergo.Rel.InitFail.istep_req req) l Ergo.Rel.InitFail.ist0).
Proof. exact Ergo.Rel.InitFailProofs.initfail_by_requested_name_refuted. Qed.
Print Assumptions C06_initfail_by_requested_name_refuted.

Example C06_initfail_example :
  Ergo.Rel.InitFail.agree_b (Ergo.Rel.InitFail.irun Ergo.Rel.InitFailProofs.ex_hist) = true /\
  Ergo.Rel.InitFail.i_names (Ergo.Rel.InitFail.irun Ergo.Rel.InitFailProofs.ex_hist) = [(7, 1002)]%N /\
  Ergo.Rel.InitFail.i_live (Ergo.Rel.InitFail.irun Ergo.Rel.InitFailProofs.ex_hist) = [1002]%N /\
  Ergo.Rel.InitFail.agree_b (fold_left (Ergo.Rel.InitFail.istep_req Ergo.Rel.InitFailProofs.ex_req) Ergo.Rel.InitFailProofs.ex_hist Ergo.Rel.InitFail.ist0) = false.
Proof. exact Ergo.Rel.InitFailProofs.initfail_example. Qed.
Print Assumptions C06_initfail_example.
