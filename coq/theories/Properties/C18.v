(* C18 - Events: every subscriber sees every publication once, in order. *)
From Ergo Require Import Common.Base Event.Model Event.Proofs.

(* Exactly once, in order (any number of actors, any programs, any schedule).
   For every actor i and receiver x: the items i has pushed into x's mailbox, followed by what its
   running operation still has to push to x, are exactly i's snapshots that contain x, in the order the
   snapshots were taken - a publication whose consumer snapshot contains x reaches x once, never twice,
   and publications of one publisher reach x in publication order (pushes of one sender into one mailbox
   queue are handled in push order: C03 / Sched.MailboxProofs).  By [publish_snapshot] below the snapshot
   of a publication lists every actor holding a link or monitor relation at that step, once. *)
Theorem C18_exactly_once_in_order : forall progs sched,
  let c := run sched (init_cfg progs) in
  forall i t x, nth_error (thr c) i = Some t ->
    recv x i (log (sh c)) ++ pend_to x i (t_pc t) = expected x (fans_of i (fans (sh c))).
Proof. exact exactly_once_in_order. Qed.
Print Assumptions C18_exactly_once_in_order.

Theorem C18_snapshot_complete : forall i s r seq s' p',
  step_pc i s (P_crit r seq) = Some (s', p') ->
  fans s' = fans s ++ [(i, (IEv i seq, consumers s))] /\ p' = P_send seq (consumers s) /\
  NoDup (consumers s) /\ forall x, In x (consumers s) <-> exists k, In (x, k) (rels s).
Proof. exact publish_snapshot. Qed.
Print Assumptions C18_snapshot_complete.

(* Token: records never carry the empty reference and never share a token (stale tokens of earlier
   registrations do not match); a publish with any other token changes nothing but its error result. *)
Theorem C18_token_fresh : forall progs sched,
  let s := sh (run sched (init_cfg progs)) in
  NoDup (map r_token (recs s)) /\ forall x, In x (recs s) -> 1 <= r_token x.
Proof. exact tokens_fresh. Qed.
Print Assumptions C18_token_fresh.

Theorem C18_token : forall c i tok seq rest,
  nth_error (thr c) i = Some (mk_thr Idle (OPublish tok seq :: rest)) ->
  (forall r x, table (sh c) = Some r -> get_rec (sh c) r = Some x -> r_token x <> tok) ->
  exists e, step c i = Some (mk_cfg (add_res (sh c) i (RErr e)) (set_thr (thr c) i (mk_thr Idle rest))).
Proof. exact publish_wrong_token. Qed.
Print Assumptions C18_token.

(* Last N: in every reachable configuration the buffer of a record is the last min(N,k) of its k
   accepted publications, oldest first; a subscriber is handed that buffer ([subscribe_returns_buffer]). *)
Theorem C18_lastN : forall progs sched,
  let c := run sched (init_cfg progs) in
  forall r x, get_rec (sh c) r = Some x ->
    r_buf x = lastn (r_cap x) (r_all x) /\ length (r_buf x) = Nat.min (r_cap x) (length (r_all x)).
Proof. exact lastN_buffer. Qed.
Print Assumptions C18_lastN.

Theorem C18_lastN_returned : forall s r x, get_rec s r = Some x -> snd (sub_copy s r) = S_counter r (r_buf x).
Proof. exact subscribe_returns_buffer. Qed.
Print Assumptions C18_lastN_returned.

(* Unregister / owner termination: the cleanup step takes every relation at once - its exit snapshot is
   exactly the link subscribers, its down snapshot exactly the monitor subscribers, nothing is left; by
   C18_exactly_once_in_order each member of a snapshot gets the item exactly once. *)
Theorem C18_unregister_once : forall i s reason die s' p',
  step_pc i s (X_cleanup reason die) = Some (s', p') ->
  fans s' = fans s ++ [(i, (IExit reason, rels_of_kind (rels s) KLink)); (i, (IDown reason, rels_of_kind (rels s) KMon))] /\
  rels s' = [] /\ p' = X_send reason (rels_of_kind (rels s) KLink) (rels_of_kind (rels s) KMon) die.
Proof. exact cleanup_snapshot. Qed.
Print Assumptions C18_unregister_once.

Theorem C18_relations_distinct : forall progs sched, WF (sh (run sched (init_cfg progs))).
Proof. exact WF_reachable. Qed.
Print Assumptions C18_relations_distinct.

(* Start / stop, sequential histories (every call completes before the next starts): the counter is the
   number of subscriptions after every history, so the producer is told "start" exactly by the subscribe
   that makes the set non-empty and "stop" exactly by the unsubscribe that empties it. *)
Theorem C18_counter_is_subscriptions : forall h, SeqInv (seq_hist h).
Proof. exact SeqInv_hist. Qed.
Print Assumptions C18_counter_is_subscriptions.

Theorem C18_start_stop_notify_partial : forall h i k g,
  let s := seq_hist h in
  mem i (q_dead s) = false -> q_reg s = Some g ->
  (has_rel (q_subs s) i k = false ->
   q_out (seq_op s (i, OSub k)) =
   q_out s ++ (if g_notify g && Nat.eqb (length (q_subs s)) 0 && negb (mem (g_owner g) (q_dead s)) then [(g_owner g, IStart)] else [])) /\
  (has_rel (q_subs s) i k = true ->
   q_out (seq_op s (i, OUnsub k)) =
   q_out s ++ (if g_notify g && Nat.eqb (length (q_subs s)) 1 && negb (mem (g_owner g) (q_dead s)) then [(g_owner g, IStop)] else [])).
Proof. exact start_stop_sequential. Qed.
Print Assumptions C18_start_stop_notify_partial.

(* Under concurrency the start / stop clause does not hold (known findings, witness schedules): *)
Theorem C18_start_stop_notify_refuted :
  exists progs sched, let c := run sched (init_cfg progs) in
    quiescent c = true /\ inbox is_sys 2 (log (sh c)) = [IStop] /\ inbox is_sys 0 (log (sh c)) = [IStart].
Proof. exact start_stop_concurrent_refuted. Qed.
Print Assumptions C18_start_stop_notify_refuted.

Theorem C18_start_stop_order_refuted :
  exists progs sched, let c := run sched (init_cfg progs) in
    quiescent c = true /\ rels (sh c) <> [] /\ inbox is_sys 0 (log (sh c)) = [IStart; IStart; IStop].
Proof. exact start_stop_order_refuted. Qed.
Print Assumptions C18_start_stop_order_refuted.
