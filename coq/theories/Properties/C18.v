(* C18 - Events: every subscriber sees every publication once, in order. *)
From Ergo Require Import Common.Base Event.Model Event.Proofs Event.Remote Event.RemoteProofs Event.RemoteRefine
  Event.Bounded Event.BoundedProofs.

(* Exactly once, in order (any number of actors, any programs, any schedule).
   For every actor i and receiver x: the items i has pushed into x's mailbox, followed by what its
   running operation still has to push to x, are exactly i's snapshots that contain x, in the order the
   snapshots were taken - a publication whose consumer snapshot contains x reaches x once, never twice,
   and publications of one publisher reach x in publication order (pushes of one sender into one mailbox
   queue are handled in push order: C03 / Sched.MailboxProofs).  By [publish_snapshot] below the snapshot
   of a publication lists every actor holding a link or monitor relation at that step, once. *)
Theorem C18_exactly_once_in_order : forall progs sched,
  let c := run sched (init_cfg progs) in
  forall i t x, nth_error (thr c) i = Some t ->
    recv x i (log (sh c)) ++ pend_to x i (t_pc t) = expected x (fans_of i (fans (sh c))).
Proof. exact exactly_once_in_order. Qed.
Print Assumptions C18_exactly_once_in_order.

Theorem C18_snapshot_complete : forall i s r seq s' p',
  step_pc i s (P_crit r seq) = Some (s', p') ->
  fans s' = fans s ++ [(i, (IEv i seq, consumers s))] /\ p' = P_send seq (consumers s) /\
  NoDup (consumers s) /\ forall x, In x (consumers s) <-> exists k, In (x, k) (rels s).
Proof. exact publish_snapshot. Qed.
Print Assumptions C18_snapshot_complete.

(* Token: records never carry the empty reference and never share a token (stale tokens of earlier
   registrations do not match); a publish with any other token changes nothing but its error result. *)
Theorem C18_token_fresh : forall progs sched,
  let s := sh (run sched (init_cfg progs)) in
  NoDup (map r_token (recs s)) /\ forall x, In x (recs s) -> 1 <= r_token x.
Proof. exact tokens_fresh. Qed.
Print Assumptions C18_token_fresh.

Theorem C18_token : forall c i tok seq rest,
  nth_error (thr c) i = Some (mk_thr Idle (OPublish tok seq :: rest)) ->
  (forall r x, table (sh c) = Some r -> get_rec (sh c) r = Some x -> r_token x <> tok) ->
  exists e, step c i = Some (mk_cfg (add_res (sh c) i (RErr e)) (set_thr (thr c) i (mk_thr Idle rest))).
Proof. exact publish_wrong_token. Qed.
Print Assumptions C18_token.

(* Last N: in every reachable configuration the buffer of a record is the last min(N,k) of its k
   accepted publications, oldest first; a subscriber is handed that buffer ([subscribe_returns_buffer]). *)
Theorem C18_lastN : forall progs sched,
  let c := run sched (init_cfg progs) in
  forall r x, get_rec (sh c) r = Some x ->
    r_buf x = lastn (r_cap x) (r_all x) /\ length (r_buf x) = Nat.min (r_cap x) (length (r_all x)).
Proof. exact lastN_buffer. Qed.
Print Assumptions C18_lastN.

Theorem C18_lastN_returned : forall s r x, get_rec s r = Some x -> snd (sub_copy s r) = S_counter r (r_buf x).
Proof. exact subscribe_returns_buffer. Qed.
Print Assumptions C18_lastN_returned.

(* Unregister / owner termination: the cleanup step takes every relation at once - its exit snapshot is
   exactly the link subscribers, its down snapshot exactly the monitor subscribers, nothing is left; by
   C18_exactly_once_in_order each member of a snapshot gets the item exactly once. *)
Theorem C18_unregister_once : forall i s reason die s' p',
  step_pc i s (X_cleanup reason die) = Some (s', p') ->
  fans s' = fans s ++ [(i, (IExit reason, rels_of_kind (rels s) KLink)); (i, (IDown reason, rels_of_kind (rels s) KMon))] /\
  rels s' = [] /\ p' = X_send reason (rels_of_kind (rels s) KLink) (rels_of_kind (rels s) KMon) die.
Proof. exact cleanup_snapshot. Qed.
Print Assumptions C18_unregister_once.

Theorem C18_relations_distinct : forall progs sched, WF (sh (run sched (init_cfg progs))).
Proof. exact WF_reachable. Qed.
Print Assumptions C18_relations_distinct.

(* Start / stop, sequential histories (every call completes before the next starts): the counter is the
   number of subscriptions after every history, so the producer is told "start" exactly by the subscribe
   that makes the set non-empty and "stop" exactly by the unsubscribe that empties it. *)
Theorem C18_counter_is_subscriptions : forall h, SeqInv (seq_hist h).
Proof. exact SeqInv_hist. Qed.
Print Assumptions C18_counter_is_subscriptions.

Theorem C18_start_stop_notify_partial : forall h i k g,
  let s := seq_hist h in
  mem i (q_dead s) = false -> q_reg s = Some g ->
  (has_rel (q_subs s) i k = false ->
   q_out (seq_op s (i, OSub k)) =
   q_out s ++ (if g_notify g && Nat.eqb (length (q_subs s)) 0 && negb (mem (g_owner g) (q_dead s)) then [(g_owner g, IStart)] else [])) /\
  (has_rel (q_subs s) i k = true ->
   q_out (seq_op s (i, OUnsub k)) =
   q_out s ++ (if g_notify g && Nat.eqb (length (q_subs s)) 1 && negb (mem (g_owner g) (q_dead s)) then [(g_owner g, IStop)] else [])).
Proof. exact start_stop_sequential. Qed.
Print Assumptions C18_start_stop_notify_partial.

(* Under concurrency the start / stop clause does not hold (known findings, witness schedules): *)
Theorem C18_start_stop_notify_refuted :
  exists progs sched, let c := run sched (init_cfg progs) in
    quiescent c = true /\ inbox is_sys 2 (log (sh c)) = [IStop] /\ inbox is_sys 0 (log (sh c)) = [IStart].
Proof. exact start_stop_concurrent_refuted. Qed.
Print Assumptions C18_start_stop_notify_refuted.

Theorem C18_start_stop_order_refuted :
  exists progs sched, let c := run sched (init_cfg progs) in
    quiescent c = true /\ rels (sh c) <> [] /\ inbox is_sys 0 (log (sh c)) = [IStart; IStart; IStop].
Proof. exact start_stop_order_refuted. Qed.
Print Assumptions C18_start_stop_order_refuted.

(* ---- subscribers on ANOTHER node (two-node transition system of Event/Remote.v) -------------------- *)

(* Quiescent histories (every call and everything it causes on the other node completes before the next
   call): the two-node system IS the sequential model in which remote subscribers are ordinary consumers -
   node A's state is the sequential state, B's relation table is the remote part of A's, and what B really
   pushes to each of its actors is what the sequential model delivers to that actor.  Hence every clause
   proved for sequential histories above (counter = subscriptions, start/stop, last-N, exactly once, one
   exit / down) holds for subscribers on another node. *)
Theorem C18_remote_quiescent_refines_sequential : forall bs h,
  valid_hist bs h = true ->
  let rs := q_hist bs h in
  r_a rs = seq_hist h /\
  r_net rs = [] /\ r_gone rs = [] /\ r_pend rs = [] /\
  r_relB rs = filter (fun e => mem (fst e) bs) (q_subs (seq_hist h)) /\
  (forall f x, mem x bs = true -> sinbox f x (r_outB rs) = sinbox f x (q_out (seq_hist h))).
Proof. exact quiet_refines_sequential. Qed.
Print Assumptions C18_remote_quiescent_refines_sequential.

(* One frame per remote node and publication, whatever the number of consumers there (any state). *)
Theorem C18_remote_one_frame_per_node : forall bs s i g tok seq,
  mem i (q_dead s) = false -> q_reg s = Some g -> g_token g = tok ->
  frames_of bs s (i, OPublish tok seq) = if has_remote bs (q_subs s) then [FEv i seq] else [].
Proof. exact publish_one_frame. Qed.
Print Assumptions C18_remote_one_frame_per_node.

(* The receiving node pushes an event frame exactly once to every distinct live process holding a link or
   a monitor in ITS target manager (any state, any schedule). *)
Theorem C18_remote_fanout_once : forall rs p seq,
  let l := nodup Nat.eq_dec (map fst (r_relB rs)) in
  r_outB (handleB rs (FEv p seq)) = r_outB rs ++ map (fun x => (x, IEv p seq)) (filter (aliveB rs) l) /\
  NoDup l /\ (forall x, In x l <-> exists k, In (x, k) (r_relB rs)) /\
  r_relB (handleB rs (FEv p seq)) = r_relB rs.
Proof. exact remote_fanout_once. Qed.
Print Assumptions C18_remote_fanout_once.

(* A terminate frame takes all relations of the receiving node at once: one exit per link subscriber, one
   down per monitor subscriber. *)
Theorem C18_remote_terminate_once : forall rs reason,
  let ex := rels_of_kind (r_relB rs) KLink in
  let dn := rels_of_kind (r_relB rs) KMon in
  r_relB (handleB rs (FTerm reason)) = [] /\
  r_outB (handleB rs (FTerm reason)) =
    r_outB rs ++ map (fun x => (x, IExit reason)) (filter (aliveB rs) ex) ++ map (fun x => (x, IDown reason)) (filter (aliveB rs) dn).
Proof. exact remote_terminate_once. Qed.
Print Assumptions C18_remote_terminate_once.

(* Without quiescence the completeness clauses do not hold for subscribers on another node (known findings
   remote-subscribe-race, remote-unregister-overtakes; reproduced on two real nodes by the harness): *)
Theorem C18_remote_subscribe_gap_refuted :
  exists bs ls, let rs := rrun bs ls rst0 in
    settled rs = true /\ has_rel (r_relB rs) 1 KLink = true /\
    results_of 1 (q_res (r_a rs)) = [RList []] /\ ghost_ev rs 1 = [IEv 0 7] /\ ev_of rs 1 = [].
Proof. exact remote_subscribe_gap_refuted. Qed.
Print Assumptions C18_remote_subscribe_gap_refuted.

Theorem C18_remote_subscribe_dup_refuted :
  exists bs ls, let rs := rrun bs ls rst0 in
    settled rs = true /\ results_of 1 (q_res (r_a rs)) = [RList [(0, 7)]] /\ ev_of rs 1 = [IEv 0 7] /\ ghost_ev rs 1 = [].
Proof. exact remote_subscribe_dup_refuted. Qed.
Print Assumptions C18_remote_subscribe_dup_refuted.

Theorem C18_remote_unregister_overtakes_refuted :
  exists bs ls, let rs := rrun bs ls rst0 in
    settled rs = true /\ ghost_ev rs 1 = [IEv 0 7] /\ ev_of rs 1 = [] /\ sys_of rs 1 = [IDown 0].
Proof. exact remote_unregister_overtakes_refuted. Qed.
Print Assumptions C18_remote_unregister_overtakes_refuted.

(* ---- subscribers that cannot take a message: bounded mailbox full (handler blocked), or terminated -------- *)

(* [bseq_hist stk h]: the node whose subscribers [stk] (actor, MailboxSize) consume nothing - sendEventMessage
   answers ErrProcessMailboxFull once MailboxSize messages wait behind the one the blocked handler holds, and
   ErrProcessUnknown for a receiver that left the process table; RouteSendEvent ignores both and goes on.
   For EVERY set of stuck subscribers and EVERY history the result is the node without stuck subscribers
   with the refused event messages taken out of the delivery log, and nothing else. *)
Theorem C18_bounded_is_projection : forall stk h, bseq_hist stk h = bproj stk (seq_hist h).
Proof. exact bounded_is_projection. Qed.
Print Assumptions C18_bounded_is_projection.

(* event record (token, counter, last-N buffer), relations, and every return value - also the last-N list
   handed to a later subscriber and the publisher's nil - do not depend on stuck subscribers *)
Theorem C18_bounded_state_independent : forall stk h,
  let b := bseq_hist stk h in let u := seq_hist h in
  q_reg b = q_reg u /\ q_subs b = q_subs u /\ q_ntok b = q_ntok u /\ q_dead b = q_dead u /\ q_res b = q_res u.
Proof. exact bounded_state_independent. Qed.
Print Assumptions C18_bounded_state_independent.

(* everything addressed to an actor that is not stuck, in order *)
Theorem C18_bounded_healthy_independent : forall stk h x, stuck_cap stk x = None ->
  onx x (q_out (bseq_hist stk h)) = onx x (q_out (seq_hist h)).
Proof. exact bounded_healthy_independent. Qed.
Print Assumptions C18_bounded_healthy_independent.

(* exactly once, in order, at history level: the event messages of x are the publications accepted while
   x was alive and held a link or a monitor ([expect]: one entry per such publication, in history order) *)
Theorem C18_seq_exactly_once_in_order : forall h x, sinbox is_ev x (q_out (seq_hist h)) = expect x sst0 h.
Proof. exact seq_exactly_once_in_order. Qed.
Print Assumptions C18_seq_exactly_once_in_order.

Theorem C18_bounded_healthy_exactly_once : forall stk h x, stuck_cap stk x = None ->
  sinbox is_ev x (q_out (bseq_hist stk h)) = expect x sst0 h.
Proof. exact bounded_healthy_exactly_once. Qed.
Print Assumptions C18_bounded_healthy_exactly_once.

(* the stuck subscriber itself: the first MailboxSize + 1 publications made for it, in order; its exit /
   down / start / stop are untouched *)
Theorem C18_bounded_stuck_prefix : forall stk h x cap, stuck_cap stk x = Some cap -> 1 <= cap ->
  sinbox is_ev x (q_out (bseq_hist stk h)) = firstn (S cap) (expect x sst0 h) /\
  sinbox is_sys x (q_out (bseq_hist stk h)) = sinbox is_sys x (q_out (seq_hist h)) /\
  sinbox is_exit x (q_out (bseq_hist stk h)) = sinbox is_exit x (q_out (seq_hist h)).
Proof.
  intros stk h x cap Hx Hc. split; [exact (bounded_stuck_exactly_prefix stk h x cap Hx Hc)|].
  exact (proj2 (bounded_stuck_prefix stk h x cap Hx Hc)).
Qed.
Print Assumptions C18_bounded_stuck_prefix.

(* a delivery loop that returns the first delivery error to the publisher does NOT have the property: *)
Theorem C18_fanout_early_return_refuted :
  exists stk h x, stuck_cap stk x = None /\
    expect x sst0 h = [IEv 0 1; IEv 0 2; IEv 0 3] /\
    sinbox is_ev x (q_out (early_hist stk h)) = [IEv 0 1; IEv 0 2].
Proof. exact early_return_refuted. Qed.
Print Assumptions C18_fanout_early_return_refuted.

(* The two facts above hold call by call from ANY state - also a state in which a subscriber is already out of
   the process table ([q_dead]) while its relations are still there (unregisterProcess between
   processes.Delete and CleanupConsumer: sendEventMessage answers ErrProcessUnknown, the loop goes on):
   the call on the node with stuck subscribers is the call on the node without them, projected; and a
   publication reaches every live holder of a link or monitor once, whoever else is in the consumer list. *)
Theorem C18_bounded_call_any_state : forall stk u io, bseq_op stk (bproj stk u) io = bproj stk (seq_op u io).
Proof. exact bseq_op_bproj. Qed.
Print Assumptions C18_bounded_call_any_state.

Theorem C18_call_exactly_once_any_state : forall x s io,
  sinbox is_ev x (q_out (seq_op s io)) = sinbox is_ev x (q_out s) ++ pub_for x s io.
Proof. exact seq_op_evs. Qed.
Print Assumptions C18_call_exactly_once_any_state.
