(* C09 — Restart intensity limit.  Property theorems only; proofs live in Sup/. *)
From Ergo Require Import Common.Base Sup.Intensity Sup.IntensityProofs Sup.Machine Sup.MachineProofs.
Local Open Scope Z_scope.

(* exceeded_k  <->  the k-th restart request is the (Intensity+1)-th or later within the last
   Period seconds, for every Intensity, Period and non-decreasing timing pattern. *)
Theorem C09_exact : forall period intensity ts,
  0 <= period -> sorted ts = true ->
  snd (run_checks [] ts period intensity) = spec_run [] ts period intensity.
Proof. exact intensity_exact. Qed.
Print Assumptions C09_exact.

Theorem C09_old_dont_count : forall hist now period intensity,
  1 <= intensity -> (forall h, In h hist -> now - h > period * 1000) ->
  spec_exceeded hist now period intensity = false.
Proof. exact spec_exceeded_far. Qed.
Print Assumptions C09_old_dont_count.

Theorem C09_keeps_restarting_at_limit : forall hist now period intensity,
  zlen hist < intensity -> spec_exceeded hist now period intensity = false.
Proof. exact spec_exceeded_few. Qed.
Print Assumptions C09_keeps_restarting_at_limit.

Theorem C09_burst_exceeds : forall hist now period intensity,
  0 <= intensity -> zlen hist >= intensity ->
  (forall h, In h hist -> now - h <= period * 1000) -> 0 <= period ->
  spec_exceeded hist now period intensity = true.
Proof. exact spec_exceeded_burst. Qed.
Print Assumptions C09_burst_exceeds.

(* non-vacuity: a concrete drip/burst history meets the hypotheses and exercises both answers *)
Example C09_example :
  sorted [0; 400; 900; 5000; 5100; 5200] = true /\
  snd (run_checks [] [0; 400; 900; 5000; 5100; 5200] 1 2) = [false; false; true; false; false; true].
Proof. vm_compute. split; reflexivity. Qed.

(* ---- the machines give up: when the check says "exceeded", every running child is told to stop with the
   exceeded reason, the machine waits for exactly these children and stores the exceeded reason (for any
   machine state, i.e. any number of children and any history) ... *)
Theorem C09_gives_up_ofo : forall k s name pid reason now j sp,
  shut s = false -> last_match name pid (specs s) 0 = Some (j, sp) ->
  forall rs, c_dis sp = false -> strategy_stops k reason = false ->
  check (restarts s) now (k_per k) (k_int k) = (rs, true) ->
  let run := running_others name pid (specs s) in
  exists s', ofo_childTerminated k s name pid reason now = (s', RAct (TerminateChildren run RExceeded)) /\
             running (specs s') = run /\ wait s' = zset run /\ shut s' = true /\ sreason s' = RExceeded.
Proof. exact ofo_gives_up. Qed.
Print Assumptions C09_gives_up_ofo.

Theorem C09_gives_up_arfo : forall k s name pid reason now j sp,
  (mode s =? 3) = false -> (mode s =? 2) = false -> last_match name pid (specs s) 0 = Some (j, sp) ->
  forall rs, c_dis sp = false -> strategy_stops k reason = false ->
  check (restarts s) now (k_per k) (k_int k) = (rs, true) ->
  let run := running_others name pid (specs s) in
  exists s', arfo_childTerminated k s name pid reason now = (s', RAct (TerminateChildren run RExceeded)) /\
             running (specs s') = run /\ wait s' = zset run /\ mode s' = 3 /\ sreason s' = RExceeded.
Proof. exact arfo_gives_up. Qed.
Print Assumptions C09_gives_up_arfo.

Theorem C09_gives_up_sofo : forall k s name pid reason now sp,
  shut s = false -> find_name name (specs s) = Some sp ->
  forall rs, strategy_stops k reason = false -> c_dis sp = false ->
  check (restarts s) now (k_per k) (k_int k) = (rs, true) ->
  let t := map fst (premove pid (pids s)) in
  exists s', sofo_childTerminated k s name pid reason now = (s', RAct (TerminateChildren t RExceeded)) /\
             map fst (pids s') = t /\ (forall p, In p t -> In p (wait s')) /\
             shut s' = true /\ sreason s' = RExceeded.
Proof. exact sofo_gives_up. Qed.
Print Assumptions C09_gives_up_sofo.

(* ... and once shutting down the supervisor terminates with the stored reason (here: the exceeded reason) as
   soon as the exits of all awaited children have arrived, in any order, whatever else arrives meanwhile; until
   then it only waits (handleAction terminates at once when the stop list is empty and the reason non-nil). *)
Theorem C09_gives_up_terminates : forall k l s,
  shutting_any k s = true -> l <> [] ->
  (forall p, In p (wait s) -> In p (map em_pid l)) ->
  exists pre, firstn (S (length pre)) (drain k s l) = pre ++ [RAct (Terminate (sreason s))] /\
              Forall (fun r => r = RAct (TerminateChildren [] 0)) pre.
Proof. exact shutdown_terminates. Qed.
Print Assumptions C09_gives_up_terminates.

(* every call of the intensity check leaves a mark on the record, whatever it prunes: the restart it was called
   for is on the list it returns (this is what the monitor spec_restart_counted looks for on the real machines) *)
Theorem C09_check_records : forall rs now period intensity,
  0 <= period -> fst (check rs now period intensity) <> rs.
Proof. exact check_records. Qed.
Print Assumptions C09_check_records.
