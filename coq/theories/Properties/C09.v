(* C09 — Restart intensity limit.  Property theorems only; proofs live in Sup/. *)
From Ergo Require Import Common.Base Sup.Intensity Sup.IntensityProofs.
Local Open Scope Z_scope.

(* exceeded_k  <->  the k-th restart request is the (Intensity+1)-th or later within the last
   Period seconds, for every Intensity, Period and non-decreasing timing pattern. *)
Theorem C09_exact : forall period intensity ts,
  0 <= period -> sorted ts = true ->
  snd (run_checks [] ts period intensity) = spec_run [] ts period intensity.
Proof. exact intensity_exact. Qed.
Print Assumptions C09_exact.

Theorem C09_old_dont_count : forall hist now period intensity,
  1 <= intensity -> (forall h, In h hist -> now - h > period * 1000) ->
  spec_exceeded hist now period intensity = false.
Proof. exact spec_exceeded_far. Qed.
Print Assumptions C09_old_dont_count.

Theorem C09_keeps_restarting_at_limit : forall hist now period intensity,
  zlen hist < intensity -> spec_exceeded hist now period intensity = false.
Proof. exact spec_exceeded_few. Qed.
Print Assumptions C09_keeps_restarting_at_limit.

Theorem C09_burst_exceeds : forall hist now period intensity,
  0 <= intensity -> zlen hist >= intensity ->
  (forall h, In h hist -> now - h <= period * 1000) -> 0 <= period ->
  spec_exceeded hist now period intensity = true.
Proof. exact spec_exceeded_burst. Qed.
Print Assumptions C09_burst_exceeds.

(* non-vacuity: a concrete drip/burst history meets the hypotheses and exercises both answers *)
Example C09_example :
  sorted [0; 400; 900; 5000; 5100; 5200] = true /\
  snd (run_checks [] [0; 400; 900; 5000; 5100; 5200] 1 2) = [false; false; true; false; false; true].
Proof. vm_compute. split; reflexivity. Qed.
