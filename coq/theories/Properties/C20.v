(* C20 — Cron: jobs run exactly at the minutes their spec denotes.  Property theorems only;
   proofs live in Cron/. *)
From Ergo Require Import Common.Base Cron.Model Cron.Spec Cron.Grammar Cron.TickSpec Cron.CivilSweep Cron.CivilProofs Cron.Proofs Cron.RunProofs Cron.GrammarProofs Cron.TickProofs.
From Coq Require Import Permutation.
Local Open Scope Z_scope.

(* the parser is lexing (regular expressions, Split, Atoi) followed by compilation to masks *)
Theorem C20_parse_factor : forall s,
  parse_spec s = match lex_spec s with Some a => compile_spec a | None => None end.
Proof. exact parse_spec_factor. Qed.
Print Assumptions C20_parse_factor.

(* IsRunAt of the compiled masks = the crontab rule on the syntax tree, for every spec of the
   grammar, every instant and every UTC offset (hence every zone: a zone only supplies the offset) *)
Theorem C20_isrunat : forall a m off secs,
  wf_spec a = true -> compile_spec a = Some m ->
  spec_run m (civil_of off secs) = matches a (civil_of off secs).
Proof. intros a m off secs HW HC. apply isrunat_matches; [apply civil_of_good|exact HW|exact HC]. Qed.
Print Assumptions C20_isrunat.

(* the value bits of a field denote exactly the listed values (per option: soundness + completeness) *)
Theorem C20_parse_mask_range : forall lo hi step acc v, 0 <= lo -> 1 <= step -> 0 <= v ->
  Z.testbit (range_bits lo hi step acc) v = Z.testbit acc v || ((lo <=? v) && (v <=? hi) && ((v - lo) mod step =? 0)).
Proof. exact range_bits_spec. Qed.
Print Assumptions C20_parse_mask_range.

Theorem C20_parse_mask_field : forall k c, good c -> forall items multi bits sp l,
  compile_items k multi items bits sp = Some l ->
  existsb is_star_item items = false -> forallb (allowed k) items = true ->
  existsb (fun m => mask_run m c) l
  = Z.testbit bits (fval k c) || existsb (fun m => mask_run m c) sp || existsb (fun it => item_sem k it c) items.
Proof. exact compile_items_sem. Qed.
Print Assumptions C20_parse_mask_field.

(* calendar: the date arithmetic is a bijection between day numbers and valid dates *)
Theorem C20_civil_roundtrip : forall z,
  let '(y, m, d) := civil_from_days z in valid_date y m d = true /\ days_from_civil y m d = z.
Proof. exact civil_from_days_inv. Qed.
Print Assumptions C20_civil_roundtrip.

Theorem C20_civil_of_date : forall y m d, valid_date y m d = true -> civil_from_days (days_from_civil y m d) = (y, m, d).
Proof. exact civil_from_days_of_date. Qed.
Print Assumptions C20_civil_of_date.

(* JobSchedule / Schedule report exactly the minutes of the window that the spec denotes, in any zone *)
Theorem C20_schedule : forall a m (z : zone) since period,
  wf_spec a = true -> compile_spec a = Some m ->
  job_schedule m z since period = filter (matches_at a z) (window since period).
Proof. exact job_schedule_exact. Qed.
Print Assumptions C20_schedule.

Theorem C20_schedule_window : forall since period t,
  In t (window since period) <-> exists k, 0 <= k /\ t = trunc_min since + 60 * k /\ k * minute_ns < period.
Proof. exact window_spec. Qed.
Print Assumptions C20_schedule_window.

Theorem C20_schedule_all : forall (jobs : list (Z * cronspec * specmask * zone)) since period,
  (forall n a m z, In (n, a, m, z) jobs -> wf_spec a = true /\ compile_spec a = Some m) ->
  schedule (map (fun j => let '(n, a, m, z) := j in (n, m, z)) jobs) since period
  = filter (fun r => negb (is_nil (snd r)))
      (map (fun t => (t, map (fun j => let '(n, a, m, z) := j in n)
                             (filter (fun j => let '(n, a, m, z) := j in matches_at a z t) jobs)))
           (window since period)).
Proof. exact schedule_exact. Qed.
Print Assumptions C20_schedule_all.

(* non-vacuity: "30 23 L,15 2-12 5L,1#2" parses, is in the grammar, and runs on 2024-02-29 23:30
   (a leap day, the last day of February) but not one minute later, nor on 2100-03-01 23:30 *)
Definition example_spec : str := [51;48;32;50;51;32;76;44;49;53;32;50;45;49;50;32;53;76;44;49;35;50].
Definition example_b : bool :=
  match lex_spec example_spec, parse_spec example_spec with
  | Some a, Some m =>
      wf_spec a && spec_run m (civil_of 0 1709249400) && negb (spec_run m (civil_of 0 1709249460)) &&
      negb (spec_run m (civil_of 0 4107627000)) && matches a (civil_of 0 1709249400)
  | _, _ => false
  end.
Example C20_example : example_b = true.
Proof. vm_compute. reflexivity. Qed.

(* the defect repaired in /repo (fix commit 8055d63): the former dL test "month of t+168h differs"
   fires on 2024-03-24 23:30 Europe/Berlin, which is not the last Sunday of March *)
Definition old_lastdw_fires (z : zone) (t : Z) : bool :=
  negb (c_month (civil_of (z t) t) =? c_month (civil_of (z (t + 604800)) (t + 604800))).
Definition berlin_2024 : zone := table_off [(1711846800, 7200)] 3600.
Definition add168h_refuted_b : bool :=
  old_lastdw_fires berlin_2024 1711319400 &&
  negb (dow_has (ILastW 7) (civil_of (berlin_2024 1711319400) 1711319400)) &&
  (wd7 (civil_of (berlin_2024 1711319400) 1711319400) =? 7).
Example C20_add168h_refuted : add168h_refuted_b = true.
Proof. vm_compute. reflexivity. Qed.

(* ================================================================================================== *)
(* the string level: "accepted iff in the grammar"                                                     *)
(* The grammar is the printer Grammar.render of concrete syntax trees (five fields separated by white
   space, comma separated options of the eight shapes, numbers = non-empty digit strings);
   [denotes s c] := render c = alias s (the string, after the replacement of the four aliases, IS the
   rendering of c); [abstract c] is the syntax tree (white space and leading zeros erased) and
   Spec.wf_spec says which trees are specs of the dialect. *)

(* the parser's answer on the rendering of ANY concrete tree: the compiled tree if it is a spec of the
   dialect, rejection otherwise (out-of-range values, L / dL / d#n / steps in a field that does not have
   them, reversed ranges, step 0, "*" in a list) *)
Theorem C20_grammar_complete : forall c s, cwf c = true -> denotes s c ->
  parse_spec s = if wf_spec (abstract c) then compile_spec (abstract c) else None.
Proof. exact parse_render. Qed.
Print Assumptions C20_grammar_complete.

(* compilation is total on the dialect *)
Theorem C20_grammar_total : forall a, wf_spec a = true -> exists m, compile_spec a = Some m.
Proof. exact compile_spec_total. Qed.
Print Assumptions C20_grammar_total.

(* accepted <-> the string denotes a tree of the dialect, and the result is the compilation of that tree *)
Theorem C20_grammar : forall s m, parse_spec s = Some m <->
  exists c, cwf c = true /\ denotes s c /\ wf_spec (abstract c) = true /\ compile_spec (abstract c) = Some m.
Proof. exact parse_iff. Qed.
Print Assumptions C20_grammar.

(* the tree a string denotes is unique, and it is the one the lexing phase of the parser computes *)
Theorem C20_grammar_lex : forall c s, cwf c = true -> denotes s c -> wf_spec (abstract c) = true ->
  lex_spec s = Some (abstract c).
Proof. exact denotes_lex. Qed.
Print Assumptions C20_grammar_lex.

(* rejection: a string no concrete tree of the dialect renders to; a wrong number of fields *)
Theorem C20_grammar_reject : forall s,
  (forall c, cwf c = true -> denotes s c -> wf_spec (abstract c) = false) -> parse_spec s = None.
Proof. exact parse_reject_string. Qed.
Print Assumptions C20_grammar_reject.

Theorem C20_grammar_reject_fields : forall s, length (fields (alias s)) <> 5%nat -> parse_spec s = None.
Proof. exact parse_reject_fields. Qed.
Print Assumptions C20_grammar_reject_fields.

(* the malformed classes by name: one option outside the dialect (wf_item false: see C20_reject_classes) or
   a "*" inside a list makes the parser reject the whole string *)
Theorem C20_grammar_reject_item : forall c s k it, cwf c = true -> denotes s c ->
  In it (field_of k (abstract c)) -> wf_item k it = false -> parse_spec s = None.
Proof. exact parse_reject_item. Qed.
Print Assumptions C20_grammar_reject_item.

Theorem C20_grammar_reject_star : forall c s k, cwf c = true -> denotes s c ->
  In IStar (field_of k (abstract c)) -> (1 < length (field_of k (abstract c)))%nat -> parse_spec s = None.
Proof. exact parse_reject_star. Qed.
Print Assumptions C20_grammar_reject_star.

(* out-of-range values, reversed ranges, step 0 or too large, L outside the day field, dL / d#n outside the
   weekday field or with d outside 1..7 / n outside 1..5, */n in the weekday field, a-b/n in month or weekday *)
Theorem C20_reject_classes : forall k,
  (forall n, n < fmin k \/ fmax k < n -> wf_item k (INum n) = false) /\
  (forall a b, a < fmin k \/ fmax k < b \/ b < a -> wf_item k (IRange a b) = false) /\
  (forall a b s, a < fmin k \/ fmax k < b \/ b < a \/ s < 1 \/ fmax k < s -> wf_item k (IRangeStep a b s) = false) /\
  (forall s, s < 1 \/ fmax k < s -> wf_item k (IStep s) = false) /\
  (k <> KDay -> wf_item k ILast = false) /\
  (forall d, k <> KWDay \/ d < 1 \/ 7 < d -> wf_item k (ILastW d) = false) /\
  (forall d n, k <> KWDay \/ d < 1 \/ 7 < d \/ n < 1 \/ 5 < n -> wf_item k (INth d n) = false) /\
  (forall s, wf_item KWDay (IStep s) = false) /\
  (forall a b s, wf_item KMonth (IRangeStep a b s) = false) /\ (forall a b s, wf_item KWDay (IRangeStep a b s) = false).
Proof. exact wf_item_classes. Qed.
Print Assumptions C20_reject_classes.

(* the printer form: every tree of the dialect is printed (decimal, single blanks) to a string the
   parser accepts, lexes back to the same tree, compiles, and the masks run exactly when the tree matches *)
Theorem C20_print : forall a, wf_spec a = true ->
  exists m, parse_spec (print a) = Some m /\ compile_spec a = Some m /\ lex_spec (print a) = Some a /\
            forall off secs, spec_run m (civil_of off secs) = matches a (civil_of off secs).
Proof. exact parse_print. Qed.
Print Assumptions C20_print.

(* end to end: whatever string AddJob accepts denotes a tree of the dialect and IsRunAt of the masks is
   the crontab rule on that tree, at every instant and offset *)
Theorem C20_accept_semantics : forall s m, parse_spec s = Some m ->
  exists c, cwf c = true /\ denotes s c /\ wf_spec (abstract c) = true /\
            forall off secs, spec_run m (civil_of off secs) = matches (abstract c) (civil_of off secs).
Proof. exact parse_accept_semantics. Qed.
Print Assumptions C20_accept_semantics.

(* the aliases *)
Theorem C20_alias : forall s a,
  In (s, a) [(s_hourly, tree_hourly); (s_daily, tree_daily); (s_monthly, tree_monthly); (s_weekly, tree_weekly)] ->
  wf_spec a = true /\ denotes s (canon a) /\ parse_spec s = compile_spec a.
Proof. exact parse_alias. Qed.
Print Assumptions C20_alias.

(* instances of the malformed classes (rejected) and of the grammar (accepted; leading zeros, tabs, limits) *)
Definition reject_examples : list str := [
  [54;48;32;42;32;42;32;42;32;42] (* "60 * * * *" *);
  [42;32;50;52;32;42;32;42;32;42] (* "* 24 * * *" *);
  [42;32;42;32;48;32;42;32;42] (* "* * 0 * *" *);
  [42;32;42;32;51;50;32;42;32;42] (* "* * 32 * *" *);
  [42;32;42;32;42;32;49;51;32;42] (* "* * * 13 *" *);
  [42;32;42;32;42;32;48;32;42] (* "* * * 0 *" *);
  [42;32;42;32;42;32;42;32;48] (* "* * * * 0" *);
  [42;32;42;32;42;32;42;32;56] (* "* * * * 8" *);
  [76;32;42;32;42;32;42;32;42] (* "L * * * *" *);
  [42;32;76;32;42;32;42;32;42] (* "* L * * *" *);
  [42;32;42;32;42;32;76;32;42] (* "* * * L *" *);
  [42;32;42;32;42;32;42;32;76] (* "* * * * L" *);
  [42;32;42;32;53;76;32;42;32;42] (* "* * 5L * *" *);
  [42;32;53;76;32;42;32;42;32;42] (* "* 5L * * *" *);
  [53;45;50;32;42;32;42;32;42;32;42] (* "5-2 * * * *" *);
  [42;32;42;32;42;32;42;32;53;45;50] (* "* * * * 5-2" *);
  [42;47;48;32;42;32;42;32;42;32;42] (* "*/0 * * * *" *);
  [49;45;53;47;48;32;42;32;42;32;42;32;42] (* "1-5/0 * * * *" *);
  [42;32;42;47;50;52;32;42;32;42;32;42] (* "* */24 * * *" *);
  [42;32;42;32;42;32;42] (* "* * * *" *);
  [42;32;42;32;42;32;42;32;42;32;42] (* "* * * * * *" *);
  [] (* "" *);
  [64;121;101;97;114;108;121] (* "@yearly" *);
  [42;32;42;32;42;32;42;32;49;35;54] (* "* * * * 1#6" *);
  [42;32;42;32;42;32;42;32;49;35;48] (* "* * * * 1#0" *);
  [42;32;42;32;42;32;42;32;56;35;49] (* "* * * * 8#1" *);
  [42;32;42;32;42;32;42;32;48;76] (* "* * * * 0L" *);
  [42;32;42;32;42;32;42;32;42;47;50] (* "* * * * */2" *);
  [42;32;42;32;42;32;49;45;53;47;50;32;42] (* "* * * 1-5/2 *" *);
  [42;44;49;32;42;32;42;32;42;32;42] (* "*,1 * * * *" *);
  [49;44;42;32;42;32;42;32;42;32;42] (* "1,* * * * *" *);
  [49;44;32;42;32;42;32;42;32;42] (* "1, * * * *" *);
  [49;44;44;50;32;42;32;42;32;42;32;42] (* "1,,2 * * * *" *);
  [45;49;32;42;32;42;32;42;32;42] (* "-1 * * * *" *);
  [43;49;32;42;32;42;32;42;32;42] (* "+1 * * * *" *);
  [49;45;32;42;32;42;32;42;32;42] (* "1- * * * *" *);
  [49;45;50;45;32;42;32;42;32;42;32;42] (* "1-2- * * * *" *);
  [42;47;32;42;32;42;32;42;32;42] (* "*/ * * * *" *);
  [97;32;42;32;42;32;42;32;42] (* "a * * * *" *);
  [49;46;53;32;42;32;42;32;42;32;42] (* "1.5 * * * *" *);
  [42;32;42;32;42;32;42;32;48;49;76] (* "* * * * 01L" *);
  [42;32;42;32;42;32;42;32;49;35;48;49] (* "* * * * 1#01" *);
  [57;57;57;57;57;57;57;57;57;57;57;57;57;57;57;57;57;57;57;57;32;42;32;42;32;42;32;42] (* "99999999999999999999 * * * *" *)].
Definition accept_examples : list str := [
  [42;32;42;32;42;32;42;32;42] (* "* * * * *" *);
  [32;48;32;32;48;9;49;32;49;32;49;32] (* " 0  0\t1 1 1 " *);
  [48;53;57;32;48;50;51;32;48;51;49;32;48;49;50;32;48;55] (* "059 023 031 012 07" *);
  [42;47;53;57;32;42;47;50;51;32;42;47;51;49;32;42;47;49;50;32;55;76] (* "*/59 */23 */31 */12 7L" *);
  [48;45;53;57;47;53;57;32;48;45;50;51;47;50;51;32;49;45;51;49;47;51;49;32;49;45;49;50;32;49;45;55] (* "0-59/59 0-23/23 1-31/31 1-12 1-7" *);
  [49;44;50;44;51;32;52;44;53;32;76;44;49;53;32;50;45;49;50;32;53;76;44;49;35;50;44;55;35;53] (* "1,2,3 4,5 L,15 2-12 5L,1#2,7#5" *);
  [64;104;111;117;114;108;121] (* "@hourly" *);
  [64;100;97;105;108;121] (* "@daily" *);
  [64;109;111;110;116;104;108;121] (* "@monthly" *);
  [64;119;101;101;107;108;121] (* "@weekly" *);
  [48;44;48;44;48;32;42;32;76;44;76;32;42;32;49;76;44;49;76] (* "0,0,0 * L,L * 1L,1L" *)].
Example C20_reject_examples : forallb (fun s => match parse_spec s with None => true | Some _ => false end) reject_examples = true.
Proof. vm_compute. reflexivity. Qed.
Example C20_accept_examples :
  forallb (fun s => match parse_spec s, lex_spec s with Some _, Some a => wf_spec a | _, _ => false end) accept_examples = true.
Proof. vm_compute. reflexivity. Qed.

(* ================================================================================================== *)
(* the minute tick over every history                                                                   *)
(* Model.trace: what a history of AddJob / RemoveJob / EnableJob / DisableJob / tick on the model of
   node/cron.go shows (result codes; per tick the minute and the jobs whose action it starts).
   TickSpec.atrace: what it must show, stated on the set of jobs with their enabled flag and on
   Spec.matches only.  ev_ok: equal result codes; same minute, no job twice, same jobs. *)
Theorem C20_tick : forall next ops, Forall2 ev_ok (trace (cron_init next) ops) (atrace next [] ops).
Proof. exact tick_histories. Qed.
Print Assumptions C20_tick.

(* spelled out: the tick of minute m starts job n iff, after the operations before that tick, a job named n
   is present, enabled, and its spec matches the wall clock of m in the job's zone; no job twice *)
Theorem C20_tick_fires : forall next ops m l n, In (EFire m l) (trace (cron_init next) ops) ->
  exists pre post, ops = pre ++ OTick :: post /\ NoDup l /\
    (In n l <-> exists a, In a (arun [] pre) /\ a_name a = n /\ a_enabled a = true /\
                          matches (a_spec a) (civil_of (a_zone a m) m) = true).
Proof. exact tick_fires. Qed.
Print Assumptions C20_tick_fires.

(* a disabled or removed job does not fire until EnableJob / AddJob of that name *)
Theorem C20_tick_quiet : forall next pre o n post, (o = ODisable n \/ o = ORemove n) ->
  Forall (fun o' => wakes n o' = false) post ->
  forall m l, In (EFire m l) (trace (run (cron_init next) (pre ++ [o])) post) -> ~ In n l.
Proof. exact tick_quiet. Qed.
Print Assumptions C20_tick_quiet.

(* one tick per minute: the ticks of a history run the consecutive minutes next, next+60, ... *)
Theorem C20_tick_minutes : forall ops c, fire_minutes (trace c ops) = minutes_from (count_ticks ops) (cr_next c).
Proof. exact tick_minutes. Qed.
Print Assumptions C20_tick_minutes.

(* non-vacuity: "*/2 * * * *" added at 12:00, ticks of 12:00 and 12:01, disable, tick 12:02, enable twice, tick 12:03 (no match),
   tick 12:04 (once), remove, tick 12:05, tick 12:06 *)
Definition hist_spec : str := [42;47;50;32;42;32;42;32;42;32;42].
Definition hist_ops : list op :=
  [OAdd 7 hist_spec [] 0; OTick; OTick; ODisable 7; OTick; OEnable 7; OEnable 7; OTick; OTick; ORemove 7; OTick; OTick].
Definition hist_expected : list ev :=
  [ERc 0; EFire 1704110400 [7]; EFire 1704110460 []; ERc 0; EFire 1704110520 []; ERc 0; ERc 0; EFire 1704110580 [];
   EFire 1704110640 [7]; ERc 0; EFire 1704110700 []; EFire 1704110760 []].
Definition ev_same (e e' : ev) : bool :=
  match e, e' with ERc a, ERc b => a =? b | EFire m l, EFire m' l' => (m =? m') && zlist_eqb l l' | _, _ => false end.
Fixpoint evs_same (a b : list ev) : bool :=
  match a, b with [], [] => true | x :: a', y :: b' => ev_same x y && evs_same a' b' | _, _ => false end.
Example C20_tick_example :
  evs_same (trace (cron_init 1704110400) hist_ops) hist_expected && evs_same (atrace 1704110400 [] hist_ops) hist_expected = true.
Proof. vm_compute. reflexivity. Qed.
