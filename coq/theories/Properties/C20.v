(* C20 — Cron: jobs run exactly at the minutes their spec denotes.  Property theorems only;
   proofs live in Cron/. *)
From Ergo Require Import Common.Base Cron.Model Cron.Spec Cron.Proofs.
Local Open Scope Z_scope.

(* the parser is lexing (regular expressions, Split, Atoi) followed by compilation to masks *)
Theorem C20_parse_factor : forall s,
  parse_spec s = match lex_spec s with Some a => compile_spec a | None => None end.
Proof. exact parse_spec_factor. Qed.
Print Assumptions C20_parse_factor.
