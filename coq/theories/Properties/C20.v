(* C20 — Cron: jobs run exactly at the minutes their spec denotes.  Property theorems only;
   proofs live in Cron/. *)
From Ergo Require Import Common.Base Cron.Model Cron.Spec Cron.CivilSweep Cron.CivilProofs Cron.Proofs Cron.RunProofs.
Local Open Scope Z_scope.

(* the parser is lexing (regular expressions, Split, Atoi) followed by compilation to masks *)
Theorem C20_parse_factor : forall s,
  parse_spec s = match lex_spec s with Some a => compile_spec a | None => None end.
Proof. exact parse_spec_factor. Qed.
Print Assumptions C20_parse_factor.

(* IsRunAt of the compiled masks = the crontab rule on the syntax tree, for every spec of the
   grammar, every instant and every UTC offset (hence every zone: a zone only supplies the offset) *)
Theorem C20_isrunat : forall a m off secs,
  wf_spec a = true -> compile_spec a = Some m ->
  spec_run m (civil_of off secs) = matches a (civil_of off secs).
Proof. intros a m off secs HW HC. apply isrunat_matches; [apply civil_of_good|exact HW|exact HC]. Qed.
Print Assumptions C20_isrunat.

(* the value bits of a field denote exactly the listed values (per option: soundness + completeness) *)
Theorem C20_parse_mask_range : forall lo hi step acc v, 0 <= lo -> 1 <= step -> 0 <= v ->
  Z.testbit (range_bits lo hi step acc) v = Z.testbit acc v || ((lo <=? v) && (v <=? hi) && ((v - lo) mod step =? 0)).
Proof. exact range_bits_spec. Qed.
Print Assumptions C20_parse_mask_range.

Theorem C20_parse_mask_field : forall k c, good c -> forall items multi bits sp l,
  compile_items k multi items bits sp = Some l ->
  existsb is_star_item items = false -> forallb (allowed k) items = true ->
  existsb (fun m => mask_run m c) l
  = Z.testbit bits (fval k c) || existsb (fun m => mask_run m c) sp || existsb (fun it => item_sem k it c) items.
Proof. exact compile_items_sem. Qed.
Print Assumptions C20_parse_mask_field.

(* calendar: the date arithmetic is a bijection between day numbers and valid dates *)
Theorem C20_civil_roundtrip : forall z,
  let '(y, m, d) := civil_from_days z in valid_date y m d = true /\ days_from_civil y m d = z.
Proof. exact civil_from_days_inv. Qed.
Print Assumptions C20_civil_roundtrip.

Theorem C20_civil_of_date : forall y m d, valid_date y m d = true -> civil_from_days (days_from_civil y m d) = (y, m, d).
Proof. exact civil_from_days_of_date. Qed.
Print Assumptions C20_civil_of_date.

(* JobSchedule / Schedule report exactly the minutes of the window that the spec denotes, in any zone *)
Theorem C20_schedule : forall a m (z : zone) since period,
  wf_spec a = true -> compile_spec a = Some m ->
  job_schedule m z since period = filter (matches_at a z) (window since period).
Proof. exact job_schedule_exact. Qed.
Print Assumptions C20_schedule.

Theorem C20_schedule_window : forall since period t,
  In t (window since period) <-> exists k, 0 <= k /\ t = trunc_min since + 60 * k /\ k * minute_ns < period.
Proof. exact window_spec. Qed.
Print Assumptions C20_schedule_window.

Theorem C20_schedule_all : forall (jobs : list (Z * cronspec * specmask * zone)) since period,
  (forall n a m z, In (n, a, m, z) jobs -> wf_spec a = true /\ compile_spec a = Some m) ->
  schedule (map (fun j => let '(n, a, m, z) := j in (n, m, z)) jobs) since period
  = filter (fun r => negb (is_nil (snd r)))
      (map (fun t => (t, map (fun j => let '(n, a, m, z) := j in n)
                             (filter (fun j => let '(n, a, m, z) := j in matches_at a z t) jobs)))
           (window since period)).
Proof. exact schedule_exact. Qed.
Print Assumptions C20_schedule_all.

(* non-vacuity: "30 23 L,15 2-12 5L,1#2" parses, is in the grammar, and runs on 2024-02-29 23:30
   (a leap day, the last day of February) but not one minute later, nor on 2100-03-01 23:30 *)
Definition example_spec : str := [51;48;32;50;51;32;76;44;49;53;32;50;45;49;50;32;53;76;44;49;35;50].
Definition example_b : bool :=
  match lex_spec example_spec, parse_spec example_spec with
  | Some a, Some m =>
      wf_spec a && spec_run m (civil_of 0 1709249400) && negb (spec_run m (civil_of 0 1709249460)) &&
      negb (spec_run m (civil_of 0 4107627000)) && matches a (civil_of 0 1709249400)
  | _, _ => false
  end.
Example C20_example : example_b = true.
Proof. vm_compute. reflexivity. Qed.

(* the defect repaired in /repo (fix commit 8055d63): the former dL test "month of t+168h differs"
   fires on 2024-03-24 23:30 Europe/Berlin, which is not the last Sunday of March *)
Definition old_lastdw_fires (z : zone) (t : Z) : bool :=
  negb (c_month (civil_of (z t) t) =? c_month (civil_of (z (t + 604800)) (t + 604800))).
Definition berlin_2024 : zone := table_off [(1711846800, 7200)] 3600.
Definition add168h_refuted_b : bool :=
  old_lastdw_fires berlin_2024 1711319400 &&
  negb (dow_has (ILastW 7) (civil_of (berlin_2024 1711319400) 1711319400)) &&
  (wd7 (civil_of (berlin_2024 1711319400) 1711319400) =? 7).
Example C20_add168h_refuted : add168h_refuted_b = true.
Proof. vm_compute. reflexivity. Qed.
