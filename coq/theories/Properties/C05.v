(* C05 - Termination happens once, after the last other callback, and is final. *)
From Ergo Require Import Common.Base Sched.Model Sched.CountFacts Sched.TokenInv Sched.TokenProofs Sched.ReasonProofs
  Sched.MetaModel Sched.MetaProofs.

Definition reach sched named lim fb selfs initok others := run sched (init_cfg named lim fb selfs initok others).

(* the terminate callback begins at most once, whatever causes race (handler error, panic,
   any number of Kill calls, in any interleaving) *)
Theorem C05_once : forall sched named lim fb selfs initok others,
  Forall (fun p => init_pc p = true) others ->
  terms (sh (reach sched named lim fb selfs initok others)) <= 1.
Proof. intros. apply Inv_terms_le1. apply Inv_reachable. assumption. Qed.
Print Assumptions C05_once.

(* and exactly once for a process that was finalised, never for one that was not *)
Theorem C05_exactly_once_at_end : forall sched named lim fb selfs initok others,
  Forall (fun p => init_pc p = true) others ->
  let c := reach sched named lim fb selfs initok others in
  quiescent c = true -> terms (sh c) = if fin (sh c) then 1 else 0.
Proof. intros. apply Inv_terms_exact; [apply Inv_reachable; assumption | assumption]. Qed.
Print Assumptions C05_exactly_once_at_end.

(* after the finalising swap nobody can run an ordinary callback: no owner of the
   pre-termination kind exists, the state word stays Terminated (or transiently Zombee) *)
Theorem C05_final : forall sched named lim fb selfs initok others,
  Forall (fun p => init_pc p = true) others ->
  let c := reach sched named lim fb selfs initok others in
  fin (sh c) = true ->
  count holder_pre (thr c) = 0 /\ (st (sh c) = Terminated \/ st (sh c) = Zombee).
Proof. intros. apply Inv_final_no_runner; [apply Inv_reachable; assumption | assumption]. Qed.
Print Assumptions C05_final.

(* ... and it stays like that: finalisation is never undone and no message is handled later *)
Theorem C05_nothing_afterwards : forall sched named lim fb selfs initok others i c',
  Forall (fun p => init_pc p = true) others ->
  let c := reach sched named lim fb selfs initok others in
  fin (sh c) = true -> step c i = Some c' ->
  fin (sh c') = true /\ handled (sh c') = handled (sh c).
Proof.
  intros. split; [eapply step_fin_mono; eauto|].
  eapply step_handled_after_fin; eauto. apply Inv_reachable. assumption.
Qed.
Print Assumptions C05_nothing_afterwards.

(* the terminate callback runs only when no other callback is executing (it is the last) *)
Theorem C05_terminate_alone : forall sched named lim fb selfs initok others,
  Forall (fun p => init_pc p = true) others ->
  count open_cb (thr (reach sched named lim fb selfs initok others)) <= 1.
Proof. intros. apply Inv_no_overlap. apply Inv_reachable. assumption. Qed.
Print Assumptions C05_terminate_alone.

(* the reason handed to unregisterProcess (hence to links and monitors) and to the terminate
   callback reflects a cause that occurred: 'kill' only if some Node.Kill executed its swap,
   'panic' only if the callback of a handled message panicked, any other reason only if the
   callback of a handled message returned exactly that error or an exit signal carrying it was
   taken from the mailbox *)
Theorem C05_reason : forall sched named lim fb selfs initok others r,
  Forall (fun p => init_pc p = true) others ->
  let c := reach sched named lim fb selfs initok others in
  treason (sh c) = Some r ->
  (r = rkill /\ killed (sh c) = true) \/
  (exists m, In (mid m) (handled (sh c)) /\ (mbeh m = BErr r \/ mbeh m = BExit r \/ (mbeh m = BPanic /\ r = rpanic))).
Proof. intros. eapply reason_reflects_cause; eauto. Qed.
Print Assumptions C05_reason.

(* Meta-processes: Terminate begins at most once, and exactly once when every goroutine has
   finished - whoever ended the meta-process (Start() returning, a handler error, the exit pushed
   by the parent's termination), in any interleaving *)
Theorem C05_meta_once : forall sched n r others,
  Forall (fun p => m_init_pc p = true) others ->
  mterms (msh (mrun true sched (m_init_cfg n r others))) <= 1.
Proof. exact meta_terms_le1. Qed.
Print Assumptions C05_meta_once.

Theorem C05_meta_exactly_once_at_end : forall sched n r others,
  Forall (fun p => m_init_pc p = true) others ->
  let c := mrun true sched (m_init_cfg n r others) in
  m_quiescent c = true -> mterms (msh c) = 1 /\ mst (msh c) = MTerm.
Proof. exact meta_terminates_exactly_once. Qed.
Print Assumptions C05_meta_exactly_once_at_end.

(* non-vacuity: handler error racing two Kill calls: terminated once, reason = the error *)
Example C05_example :
  let c := run (repeat 0 8 ++ repeat 1 8 ++ [2;2;3;3] ++ repeat 4 20 ++ repeat 5 30 ++ repeat 2 5 ++ repeat 3 5)
               (init_cfg false 0 false [] true [S_load false [mk_msg 1 2 (BErr 7)]; K_load; K_load]) in
  quiescent c = true /\ terms (sh c) = 1 /\ fin (sh c) = true.
Proof. vm_compute. repeat split; reflexivity. Qed.
