(* C10 — No orphans, supervisor part (names prefixed C10_sup_).  Property theorems only; proofs in Sup/.
   What the machine model carries: an orderly termination (every termination the supervisor decides itself:
   significant child, auto-shutdown, exit from a non-child such as the parent, restart intensity exceeded,
   recovered panic) happens only (a) outside a shutdown when no child is recorded as running, or (b) at the end
   of a shutdown, which starts by telling EVERY recorded running child to stop, waits for exactly these, starts
   nothing meanwhile (ARFO, SOFO) and terminates only when all of them have delivered their exit.
   Not carried by the model: terminations that bypass the machine (Node.Kill of the supervisor, a failed Spawn
   during a restart whose error leaves ProcessRun directly).  There the children die through the LinkParent
   exit propagation of node/ (another engine); the end-to-end harness checks those cases on the real node. *)
From Ergo Require Import Common.Base Sup.Intensity Sup.Machine Sup.MachineProofs.
Local Open Scope Z_scope.

(* (a) OFO/ARFO: a Terminate answered outside a shutdown means that no spec records a running child *)
Theorem C10_sup_terminate_means_none_running : forall k s name pid reason now s' r,
  k_kind k <> SOFO -> shutting k s = false ->
  childTerminated k s name pid reason now = (s', RAct (Terminate r)) ->
  running (specs s') = [].
Proof. exact terminate_means_none_running. Qed.
Print Assumptions C10_sup_terminate_means_none_running.

(* (b1) entering a shutdown: the stop list is the list of all recorded running children and the wait set is
   exactly that set *)
Theorem C10_sup_shutdown_covers_all : forall k s name pid reason now s' t r,
  k_kind k <> SOFO -> shutting k s = false ->
  childTerminated k s name pid reason now = (s', RAct (TerminateChildren t r)) ->
  shutting k s' = true ->
  t = running (specs s') /\ wait s' = zset t.
Proof. exact shutdown_covers_all. Qed.
Print Assumptions C10_sup_shutdown_covers_all.

(* (b2) during a shutdown the machine only drains the wait set and terminates when it is empty *)
Theorem C10_sup_shutdown_drains : forall k s name pid reason now,
  shutting k s = true -> k_kind k <> SOFO ->
  let w := zremove pid (wait s) in
  childTerminated k s name pid reason now =
    (set_wait s w, RAct (if is_nil w then Terminate (sreason s) else TerminateChildren [] 0)).
Proof. exact shutdown_drains. Qed.
Print Assumptions C10_sup_shutdown_drains.

Theorem C10_sup_shutdown_terminates : forall k l s,
  shutting_any k s = true -> l <> [] ->
  (forall p, In p (wait s) -> In p (map em_pid l)) ->
  exists pre, firstn (S (length pre)) (drain k s l) = pre ++ [RAct (Terminate (sreason s))] /\
              Forall (fun r => r = RAct (TerminateChildren [] 0)) pre.
Proof. exact shutdown_terminates. Qed.
Print Assumptions C10_sup_shutdown_terminates.

(* (b3) nothing is started while an ARFO / SOFO machine shuts down *)
Theorem C10_sup_no_start_in_shutdown : forall k s c s' x,
  k_kind k <> OFO -> shutting_any k s = true ->
  apply_call k s c <> (s', RAct (StartChild x)).
Proof. exact no_start_in_shutdown. Qed.
Print Assumptions C10_sup_no_start_in_shutdown.

(* supOFO does accept StartChild while shutting down: that child is not waited for (it dies through its parent
   link only).  Witness: two children, the parent's exit starts the shutdown, StartChild for the spec whose
   child has already gone is answered with a start. *)
Theorem C10_sup_ofo_start_during_shutdown_refuted :
  exists k s name x, k_kind k = OFO /\ shut s = true /\ snd (childSpec k s name) = RAct (StartChild x).
Proof. exact ofo_start_during_shutdown_refuted. Qed.
Print Assumptions C10_sup_ofo_start_during_shutdown_refuted.

(* SOFO: giving up / exit of a non-child stops every recorded instance and waits for all of them *)
Theorem C10_sup_sofo_shutdown_covers_all : forall k s name pid reason now s' t r,
  shut s = false ->
  sofo_childTerminated k s name pid reason now = (s', RAct (TerminateChildren t r)) ->
  shut s' = true -> t = map fst (pids s') /\ (forall p, In p t -> In p (wait s')).
Proof. exact sofo_shutdown_covers_all. Qed.
Print Assumptions C10_sup_sofo_shutdown_covers_all.
