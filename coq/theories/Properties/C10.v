(* C10 — No orphans, supervisor part (names prefixed C10_sup_).  Property theorems only; proofs in Sup/.
   What the machine model carries: an orderly termination (every termination the supervisor decides itself:
   significant child, auto-shutdown, exit from a non-child such as the parent, restart intensity exceeded,
   recovered panic) happens only (a) outside a shutdown when no child is recorded as running, or (b) at the end
   of a shutdown, which starts by telling EVERY recorded running child to stop, waits for exactly these, starts
   nothing meanwhile (ARFO, SOFO) and terminates only when all of them have delivered their exit.
   Not carried by the model: terminations that bypass the machine (Node.Kill of the supervisor, a failed Spawn
   during a restart whose error leaves ProcessRun directly).  There the children die through the LinkParent
   exit propagation of node/ (another engine); the end-to-end harness checks those cases on the real node. *)
From Ergo Require Import Common.Base Sup.Intensity Sup.Machine Sup.MachineProofs.
Local Open Scope Z_scope.

(* (a) OFO/ARFO: a Terminate answered outside a shutdown means that no spec records a running child *)
Theorem C10_sup_terminate_means_none_running : forall k s name pid reason now s' r,
  k_kind k <> SOFO -> shutting k s = false ->
  childTerminated k s name pid reason now = (s', RAct (Terminate r)) ->
  running (specs s') = [].
Proof. exact terminate_means_none_running. Qed.
Print Assumptions C10_sup_terminate_means_none_running.

(* (b1) entering a shutdown: the stop list is the list of all recorded running children and the wait set is
   exactly that set *)
Theorem C10_sup_shutdown_covers_all : forall k s name pid reason now s' t r,
  k_kind k <> SOFO -> shutting k s = false ->
  childTerminated k s name pid reason now = (s', RAct (TerminateChildren t r)) ->
  shutting k s' = true ->
  t = running (specs s') /\ wait s' = zset t.
Proof. exact shutdown_covers_all. Qed.
Print Assumptions C10_sup_shutdown_covers_all.

(* (b2) during a shutdown the machine only drains the wait set and terminates when it is empty *)
Theorem C10_sup_shutdown_drains : forall k s name pid reason now,
  shutting k s = true -> k_kind k <> SOFO ->
  let w := zremove pid (wait s) in
  childTerminated k s name pid reason now =
    (set_wait s w, RAct (if is_nil w then Terminate (sreason s) else TerminateChildren [] 0)).
Proof. exact shutdown_drains. Qed.
Print Assumptions C10_sup_shutdown_drains.

Theorem C10_sup_shutdown_terminates : forall k l s,
  shutting_any k s = true -> l <> [] ->
  (forall p, In p (wait s) -> In p (map em_pid l)) ->
  exists pre, firstn (S (length pre)) (drain k s l) = pre ++ [RAct (Terminate (sreason s))] /\
              Forall (fun r => r = RAct (TerminateChildren [] 0)) pre.
Proof. exact shutdown_terminates. Qed.
Print Assumptions C10_sup_shutdown_terminates.

(* (b3) nothing is started while an ARFO / SOFO machine shuts down *)
Theorem C10_sup_no_start_in_shutdown : forall k s c s' x,
  k_kind k <> OFO -> shutting_any k s = true ->
  apply_call k s c <> (s', RAct (StartChild x)).
Proof. exact no_start_in_shutdown. Qed.
Print Assumptions C10_sup_no_start_in_shutdown.

(* supOFO does accept StartChild while shutting down: that child is not waited for (it dies through its parent
   link only).  Witness: two children, the parent's exit starts the shutdown, StartChild for the spec whose
   child has already gone is answered with a start. *)
Theorem C10_sup_ofo_start_during_shutdown_refuted :
  exists k s name x, k_kind k = OFO /\ shut s = true /\ snd (childSpec k s name) = RAct (StartChild x).
Proof. exact ofo_start_during_shutdown_refuted. Qed.
Print Assumptions C10_sup_ofo_start_during_shutdown_refuted.

(* SOFO: giving up / exit of a non-child stops every recorded instance and waits for all of them *)
Theorem C10_sup_sofo_shutdown_covers_all : forall k s name pid reason now s' t r,
  shut s = false ->
  sofo_childTerminated k s name pid reason now = (s', RAct (TerminateChildren t r)) ->
  shut s' = true -> t = map fst (pids s') /\ (forall p, In p t -> In p (wait s')).
Proof. exact sofo_shutdown_covers_all. Qed.
Print Assumptions C10_sup_sofo_shutdown_covers_all.

(* ---- LinkParent closure over arbitrary forests (Tree/): the terminations that bypass the supervisor's own
   protocol.  Model Tree/Model.v: unbounded forest built by spawn steps, any process may stop at any time for
   any reason (kill, error, panic, failed init after k children), unregister tells the link consumers with the
   dead pid as sender, actors trap only exits that do not come from their parent, supervisors shut down
   (wait set) or are bypassed, pools die at once. *)
From Ergo Require Import Tree.Model Tree.Proofs.
Local Close Scope Z_scope.
Local Open Scope nat_scope.

(* (i) closure, every reachable state of every forest under every schedule: a LinkParent child of a dead
   process is itself no longer registered, or holds a pending exit signal FROM ITS PARENT, or is a supervisor
   in its shutdown protocol (whose wait-set members are in the same situation: Inv2) *)
Theorem C10_tree_closure_invariant : forall s, reach faithful [] s -> Inv s.
Proof. exact reach_Inv. Qed.
Print Assumptions C10_tree_closure_invariant.

Theorem C10_tree_step_preserves : forall s l s', Inv s -> step faithful s l = Some s' -> Inv s'.
Proof. exact step_Inv. Qed.
Print Assumptions C10_tree_step_preserves.

(* such a pending signal cannot be trapped; one from anybody else can *)
Theorem C10_tree_parent_exit_is_fatal : forall s i pi f rest d,
  get s i = Some pi -> st pi = Alive -> knd pi = KActor -> mbox pi = f :: rest -> parent pi = Some f ->
  consume s i d = Some (upd s i (fun p => set_st p (Dying false))).
Proof. exact parent_exit_is_fatal. Qed.
Print Assumptions C10_tree_parent_exit_is_fatal.

Theorem C10_tree_foreign_exit_is_trapped : forall s i pi f rest d,
  get s i = Some pi -> st pi = Alive -> knd pi = KActor -> mbox pi = f :: rest -> parent pi <> Some f -> trap pi = true ->
  consume s i d = Some (upd s i (fun p => set_mbox p rest)).
Proof. exact foreign_exit_is_trapped. Qed.
Print Assumptions C10_tree_foreign_exit_is_trapped.

(* (ii) no orphans: at quiescence nobody below a dead process (LinkParent edges, any depth) is alive; trapping
   children and nested supervisors included (iv) *)
Theorem C10_tree_no_orphans_at_quiescence : forall s, Inv s -> quiescent s = true ->
  forall a d, dead s a -> lp_desc s a d -> dead s d.
Proof. exact no_orphans_at_quiescence. Qed.
Print Assumptions C10_tree_no_orphans_at_quiescence.

(* (iii) progress, any configuration: every internal step lowers mu = (N+1) * (3 per live process, 2 per
   shutting supervisor, 1 per process not yet unregistered) + pending signals; a run of internal steps is not
   longer than mu; a state without an enabled internal step is quiescent (and conversely) *)
Theorem C10_tree_internal_step_decreases : forall cf s l s',
  internal l = true -> step cf s l = Some s' -> mu s' < mu s.
Proof. exact internal_step_decreases. Qed.
Print Assumptions C10_tree_internal_step_decreases.

Theorem C10_tree_internal_run_bound : forall cf ls s s', Forall (fun l => internal l = true) ls ->
  run cf s ls = Some s' -> length ls + mu s' <= mu s.
Proof. exact internal_run_bound. Qed.
Print Assumptions C10_tree_internal_run_bound.

Theorem C10_tree_stuck_is_quiescent : forall cf s,
  (forall l, internal l = true -> step cf s l = None) -> quiescent s = true.
Proof. exact stuck_is_quiescent. Qed.
Print Assumptions C10_tree_stuck_is_quiescent.

Theorem C10_tree_quiescent_is_stuck : forall cf s l, quiescent s = true -> internal l = true -> step cf s l = None.
Proof. exact quiescent_is_stuck. Qed.
Print Assumptions C10_tree_quiescent_is_stuck.

(* all together: from any state satisfying the invariant (any reachable one) the system settles within mu
   steps and then has no orphan *)
Theorem C10_tree_settle_no_orphans : forall s, Inv s ->
  let s' := drive faithful (mu s) s in
  quiescent s' = true /\ Inv s' /\ (forall a d, dead s' a -> lp_desc s' a d -> dead s' d).
Proof. exact settle_no_orphans. Qed.
Print Assumptions C10_tree_settle_no_orphans.

(* (v) why the sender must be the parent: with the grandparent as sender (unregister path, init-failure path) a
   trapping child survives its dead parent in a quiescent state *)
Theorem C10_tree_sender_grandparent_refuted :
  exists s, reach (mkCfg FromParent FromSelf true) [] s /\ quiescent s = true /\ dead s 1 /\ lp_desc s 1 2 /\ live s 2.
Proof. exact sender_grandparent_refuted. Qed.
Print Assumptions C10_tree_sender_grandparent_refuted.

Theorem C10_tree_init_sender_grandparent_refuted :
  exists s, reach (mkCfg FromSelf FromParent true) [] s /\ quiescent s = true /\ dead s 1 /\ lp_desc s 1 2 /\ live s 2.
Proof. exact init_sender_grandparent_refuted. Qed.
Print Assumptions C10_tree_init_sender_grandparent_refuted.

(* the defect repaired in node.spawnMember (failed init told the LinkChild children only) *)
Theorem C10_tree_init_failure_without_consumers_refuted :
  exists s, reach (mkCfg FromSelf FromSelf false) [] s /\ quiescent s = true /\ dead s 0 /\ lp_desc s 0 1 /\ live s 1.
Proof. exact init_failure_without_consumers_refuted. Qed.
Print Assumptions C10_tree_init_failure_without_consumers_refuted.
