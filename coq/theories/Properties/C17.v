(* C17 - Application lifecycle and start modes. Statements only; proofs in App/*Proofs.v. *)
From Ergo Require Import Common.Base App.Seq App.Cases.
