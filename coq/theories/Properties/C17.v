(* C17 - Application lifecycle and start modes.  Statements only; proofs in App/SeqProofs.v
   (sequential model, every state of the application record), App/SeqHist.v (sequential model, every
   history of operations) and App/Proofs.v (small-step model in which application.start is a thread
   program with one step per member spawn: every schedule that respects the quiescent-restart guard
   `adm`, member deaths and stop calls during the spawn loop included). *)
From Ergo Require Import Common.Base App.Seq App.Cases App.SeqProofs App.SeqHist App.Model App.Proofs.
From Ergo Require Import App.Hold App.HoldProofs.

(* ---- operation level (sequential model, every state) ------------------------------------ *)
(* members in spec order, then the Start callback, exactly once per successful start *)
Theorem C17_start_order a sp x mode :
  a_st x = 1 -> fail_index sp x = None ->
  app_start a sp x mode =
    (mk_app 2 mode (seq 0 (sp_n sp)) (a_fail x), 0, start_block a (sp_n sp) mode) /\
  count_ev (is_start_of a) (start_block a (sp_n sp) mode) = 1.
Proof. exact (seq_start_order a sp x mode). Qed.
Print Assumptions C17_start_order.

(* ... and the dependencies first: when ApplicationStart reports success every dependency is running,
   everything of the dependencies happened before the first member of the application was spawned *)
Theorem C17_start_order_deps_first specs fuel nd vis a nd' evs :
  wf nd -> start_rec fuel specs nd vis a = (nd', 0, evs) ->
  (forall d, In d (sp_deps (spec_of specs a)) -> a_st (get nd' d) = 2) /\
  (exists pre, evs = pre ++ start_block a (sp_n (spec_of specs a)) (sp_mode (spec_of specs a)) /\
               forall e, In e pre -> ev_app e <> a /\ ~ In (ev_app e) vis) /\
  a_st (get nd a) = 1 /\ a_st (get nd' a) = 2 /\
  a_mode (get nd' a) = sp_mode (spec_of specs a) /\
  a_live (get nd' a) = seq 0 (sp_n (spec_of specs a)).
Proof. exact (hist_deps_first specs fuel nd vis a nd' evs). Qed.
Print Assumptions C17_start_order_deps_first.

(* on an acyclic dependency graph of loaded, willing applications the start succeeds (never
   ErrApplicationDepends), with the fuel the model uses *)
Theorem C17_start_acyclic_succeeds specs (rank : nat -> nat) (R : nat -> Prop) nd a :
  (forall a d, R a -> In d (sp_deps (spec_of specs a)) -> rank d < rank a /\ R d) ->
  wf nd -> length nd <= length specs -> ready specs R nd -> R a ->
  exists nd' r e, start_rec (fuel_for specs) specs nd [] a = (nd', r, e) /\ (r = 0 \/ r = 1) /\ SeqHist.st nd' a = 2.
Proof. exact (hist_acyclic_start_succeeds specs rank R nd a). Qed.
Print Assumptions C17_start_acyclic_succeeds.

(* the fuel of the dependency recursion never runs out: number of loaded applications + 1 suffices,
   more fuel changes nothing (the cycle check of fix b7945d3 bounds the depth) *)
Theorem C17_start_fuel_sufficient specs fuel nd vis a :
  wf nd -> NoDup vis -> (forall v, In v vis -> a_st (get nd v) <> 0) ->
  loaded_count nd < fuel + length vis ->
  snd (fst (start_rec fuel specs nd vis a)) <> 9 /\
  forall k, start_rec (fuel + k) specs nd vis a = start_rec fuel specs nd vis a.
Proof. exact (hist_fuel_sufficient specs fuel nd vis a). Qed.
Print Assumptions C17_start_fuel_sufficient.

Theorem C17_start_fuel_loaded_plus_one specs nd a :
  wf nd ->
  snd (fst (start_rec (loaded_count nd + 1) specs nd [] a)) <> 9 /\
  forall k, start_rec (loaded_count nd + 1 + k) specs nd [] a = start_rec (loaded_count nd + 1) specs nd [] a.
Proof. exact (fuel_loaded_count_suffices specs nd a). Qed.
Print Assumptions C17_start_fuel_loaded_plus_one.

Theorem C17_no_fuel_exhaustion specs ops :
  Forall (fun s => o_ret (snd s) <> 9) (seq_run specs (init_node specs) ops).
Proof. exact (hist_no_fuel_exhaustion specs ops). Qed.
Print Assumptions C17_no_fuel_exhaustion.

Theorem C17_failed_start_clean a sp x mode k :
  a_st x = 1 -> fail_index sp x = Some k ->
  exists x' e, app_start a sp x mode = (x', 7, e) /\ a_st x' = 1 /\ a_live x' = [] /\
               count_ev (is_start_of a) e = 0.
Proof. exact (seq_failed_start_clean a sp x mode k). Qed.
Print Assumptions C17_failed_start_clean.

Theorem C17_mode_rule a x m r :
  a_st x = 2 -> mem m (a_live x) = true ->
  (rule_fires (a_mode x) r = true ->
     app_die a x m r = (mk_app 1 (a_mode x) [] (a_fail x), 0, [ETerm a r 0])) /\
  (rule_fires (a_mode x) r = false -> remove_nat m (a_live x) = [] ->
     app_die a x m r = (mk_app 1 (a_mode x) [] (a_fail x), 0, [ETerm a 0 0])) /\
  (rule_fires (a_mode x) r = false -> remove_nat m (a_live x) <> [] ->
     app_die a x m r = (mk_app 2 (a_mode x) (remove_nat m (a_live x)) (a_fail x), 0, [])).
Proof. exact (seq_mode_rule a x m r). Qed.
Print Assumptions C17_mode_rule.

Theorem C17_mode_rule_when mode r :
  rule_fires mode r = true <-> mode = 3 \/ (mode = 2 /\ r <> 0 /\ r <> 1).
Proof. exact (seq_rule_fires_spec mode r). Qed.
Print Assumptions C17_mode_rule_when.

(* ---- history level (sequential model, every sequence of operations) --------------------- *)
(* Start callback count = number of successful starts (steps in which the application goes from
   loaded to running); ApplicationStart{Temporary,Transient,Permanent} reports success iff it did *)
Theorem C17_hist_start_count specs ops nd a : wf nd ->
  count_ev (is_start_of a) (hist_ev (seq_trace specs nd ops)) =
  length (filter (goes a 1 2) (seq_trace specs nd ops)).
Proof. exact (hist_start_count specs ops nd a). Qed.
Print Assumptions C17_hist_start_count.

Theorem C17_hist_start_ret specs ops nd : wf nd -> Forall start_ret_ok (seq_trace specs nd ops).
Proof. exact (hist_start_ret specs ops nd). Qed.
Print Assumptions C17_hist_start_ret.

(* Terminate callback exactly once per completed run, with the causing reason, after the last member
   has gone; Start and Terminate alternate, a Start is pending at the end iff the application runs *)
Theorem C17_hist_terminate_once_with_cause specs ops nd a : wf nd ->
  let tr := seq_trace specs nd ops in
  let h := hist_ev tr in
  count_ev (is_term_of a) h = length (filter (goes a 2 1) tr) /\
  Forall (term_cause_ok a) tr /\
  alternating a (SeqHist.st nd a =? 2) (proj a h) (SeqHist.st (seq_final specs nd ops) a =? 2) /\
  count_ev (is_start_of a) h + (if SeqHist.st nd a =? 2 then 1 else 0) =
  count_ev (is_term_of a) h + (if SeqHist.st (seq_final specs nd ops) a =? 2 then 1 else 0).
Proof. exact (hist_terminate_once_with_cause specs ops nd a). Qed.
Print Assumptions C17_hist_terminate_once_with_cause.

Theorem C17_hist_terminate_once_init specs ops a :
  let h := hist_ev (seq_trace specs (init_node specs) ops) in
  let fin := seq_final specs (init_node specs) ops in
  alternating a false (proj a h) (SeqHist.st fin a =? 2) /\
  count_ev (is_start_of a) h = count_ev (is_term_of a) h + (if SeqHist.st fin a =? 2 then 1 else 0).
Proof. exact (hist_terminate_once_init specs ops a). Qed.
Print Assumptions C17_hist_terminate_once_init.

(* after every completed stop no member is alive; an application that is not running never has one *)
Theorem C17_hist_stop_clean specs ops nd : wf nd -> Forall stop_clean_ok (seq_trace specs nd ops).
Proof. exact (hist_stop_clean specs ops nd). Qed.
Print Assumptions C17_hist_stop_clean.

(* the histories the theorems speak about are the histories of the model the harness compares with *)
Theorem C17_hist_trace_is_run specs ops nd :
  map (fun t => (t_op t, t_obs t)) (seq_trace specs nd ops) = seq_run specs nd ops.
Proof. exact (seq_trace_run specs ops nd). Qed.
Print Assumptions C17_hist_trace_is_run.

(* ---- small-step: all guarded schedules, deaths and stops during the spawn loop included --- *)
(* once stopping, every member whose start call is past its check has been told to terminate or the
   thread that switched the state is about to tell them; a member spawned later is told by the start *)
Theorem C17_mode_rule_all_told n m threads sched :
  forallb initial_pc threads = true ->
  let c := run_adm sched (init_cfg n m threads) in
  st (sh c) = SS -> toldall (sh c) = true \/ count pretell (thr c) >= 1.
Proof. intros H. exact (stopping_tells_all n m threads sched H). Qed.
Print Assumptions C17_mode_rule_all_told.

Theorem C17_late_member_told s fail k :
  st s <> SR -> step_pc s (S_chk fail k) = Some (s, S_spawn fail (S k)).
Proof. exact (late_member_told s fail k). Qed.
Print Assumptions C17_late_member_told.

(* Terminate callback at most once per run, never while running / stopping, and only after the
   (single) Start callback of the same run *)
Theorem C17_terminate_once_with_cause n m threads sched :
  forallb initial_pc threads = true ->
  let c := run_adm sched (init_cfg n m threads) in
  runterms (sh c) <= 1 /\ (st (sh c) = SR \/ st (sh c) = SS -> runterms (sh c) = 0) /\
  runstarts (sh c) <= 1 /\ (runterms (sh c) >= 1 -> runstarts (sh c) = 1).
Proof. intros H. exact (terminate_once n m threads sched H). Qed.
Print Assumptions C17_terminate_once_with_cause.

(* the run is not finalised while start is spawning the members / running the Start callback *)
Theorem C17_no_finalise_while_starting n m threads sched :
  forallb initial_pc threads = true ->
  let c := run_adm sched (init_cfg n m threads) in
  starting (sh c) = true -> count pastflag (thr c) = 0 /\ count finaliser (thr c) = 0.
Proof. intros H. exact (no_finalise_while_starting n m threads sched H). Qed.
Print Assumptions C17_no_finalise_while_starting.

(* no dead pid stays in the group: its entries are exactly the members still registered in the node
   plus those whose terminate call is on its way to delete them *)
Theorem C17_group_exact n m threads sched :
  forallb initial_pc threads = true ->
  let c := run_adm sched (init_cfg n m threads) in
  na (sh c) + count (deleter (gen (sh c))) (thr c) = ng (sh c).
Proof. intros H. exact (group_exact n m threads sched H). Qed.
Print Assumptions C17_group_exact.

(* ... with the causing reason: sequentially exactly (stop: shutdown / kill; C17_mode_rule: r / normal) *)
Theorem C17_stop_cause a x force :
  a_st x = 2 ->
  app_stop a x force = (mk_app 1 1 [] (a_fail x), 0, [ETerm a (if force then 2 else 1) 0]).
Proof. exact (seq_stop a x force). Qed.
Print Assumptions C17_stop_cause.

(* the cause is written only by the winner of the CAS Running->Stopping: a member that terminates later,
   with whatever reason, does not touch a.reason (only D_reason of the winner and the `normal` default
   of the finaliser write it) *)
Theorem C17_late_death_keeps_reason s r :
  st s <> SR ->
  step_pc s (D_stopping r) = Some (s, D_starting) /\
  (forall s' p', step_pc s (D_mode r) = Some (s', p') -> reason s' = reason s) /\
  (forall p, die_inflight p = true ->
     match p with D_reason _ | D_default => True | _ =>
       forall s' p', step_pc s p = Some (s', p') -> reason s' = reason s end).
Proof. exact (late_death_keeps_reason s r). Qed.
Print Assumptions C17_late_death_keeps_reason.

(* ... and under concurrency refuted (known finding cause-race) *)
Theorem C17_cause_race_refuted :
  exists threads sched, forallb initial_pc threads = true /\ cause_race_b threads sched = true.
Proof. exact cause_race_refuted. Qed.
Print Assumptions C17_cause_race_refuted.

(* back to loaded = nothing left (unless a failed start has just been rolled back and a member it
   killed has not terminated yet: ghost rbk, known finding rollback-busy) ... *)
Theorem C17_back_to_loaded_clean n m threads sched :
  forallb initial_pc threads = true ->
  let c := run_adm sched (init_cfg n m threads) in
  st (sh c) = SL \/ st (sh c) = SUnl -> rbk (sh c) = false -> na (sh c) = 0 /\ ng (sh c) = 0.
Proof. intros H. exact (loaded_clean n m threads sched H). Qed.
Print Assumptions C17_back_to_loaded_clean.

(* ... and restartable: the start call of a loaded application with nothing left, run alone, spawns
   every member, runs the Start callback once and returns nil with the application running *)
Theorem C17_back_to_loaded_restartable s mode' :
  st s = SL -> na s = 0 -> ng s = 0 -> 0 < nmem s ->
  exists s', run (rep 0 (2 * nmem s + 5)) (mk_cfg s [S_cas mode' None]) = mk_cfg s' [Done 0] /\
    st s' = SR /\ na s' = nmem s /\ ng s' = nmem s /\ starts s' = S (starts s) /\
    runstarts s' = 1 /\ runterms s' = 0 /\ starting s' = false /\ gen s' = S (gen s).
Proof. exact (restartable s mode'). Qed.
Print Assumptions C17_back_to_loaded_restartable.

Theorem C17_stop_truthful n m threads sched i p s' :
  forallb initial_pc threads = true ->
  let c := run_adm sched (init_cfg n m threads) in
  nth_error (thr c) i = Some p -> returns_ok p = true ->
  step_pc (sh c) p = Some (s', Done 0) ->
  rbk (sh c) = false -> na (sh c) = 0 /\ ng (sh c) = 0.
Proof. intros H. exact (stop_truthful n m threads sched H i p s'). Qed.
Print Assumptions C17_stop_truthful.

Theorem C17_stop_truthful_seq a x force x' e :
  (a_st x <= 1 -> a_live x = []) ->
  app_stop a x force = (x', 0, e) -> a_st x' <= 1 /\ a_live x' = [].
Proof. exact (seq_stop_truthful a x force x' e). Qed.
Print Assumptions C17_stop_truthful_seq.

(* without the rbk guard refuted: a failed start returns, and a stop call reports success, while a
   member the roll-back killed is still alive (known finding rollback-busy) *)
Theorem C17_rollback_busy_refuted :
  exists threads sched, forallb initial_pc threads = true /\ rollback_busy_b threads sched = true.
Proof. exact rollback_busy_refuted. Qed.
Print Assumptions C17_rollback_busy_refuted.

(* without the quiescence guard: a start racing with an in-flight terminate call (known finding restart-race) *)
Theorem C17_restart_race_refuted :
  exists threads sched, forallb initial_pc threads = true /\ restart_race_b threads sched = true.
Proof. exact restart_race_refuted. Qed.
Print Assumptions C17_restart_race_refuted.

(* dependency recursion after the fix b7945d3: a revisited application (cycle) is rejected with
   ErrApplicationDepends (5) and nothing is started; an unknown one with ErrApplicationUnknown (4) *)
Theorem C17_cyclic_deps_rejected f specs nd vis a :
  a_st (get nd a) <> 0 -> mem a vis = true -> start_rec (S f) specs nd vis a = (nd, 5, []).
Proof. exact (seq_cycle_detected f specs nd vis a). Qed.
Print Assumptions C17_cyclic_deps_rejected.

Theorem C17_unknown_app_rejected f specs nd vis a :
  a_st (get nd a) = 0 -> start_rec (S f) specs nd vis a = (nd, 4, []).
Proof. exact (seq_start_unknown f specs nd vis a). Qed.
Print Assumptions C17_unknown_app_rejected.

(* ---- a dependency that is STOPPING (sequential model with held members, App/Hold.v) ------ *)
(* Histories of load / unload / start / hold / release / stop-with-timeout / member death in which a member
   can be held inside a handler, so that an application is observably in state stopping.  The dependency
   walk, every call, every variant: an application record is untouched or the application was loaded,
   is not on the visiting chain and has been started; a stopping application stays as it is. *)
Theorem C17_dep_walk_touches_loaded_only specs lax fuel nd vis a nd' r e :
  hstart_rec fuel lax specs nd vis a = (nd', r, e) -> walk_ok specs vis nd nd' e.
Proof. exact (hstart_rec_walk specs lax fuel nd vis a nd' r e). Qed.
Print Assumptions C17_dep_walk_touches_loaded_only.

(* nil / ErrApplicationRunning from the walk means: running AT THAT MOMENT *)
Theorem C17_dep_ok_means_running specs fuel nd vis a nd' r e :
  hstart_rec fuel false specs nd vis a = (nd', r, e) -> r = 0 \/ r = 1 -> hst nd' a = 2.
Proof. exact (hstart_ret01_running specs fuel nd vis a nd' r e). Qed.
Print Assumptions C17_dep_ok_means_running.

(* after a successful start every dependency is running at the return (not stopping, not loaded), the
   application went loaded -> running with all members, everything of the dependencies came first *)
Theorem C17_start_deps_running_at_return specs fuel nd vis a nd' e :
  hstart_rec fuel false specs nd vis a = (nd', 0, e) ->
  (forall d, In d (sp_deps (spec_of specs a)) -> hst nd' d = 2) /\
  hst nd a = 1 /\ hget nd' a = started specs a /\
  exists pre, e = pre ++ start_block' a (sp_n (spec_of specs a)) (sp_mode (spec_of specs a)) /\
              forall x, In x pre -> hev_app x <> a.
Proof. exact (hstart_success specs fuel nd vis a nd' e). Qed.
Print Assumptions C17_start_deps_running_at_return.

(* a start that meets a stopping dependency: ErrApplicationDepends, the application is left as it was,
   none of its callbacks runs, the dependency is left alone *)
Theorem C17_start_stopping_dep_refused specs f nd vis a d nd' r e :
  h_st (hget nd a) <> 0 -> ~ In a vis ->
  In d (sp_deps (spec_of specs a)) -> hst nd d = 3 ->
  hstart_rec (S f) false specs nd vis a = (nd', r, e) ->
  r = 5 /\ hget nd' a = hget nd a /\ (forall x, In x e -> hev_app x <> a) /\ hget nd' d = hget nd d.
Proof. exact (hstart_stopping_dep_refused specs f nd vis a d nd' r e). Qed.
Print Assumptions C17_start_stopping_dep_refused.

(* over all histories from any well-formed node: well-formedness (loaded / unloaded: no member; stopping:
   somebody alive and every live member inside a handler) is kept, the observation is the node ... *)
Theorem C17_hist_hold_wf lax specs ops nd : hwf nd -> Forall hstep_sound (htrace lax specs nd ops).
Proof. exact (hist_hold_wf lax specs ops nd). Qed.
Print Assumptions C17_hist_hold_wf.

(* ... and every ApplicationStart of the history: success => all dependencies running at its return;
   loaded application with a stopping dependency => 5, still loaded, no member, no callback *)
Theorem C17_hist_start_vs_stopping_dep specs ops nd :
  hwf nd -> Forall (hstart_ok specs) (htrace false specs nd ops).
Proof. exact (hist_hold_start specs ops nd). Qed.
Print Assumptions C17_hist_start_vs_stopping_dep.

(* the variant `state >= Running` of application.start (a stopping application answers
   ErrApplicationRunning) is refuted: a start reports success on top of a stopping dependency *)
Theorem C17_stopping_as_running_refuted : exists specs ops, start_over_stopping_b true specs ops = true.
Proof. exact hold_lax_refuted. Qed.
Print Assumptions C17_stopping_as_running_refuted.

Theorem C17_stopping_never_taken_for_running specs ops : start_over_stopping_b false specs ops = false.
Proof. exact (hold_strict_never specs ops). Qed.
Print Assumptions C17_stopping_never_taken_for_running.
