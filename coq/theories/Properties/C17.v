(* C17 - Application lifecycle and start modes.  Statements only; proofs in App/SeqProofs.v
   (sequential model, every state of the application record) and App/Proofs.v (small-step model,
   every schedule that respects the quiescent-restart guard `adm`). *)
From Ergo Require Import Common.Base App.Seq App.Cases App.Model App.SeqProofs App.Proofs.

(* members in spec order, then the Start callback, exactly once per successful start; the
   dependencies are handled by the recursion of Seq.start_rec before app_start is reached *)
Theorem C17_start_order a sp x mode :
  a_st x = 1 -> fail_index sp x = None ->
  app_start a sp x mode =
    (mk_app 2 mode (seq 0 (sp_n sp)) (a_fail x), 0, start_block a (sp_n sp) mode) /\
  count_ev (is_start_of a) (start_block a (sp_n sp) mode) = 1.
Proof. exact (seq_start_order a sp x mode). Qed.
Print Assumptions C17_start_order.

Theorem C17_failed_start_clean a sp x mode k :
  a_st x = 1 -> fail_index sp x = Some k ->
  exists x' e, app_start a sp x mode = (x', 7, e) /\ a_st x' = 1 /\ a_live x' = [] /\
               count_ev (is_start_of a) e = 0.
Proof. exact (seq_failed_start_clean a sp x mode k). Qed.
Print Assumptions C17_failed_start_clean.

Theorem C17_mode_rule a x m r :
  a_st x = 2 -> mem m (a_live x) = true ->
  (rule_fires (a_mode x) r = true ->
     app_die a x m r = (mk_app 1 (a_mode x) [] (a_fail x), 0, [ETerm a r 0])) /\
  (rule_fires (a_mode x) r = false -> remove_nat m (a_live x) = [] ->
     app_die a x m r = (mk_app 1 (a_mode x) [] (a_fail x), 0, [ETerm a 0 0])) /\
  (rule_fires (a_mode x) r = false -> remove_nat m (a_live x) <> [] ->
     app_die a x m r = (mk_app 2 (a_mode x) (remove_nat m (a_live x)) (a_fail x), 0, [])).
Proof. exact (seq_mode_rule a x m r). Qed.
Print Assumptions C17_mode_rule.

Theorem C17_mode_rule_when mode r :
  rule_fires mode r = true <-> mode = 3 \/ (mode = 2 /\ r <> 0 /\ r <> 1).
Proof. exact (seq_rule_fires_spec mode r). Qed.
Print Assumptions C17_mode_rule_when.

(* small-step: once stopping, every member still in the group has been told to terminate or the
   thread that switched the state is about to tell them - all guarded schedules *)
Theorem C17_mode_rule_all_told n m threads sched :
  forallb initial_pc threads = true ->
  let c := run_adm sched (init_cfg n m threads) in
  st (sh c) = SS -> toldall (sh c) = true \/ count pretell (thr c) >= 1.
Proof. intros H. exact (stopping_tells_all n m threads sched H). Qed.
Print Assumptions C17_mode_rule_all_told.

(* Terminate callback at most once per run and never while running / stopping - all guarded
   schedules of concurrent member deaths, stop calls, starts and unloads *)
Theorem C17_terminate_once_with_cause n m threads sched :
  forallb initial_pc threads = true ->
  let c := run_adm sched (init_cfg n m threads) in
  runterms (sh c) <= 1 /\ (st (sh c) = SR \/ st (sh c) = SS -> runterms (sh c) = 0).
Proof. intros H. exact (terminate_once n m threads sched H). Qed.
Print Assumptions C17_terminate_once_with_cause.

(* ... with the causing reason: sequentially exactly (stop: shutdown / kill; C17_mode_rule: r / normal) *)
Theorem C17_stop_cause a x force :
  a_st x = 2 ->
  app_stop a x force = (mk_app 1 1 [] (a_fail x), 0, [ETerm a (if force then 2 else 1) 0]).
Proof. exact (seq_stop a x force). Qed.
Print Assumptions C17_stop_cause.

(* ... and under concurrency refuted (known finding cause-race) *)
Theorem C17_cause_race_refuted :
  exists threads sched, forallb initial_pc threads = true /\ cause_race_b threads sched = true.
Proof. exact cause_race_refuted. Qed.
Print Assumptions C17_cause_race_refuted.

Theorem C17_back_to_loaded_restartable n m threads sched mode' :
  forallb initial_pc threads = true ->
  let c := run_adm sched (init_cfg n m threads) in
  (st (sh c) = SL \/ st (sh c) = SUnl -> na (sh c) = 0 /\ ng (sh c) = 0) /\
  (st (sh c) = SL ->
     step_pc (sh c) (S_cas mode' None) = Some (started (sh c) mode', Done 0) /\
     st (started (sh c) mode') = SR /\ na (started (sh c) mode') = nmem (sh c) /\
     starts (started (sh c) mode') = S (starts (sh c)) /\ runterms (started (sh c) mode') = 0).
Proof.
  intros H. split; [exact (loaded_clean n m threads sched H) | exact (restartable n m threads sched mode')].
Qed.
Print Assumptions C17_back_to_loaded_restartable.

Theorem C17_stop_truthful n m threads sched i p s' :
  forallb initial_pc threads = true ->
  let c := run_adm sched (init_cfg n m threads) in
  nth_error (thr c) i = Some p -> returns_ok p = true ->
  step_pc (sh c) p = Some (s', Done 0) ->
  na (sh c) = 0 /\ ng (sh c) = 0.
Proof. intros H. exact (stop_truthful n m threads sched H i p s'). Qed.
Print Assumptions C17_stop_truthful.

Theorem C17_stop_truthful_seq a x force x' e :
  (a_st x <= 1 -> a_live x = []) ->
  app_stop a x force = (x', 0, e) -> a_st x' <= 1 /\ a_live x' = [].
Proof. exact (seq_stop_truthful a x force x' e). Qed.
Print Assumptions C17_stop_truthful_seq.

(* without the guard: a start racing with an in-flight terminate call (known finding restart-race) *)
Theorem C17_restart_race_refuted :
  exists threads sched, forallb initial_pc threads = true /\ restart_race_b threads sched = true.
Proof. exact restart_race_refuted. Qed.
Print Assumptions C17_restart_race_refuted.

(* dependency recursion after the fix b7945d3: a revisited application (cycle) is rejected with
   ErrApplicationDepends (5) and nothing is started; an unknown one with ErrApplicationUnknown (4) *)
Theorem C17_cyclic_deps_rejected f specs nd vis a :
  a_st (get nd a) <> 0 -> mem a vis = true -> start_rec (S f) specs nd vis a = (nd, 5, []).
Proof. exact (seq_cycle_detected f specs nd vis a). Qed.
Print Assumptions C17_cyclic_deps_rejected.

Theorem C17_unknown_app_rejected f specs nd vis a :
  a_st (get nd a) = 0 -> start_rec (S f) specs nd vis a = (nd, 4, []).
Proof. exact (seq_start_unknown f specs nd vis a). Qed.
Print Assumptions C17_unknown_app_rejected.
