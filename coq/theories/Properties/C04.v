(* C04 — Links and monitors: exactly one notification when the target goes away.
   Property theorems only; proofs live in Rel/. *)
From Coq Require Import Permutation.
From Ergo Require Import Common.Base Rel.Amap Rel.Model Rel.TMProofs Rel.RegProofs Rel.AgreeProofs Rel.RaceProofs Rel.Cases Rel.RaceGen Rel.RaceGenProofs Rel.NodeRace Rel.NodeRaceProofs.
Local Open Scope N_scope.

(* Every method of the concrete target manager (relations map + per-target index) refines the
   operation on a finite set of (consumer,target,kind), over ALL sequences of method calls;
   the index stays exactly the index of the relations (no leak, no ghost, no empty bucket). *)
Theorem C04_tm_refines_set : forall ops,
  idx_ok (fst (tm_run ops tm_empty)) /\
  Permutation (rels (fst (tm_run ops tm_empty))) (fst (set_run ops [])) /\
  results_equiv (snd (tm_run ops tm_empty)) (snd (set_run ops [])).
Proof. exact tm_refines_set. Qed.
Print Assumptions C04_tm_refines_set.

(* CleanupNode as set comprehension (reused by C14) *)
Theorem C14_cleanup_node : forall n m m' l mo,
  idx_ok m -> tm_cleanup_node n m = (m', l, mo) ->
  idx_ok m' /\
  (forall k, In k (rels m') <-> In k (rels m) /\ pnode (kc k) <> n /\ target_node (kt k) <> n) /\
  (forall t c, In (t, c) l <-> In (mkkey c t false) (rels m) /\ target_node t = n /\ pnode c <> n) /\
  (forall t c, In (t, c) mo <-> In (mkkey c t true) (rels m) /\ target_node t = n /\ pnode c <> n) /\
  NoDup l /\ NoDup mo.
Proof. exact cleanup_node_spec. Qed.
Print Assumptions C14_cleanup_node.

(* Sequential histories.  In the state reached by ANY finite sequence of complete operations
   (spawn with links, link/unlink/monitor/demonitor of every target kind, register/unregister of
   names, aliases, events, terminate, cascade), when a target t goes away with reason r
   (RouteTerminate{PID,ProcessID,Alias,Event} = drain), every process c finds in its mailbox exactly
   [due] more copies of each note x: one iff x names t with reason r, c holds that relation
   (link for exit, monitor for down) and c is alive; zero otherwise (no relation, relation removed
   beforehand, other target, other reason).  The relations of t are consumed, all others kept. *)
Theorem C04_sequential : forall ops nextpid uniq t r c x,
  let s := fst (run_ops ops (st0 nextpid uniq)) in
  cnt x c (drain t r s) = (cnt x c s + due t r s c x)%nat /\
  (forall k, In k (rels (s_tm (drain t r s))) <-> In k (rels (s_tm s)) /\ kt k <> t).
Proof.
  intros ops nextpid uniq t r c x s.
  assert (OK : idx_ok (s_tm s)) by (apply run_ops_idx_ok, idx_ok_empty).
  split; [apply drain_exact, OK | intros k; apply drain_rels, OK].
Qed.
Print Assumptions C04_sequential.

(* which steps a termination performs, in program order (unregisterProcess after commit caf4a93): the
   process-table delete, the CompareAndDelete of the registered name, the drain of the pid,
   CleanupConsumer, the drain of the name, then delete + drain of every alias and every event of
   the process record *)
Theorem C04_terminate_program : forall p pr r,
  term_prog_of p pr r =
  TDelProc p ::
  (match pr_name pr with Some n => [TDelName n p] | None => [] end) ++
  TDrain (TPid p) r :: TCleanCons p ::
  (match pr_name pr with Some n => [TDrain (TName n me) r] | None => [] end) ++
  flat_map (fun a => [TDelAlias a; TDrain (TAlias me a) r]) (pr_aliases pr) ++
  flat_map (fun e => [TDelEvent e; TDrain (TEvent e me) r]) (pr_events pr).
Proof. reflexivity. Qed.
Print Assumptions C04_terminate_program.

(* History level, record free.  After ANY history of complete operations (process ids not wrapping
   2^64), one more operation o of any kind puts into the mailbox of every process c exactly
   [expected o s c x] more copies of every note x, where the specification [expected] is computed
   from the node TABLES and the relation set only (C04_expected_spec): one copy iff the target named
   by x goes away in o with the reason carried by x, c holds that relation (link for an exit, monitor
   for a down) in the state before o, c is alive and is not the process terminating in o; zero
   otherwise - no relation, relation removed beforehand, other target, other reason, operation that
   makes nothing go away.  Which targets go away when p terminates is read from the tables
   (C04_gone_terminate_spec), not from p's record: that the record leads unregisterProcess to drain
   exactly those is the agreement invariant (C06_agreement_hist). *)
Theorem C04_sequential_hist : forall ops nextpid uniq o c x,
  nextpid + N.of_nat (length ops) < two64 ->
  let s := fst (run_ops ops (st0 nextpid uniq)) in
  cnt x c (fst (exec o s)) = (cnt x c s + expected o s c x)%nat.
Proof.
  intros ops nextpid uniq o c x NW s. apply exec_cnt.
  - apply run_ops_agree; [apply agree_st0 | exact NW].
  - apply run_ops_idx_ok, idx_ok_empty.
Qed.
Print Assumptions C04_sequential_hist.

(* the whole mailbox after a history: for every note exactly the copies prescribed over the history *)
Theorem C04_history_total : forall ops nextpid uniq c x,
  nextpid + N.of_nat (length ops) < two64 ->
  cnt x c (fst (run_ops ops (st0 nextpid uniq))) = expected_total ops (st0 nextpid uniq) c x.
Proof.
  intros ops nextpid uniq c x NW.
  rewrite (run_ops_cnt ops (st0 nextpid uniq) c x (agree_st0 _ _) idx_ok_empty NW). reflexivity.
Qed.
Print Assumptions C04_history_total.

Theorem C04_expected_spec : forall o s c x,
  (expected o s c x = 1%nat <->
     In (n_target x, n_reason x) (gone o s) /\ In (mkkey c (n_target x) (n_down x)) (rels (s_tm s)) /\
     live c s = true /\ victim o s <> Some c) /\
  (expected o s c x = 1%nat \/ expected o s c x = 0%nat).
Proof. exact expected_spec. Qed.
Print Assumptions C04_expected_spec.

Theorem C04_gone_terminate_spec : forall ops nextpid uniq p r t r',
  nextpid + N.of_nat (length ops) < two64 ->
  let s := fst (run_ops ops (st0 nextpid uniq)) in
  (In (t, r') (gone_terminate p r s) <->
   live p s = true /\ r' = r /\
   (t = TPid p \/ (exists n, t = TName n me /\ aget N.eq_dec n (s_names s) = Some p) \/
    (exists a, t = TAlias me a /\ aget N.eq_dec a (s_aliases s) = Some p) \/
    (exists e, t = TEvent e me /\ aget N.eq_dec e (s_events s) = Some p))).
Proof.
  intros ops nextpid uniq p r t r' NW s. apply gone_terminate_spec.
  apply run_ops_agree; [apply agree_st0 | exact NW].
Qed.
Print Assumptions C04_gone_terminate_spec.

(* The race: one link/monitor request (its atomic steps: existence load, relation insert, re-check,
   undo) on a local target by a live process other than p, against unregisterProcess(p, r) (its
   atomic steps), under EVERY schedule: the request returns an error and nothing is delivered, or
   it returns nil and exactly one notification is delivered, or it returns nil, the relation
   stands and the target still exists (it was not one of the things that went away). *)
Theorem C04_race : forall k r s p sched,
  idx_ok (s_tm s) -> live (kc k) s = true -> kc k <> p -> target_node (kt k) = me ->
  has k s = false ->
  let n0 := nn k r s in
  let c := run sched (race_cfg s k p r) in
  finished c = true ->
  match l_result (c_link c) with
  | RErr _ => has k (c_st c) = false /\ nn k r (c_st c) = n0
  | ROk => (has k (c_st c) = false /\ nn k r (c_st c) = S n0)
           \/ (has k (c_st c) = true /\ nn k r (c_st c) = n0 /\ exists_target (kt k) (c_st c) = true)
  | _ => False
  end.
Proof. exact race_link_vs_terminate. Qed.
Print Assumptions C04_race.

(* The same for EVERY way a local target goes away: x ranges over unregisterProcess(p, r),
   node.UnregisterName(n) (also process.UnregisterName), process.DeleteAlias(a),
   unregisterEvent(e) (process.UnregisterEvent) and the failure of ProcessInit of a process spawned
   with a registered name (node.spawn, after commit a054107), each transcribed as its atomic steps in program
   order - table delete, then drain (C04_remover_programs).  Every schedule of the request's steps
   against the remover's steps ends in: error, no relation, nothing delivered; or nil and exactly one
   notification; or nil, relation kept, target still there. *)
Theorem C04_race_any_remover : forall k x s sched,
  idx_ok (s_tm s) -> live (kc k) s = true -> (forall p r, x = RmTerminate p r -> kc k <> p) ->
  target_node (kt k) = me -> has k s = false ->
  let r := remover_reason x in
  let n0 := nn k r s in
  let c := run sched (remover_cfg s k x) in
  finished c = true ->
  match l_result (c_link c) with
  | RErr _ => has k (c_st c) = false /\ nn k r (c_st c) = n0
  | ROk => (has k (c_st c) = false /\ nn k r (c_st c) = S n0)
           \/ (has k (c_st c) = true /\ nn k r (c_st c) = n0 /\ exists_target (kt k) (c_st c) = true)
  | _ => False
  end.
Proof. exact race_link_vs_remover. Qed.
Print Assumptions C04_race_any_remover.

(* When the remover does take the requested target away (read from the tables: the pid of the
   terminating process, a name / alias / event it owns, the name / alias / event being
   unregistered), the third case is impossible: at the end of every schedule the target is gone,
   and the request has failed leaving no relation and no notification, or succeeded with exactly
   one notification delivered. *)
Theorem C04_race_exactly_one : forall k x s sched,
  idx_ok (s_tm s) -> live (kc k) s = true -> (forall p r, x = RmTerminate p r -> kc k <> p) ->
  target_node (kt k) = me -> has k s = false ->
  removes x (kt k) s = true ->
  let r := remover_reason x in
  let n0 := nn k r s in
  let c := run sched (remover_cfg s k x) in
  finished c = true ->
  exists_target (kt k) (c_st c) = false /\
  match l_result (c_link c) with
  | RErr _ => has k (c_st c) = false /\ nn k r (c_st c) = n0
  | ROk => has k (c_st c) = false /\ nn k r (c_st c) = S n0
  | _ => False
  end.
Proof. exact race_exactly_one. Qed.
Print Assumptions C04_race_exactly_one.

(* through the predicate the monitor spec_ilv evaluates on the real node *)
Theorem C04_race_outcome_ok : forall k x s sched,
  idx_ok (s_tm s) -> live (kc k) s = true -> (forall p r, x = RmTerminate p r -> kc k <> p) ->
  target_node (kt k) = me -> has k s = false ->
  let r := remover_reason x in
  let c := run sched (remover_cfg s k x) in
  finished c = true ->
  exists d, nn k r (c_st c) = (nn k r s + d)%nat /\
            outcome_ok (l_result (c_link c)) (has k (c_st c)) d (exists_target (kt k) (c_st c)) = true.
Proof. exact race_outcome_ok. Qed.
Print Assumptions C04_race_outcome_ok.

(* the programs of the explicit removers, in the order of the code *)
Theorem C04_remover_programs : forall s n p a e q,
  aget N.eq_dec n (s_names s) = Some q -> owned_by a p (s_aliases s) = true -> owned_by e p (s_events s) = true ->
  remover_prog s (RmUnregName n) = [TDelName n q; TDrain (TName n me) r_unreg] /\
  remover_prog s (RmDeleteAlias p a) = [TDelAlias a; TDrain (TAlias me a) r_unreg] /\
  remover_prog s (RmUnregEvent p e) = [TDelEvent e; TDrain (TEvent e me) r_unreg] /\
  remover_prog s (RmTerminate p r_kill) = term_prog s p r_kill /\
  (forall r, remover_prog s (RmInitFail n r) = [TDelName n q; TDrain (TName n me) r]).
Proof.
  intros s n p a e q A B C. unfold remover_prog. cbn [remover_prog_ord]. rewrite A, B, C. repeat split; reflexivity.
Qed.
Print Assumptions C04_remover_programs.

(* The order matters.  With "drain, then delete" (RouteTerminateEvent before events.Delete, and the
   same for names and aliases) the schedule [CleanupTarget | existence load, insert, re-check |
   table delete] ends with the request returning nil, its relation standing on a target that no
   longer exists and nothing delivered - for links and for monitors. *)
Theorem C04_drain_before_delete_refuted : forall mon,
  lost_run 7 mon lost_sched = true /\ lost_run 4 mon lost_sched = true /\ lost_run 6 mon lost_sched = true.
Proof.
  intros mon. split; [apply unregister_event_drain_first_refuted|split;
    [apply unregister_name_drain_first_refuted | apply delete_alias_drain_first_refuted]].
Qed.
Print Assumptions C04_drain_before_delete_refuted.

(* node.spawn before commit a054107: a failing ProcessInit deleted the registered name and drained
   nothing (program [names.Delete] alone).  A link / monitor by that name taken during the
   initialisation returns nil, keeps its relation on a name that no longer exists and is never
   told - no race needed: the request runs to its end, then the name is deleted. *)
Theorem C04_spawn_init_fail_refuted_before_fix : forall mon, init_fail_old_lost mon = true.
Proof. exact spawn_init_fail_without_drain_refuted. Qed.
Print Assumptions C04_spawn_init_fail_refuted_before_fix.

(* The NODE target.  process.LinkNode / MonitorNode (connection lookup, Add, re-check of the
   connection table, roll-back - the last two since commit da9362c) against
   network.unregisterConnection (connections.Delete, then RouteNodeDown = CleanupNode + sends), for a
   process of this node and every schedule of the two programs: at the end the connection is gone
   and the request has failed leaving no relation and no message, or it has returned nil and exactly
   one MessageExitNode (link) / MessageDownNode (monitor) was sent to the requester. *)
Theorem C04_node_race_exactly_one : forall k n n0,
  kt k = TNode n -> pnode (kc k) <> n ->
  forall s sched,
  idx_ok (ns_tm s) -> nhas k s = false -> ncnt k s = n0 ->
  let c := nrun true k n sched (mkncfg s NL_load (unreg_conn_prog true n)) in
  nfinished c = true ->
  nconn n (nc_st c) = false /\
  match nresult c with
  | RErr _ => nhas k (nc_st c) = false /\ ncnt k (nc_st c) = n0
  | ROk => nhas k (nc_st c) = false /\ ncnt k (nc_st c) = S n0
  | _ => False
  end.
Proof. exact node_race_exactly_one. Qed.
Print Assumptions C04_node_race_exactly_one.

(* both halves are needed: without the re-check (the code before commit da9362c) the schedule
   [lookup | connections.Delete, RouteNodeDown | insert] returns nil, leaves the relation on a node
   without connection and sends nothing; with the re-check but unregisterConnection written
   "RouteNodeDown, then connections.Delete" the schedule [CleanupNode | lookup, insert, re-check |
   delete] does the same. *)
Theorem C04_node_request_without_recheck_refuted : forall mon,
  nlost false true mon [true; false; false; true] = true.
Proof. exact node_request_without_recheck_refuted. Qed.
Print Assumptions C04_node_request_without_recheck_refuted.

Theorem C04_unregister_connection_drain_first_refuted : forall mon,
  nlost true false mon [false; true; true; true; false] = true.
Proof. exact unregister_connection_drain_first_refuted. Qed.
Print Assumptions C04_unregister_connection_drain_first_refuted.

(* non-vacuity: a concrete history (observer 1002 links and monitors process 1001 and its name, 1001
   is killed) reaches a state where the hypotheses hold and notifications are due and delivered;
   and a concrete race schedule [load; delete; drain; insert; re-check; undo] ends with an error *)
Example C04_example :
  let ops := [OSpawnNode (Some 5); OSpawnNode None; OLink (lpid 1002) (TPid (lpid 1001));
              OMonitor (lpid 1002) (TName 5 me); OTerminate (lpid 1001) r_kill] in
  inbox_of (lpid 1002) (fst (run_ops ops (st0 1000 0))) =
    [mknote false (TPid (lpid 1001)) r_kill; mknote true (TName 5 me) r_kill] /\
  rels (s_tm (fst (run_ops ops (st0 1000 0)))) = [] /\
  let s := fst (run_ops [OSpawnNode None; OSpawnNode None] (st0 1000 0)) in
  let c := run [true; false; false; true; true; true; false; false; false]
               (race_cfg s (mkkey (lpid 1002) (TPid (lpid 1001)) false) (lpid 1001) r_kill) in
  finished c = true /\ l_result (c_link c) = RErr e_process_unknown /\ inbox_of (lpid 1002) (c_st c) = [].
Proof. vm_compute. repeat split; reflexivity. Qed.

(* non-vacuity of the history-level statement: over the history of C04_example the specification
   prescribes exactly one exit for the pid link and one down for the name monitor of 1002, none
   for a third party, and that is what the mailboxes hold *)
Example C04_hist_example :
  let ops := [OSpawnNode (Some 5); OSpawnNode None; OSpawnNode None; OLink (lpid 1002) (TPid (lpid 1001));
              OMonitor (lpid 1002) (TName 5 me); OTerminate (lpid 1001) r_kill] in
  expected_total ops (st0 1000 0) (lpid 1002) (mknote false (TPid (lpid 1001)) r_kill) = 1%nat /\
  expected_total ops (st0 1000 0) (lpid 1002) (mknote true (TName 5 me) r_kill) = 1%nat /\
  expected_total ops (st0 1000 0) (lpid 1003) (mknote false (TPid (lpid 1001)) r_kill) = 0%nat /\
  expected_total ops (st0 1000 0) (lpid 1002) (mknote true (TPid (lpid 1001)) r_kill) = 0%nat.
Proof. vm_compute. repeat split; reflexivity. Qed.
