(* C04 — Links and monitors: exactly one notification when the target goes away.
   Property theorems only; proofs live in Rel/. *)
From Coq Require Import Permutation.
From Ergo Require Import Common.Base Rel.Amap Rel.Model Rel.TMProofs Rel.Cases.
Local Open Scope N_scope.

(* Every method of the concrete target manager (relations map + per-target index) refines the
   operation on a finite set of (consumer,target,kind), over ALL sequences of method calls;
   the index stays exactly the index of the relations (no leak, no ghost, no empty bucket). *)
Theorem C04_tm_refines_set : forall ops,
  idx_ok (fst (tm_run ops tm_empty)) /\
  Permutation (rels (fst (tm_run ops tm_empty))) (fst (set_run ops [])) /\
  results_equiv (snd (tm_run ops tm_empty)) (snd (set_run ops [])).
Proof. exact tm_refines_set. Qed.
Print Assumptions C04_tm_refines_set.

(* CleanupNode as set comprehension (reused by C14) *)
Theorem C14_cleanup_node : forall n m m' l mo,
  idx_ok m -> tm_cleanup_node n m = (m', l, mo) ->
  idx_ok m' /\
  (forall k, In k (rels m') <-> In k (rels m) /\ pnode (kc k) <> n /\ target_node (kt k) <> n) /\
  (forall t c, In (t, c) l <-> In (mkkey c t false) (rels m) /\ target_node t = n /\ pnode c <> n) /\
  (forall t c, In (t, c) mo <-> In (mkkey c t true) (rels m) /\ target_node t = n /\ pnode c <> n) /\
  NoDup l /\ NoDup mo.
Proof. exact cleanup_node_spec. Qed.
Print Assumptions C14_cleanup_node.
