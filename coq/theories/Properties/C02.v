(* C02 - Local delivery: exactly once, no lost wake-up, truthful send result. *)
From Ergo Require Import Common.Base Sched.Model Sched.CountFacts Sched.QueueFacts Sched.TokenInv
  Sched.TokenProofs Sched.IdInv Sched.MailboxProofs Sched.Delayed Sched.MetaModel Sched.MetaProofs Sched.MetaIdProofs.
From Ergo Require Mbox.Fallback Mbox.FallbackProofs.
From Coq Require Import Sorting.Permutation.

Definition reach sched named lim fb selfs initok others := run sched (init_cfg named lim fb selfs initok others).

(* No lost wake-up.  For any number of concurrent senders (by pid or name), Kill callers,
   self-sends during init and any schedule: once every goroutine has finished, a process that
   is asleep has an empty mailbox - no message waits for later traffic to wake the process. *)
Theorem C02_no_lost_wakeup : forall sched named lim fb selfs initok others,
  let c0 := init_cfg named lim fb selfs initok others in
  Forall (fun p => init_pc p = true) others -> NoDup (init_ids c0) ->
  let c := run sched c0 in
  quiescent c = true -> st (sh c) = Sleep -> forall k, qget (qs (sh c)) k = [].
Proof.
  intros sched named lim fb selfs initok others c0 Hall Hnd c Hq Hst.
  eapply AllInv_no_lost_wakeup; [apply AllInv_reachable; assumption | assumption | assumption].
Qed.
Print Assumptions C02_no_lost_wakeup.

(* Exactly once + truthful results, in every reachable configuration: no message is handled
   twice; a message whose send returned an error is never handled nor queued; the accepted
   messages are exactly the handled ones plus those linked in the mailbox. *)
Theorem C02_accounting : forall sched named lim fb selfs initok others,
  let c0 := init_cfg named lim fb selfs initok others in
  Forall (fun p => init_pc p = true) others -> NoDup (init_ids c0) ->
  let c := run sched c0 in
  forall x,
    occ x (handled (sh c)) <= 1 /\
    (1 <= occ x (errs (sh c)) -> occ x (handled (sh c)) = 0 /\ Qa x (qs (sh c)) = 0) /\
    occ x (oks (sh c)) = occ x (handled (sh c)) + Ql x (qs (sh c)).
Proof.
  intros sched named lim fb selfs initok others c0 Hall Hnd c.
  eapply AllInv_ids; [apply AllInv_reachable; assumption|].
  intros x. rewrite init_N_occ. apply NoDup_occ_le1. exact Hnd.
Qed.
Print Assumptions C02_accounting.

(* The statement of the property for a process that stays alive: when all senders have
   returned, every send that reported success has been handled exactly once (the handled
   list is a duplicate-free permutation of the accepted ones) and the process sleeps on an
   empty mailbox. *)
Theorem C02_exactly_once_alive : forall sched named lim fb selfs initok others,
  let c0 := init_cfg named lim fb selfs initok others in
  Forall (fun p => init_pc p = true) others -> NoDup (init_ids c0) ->
  let c := run sched c0 in
  quiescent c = true -> fin (sh c) = false -> initfail (sh c) = false ->
  st (sh c) = Sleep /\ NoDup (handled (sh c)) /\ Permutation (oks (sh c)) (handled (sh c)).
Proof.
  intros sched named lim fb selfs initok others c0 Hall Hnd c Hq Hfin Hif.
  pose proof (AllInv_reachable sched named lim fb selfs initok others Hall Hnd) as HA. fold c0 in HA. fold c in HA.
  assert (HN : forall x, init_N c0 x <= 1) by (intros x; rewrite init_N_occ; apply NoDup_occ_le1; exact Hnd).
  assert (Hst : st (sh c) = Sleep) by (eapply AllInv_quiescent_state; eauto).
  split; [exact Hst|]. split.
  - apply occ_le1_NoDup. intros x. apply (AllInv_ids _ _ HA HN x).
  - apply occ_perm. intros x. destruct (AllInv_ids _ _ HA HN x) as (_ & _ & H3).
    rewrite H3, (Ql_empty x); [lia|]. eapply AllInv_no_lost_wakeup; eauto.
Qed.
Print Assumptions C02_exactly_once_alive.

(* Bounded mailbox with a fallback process: a message refused by the full mailbox is re-routed
   to the fallback exactly once (wrapped - the harness checks original pid and tag on the real
   node), and is then neither queued, nor handled by the original recipient, nor reported as an
   error; without a fallback it is reported as an error (C02_accounting). *)
Theorem C02_fallback : forall sched named lim fb selfs initok others,
  let c0 := init_cfg named lim fb selfs initok others in
  Forall (fun p => init_pc p = true) others -> NoDup (init_ids c0) ->
  let c := run sched c0 in
  forall x, occ x (fbs (sh c)) <= 1 /\
    (1 <= occ x (fbs (sh c)) ->
       occ x (handled (sh c)) = 0 /\ Qa x (qs (sh c)) = 0 /\ occ x (errs (sh c)) = 0 /\ occ x (oks (sh c)) = 0).
Proof.
  intros sched named lim fb selfs initok others c0 Hall Hnd c.
  eapply AllInv_fallback; [apply AllInv_reachable; assumption|].
  intros x. rewrite init_N_occ. apply NoDup_occ_le1. exact Hnd.
Qed.
Print Assumptions C02_fallback.

(* Delayed sends: for any number of cancel() calls in any interleaving with the timer: never
   sent twice; a cancellation that reported success means it is never sent; without one, once the
   timer has run it was sent exactly once.  (Hypothesis = the contract of time.Timer.Stop.) *)
Theorem C02_delayed : forall sched stops,
  let c := d_run sched (d_init stops) in
  d_sends c <= 1 /\
  (n_true (d_results c) >= 1 -> d_sends c = 0) /\
  (d_count is_expire (d_thr c) = 0 -> n_true (d_results c) = 0 -> d_sends c = 1).
Proof. exact delayed_send_exact. Qed.
Print Assumptions C02_delayed.

(* Meta-processes (node/meta.go): for any number of senders to the alias, the parent's termination,
   any moment at which Start() ends and every schedule, each pushed message is in exactly one place:
   still with its sender, in the system / main queue, or handled. *)
Theorem C02_meta_accounting : forall fx sched n r others x,
  let c := mrun fx sched (m_init_cfg n r others) in
  mcount (pushing x) (mthr c) + qocc x (msys (msh c)) + qocc x (mmain (msh c)) + hocc x (mhandled (msh c))
  = mcount (pushing x) others.
Proof. exact meta_accounting. Qed.
Print Assumptions C02_meta_accounting.

(* ... so nothing is handled twice and nothing is handled that was not sent *)
Theorem C02_meta_handled_at_most_once : forall fx sched n r others x,
  mcount (pushing x) others <= 1 ->
  hocc x (mhandled (msh (mrun fx sched (m_init_cfg n r others)))) <= 1.
Proof. exact meta_handled_at_most_once. Qed.
Print Assumptions C02_meta_handled_at_most_once.

Theorem C02_meta_handled_was_pushed : forall fx sched n r others x,
  1 <= hocc x (mhandled (msh (mrun fx sched (m_init_cfg n r others)))) ->
  1 <= mcount (pushing x) others.
Proof. exact meta_handled_was_pushed. Qed.
Print Assumptions C02_meta_handled_was_pushed.

(* ... and a message that is neither with its sender nor queued any more has been handled *)
Theorem C02_meta_handled_when_gone : forall fx sched n r others x,
  let c := mrun fx sched (m_init_cfg n r others) in
  mcount (pushing x) (mthr c) = 0 -> qocc x (msys (msh c)) = 0 -> qocc x (mmain (msh c)) = 0 ->
  hocc x (mhandled (msh c)) = mcount (pushing x) others.
Proof. exact meta_handled_when_gone. Qed.
Print Assumptions C02_meta_handled_when_gone.

(* non-vacuity: two senders racing the runner's sleep transition; both handled, asleep, empty *)
Example C02_example :
  let c0 := init_cfg true 0 false [mk_msg 9 2 (BOk 0)] true
              [S_load false [mk_msg 1 2 (BOk 0); mk_msg 2 0 (BOk 1)]; S_load true [mk_msg 3 1 (BOk 0)]] in
  let c := run (repeat 0 12 ++ repeat 3 22 ++ [1;1;1;1] ++ repeat 3 3 ++ [2;2;2;2;2;2;1;1;1;1;1;1;1;1] ++ repeat 3 10
                ++ repeat 4 60 ++ repeat 5 60 ++ repeat 1 20 ++ repeat 2 20 ++ repeat 6 60 ++ repeat 7 60) c0 in
  NoDup (init_ids c0) /\ quiescent c = true /\ st (sh c) = Sleep /\ length (handled (sh c)) = 4.
Proof.
  vm_compute. split; [|repeat split; reflexivity].
  repeat constructor; cbn; intuition discriminate.
Qed.

(* ---- fallback chains and rings ------------------------------------------------------------------
   A message refused by a full mailbox is re-routed to the process named as fallback, wrapped in
   MessageFallback; that process may itself be full and name a fallback, and so on.  Model
   Mbox/Fallback.v of the routing in node/core.go (after the fix "fallback loop"): for EVERY set of
   processes, mailbox states and fallback names - chains, rings, self references, names nobody holds -
   one send terminates; it ends in exactly one mailbox, that of the first process on the fallback path
   from the addressee whose mailbox takes it, wrapped once per process that refused it (each at most once,
   in path order), or the sender gets an error whose cause is on that path.  Before the fix a ring of full
   mailboxes recursed for ever: one Send killed the node (fatal stack overflow). *)
Module FB := Mbox.Fallback.
Module FBP := Mbox.FallbackProofs.

Theorem C02_fallback_routing_terminates : forall n procs to,
  FBP.bounded n procs -> FB.send n procs to <> None.
Proof. exact FBP.send_terminates. Qed.
Print Assumptions C02_fallback_routing_terminates.

Theorem C02_fallback_delivers_once_on_the_path : forall n procs to d ws,
  FB.send n procs to = Some (FB.Delivered d ws) ->
  FB.p_exists (procs d) = true /\ FB.p_full (procs d) = false /\ FBP.is_path procs to ws d /\ NoDup ws /\ ~ In d ws.
Proof. exact FBP.send_delivers. Qed.
Print Assumptions C02_fallback_delivers_once_on_the_path.

Theorem C02_fallback_error_has_a_cause : forall procs start fuel to chain,
  FBP.is_path procs start chain to ->
  FB.route true fuel procs to chain = Some FB.ErrFull ->
  exists last refusers, FBP.is_path procs start refusers last /\ FB.p_exists (procs last) = true /\ FB.p_full (procs last) = true /\
    (FB.p_fb (procs last) = None \/ FB.p_fb (procs last) = Some last \/ In last refusers).
Proof. exact FBP.route_error. Qed.
Print Assumptions C02_fallback_error_has_a_cause.

Theorem C02_fallback_ring_diverges_before_fix : forall fuel to chain,
  (to < 2)%nat -> FB.route false fuel FBP.ring2 to chain = None.
Proof. exact FBP.ring_diverges_before_fix. Qed.
Print Assumptions C02_fallback_ring_diverges_before_fix.

Example C02_fallback_examples :
  FB.send 2 FBP.ring2 0 = Some FB.ErrFull /\ FB.send 3 FBP.chain3 0 = Some (FB.Delivered 2 [1; 0]%nat) /\ FBP.bounded 3 FBP.chain3.
Proof. split; [exact (proj1 FBP.ring_after_fix)|]. exact FBP.chain_example. Qed.
