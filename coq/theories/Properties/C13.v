(* C13 — Network FIFO between a pair of processes.
   Property theorems only; model in Proto/Model.v, proofs in Proto/Proofs.v. *)
From Ergo Require Import Common.Base Proto.Model Proto.Proofs Proto.Redial Proto.RedialProofs.
From Ergo Require Proto.RecvLock Proto.RecvLockProofs Proto.RecvFifo Proto.Flusher Proto.FlusherProofs.
Local Open Scope Z_scope.

(* with order keeping on, the order byte derived from a process id is never 0 (0 = round robin) *)
Theorem C13_order_byte_nonzero : forall id, 1 <= order_of_id id <= 255.
Proof. exact order_of_id_range. Qed.
Print Assumptions C13_order_byte_nonzero.

(* all frames of one (from, to) pair use one link and one receive queue, whatever the
   round-robin counters (i.e. whatever anybody else sends), for a pool of constant length l *)
Theorem C13_selection : forall from a l nq,
  addressed a = true ->
  forall rr rr' recvN recvN',
    fst (link_sel (link_order true from) l rr) = fst (link_sel (link_order true from) l rr') /\
    fst (link_sel (link_order true from) l rr) = link_of (order_of_id from) l /\
    snd (link_sel (link_order true from) l rr) = rr /\
    queue_sel (peer_order true from a) nq recvN = queue_sel (peer_order true from a) nq recvN' /\
    queue_sel (peer_order true from a) nq recvN = queue_of (peer_order true from a) nq.
Proof. exact selection. Qed.
Print Assumptions C13_selection.

(* FIFO for a constant pool: per-link FIFO (TCP + C12 reassembly, hypothesis), in-order push by
   serve(), one worker per queue, arbitrary interleaving of everything else *)
Theorem C13_fifo_partial : forall (A : Type) (link queue : A -> nat) (nl nq : nat) (sent : list A)
    (received_on : nat -> list A),
  (forall i, received_on i = filter (fun x => Nat.eqb (link x) i) sent) ->
  forall arrived : list (list A),
  length arrived = nq ->
  (forall q, (q < nq)%nat ->
     Merge (map (fun i => filter (fun x => Nat.eqb (queue x) q) (received_on i)) (seq 0 nl)) (nth q arrived [])) ->
  forall delivered, Merge arrived delivered ->
  forall (P : A -> bool) (i0 q0 : nat),
    (forall x, P x = true -> link x = i0 /\ queue x = q0) ->
    (i0 < nl)%nat -> (q0 < nq)%nat ->
    filter P delivered = filter P sent.
Proof. exact @fifo. Qed.
Print Assumptions C13_fifo_partial.

(* the full statement ("at every moment of the connection's life, including while pooled links
   are being added") is false for the code: once a link has joined, link_of changes for the same
   sender and the newer frame may overtake the older one *)
Theorem C13_fifo_refuted_pool_grows :
  exists (from : Z) (sent : list Z) (pool_len : Z -> Z) (delivered : list Z),
    let link x := Z.to_nat (link_of (order_of_id from) (pool_len x)) in
    Merge (map (fun i => filter (fun x => Nat.eqb (link x) i) sent) (seq 0 2)) delivered /\
    delivered <> sent.
Proof. exact fifo_refuted_pool_grows. Qed.
Print Assumptions C13_fifo_refuted_pool_grows.

(* FIFO across link drops and re-dials (constant pool: a re-dialed link keeps its pool item): when
   the link of a pair goes through epochs, each receiving a run of what was written to it (what a
   drop cut is lost), the pair's messages that are delivered are exactly those runs, in the order
   sent, none twice *)
Theorem C13_fifo_redial : forall (A : Type) (link queue : A -> nat) (nl nq : nat) (received_on : nat -> list A)
    (arrived : list (list A)) (delivered : list A) (sent_on : nat -> list A) (epochs_of : nat -> list (list A))
    (P : A -> bool) (i0 q0 : nat),
  (forall i x, In x (received_on i) -> link x = i) ->
  length arrived = nq ->
  (forall q, (q < nq)%nat ->
     Merge (map (fun i => filter (fun x => Nat.eqb (queue x) q) (received_on i)) (seq 0 nl)) (nth q arrived [])) ->
  Merge arrived delivered ->
  (forall x, P x = true -> link x = i0 /\ queue x = q0) -> (i0 < nl)%nat -> (q0 < nq)%nat ->
  received_on i0 = concat (epochs_of i0) -> Segments (sent_on i0) (epochs_of i0) ->
  filter P delivered = filter P (concat (epochs_of i0)) /\
  Subseq (filter P delivered) (filter P (sent_on i0)) /\
  (NoDup (sent_on i0) -> NoDup (filter P delivered)).
Proof. exact @fifo_redial. Qed.
Print Assumptions C13_fifo_redial.

(* what the link's receiver obtains over the epochs is the hypothesis `received_on i0 = concat ...`
   above: the re-dial loop of Join yields the whole frames of every epoch, in order *)
Theorem C13_redial_link_order : forall maxsize eps fss,
  Forall2 (epoch_yields maxsize) eps fss -> Forall (fun fs => fs <> []) (tl fss) ->
  link_received maxsize eps = concat fss.
Proof. exact redial_exact. Qed.
Print Assumptions C13_redial_link_order.

(* serving the re-dialed socket with the first join's tail breaks it: 1 is delivered after 5 *)
Theorem C13_redial_first_tail_refuted :
  exists eps fss, Forall2 (epoch_yields 0) eps fss /\ Forall (fun fs => fs <> []) (tl fss) /\
    link_received_first_tail 0 eps = map fr [1; 2; 3; 4; 5; 1; 2; 7; 8] /\
    link_received_first_tail 0 eps <> concat fss /\ ~ NoDup (link_received_first_tail 0 eps).
Proof. exact redial_first_tail_refuted. Qed.
Print Assumptions C13_redial_first_tail_refuted.

(* what byte 0 means, and that the pre-fix formula produced it for ids that are multiples of 255 *)
Example C13_example :
  (fst (link_sel 0 2 0) <> fst (link_sel 0 2 1) /\ queue_sel 0 4 1 <> queue_sel 0 4 2) /\
  (1020 mod 255 = 0 /\ order_of_id 1020 = 1) /\
  link_sel (link_order true 1020) 2 7 = (1, 7) /\ queue_sel (peer_order true 1020 (ToPid 1021)) 8 5 = 2.
Proof.
  split; [exact order_zero_is_round_robin|]. split; [exact order_byte_old_formula_zero|]. split; reflexivity.
Qed.

(* ---- one handler per receive queue: the premise "one worker per queue" of the FIFO theorems above ----
   serve() of every pooled link pushes the frame and starts a handler iff it wins queue.Lock();
   handleRecvQueue pops until the queue is empty, unlocks, looks again and re-locks.  In the small-step
   model of this protocol (Proto/RecvLock.v; any number of links, any frames per link, one step = one
   shared access) for EVERY schedule: at most one goroutine is inside the frame loop of a queue; frames
   are handed to the core in the order they were pushed; when every goroutine has finished, every pushed
   frame has been handed over and the lock is free; every frame a link received is pushed exactly once. *)
Module RL := Proto.RecvLock.
Module RLP := Proto.RecvLockProofs.

Theorem C13_single_handler_per_queue : forall links sched,
  (RL.count RL.handling (RL.thr (RL.run false sched (RL.init_cfg links))) <= 1)%nat.
Proof. exact RLP.single_handler. Qed.
Print Assumptions C13_single_handler_per_queue.

Theorem C13_handover_in_push_order : forall links sched,
  let c := RL.run false sched (RL.init_cfg links) in
  RL.pushed (RL.sh c) = RL.delivered (RL.sh c) ++ RL.in_work (RL.thr c) ++ RL.queue (RL.sh c) /\
  (length (RL.in_work (RL.thr c)) <= 1)%nat.
Proof. exact RLP.handover_in_push_order. Qed.
Print Assumptions C13_handover_in_push_order.

Theorem C13_nothing_stranded : forall links sched,
  let c := RL.run false sched (RL.init_cfg links) in
  RL.quiescent c = true ->
  RL.queue (RL.sh c) = [] /\ RL.delivered (RL.sh c) = RL.pushed (RL.sh c) /\ RL.lock (RL.sh c) = false.
Proof. exact RLP.nothing_stranded. Qed.
Print Assumptions C13_nothing_stranded.

Theorem C13_every_frame_pushed_once : forall links sched x,
  let c := RL.run false sched (RL.init_cfg links) in
  count_occ Nat.eq_dec (RL.pushed (RL.sh c) ++ RLP.pending (RL.thr c)) x = count_occ Nat.eq_dec (concat links) x.
Proof. exact RLP.all_frames_pushed. Qed.
Print Assumptions C13_every_frame_pushed_once.

(* Lock() written as "load, then store" (two shared accesses): two handlers on one queue, frames handed
   over in the wrong order *)
Theorem C13_two_step_lock_refuted :
  exists links sched,
    RL.count RL.handling (RL.thr (RL.run true (firstn 10 sched) (RL.init_cfg links))) = 2%nat /\
    let c := RL.run true sched (RL.init_cfg links) in
    RL.pushed (RL.sh c) = [1; 2]%nat /\ RL.delivered (RL.sh c) = [2; 1]%nat.
Proof. exact RLP.two_step_lock_refuted. Qed.
Print Assumptions C13_two_step_lock_refuted.

Example C13_recv_example :
  let c := RL.run false (concat (repeat [0; 1; 2; 3; 4; 5; 6; 7] 30)%nat) (RL.init_cfg [[1; 2]; [3]; [4; 5]]%nat) in
  RL.quiescent c = true /\ RL.delivered (RL.sh c) = RL.pushed (RL.sh c) /\ length (RL.delivered (RL.sh c)) = 5%nat.
Proof. exact RLP.recv_example. Qed.

(* ... which are, for one receive queue, exactly the two premises about the CODE that C13_fifo takes as
   Section hypotheses (pushed_in_order, one_worker_per_queue): at quiescence of every schedule what was
   handed to the core is an interleaving of the frame lists the pooled links delivered, draining all of
   them, each link in its own order *)
Theorem C13_receive_queue_merges_links : forall links sched,
  let c := RL.run false sched (RL.init_cfg links) in
  RL.quiescent c = true -> Merge links (RL.pushed (RL.sh c)) /\ RL.delivered (RL.sh c) = RL.pushed (RL.sh c).
Proof. exact Proto.RecvFifo.recv_queue_merges_links. Qed.
Print Assumptions C13_receive_queue_merges_links.

(* ---- the write side of a link (lib/flusher.go): the premise "TCP delivers the bytes of a link in the order of
   the Write calls" starts at the writer.  For every sequence of Write calls and timer firings, with bufio
   splitting the data in any way: what reached the socket followed by what is buffered is what was written, in
   order; buffered bytes always have an armed timer; after the timer nothing is left.  A writer that hands
   large chunks to the socket without flushing first reorders (seeded change): refuted. *)
Module FL := Proto.Flusher.
Theorem C13_flusher_keeps_order : forall cap ops,
  let s := FL.frun cap ops in
  FL.f_out s ++ FL.f_buf s = FL.written ops /\ (FL.f_pending s = false -> FL.f_buf s = []).
Proof. exact Proto.FlusherProofs.flusher_keeps_order. Qed.
Print Assumptions C13_flusher_keeps_order.

Theorem C13_flusher_complete_after_tick : forall cap ops,
  FL.f_out (FL.frun cap (ops ++ [FL.FTick])) = FL.written ops.
Proof. exact Proto.FlusherProofs.flusher_complete_after_tick. Qed.
Print Assumptions C13_flusher_complete_after_tick.

Theorem C13_flusher_bypass_refuted :
  exists ops, FL.f_out (fold_left (Proto.FlusherProofs.fstep_bypass 16 4) ops (FL.mk_f [] [] false)) = [9; 9; 9; 9; 9; 1; 2]%Z /\
              FL.written ops = [1; 2; 9; 9; 9; 9; 9]%Z.
Proof. exact Proto.FlusherProofs.bypass_reorders_refuted. Qed.
Print Assumptions C13_flusher_bypass_refuted.
