(* C16 — Hostile input safety of decoder, handshake and frame parser.
   Property theorems only; definitions in Hostile/Alloc.v, Hostile/Frames.v (models) and Edf/Model.v (the
   decoder, a total function on arbitrary byte lists); proofs in Hostile/*Proofs.v, AllocRefuted.v, Idem.v. *)
From Ergo Require Import Common.Base Common.Bytes Common.Codec Edf.Model
  Hostile.Alloc Hostile.AllocProofs Hostile.AllocRefuted Hostile.Idem Hostile.Frames Hostile.FramesProofs
  Hostile.HsMsg.
Local Open Scope N_scope.

(* ---- EDF decoder: memory against input ------------------------------------------------------------- *)

(* Whenever the decoder accepts a prefix of ANY byte string - under every option set, every registry,
   every type descriptor on the wire (arrays included), every nesting depth - what it allocated is at
   most KA = 200 bytes per consumed byte, and the remainder is a suffix no longer than the input. *)
Theorem C16_alloc_accepted_linear : forall o bs t v rest,
  decode o bs = Ok (t, v, rest) ->
  blen rest <= blen bs /\ alloc o bs <= KA * (blen bs - blen rest).
Proof. exact alloc_accepted_linear. Qed.
Print Assumptions C16_alloc_accepted_linear.

(* the bound with its explicit guard: the input is accepted *)
Theorem C16_alloc_bound_partial : forall o bs,
  is_ok (decode o bs) = true -> alloc o bs <= KA * blen bs.
Proof. exact alloc_bound_partial. Qed.
Print Assumptions C16_alloc_bound_partial.

(* without the guard the bound is false for the code as it is (any K0 up to a MiB) ... *)
Theorem C16_alloc_bound_refuted : exists o bs, KA * blen bs + 1048576 < alloc o bs.
Proof. exact alloc_bound_refuted. Qed.
Print Assumptions C16_alloc_bound_refuted.

(* ... 9 rejected bytes allocate 2 GiB (array length in a type descriptor is never compared with the input) *)
Theorem C16_alloc_refuted_array :
  exists bs, blen bs = 9 /\ is_ok (decode o_plain bs) = false /\ 2147483647 <= alloc o_plain bs.
Proof. exact alloc_refuted_array. Qed.
Print Assumptions C16_alloc_refuted_array.

(* ... 14 rejected bytes ask for more than 2^63 bytes in one allocation (the Go runtime aborts the process) *)
Theorem C16_alloc_refuted_array_fatal :
  exists bs, blen bs = 14 /\ is_ok (decode o_plain bs) = false /\ 2 ^ 63 <= alloc o_plain bs.
Proof. exact alloc_refuted_array_fatal. Qed.
Print Assumptions C16_alloc_refuted_array_fatal.

(* ... and without any array: nested interface slices whose counts each pass the
   "count <= remaining bytes" check allocate quadratically before the innermost level fails *)
Theorem C16_alloc_refuted_nested :
  exists bs, blen bs = 2000 /\ is_ok (decode o_deep bs) = false /\ 1500 * blen bs <= alloc o_deep bs.
Proof. exact alloc_refuted_nested. Qed.
Print Assumptions C16_alloc_refuted_nested.

(* repaired (03c4501): the registered-map decoder allocated its declared count before checking it *)
Theorem C16_alloc_regmap_before_fix :
  blen w_regmap = 10 /\ is_ok (decode o_regmap w_regmap) = false /\
  4294967295 * 24 <= alloc_gen false o_regmap w_regmap /\ alloc_gen true o_regmap w_regmap = 8.
Proof. exact alloc_regmap_before_fix. Qed.
Print Assumptions C16_alloc_regmap_before_fix.

(* ---- EDF decoder: idempotence --------------------------------------------------------------------- *)

(* what decodes, re-encodes (options of the opposite direction) to bytes that decode - with any
   continuation - to the same type and the canonical form of the value; guard: the class of values
   covered by the round-trip theorem of C11 *)
Theorem C16_idempotent : forall o bs t v rest bs',
  decode o bs = Ok (t, v, rest) ->
  reenc_guard o t v = true ->
  encode (dual o) t v = Ok bs' ->
  forall rest', decode o (bs' ++ rest') = Ok (t, canon (dual o) v, rest').
Proof. exact idempotent. Qed.
Print Assumptions C16_idempotent.

Theorem C16_idempotent_same : forall o bs t v rest bs',
  decode o bs = Ok (t, v, rest) ->
  reenc_guard o t v = true ->
  canon (dual o) v = v ->
  encode (dual o) t v = Ok bs' ->
  exists v', (forall rest', decode o (bs' ++ rest') = Ok (t, v', rest')) /\ v' = v.
Proof. exact idempotent_same. Qed.
Print Assumptions C16_idempotent_same.

Example C16_idempotent_example : ex_idem_b = true.
Proof. exact idempotent_example. Qed.
Print Assumptions C16_idempotent_example.

(* ---- frames ----------------------------------------------------------------------------------------- *)

(* For every byte stream, every message size limit and every dispatch table: no index expression of
   the un-recovered serve goroutine is out of range - the process survives the frame reader. *)
Theorem C16_frames_safe : forall max tbl s, is_crash (run_stream (cfg_now max) tbl s) = false.
Proof. exact frames_safe. Qed.
Print Assumptions C16_frames_safe.

(* before cda3993: the 8-byte stream 78 1 0 0 0 3 0 101 killed the process (index out of range [6]) *)
Theorem C16_frames_refuted_before_fix :
  t_fin (run_stream (cfg_old 0) rows w_short) = FCrash 6 /\
  t_fin (run_stream (cfg_now 0) rows w_short) = FClosed.
Proof. exact frames_refuted_before_fix. Qed.
Print Assumptions C16_frames_refuted_before_fix.

(* every frame handed to the dispatcher (>= 8 bytes) is decoded, ignored or inflated - never a panic:
   the guards cover every index the cases read (after da1e55c) *)
Theorem C16_dispatch_no_panic : forall f, 8 <= blen f -> dispatch rows f <> DPanic.
Proof. exact dispatch_no_panic. Qed.
Print Assumptions C16_dispatch_no_panic.

Theorem C16_guards_refuted_before_fix :
  dispatch rows_old w_pid30 = DPanic /\ dispatch rows_old w_name18 = DPanic /\
  dispatch rows w_pid30 = DDrop /\ dispatch rows w_name18 = DDrop.
Proof. exact guards_refuted_before_fix. Qed.
Print Assumptions C16_guards_refuted_before_fix.

(* the compression envelope allocates its declared size before inflating: 14 bytes, 4 GiB *)
Theorem C16_decompress_alloc_refuted : blen w_z_bomb = 14 /\ z_alloc w_z_bomb = 4294967295.
Proof. exact z_alloc_refuted. Qed.
Print Assumptions C16_decompress_alloc_refuted.

(* ---- handshake messages of a peer that knows the cookie -------------------------------------------- *)

(* Every decoded MessageIntroduce / MessageAccept that is not valid (nil error in ErrCache, empty / own /
   unexpected node name, creation 0, pool size outside 1..1024) is rejected before any of its fields is
   used: the outcome is the plain rejection, not one of the failures the uses can produce. *)
Theorem C16_hs_invalid_rejected : forall m, hs_msg_ok m = false -> hs_outcome true m = HRejected.
Proof. exact hs_invalid_rejected. Qed.
Print Assumptions C16_hs_invalid_rejected.

(* ... and a valid one leads to an established connection; no message makes the node fail *)
Theorem C16_hs_valid_connected : forall m, hs_msg_ok m = true -> hs_outcome true m = HConnected.
Proof. exact hs_valid_connected. Qed.
Print Assumptions C16_hs_valid_connected.

Theorem C16_hs_never_crash : forall m w, hs_outcome true m <> HCrash w.
Proof. exact hs_never_crash. Qed.
Print Assumptions C16_hs_never_crash.

(* before 3b195ea: a nil error in the peer's ErrCache was dereferenced (acceptor goroutine / caller of GetNode) *)
Theorem C16_hs_errcache_refuted_before_fix :
  hs_outcome false w_errnil = HCrash 1 /\ hs_outcome false w_errnil_dial = HCrash 1 /\
  hs_outcome true w_errnil = HRejected /\ hs_outcome true w_errnil_dial = HRejected.
Proof. exact hs_errcache_refuted_before_fix. Qed.
Print Assumptions C16_hs_errcache_refuted_before_fix.

(* before 46fa1fe: pool size 0, -1, 2^62 (its fourfold wraps to 0): no receive queues, serve divides by
   zero; 2^20: memory exhausted building the queues *)
Theorem C16_hs_poolsize_refuted_before_fix :
  hs_outcome false w_pool0 = HCrash 2 /\ hs_outcome false w_pool_neg = HCrash 2 /\
  hs_outcome false w_pool_wrap = HCrash 2 /\ hs_outcome false w_pool_big = HCrash 3 /\
  hs_outcome true w_pool0 = HRejected /\ hs_outcome true w_pool_neg = HRejected /\
  hs_outcome true w_pool_wrap = HRejected /\ hs_outcome true w_pool_big = HRejected.
Proof. exact hs_poolsize_refuted_before_fix. Qed.
Print Assumptions C16_hs_poolsize_refuted_before_fix.
