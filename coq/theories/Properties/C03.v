(* C03 - Mailbox ordering: per-sender FIFO within a priority, strict priority classes. *)
From Ergo Require Import Common.Base Sched.Model Sched.CountFacts Sched.QueueFacts Sched.IdInv Sched.ScanProofs
  Sched.MailboxProofs Sched.FifoProofs Mbox.Queue Mbox.Order Mbox.Mpsc Mbox.MpscProofs.

(* Per-sender FIFO.  In the process model of C01/C02 (any number of concurrent senders by pid
   or by registered name, Kill callers, self-sends, every schedule): restricted to the messages
   one sender sent in one priority class, the handled list is a subsequence of the sending
   order (refused or not-yet-handled messages are simply missing) ... *)
Theorem C03_per_sender_fifo : forall sched named lim fb selfs initok others i b orig k,
  let c0 := init_cfg named lim fb selfs initok others in
  nth_error (thr c0) i = Some (S_load b orig) -> k <= 3 -> NoDup (init_ids c0) ->
  let F := map mid (filter (fun m => Nat.eqb (qidx (mq m)) k) orig) in
  sublist (filter (fid F) (handled (sh (run sched c0)))) F.
Proof. exact per_sender_fifo. Qed.
Print Assumptions C03_per_sender_fifo.

(* ... i.e. if x was handled before y and both are class-k messages of that sender, then the
   sender sent x before y. *)
Theorem C03_per_sender_fifo_order : forall sched named lim fb selfs initok others i b orig k x y pre mid_ post,
  let c0 := init_cfg named lim fb selfs initok others in
  nth_error (thr c0) i = Some (S_load b orig) -> k <= 3 -> NoDup (init_ids c0) ->
  let F := map mid (filter (fun m => Nat.eqb (qidx (mq m)) k) orig) in
  handled (sh (run sched c0)) = pre ++ x :: mid_ ++ y :: post -> In x F -> In y F ->
  exists p1 p2 p3, F = p1 ++ x :: p2 ++ y :: p3.
Proof. exact per_sender_fifo_order. Qed.
Print Assumptions C03_per_sender_fifo_order.

(* Strict priority.  Every time the run loop picks its next message (the scan that restarts at
   the Urgent queue after every single message) it ends up in the callback of exactly
   [next_message]: the oldest visible message of the first non-empty queue in the order
   Urgent, System, Main, Log - and removes that message and nothing else. *)
Theorem C03_scan_picks_next_message : forall c i,
  nth_error (thr c) i = Some (R_pop 0) ->
  match next_message (qs (sh c)) with
  | Some (k, m, tl) =>
      run (repeat i (S k)) c =
        mk_cfg (add_handled (upd_qs (sh c) (qset (qs (sh c)) k tl)) (mid m)) (set_nth (thr c) i (enter_cb m))
  | None => run (repeat i 4) c = mk_cfg (sh c) (set_nth (thr c) i R_sleep)
  end.
Proof. exact scan_picks_next_message. Qed.
Print Assumptions C03_scan_picks_next_message.

Theorem C03_next_message_is_oldest_of_highest : forall s k m tl,
  next_message s = Some (k, m, tl) ->
  qget s k = (m, true) :: tl /\ k <= 3 /\ forall j, j < k -> q_visible (qget s j) = false.
Proof. exact next_message_spec. Qed.
Print Assumptions C03_next_message_is_oldest_of_highest.

(* The queue itself (sequential view of lib/mpsc.go, bounded or not): what comes out is what
   was accepted, in the same order, nothing lost or duplicated. *)
Theorem C03_mpsc_fifo : forall limit ops,
  let '(s', rs) := q_run (mk_q [] limit) ops in
  accepted ops rs = popped ops rs ++ q_items s'.
Proof. exact mpsc_sequential_fifo. Qed.
Print Assumptions C03_mpsc_fifo.

(* The queue as the pointer structure it is (lib/mpsc.go: numbered nodes with value and next, head,
   tail; Push = allocate + atomic head swap, then the store old_head.next = item; Pop by the single
   consumer reads tail.next), with ANY number of producers and ANY interleaving.  [abs] reads the
   structure as the list of entries after the tail in head-swap order, each with the flag "its
   predecessor's next points to it" - the queue of the process model above.  [MpInv s pending] is
   the invariant, [pending] the (old_head, item) pairs of the producers between their two steps.
   Each step of the structure is one operation of that list: *)
Theorem C03_mpsc_swap_refines : forall s pending v,
  MpInv s pending ->
  let '(s', (old, i)) := p_swap s v in
  abs s' = abs s ++ [(i, v, false)] /\ MpInv s' ((old, i) :: pending).
Proof. exact swap_refines. Qed.
Print Assumptions C03_mpsc_swap_refines.

Theorem C03_mpsc_link_refines : forall s pending a b,
  MpInv s pending -> In (a, b) pending ->
  abs (p_link s a b) = a_mark b (abs s) /\ MpInv (p_link s a b) (rm_pair (a, b) pending).
Proof. exact link_refines. Qed.
Print Assumptions C03_mpsc_link_refines.

Theorem C03_mpsc_pop_refines : forall s pending,
  MpInv s pending ->
  match c_pop s with
  | (s', Some v) => a_pop (abs s) = Some (v, abs s') /\ MpInv s' pending
  | (s', None) => a_pop (abs s) = None /\ s' = s
  end.
Proof. exact pop_refines. Qed.
Print Assumptions C03_mpsc_pop_refines.

(* Whole runs: producers k = 0.. each push the values of their program [nth k progs []] one after
   the other (two steps per Push), the consumer pops whenever the schedule says so.  For every
   schedule: the popped values followed by the values still queued are exactly the values in
   head-swap order (nothing lost, duplicated or reordered), and the values producer k swapped,
   followed by those it has not pushed yet, are its program - so each producer's values come out
   in its program order. *)
Theorem C03_mpsc_refines_fifo : forall progs sched,
  let '(c', popped) := mp_run sched (mp_init progs) in
  let sw := mp_swapped sched (mp_init progs) in
  popped ++ a_vals (abs (mp_st c')) = map snd sw /\
  (forall k, nth k progs [] = by_producer k sw ++ todo_of c' k) /\
  MpInv (mp_st c') (pendings (mp_prods c')).
Proof. exact mpsc_refines_fifo. Qed.
Print Assumptions C03_mpsc_refines_fifo.

(* An entry is unlinked exactly while the producer of its node is between its two steps ... *)
Theorem C03_mpsc_unlinked_iff_pending : forall s pending i v f,
  MpInv s pending -> In (i, v, f) (abs s) -> (f = true <-> forall a, ~ In (a, i) pending).
Proof. exact abs_flag. Qed.
Print Assumptions C03_mpsc_unlinked_iff_pending.

(* ... so in every reachable configuration the values whose link store and all earlier link stores
   have completed are what the next pops return, in order (a_pop (abs s) is Some as soon as the
   first entry is linked). *)
Theorem C03_mpsc_linked_prefix_visible : forall progs sched pre rest,
  let c' := fst (mp_exec sched (mp_init progs)) in
  abs (mp_st c') = pre ++ rest ->
  (forall i v f a, In (i, v, f) pre -> ~ In (a, i) (pendings (mp_prods c'))) ->
  let '(s', vs) := pop_n (length pre) (mp_st c') in vs = a_vals pre /\ abs s' = rest.
Proof. exact mpsc_linked_prefix_visible. Qed.
Print Assumptions C03_mpsc_linked_prefix_visible.

(* Pop taken apart into its Load of tail.next and the rest (value read, value clear, tail store),
   with producers running in between: every such run is a run of the LTS above with the pop placed
   at the second step, so the same FIFO statement holds. *)
Theorem C03_mpsc_split_pop_simulated : forall sched2 c loc,
  CInv2 c loc ->
  let '(c', loc', es) := mp2_exec sched2 c loc in
  CInv2 c' loc' /\ exists sched1, mp_exec sched1 c = (c', es).
Proof. exact mp2_simulated. Qed.
Print Assumptions C03_mpsc_split_pop_simulated.
Theorem C03_mpsc_refines_fifo_split_pop : forall progs sched2,
  let '(c', _, es) := mp2_exec sched2 (mp_init progs) None in
  ev_pops es ++ a_vals (abs (mp_st c')) = map snd (ev_swaps es) /\
  (forall k, nth k progs [] = by_producer k (ev_swaps es) ++ todo_of c' k) /\
  MpInv (mp_st c') (pendings (mp_prods c')).
Proof. exact mpsc_refines_fifo_split_pop. Qed.
Print Assumptions C03_mpsc_refines_fifo_split_pop.

(* The three abstract operations are literally those of the process model's queue (append
   (m, false), mark_linked, q_pop / q_visible) under any tagging of nodes by messages whose id is
   the node number. *)
Theorem C03_mpsc_abstraction_is_model_queue : forall (mk : nat -> Z -> msg),
  (forall i v, mid (mk i v) = i) ->
  forall q i v,
  to_queue mk (q ++ [(i, v, false)]) = to_queue mk q ++ [(mk i v, false)] /\
  to_queue mk (a_mark i q) = mark_linked i (to_queue mk q) /\
  q_pop (to_queue mk q) = match q with (j, w, true) :: tl => Some (mk j w, to_queue mk tl) | _ => None end /\
  a_pop q = match q with (j, w, true) :: tl => Some (w, tl) | _ => None end /\
  q_visible (to_queue mk q) = match a_pop q with Some _ => true | None => false end.
Proof. exact to_queue_ops. Qed.
Print Assumptions C03_mpsc_abstraction_is_model_queue.

(* Consequence for a receiver that was busy while one sender enqueued [sent]: the order
   [expected] produced by repeated scans is sorted by class and stable inside each class. *)
Theorem C03_expected_sorted : forall sent, classes_sorted (expected sent) = true.
Proof. exact expected_sorted. Qed.
Print Assumptions C03_expected_sorted.
Theorem C03_expected_stable : forall c sent, c <= 3 -> of_class c (expected sent) = of_class c sent.
Proof. exact expected_stable. Qed.
Print Assumptions C03_expected_stable.

Example C03_example :
  let c0 := init_cfg false 0 false [] true [S_load false [mk_msg 1 2 (BOk 0); mk_msg 2 0 (BOk 0); mk_msg 3 2 (BOk 0)]] in
  NoDup (init_ids c0) /\
  handled (sh (run (repeat 0 8 ++ repeat 2 20 ++ repeat 1 30 ++ repeat 3 60) c0)) = [2; 1; 3] /\
  next_message (mk_qs [] [(mk_msg 7 1 (BOk 0), true)] [(mk_msg 8 2 (BOk 0), true)] []) =
    Some (1, mk_msg 7 1 (BOk 0), []).
Proof.
  vm_compute. split; [|split; reflexivity].
  repeat (constructor; [cbn; intuition discriminate|]). constructor.
Qed.

(* ---- the remote path (net/proto/connection.go): the priority travels in the low bits of the byte that also
   carries the important-delivery flag; for every well-formed message of every frame kind, with or without
   the flag, the receiver parses the priority the sender used *)
Require Ergo.Proto.Model Ergo.Proto.Proofs.
Theorem C03_remote_priority : forall m, Ergo.Proto.Model.wf m ->
  exists m', Ergo.Proto.Model.parse (Ergo.Proto.Model.build m) = Some m' /\
             Ergo.Proto.Model.m_prio m' = Ergo.Proto.Model.m_prio m /\
             Ergo.Proto.Model.m_imp m' = Ergo.Proto.Model.m_imp m.
Proof. exact Ergo.Proto.Proofs.remote_priority. Qed.
Print Assumptions C03_remote_priority.
