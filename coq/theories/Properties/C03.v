(* C03 - Mailbox ordering: per-sender FIFO within a priority, strict priority classes. *)
From Ergo Require Import Common.Base Sched.Model Sched.CountFacts Sched.QueueFacts Sched.IdInv Sched.ScanProofs
  Sched.MailboxProofs Sched.FifoProofs Mbox.Queue Mbox.Order.

(* Per-sender FIFO.  In the process model of C01/C02 (any number of concurrent senders by pid
   or by registered name, Kill callers, self-sends, every schedule): restricted to the messages
   one sender sent in one priority class, the handled list is a subsequence of the sending
   order (refused or not-yet-handled messages are simply missing) ... *)
Theorem C03_per_sender_fifo : forall sched named lim fb selfs initok others i b orig k,
  let c0 := init_cfg named lim fb selfs initok others in
  nth_error (thr c0) i = Some (S_load b orig) -> k <= 3 -> NoDup (init_ids c0) ->
  let F := map mid (filter (fun m => Nat.eqb (qidx (mq m)) k) orig) in
  sublist (filter (fid F) (handled (sh (run sched c0)))) F.
Proof. exact per_sender_fifo. Qed.
Print Assumptions C03_per_sender_fifo.

(* ... i.e. if x was handled before y and both are class-k messages of that sender, then the
   sender sent x before y. *)
Theorem C03_per_sender_fifo_order : forall sched named lim fb selfs initok others i b orig k x y pre mid_ post,
  let c0 := init_cfg named lim fb selfs initok others in
  nth_error (thr c0) i = Some (S_load b orig) -> k <= 3 -> NoDup (init_ids c0) ->
  let F := map mid (filter (fun m => Nat.eqb (qidx (mq m)) k) orig) in
  handled (sh (run sched c0)) = pre ++ x :: mid_ ++ y :: post -> In x F -> In y F ->
  exists p1 p2 p3, F = p1 ++ x :: p2 ++ y :: p3.
Proof. exact per_sender_fifo_order. Qed.
Print Assumptions C03_per_sender_fifo_order.

(* Strict priority.  Every time the run loop picks its next message (the scan that restarts at
   the Urgent queue after every single message) it ends up in the callback of exactly
   [next_message]: the oldest visible message of the first non-empty queue in the order
   Urgent, System, Main, Log - and removes that message and nothing else. *)
Theorem C03_scan_picks_next_message : forall c i,
  nth_error (thr c) i = Some (R_pop 0) ->
  match next_message (qs (sh c)) with
  | Some (k, m, tl) =>
      run (repeat i (S k)) c =
        mk_cfg (add_handled (upd_qs (sh c) (qset (qs (sh c)) k tl)) (mid m)) (set_nth (thr c) i (enter_cb m))
  | None => run (repeat i 4) c = mk_cfg (sh c) (set_nth (thr c) i R_sleep)
  end.
Proof. exact scan_picks_next_message. Qed.
Print Assumptions C03_scan_picks_next_message.

Theorem C03_next_message_is_oldest_of_highest : forall s k m tl,
  next_message s = Some (k, m, tl) ->
  qget s k = (m, true) :: tl /\ k <= 3 /\ forall j, j < k -> q_visible (qget s j) = false.
Proof. exact next_message_spec. Qed.
Print Assumptions C03_next_message_is_oldest_of_highest.

(* The queue itself (sequential view of lib/mpsc.go, bounded or not): what comes out is what
   was accepted, in the same order, nothing lost or duplicated. *)
Theorem C03_mpsc_fifo : forall limit ops,
  let '(s', rs) := q_run (mk_q [] limit) ops in
  accepted ops rs = popped ops rs ++ q_items s'.
Proof. exact mpsc_sequential_fifo. Qed.
Print Assumptions C03_mpsc_fifo.

(* Consequence for a receiver that was busy while one sender enqueued [sent]: the order
   [expected] produced by repeated scans is sorted by class and stable inside each class. *)
Theorem C03_expected_sorted : forall sent, classes_sorted (expected sent) = true.
Proof. exact expected_sorted. Qed.
Print Assumptions C03_expected_sorted.
Theorem C03_expected_stable : forall c sent, c <= 3 -> of_class c (expected sent) = of_class c sent.
Proof. exact expected_stable. Qed.
Print Assumptions C03_expected_stable.

Example C03_example :
  let c0 := init_cfg false 0 false [] true [S_load false [mk_msg 1 2 (BOk 0); mk_msg 2 0 (BOk 0); mk_msg 3 2 (BOk 0)]] in
  NoDup (init_ids c0) /\
  handled (sh (run (repeat 0 8 ++ repeat 2 20 ++ repeat 1 30 ++ repeat 3 60) c0)) = [2; 1; 3] /\
  next_message (mk_qs [] [(mk_msg 7 1 (BOk 0), true)] [(mk_msg 8 2 (BOk 0), true)] []) =
    Some (1, mk_msg 7 1 (BOk 0), []).
Proof.
  vm_compute. split; [|split; reflexivity].
  repeat (constructor; [cbn; intuition discriminate|]). constructor.
Qed.
