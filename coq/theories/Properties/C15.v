(* C15 — Remote access control: cookie authentication and spawn/start permissions.
   Property theorems only; proofs live in Hs/. *)
From Ergo Require Import Common.Base Hs.Model Hs.Proofs.
Local Open Scope N_scope.

(* An attacker whose knowledge K (transcripts of any number of earlier sessions, other cookies, own
   strings) does not expose cookie c cannot derive c, and every hash over c it can present was computed
   by a party that knows c and already occurs in K. *)
Theorem C15_cookie_secret : forall c K, guarded c K -> ~ derives K (Cookie c).
Proof. exact cookie_secret. Qed.
Print Assumptions C15_cookie_secret.

Theorem C15_hash_not_forgeable : forall c K l, guarded c K ->
  existsb (term_eqb (Cookie c)) l = true -> derives K (H l) -> sec_in c K (H l).
Proof. exact secret_hash_not_forgeable. Qed.
Print Assumptions C15_hash_not_forgeable.

(* Hello path, acceptor: whatever frames a peer without the cookie sends (each derivable from K and
   from what the acceptor wrote in this session), the acceptor with a fresh salt never accepts an
   Introduce, hence never returns a HandshakeResult through the Hello path. *)
Theorem C15_hello_auth : forall p nB nID ps K ins,
  guarded (p_cookie p) K -> unseen nB K ->
  adv_feeds_acc p nB nID ps K A0 ins ->
  hello_accepted (fst (acc_run p nB nID ps A0 ins)) = false.
Proof. exact hello_auth_acceptor. Qed.
Print Assumptions C15_hello_auth.
