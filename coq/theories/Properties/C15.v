(* C15 — Remote access control: cookie authentication and spawn/start permissions.
   Property theorems only; proofs live in Hs/. *)
From Ergo Require Import Common.Base Hs.Model Hs.Proofs.
Local Open Scope N_scope.

(* ---- the attacker -------------------------------------------------------------------------------
   K: every term of every frame of any number of earlier sessions (honest or disturbed), other cookies,
   own strings.  [guarded c K]: no element of K exposes cookie c outside a hash (true of everything the
   honest roles write).  Then c is not derivable and every hash over c that the attacker can present
   already occurs in K, i.e. was computed by a holder of c. *)
Theorem C15_cookie_secret : forall c K, guarded c K -> ~ derives K (Cookie c).
Proof. exact cookie_secret. Qed.
Print Assumptions C15_cookie_secret.

Theorem C15_hash_not_forgeable : forall c K l, guarded c K ->
  existsb (term_eqb (Cookie c)) l = true -> derives K (H l) -> sec_in c K (H l).
Proof. exact secret_hash_not_forgeable. Qed.
Print Assumptions C15_hash_not_forgeable.

(* ---- Hello path ----------------------------------------------------------------------------------
   Acceptor: whatever frames a peer without the cookie sends (each derivable from K and from what the
   acceptor wrote so far in this session), an acceptor whose salt nB is fresh for K never accepts an
   Introduce: the digest it expects, H(salt_B : c), is not derivable. *)
Theorem C15_hello_auth : forall p nB nID ps K ins,
  guarded (p_cookie p) K -> unseen nB K ->
  adv_feeds_acc p nB nID ps K A0 ins ->
  hello_accepted (fst (acc_run p nB nID ps A0 ins)) = false.
Proof. exact hello_auth_acceptor. Qed.
Print Assumptions C15_hello_auth.

Theorem C15_hello_auth_digest : forall p nB K d1,
  guarded (p_cookie p) K -> unseen nB K -> derives K d1 ->
  ~ derives (K ++ [Salt nB; acc_digest p nB d1]) (mkH [Salt nB; Cookie (p_cookie p)]).
Proof. exact intro_digest_underivable. Qed.
Print Assumptions C15_hello_auth_digest.

(* Initiator (dual): the expected H(salt_B : digest_A : c) contains the initiator's fresh salt; the
   initiator never gets past its Hello check, writes nothing more and returns no result. *)
Theorem C15_hello_auth_initiator : forall p nA K ins,
  guarded (p_cookie p) K -> unseen nA K ->
  adv_feeds_init p nA (K ++ wire_terms [init_hello p nA]) I1 ins ->
  init_passed_hello (fst (init_run p nA I1 ins)) = false /\ snd (init_run p nA I1 ins) = [].
Proof. exact hello_auth_initiator. Qed.
Print Assumptions C15_hello_auth_initiator.

(* ---- Join path -----------------------------------------------------------------------------------
   The dialling side authenticates the acceptor (the answer covers its fresh salt) ... *)
Theorem C15_join_initiator_auth : forall p cid nJ K ins,
  guarded (p_cookie p) K -> unseen nJ K -> In cid K ->
  (forall m, In m ins -> msg_derivable (K ++ [Salt nJ; join_digest p cid nJ]) m) ->
  join_final p cid nJ ins <> JDone.
Proof. exact join_initiator_auth. Qed.
Print Assumptions C15_join_initiator_auth.

(* ... but the acceptor contributes no freshness: a recorded Join replayed verbatim (even with the Node
   field rewritten) by a party that cannot derive the cookie is accepted.  Known finding. *)
Theorem C15_join_replay_refuted : exists (p : party) (K : list term) (ins : list msg) (nB nID : N) (ps : Z),
  guarded (p_cookie p) K /\ unseen nB K /\ ~ derives K (Cookie (p_cookie p)) /\
  (forall m, In m ins -> msg_derivable K m) /\
  acc_accepted (acc_final p nB nID ps ins) = true.
Proof. exact join_replay_refuted. Qed.
Print Assumptions C15_join_replay_refuted.

(* The strongest statement that holds for the acceptor: it accepts an adversary only through a first
   frame that is a Join whose digest was computed by a cookie holder for that very id and salt. *)
Theorem C15_accept_partial : forall p nB nID ps K ins,
  guarded (p_cookie p) K -> unseen nB K ->
  adv_feeds_acc p nB nID ps K A0 ins ->
  acc_accepted (fst (acc_run p nB nID ps A0 ins)) = true ->
  exists node cid s d tl, ins = MJoin node cid s d :: tl /\ sec_in (p_cookie p) K d.
Proof. exact accept_partial. Qed.
Print Assumptions C15_accept_partial.

(* ---- agreement and cookie choice (faithful link) -------------------------------------------------- *)
Theorem C15_agreement : forall pa pb nA nB nID ps,
  p_cookie pa = p_cookie pb -> p_name pa <> p_name pb ->
  let s := run_pair pa pb nA nB nID ps in
  s_init s = IDone (mk_res (p_name pb) (Salt nID) (p_creation pb) (wire_flags (p_flags pb)) (p_mms pb) (p_flags pa) (p_mms pa)) ps /\
  s_acc s = ADone (mk_res (p_name pa) (Salt nID) (p_creation pa) (wire_flags (p_flags pa)) (p_mms pa) (p_flags pb) (p_mms pb)).
Proof. exact pair_same_cookie. Qed.
Print Assumptions C15_agreement.

Theorem C15_different_cookie_fails_both : forall pa pb nA nB nID ps,
  p_cookie pa <> p_cookie pb ->
  let s := run_pair pa pb nA nB nID ps in s_init s = IFail EIO /\ s_acc s = AFail EDigest.
Proof. exact pair_different_cookie. Qed.
Print Assumptions C15_different_cookie_fails_both.

Theorem C15_cookie_choice : forall node_a route_a node_b acc_b pa pb nA nB nID ps,
  p_cookie pa = route_cookie node_a route_a -> p_cookie pb = acceptor_cookie node_b acc_b ->
  p_name pa <> p_name pb ->
  connected (run_pair pa pb nA nB nID ps) =
  N.eqb (if N.eqb route_a 0 then node_a else route_a) (if N.eqb acc_b 0 then node_b else acc_b).
Proof. exact cookie_choice. Qed.
Print Assumptions C15_cookie_choice.

(* on an active network agreement fails: the Introduce body is outside every digest (live relay) *)
Theorem C15_agreement_active_refuted : live_relay_b = true.
Proof. exact live_relay_refuted. Qed.
Print Assumptions C15_agreement_active_refuted.

(* ---- permission tables ---------------------------------------------------------------------------- *)
Theorem C15_spawn_table : forall h name peer,
  allowed h name peer = true ->
  exists h1 op h2, h = h1 ++ op :: h2 /\ op_enables name peer op = true /\
                   forall o, In o h2 -> op_disables name peer o = false.
Proof. intros h name peer Ha. apply spec_allowed_exists. apply table_safe. exact Ha. Qed.
Print Assumptions C15_spawn_table.

(* application start: the same table code with a single factory identity *)
Theorem C15_appstart_table : forall h name peer,
  Forall (fun op => match op with Enable _ fid _ => fid = 0 | _ => True end) h ->
  allowed h name peer = true -> spec_allowed h name peer = true.
Proof. intros h name peer _. apply table_safe. Qed.
Print Assumptions C15_appstart_table.

Theorem C15_table_converse_refuted : table_converse_b = true.
Proof. exact table_converse_refuted. Qed.
Print Assumptions C15_table_converse_refuted.

(* ---- flags and env --------------------------------------------------------------------------------- *)
Theorem C15_flags : forall field peer_fl node_fl h name source,
  granted (remote_request field peer_fl node_fl (trun h) name source) = true ->
  flag_ok node_fl field = true /\ flag_ok peer_fl field = true /\ spec_allowed h name source = true.
Proof. exact flags_gate. Qed.
Print Assumptions C15_flags.

Theorem C15_flags_off : forall field peer_fl node_fl t name source,
  f_enable node_fl = true -> field node_fl = false ->
  granted (remote_request field peer_fl node_fl t name source) = false.
Proof. exact flags_off_never. Qed.
Print Assumptions C15_flags_off.

Theorem C15_env : forall (expose : bool) (env : list (N * N)), env_sent expose env <> [] -> expose = true.
Proof. intros expose env. apply env_only_when_exposed. Qed.
Print Assumptions C15_env.

(* non-vacuity: a recorded honest session gives a guarded, non-trivial knowledge for which the salt 901
   is unseen; the replayed initiator frames are derivable and drive the acceptor to its digest check *)
Example C15_example :
  let K := wire_terms (map snd (s_wire (run_pair replay_peer replay_party 11 12 13 3%Z))) in
  forallb (fun t => negb (exposed 1 t) && negb (occurs 901 t)) K = true /\
  length K = 12%nat /\
  fst (acc_run replay_party 901 902 3%Z A0
         [init_hello replay_peer 11; intro_of replay_peer (mkH [Salt 12; Cookie 1])]) = AFail EDigest /\
  allowed [Enable 1 7 [5]; Disable 1 [6]; Enable 2 0 []] 1 5 = true /\
  allowed [Enable 1 7 [5]; Disable 1 [5]] 1 5 = false.
Proof. vm_compute. repeat split; reflexivity. Qed.
