(* C14 — Remote failure detection: node down, remote termination, incarnations.
   Property theorems only; proofs live in NetFail/ (and Rel/ for the target manager). *)
From Ergo Require Import Common.Base Rel.Amap Rel.Model Rel.TMProofs Rel.RegProofs NetFail.Model NetFail.Proofs.
Local Open Scope N_scope.

(* CleanupNode n as set comprehension (proved in the Rel engine): reported are exactly the relations
   whose target lives on n and whose consumer does not, once each; removed are those and every
   relation whose consumer lives on n; nothing else is touched; the index invariant is kept. *)
Theorem C14_cleanup_node : forall n m m' l mo,
  idx_ok m -> tm_cleanup_node n m = (m', l, mo) ->
  idx_ok m' /\
  (forall k, In k (rels m') <-> In k (rels m) /\ pnode (kc k) <> n /\ target_node (kt k) <> n) /\
  (forall t c, In (t, c) l <-> In (mkkey c t false) (rels m) /\ target_node t = n /\ pnode c <> n) /\
  (forall t c, In (t, c) mo <-> In (mkkey c t true) (rels m) /\ target_node t = n /\ pnode c <> n) /\
  NoDup l /\ NoDup mo.
Proof. exact cleanup_node_spec. Qed.
Print Assumptions C14_cleanup_node.

(* (1) After ANY history (connects, link / monitor / unlink / demonitor requests on pids, names, aliases,
   events and nodes of any nodes with any answers of the peers, sends, calls, arriving Terminate* frames,
   earlier node-downs), the loss of the connection with n gives every process c exactly [due_down]
   more copies of every note x — one iff x carries the 'no connection' reason, its target lives on n
   (or is n), c does not, c holds that relation (link: exit, monitor: down) and is alive; zero
   otherwise — and afterwards no relation mentions n and the connection is gone. *)
Theorem C14_node_down_once : forall self ops procs n c x,
  let s := fst (nrun self ops (init procs)) in
  let s' := node_down n s in
  cnt x c (n_st s') = (cnt x c (n_st s) + due_down n (n_st s) c x)%nat /\
  (forall k, In k (rels (ntm s')) <-> In k (rels (ntm s)) /\ pnode (kc k) <> n /\ target_node (kt k) <> n) /\
  conn_of n s' = None.
Proof. exact node_down_once. Qed.
Print Assumptions C14_node_down_once.

Theorem C14_due_down_one : forall n s c x,
  n_reason x = r_noconn -> target_node (n_target x) = n -> pnode c <> n ->
  In (mkkey c (n_target x) (n_down x)) (rels (s_tm s)) -> live c s = true -> due_down n s c x = 1%nat.
Proof. exact due_down_one. Qed.
Print Assumptions C14_due_down_one.

Theorem C14_due_down_zero : forall n s c x,
  (n_reason x <> r_noconn \/ target_node (n_target x) <> n \/
   ~ In (mkkey c (n_target x) (n_down x)) (rels (s_tm s))) -> due_down n s c x = 0%nat.
Proof. exact due_down_zero. Qed.
Print Assumptions C14_due_down_zero.

(* (3) A Terminate* frame for t with reason r gives every local holder exactly one exit/down (t, r)
   ([due] of the Rel engine) and consumes the relations of t only. *)
Theorem C14_remote_reason : forall self ops procs t r c x,
  let s := fst (nrun self ops (init procs)) in
  cnt x c (n_st (remote_terminate t r s)) = (cnt x c (n_st s) + due t r (n_st s) c x)%nat /\
  (forall k, In k (rels (ntm (remote_terminate t r s))) <-> In k (rels (ntm s)) /\ kt k <> t).
Proof. exact remote_reason. Qed.
Print Assumptions C14_remote_reason.

(* owner's side: RouteTerminate* writes exactly one Terminate frame (t, r) to every connected node on
   which a consumer of t lives, none to any other *)
Theorem C14_terminate_frames : forall self t r s,
  idx_ok (ntm s) ->
  exists fs, n_out (local_terminate self t r s) = n_out s ++ fs /\ NoDup fs /\
  forall n f, In (n, f) fs <->
     f = FTerminate t r /\ n <> self /\ conn_of n s <> None /\
     exists c mon, In (mkkey c t mon) (rels (ntm s)) /\ pnode c = n.
Proof. exact local_terminate_frames. Qed.
Print Assumptions C14_terminate_frames.

(* the creation comparison SendTerminatePID/Alias made before fix 1ead0d4 dropped that frame *)
Theorem C14_terminate_frame_prefix_refuted :
  exists s my_creation t r,
    n_out (local_terminate 2 t r s) = [(1, FTerminate t r)] /\
    n_out (local_terminate_prefix 2 my_creation t r s) = [].
Proof. exact terminate_frame_prefix_refuted. Qed.
Print Assumptions C14_terminate_frame_prefix_refuted.

(* a remote termination followed by the loss of the node notifies once, and a late frame after the loss
   notifies nobody *)
Theorem C14_no_double : forall self ops procs t r c x,
  let s := fst (nrun self ops (init procs)) in
  n_target x = t ->
  cnt x c (n_st (node_down (target_node t) (remote_terminate t r s))) = (cnt x c (n_st s) + due t r (n_st s) c x)%nat.
Proof. exact no_double. Qed.
Print Assumptions C14_no_double.

Theorem C14_no_double_late : forall self ops procs t r c x,
  let s := fst (nrun self ops (init procs)) in
  let s1 := node_down (target_node t) s in
  cnt x c (n_st (remote_terminate t r s1)) = cnt x c (n_st s1).
Proof. exact no_double_late. Qed.
Print Assumptions C14_no_double_late.

(* (2) under the timer hypothesis (every started call is followed by its response or its timer event)
   no call is still waiting at the end of the history, whatever happened to the connections *)
Theorem C14_calls_fail : forall self ops, timers_fair ops = true ->
  forall procs, n_pending (fst (nrun self ops (init procs))) = [].
Proof. exact calls_end. Qed.
Print Assumptions C14_calls_fail.

Theorem C14_call_lost_times_out : forall c t cr ref pc procs,
  target_node t <> 1 -> stale t cr pc = false ->
  let ops := [NConnect (target_node t) pc; NCall c t cr ref; NDown (target_node t); NTimer ref] in
  let s := fst (nrun 1 ops (init procs)) in
  n_pending s = [] /\ n_done s = [(ref, e_timeout)].
Proof. exact call_lost_times_out. Qed.
Print Assumptions C14_call_lost_times_out.

(* (4) an operation whose identifier's creation differs from the peer creation of the connection changes
   nothing (no frame, no call, no relation, no mailbox) and returns the incarnation error (or the local
   refusal that precedes the network) *)
Theorem C14_incarnation : forall self o s,
  stale_op o s = true ->
  let '(s', r) := nexec self o s in
  s' = s /\ (r = NErr e_incarnation \/ r = NErr e_exist \/ r = NErr e_norel \/ r = NErr e_local).
Proof. exact incarnation_refused. Qed.
Print Assumptions C14_incarnation.

(* creations are whole seconds: an identifier of an incarnation started in the same second as the
   next one is accepted and its frame is written *)
Theorem C14_incarnation_same_second_refuted :
  exists t1 t2, t1 < t2 /\
    let '(s, rs) := nrun 1 (restart_history 2 t1 t2 (fun cr => NSend (lpid 1001) (TPid (mkpid 2 1004)) cr)) (init [lpid 1001]) in
    last rs (NErr 0) = NOk /\ n_out s = [(2, FSend (lpid 1001) (TPid (mkpid 2 1004)))].
Proof. exact incarnation_same_second_refuted. Qed.
Print Assumptions C14_incarnation_same_second_refuted.

(* with the guard "the two incarnations have different creations" every send / call with an identifier
   of the earlier incarnation is refused and nothing is written *)
Theorem C14_incarnation_partial : forall b t1 t2 c t ref,
  b <> 1 -> target_node t = b -> stamped t = true ->
  creation_of t1 <> creation_of t2 ->
  forall o, In o [NSend c t; (fun cr => NCall c t cr ref)] ->
  let '(s, rs) := nrun 1 (restart_history b t1 t2 o) (init [c]) in
  last rs NOk = NErr e_incarnation /\ n_out s = [] /\ n_pending s = [].
Proof. exact incarnation_partial. Qed.
Print Assumptions C14_incarnation_partial.

(* non-vacuity: observers 1001 (links) and 1002 (monitors) on a pid, a name and the node 2 itself;
   the pid terminates remotely with reason 13, then the node is lost *)
Example C14_example :
  let ops := [NConnect 2 1000;
              NAdd false (lpid 1001) (TPid (mkpid 2 1)) 1000 AOk; NAdd true (lpid 1002) (TPid (mkpid 2 1)) 1000 AOk;
              NAdd false (lpid 1001) (TName 101 2) 0 AOk; NAdd true (lpid 1002) (TNode 2) 0 AOk;
              NAdd true (lpid 1002) (TPid (mkpid 2 7)) 999 AOk;
              NTermFrame (TPid (mkpid 2 1)) 13; NDown 2] in
  let '(s, rs) := nrun 1 ops (init [lpid 1001; lpid 1002]) in
  rs = [NOk; NOk; NOk; NOk; NOk; NErr e_incarnation; NOk; NOk] /\
  inbox_of (lpid 1001) (n_st s) = [mknote false (TPid (mkpid 2 1)) 13; mknote false (TName 101 2) r_noconn] /\
  inbox_of (lpid 1002) (n_st s) = [mknote true (TPid (mkpid 2 1)) 13; mknote true (TNode 2) r_noconn] /\
  rels (ntm s) = [] /\ n_conns s = [].
Proof. vm_compute. repeat split; reflexivity. Qed.
