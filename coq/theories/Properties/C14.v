(* C14 — Remote failure detection: node down, remote termination, incarnations.
   Property theorems only; proofs live in NetFail/ (and Rel/ for the target manager). *)
From Ergo Require Import Common.Base Rel.Amap Rel.Model Rel.TMProofs Rel.RegProofs NetFail.Model NetFail.Proofs.
From Ergo Require Import NetFail.Guard NetFail.GuardCases NetFail.GuardProofs NetFail.Accept.
From Coq Require Import Permutation.
From Ergo Require Import NetFail.Fanout NetFail.FanoutProofs.
Local Open Scope N_scope.

(* CleanupNode n as set comprehension (proved in the Rel engine): reported are exactly the relations
   whose target lives on n and whose consumer does not, once each; removed are those and every
   relation whose consumer lives on n; nothing else is touched; the index invariant is kept. *)
Theorem C14_cleanup_node : forall n m m' l mo,
  idx_ok m -> tm_cleanup_node n m = (m', l, mo) ->
  idx_ok m' /\
  (forall k, In k (rels m') <-> In k (rels m) /\ pnode (kc k) <> n /\ target_node (kt k) <> n) /\
  (forall t c, In (t, c) l <-> In (mkkey c t false) (rels m) /\ target_node t = n /\ pnode c <> n) /\
  (forall t c, In (t, c) mo <-> In (mkkey c t true) (rels m) /\ target_node t = n /\ pnode c <> n) /\
  NoDup l /\ NoDup mo.
Proof. exact cleanup_node_spec. Qed.
Print Assumptions C14_cleanup_node.

(* (1) After ANY history (connects, link / monitor / unlink / demonitor requests on pids, names, aliases,
   events and nodes of any nodes with any answers of the peers, sends, calls, arriving Terminate* frames,
   earlier node-downs), the loss of the connection with n gives every process c exactly [due_down]
   more copies of every note x — one iff x carries the 'no connection' reason, its target lives on n
   (or is n), c does not, c holds that relation (link: exit, monitor: down) and is alive; zero
   otherwise — and afterwards no relation mentions n and the connection is gone. *)
Theorem C14_node_down_once : forall self ops procs n c x,
  let s := fst (nrun self ops (init procs)) in
  let s' := node_down n s in
  cnt x c (n_st s') = (cnt x c (n_st s) + due_down n (n_st s) c x)%nat /\
  (forall k, In k (rels (ntm s')) <-> In k (rels (ntm s)) /\ pnode (kc k) <> n /\ target_node (kt k) <> n) /\
  conn_of n s' = None.
Proof. exact node_down_once. Qed.
Print Assumptions C14_node_down_once.

Theorem C14_due_down_one : forall n s c x,
  n_reason x = r_noconn -> target_node (n_target x) = n -> pnode c <> n ->
  In (mkkey c (n_target x) (n_down x)) (rels (s_tm s)) -> live c s = true -> due_down n s c x = 1%nat.
Proof. exact due_down_one. Qed.
Print Assumptions C14_due_down_one.

Theorem C14_due_down_zero : forall n s c x,
  (n_reason x <> r_noconn \/ target_node (n_target x) <> n \/
   ~ In (mkkey c (n_target x) (n_down x)) (rels (s_tm s))) -> due_down n s c x = 0%nat.
Proof. exact due_down_zero. Qed.
Print Assumptions C14_due_down_zero.

(* (3) A Terminate* frame for t with reason r gives every local holder exactly one exit/down (t, r)
   ([due] of the Rel engine) and consumes the relations of t only. *)
Theorem C14_remote_reason : forall self ops procs t r c x,
  let s := fst (nrun self ops (init procs)) in
  cnt x c (n_st (remote_terminate t r s)) = (cnt x c (n_st s) + due t r (n_st s) c x)%nat /\
  (forall k, In k (rels (ntm (remote_terminate t r s))) <-> In k (rels (ntm s)) /\ kt k <> t).
Proof. exact remote_reason. Qed.
Print Assumptions C14_remote_reason.

(* owner's side: RouteTerminate* writes exactly one Terminate frame (t, r) to every connected node on
   which a consumer of t lives, none to any other *)
Theorem C14_terminate_frames : forall self t r s,
  idx_ok (ntm s) ->
  exists fs, n_out (local_terminate self t r s) = n_out s ++ fs /\ NoDup fs /\
  forall n f, In (n, f) fs <->
     f = FTerminate t r /\ n <> self /\ conn_of n s <> None /\
     exists c mon, In (mkkey c t mon) (rels (ntm s)) /\ pnode c = n.
Proof. exact local_terminate_frames. Qed.
Print Assumptions C14_terminate_frames.

(* the creation comparison SendTerminatePID/Alias made before fix 1ead0d4 dropped that frame *)
Theorem C14_terminate_frame_prefix_refuted :
  exists s my_creation t r,
    n_out (local_terminate 2 t r s) = [(1, FTerminate t r)] /\
    n_out (local_terminate_prefix 2 my_creation t r s) = [].
Proof. exact terminate_frame_prefix_refuted. Qed.
Print Assumptions C14_terminate_frame_prefix_refuted.

(* a remote termination followed by the loss of the node notifies once, and a late frame after the loss
   notifies nobody *)
Theorem C14_no_double : forall self ops procs t r c x,
  let s := fst (nrun self ops (init procs)) in
  n_target x = t ->
  cnt x c (n_st (node_down (target_node t) (remote_terminate t r s))) = (cnt x c (n_st s) + due t r (n_st s) c x)%nat.
Proof. exact no_double. Qed.
Print Assumptions C14_no_double.

Theorem C14_no_double_late : forall self ops procs t r c x,
  let s := fst (nrun self ops (init procs)) in
  let s1 := node_down (target_node t) s in
  cnt x c (n_st (remote_terminate t r s1)) = cnt x c (n_st s1).
Proof. exact no_double_late. Qed.
Print Assumptions C14_no_double_late.

(* (2) under the timer hypothesis (every started call is followed by its response or its timer event)
   no call is still waiting at the end of the history, whatever happened to the connections *)
Theorem C14_calls_fail : forall self ops, timers_fair ops = true ->
  forall procs, n_pending (fst (nrun self ops (init procs))) = [].
Proof. exact calls_end. Qed.
Print Assumptions C14_calls_fail.

Theorem C14_call_lost_times_out : forall c t cr ref pc procs,
  target_node t <> 1 -> stale t cr pc = false ->
  let ops := [NConnect (target_node t) pc; NCall c t cr ref; NDown (target_node t); NTimer ref] in
  let s := fst (nrun 1 ops (init procs)) in
  n_pending s = [] /\ n_done s = [(ref, e_timeout)].
Proof. exact call_lost_times_out. Qed.
Print Assumptions C14_call_lost_times_out.

(* (4) an operation whose identifier's creation differs from the peer creation of the connection changes
   nothing (no frame, no call, no relation, no mailbox) and returns the incarnation error (or the local
   refusal that precedes the network) *)
Theorem C14_incarnation : forall self o s,
  stale_op o s = true ->
  let '(s', r) := nexec self o s in
  s' = s /\ (r = NErr e_incarnation \/ r = NErr e_exist \/ r = NErr e_norel \/ r = NErr e_local).
Proof. exact incarnation_refused. Qed.
Print Assumptions C14_incarnation.

(* creations are whole seconds: an identifier of an incarnation started in the same second as the
   next one is accepted and its frame is written *)
Theorem C14_incarnation_same_second_refuted :
  exists t1 t2, t1 < t2 /\
    let '(s, rs) := nrun 1 (restart_history 2 t1 t2 (fun cr => NSend (lpid 1001) (TPid (mkpid 2 1004)) cr)) (init [lpid 1001]) in
    last rs (NErr 0) = NOk /\ n_out s = [(2, FSend (lpid 1001) (TPid (mkpid 2 1004)))].
Proof. exact incarnation_same_second_refuted. Qed.
Print Assumptions C14_incarnation_same_second_refuted.

(* with the guard "the two incarnations have different creations" every send / call with an identifier
   of the earlier incarnation is refused and nothing is written *)
Theorem C14_incarnation_partial : forall b t1 t2 c t ref,
  b <> 1 -> target_node t = b -> stamped t = true ->
  creation_of t1 <> creation_of t2 ->
  forall o, In o [NSend c t; (fun cr => NCall c t cr ref)] ->
  let '(s, rs) := nrun 1 (restart_history b t1 t2 o) (init [c]) in
  last rs NOk = NErr e_incarnation /\ n_out s = [] /\ n_pending s = [].
Proof. exact incarnation_partial. Qed.
Print Assumptions C14_incarnation_partial.

(* (4') The guard table of net/proto/connection.go, one row per outgoing method of gen.Connection that is
   handed an identifier (NetFail/Guard.v quotes the Go line of each).  The methods that take a stamped
   identifier of the peer are exactly these fifteen ... *)
Theorem C14_guard_table_ops : stamped_ops =
  [CSendPID; CSendAlias; CSendExit; CSendResponse; CSendResponseError; CCallPID; CCallAlias;
   CLinkPID; CUnlinkPID; CLinkAlias; CUnlinkAlias; CMonitorPID; CDemonitorPID; CMonitorAlias; CDemonitorAlias].
Proof. exact stamped_ops_list. Qed.
Print Assumptions C14_guard_table_ops.

(* ... and for EVERY one of them and EVERY identifier whose creation differs from the peer creation of the
   connection the operation returns the incarnation error and writes no frame ... *)
Theorem C14_guard_refuses_stale : forall op i cr pc from fcr mcr,
  takes_stamped op = true -> accepts op i = true ->
  ident_creation i = Some cr -> cr <> pc ->
  conn_op conn_table op from fcr mcr i pc = (NErr e_incarnation, []).
Proof. exact guard_refuses_stale. Qed.
Print Assumptions C14_guard_refuses_stale.

(* ... so nothing reaches any process or alias of the new incarnation, whatever lives there *)
Theorem C14_stale_reaches_nobody : forall op i cr pc from fcr mcr live rnode rcr,
  takes_stamped op = true -> accepts op i = true ->
  ident_creation i = Some cr -> cr <> pc ->
  delivered live rnode rcr (snd (conn_op conn_table op from fcr mcr i pc)) = [].
Proof. exact stale_reaches_nobody. Qed.
Print Assumptions C14_stale_reaches_nobody.

(* the same through the process API (Link / Monitor / Unlink / Demonitor check the local relation first) *)
Theorem C14_proc_refuses_stale : forall held op i cr pc from mcr,
  takes_stamped op = true -> accepts op i = true ->
  ident_creation i = Some cr -> cr <> pc ->
  let '(r, fs) := proc_op conn_table held op from mcr i pc in
  fs = [] /\ (r = NErr e_incarnation \/ r = NErr e_exist \/ r = NErr e_norel).
Proof. exact proc_refuses_stale. Qed.
Print Assumptions C14_proc_refuses_stale.

(* the table does not refuse everything: an identifier of the connected incarnation passes, one frame is
   written and the receiver resolves it to exactly the identifier that was addressed *)
Theorem C14_guard_passes_current : forall op i pc from fcr mcr rnode,
  takes_stamped op = true -> accepts op i = true ->
  ident_creation i = Some pc ->
  (match i with IPid n _ _ | IAlias n _ _ => n | IName _ n | IEvent _ n => n end) = rnode ->
  exists w, conn_op conn_table op from fcr mcr i pc = (NOk, [w]) /\ resolve rnode pc (w_to w) = i.
Proof. exact guard_passes_current. Qed.
Print Assumptions C14_guard_passes_current.

(* a table is sound (refuses every stale identifier of a local sender without a frame) IFF every one of the
   fifteen operations has the line `if to.Creation != c.peer_creation` *)
Theorem C14_guard_sound_iff : forall t,
  sound t <-> (forall op, takes_stamped op = true -> t op = GPeer).
Proof. exact sound_iff_guarded. Qed.
Print Assumptions C14_guard_sound_iff.

(* refuted for a table with a missing line: for every binary-frame operation the stale identifier is written
   with its numeric id only and the receiver resolves it to the twin of the new incarnation *)
Theorem C14_guard_missing_refuted : forall op,
  takes_stamped op = true -> binary_frame op = true ->
  exists i cr pc w,
    ident_creation i = Some cr /\ cr <> pc /\ accepts op i = true /\
    conn_op (set_line conn_table op GNone) op 1001 5 5 i pc = (NOk, [w]) /\
    reaches twin_live 2 pc w = true /\ resolve 2 pc (w_to w) <> i.
Proof. exact guard_missing_refuted. Qed.
Print Assumptions C14_guard_missing_refuted.

(* refuted for a WRONG line (SendExit comparing from.Creation with the own node's creation: always equal):
   the exit signal for <2.1004> of creation 1000 is written and reaches <2.1004> of creation 1001 *)
Theorem C14_guard_sendexit_from_refuted :
  exists i cr pc from mcr w,
    ident_creation i = Some cr /\ cr <> pc /\
    conn_op seeded_table CSendExit from mcr mcr i pc = (NOk, [w]) /\
    delivered twin_live 2 pc [w] = [w] /\ resolve 2 pc (w_to w) = IPid 2 1004 pc /\ resolve 2 pc (w_to w) <> i.
Proof. exact guard_sendexit_from_refuted. Qed.
Print Assumptions C14_guard_sendexit_from_refuted.

(* an attempt on which the implementation agrees with the model table satisfies the property monitor *)
Theorem C14_guard_corr_implies_spec : forall o,
  takes_stamped (go_op o) = true -> accepts (go_op o) (go_ident o) = true ->
  corr_one o = true -> spec_one o = true.
Proof. exact corr_implies_spec. Qed.
Print Assumptions C14_guard_corr_implies_spec.

(* "when that node stops": a connection being accepted while network.stop runs.  With the re-check of the
   running flag after the registration (fix e1f48c0) every interleaving of the acceptor with stop() ends with the
   link closed, so the dialing node sees its peer go down; without it the interleaving flag, walk, register
   leaves the link open on a stopped node (reproduced on two real nodes: 14 of 40 attempts) *)
Theorem C14_accept_stop_closed : forall l, In l (interleave 10 stop_thread accept_fixed) -> a_open (arun l) = false.
Proof. exact accept_stop_closed. Qed.
Print Assumptions C14_accept_stop_closed.

Theorem C14_accept_stop_before_refuted :
  exists l, In l (interleave 10 stop_thread accept_before) /\ a_open (arun l) = true /\ a_running (arun l) = false.
Proof. exact accept_stop_before_refuted. Qed.
Print Assumptions C14_accept_stop_before_refuted.

(* non-vacuity: observers 1001 (links) and 1002 (monitors) on a pid, a name and the node 2 itself;
   the pid terminates remotely with reason 13, then the node is lost *)
Example C14_example :
  let ops := [NConnect 2 1000;
              NAdd false (lpid 1001) (TPid (mkpid 2 1)) 1000 AOk; NAdd true (lpid 1002) (TPid (mkpid 2 1)) 1000 AOk;
              NAdd false (lpid 1001) (TName 101 2) 0 AOk; NAdd true (lpid 1002) (TNode 2) 0 AOk;
              NAdd true (lpid 1002) (TPid (mkpid 2 7)) 999 AOk;
              NTermFrame (TPid (mkpid 2 1)) 13; NDown 2] in
  let '(s, rs) := nrun 1 ops (init [lpid 1001; lpid 1002]) in
  rs = [NOk; NOk; NOk; NOk; NOk; NErr e_incarnation; NOk; NOk] /\
  inbox_of (lpid 1001) (n_st s) = [mknote false (TPid (mkpid 2 1)) 13; mknote false (TName 101 2) r_noconn] /\
  inbox_of (lpid 1002) (n_st s) = [mknote true (TPid (mkpid 2 1)) 13; mknote true (TNode 2) r_noconn] /\
  rels (ntm s) = [] /\ n_conns s = [].
Proof. vm_compute. repeat split; reflexivity. Qed.

(* ---- the fan-out with FAILING deliveries (NetFail/Fanout.v): RouteNodeDown / RouteTerminate* walk two Go maps
   target -> consumers and deliver with sendExitMessage (Urgent queue) / RouteSendPID (System queue); a delivery to
   ONE consumer fails when that consumer is gone from n.processes (ErrProcessUnknown), was killed while busy in a
   callback and is still registered (ErrProcessTerminated, down messages only) or has a bounded mailbox whose queue
   is full (ErrProcessMailboxFull).  [able w l]: w is alive (or owed exits only) and its two queues have room for
   the deliveries l addressed to it — a condition on the consumer's OWN record. ---- *)

(* the nested loops are one run over the flattened list of deliveries *)
Theorem C14_fan_is_run : forall gl gm s,
  node_down_fan gl gm s = run r_noconn (flat false gl ++ flat true gm) s.
Proof. exact node_down_fan_run. Qed.
Print Assumptions C14_fan_is_run.

(* what the fan-out does to c depends on c's own record only: whatever the state of every other process
   (dead, unregistering, full), c ends the same *)
Theorem C14_fan_independent : forall r dl s s' c, s c = s' c -> run r dl s c = run r dl s' c.
Proof. exact fan_independent. Qed.
Print Assumptions C14_fan_independent.

(* a consumer whose own deliveries succeed gets every note addressed to it, once each, in the order of the walk *)
Theorem C14_fan_exact : forall r dl s c w,
  s c = Some w -> able w (mine c dl) = true ->
  box c (run r dl s) = w_box w ++ map (d_note r) (mine c dl) /\
  handled c (run r dl s) = if w_alive w then w_box w ++ map (d_note r) (mine c dl) else [].
Proof. exact fan_exact. Qed.
Print Assumptions C14_fan_exact.

(* every permutation of the walk (iteration order of the maps, order inside the consumer slices) gives such a
   consumer the same messages *)
Theorem C14_fan_order_free : forall r dl dl' s c w,
  Permutation dl dl' -> s c = Some w -> able w (mine c dl) = true ->
  Permutation (box c (run r dl s)) (box c (run r dl' s)).
Proof. exact fan_order_free. Qed.
Print Assumptions C14_fan_order_free.

(* nobody, able or not, gets a message that is not addressed to it, and none twice *)
Theorem C14_fan_at_most_once : forall r dl s c w,
  s c = Some w -> exists l', sublist l' (mine c dl) /\ box c (run r dl s) = w_box w ++ map (d_note r) l'.
Proof. exact fan_at_most_once. Qed.
Print Assumptions C14_fan_at_most_once.

(* MAIN: for every relation set of the target manager, every grouping and iteration order of the two maps
   CleanupNode(n) returns and every state of the other processes, RouteNodeDown(n) gives a consumer whose own
   deliveries succeed exactly one more 'no connection' exit per link and down per monitor it held on a pid, name,
   alias, event of n or on n itself ([due_node]), and nothing else *)
Theorem C14_node_down_fan_exact : forall n m m' l mo gl gm s c w x,
  NoDup (rels m) -> tm_cleanup_node n m = (m', l, mo) ->
  Permutation (flat false gl) (map (pair_dlv false) l) ->
  Permutation (flat true gm) (map (pair_dlv true) mo) ->
  s c = Some w -> able w (mine c (node_dlvs n (rels m))) = true ->
  count_occ note_dec (box c (node_down_fan gl gm s)) x
  = (count_occ note_dec (w_box w) x + due_node n (rels m) c x)%nat.
Proof. exact node_down_fan_exact. Qed.
Print Assumptions C14_node_down_fan_exact.

Theorem C14_node_down_fan_at_most_once : forall n m m' l mo gl gm s c w,
  NoDup (rels m) -> tm_cleanup_node n m = (m', l, mo) ->
  Permutation (flat false gl) (map (pair_dlv false) l) ->
  Permutation (flat true gm) (map (pair_dlv true) mo) ->
  s c = Some w ->
  exists l', box c (node_down_fan gl gm s) = w_box w ++ map (d_note r_noconn) l' /\ NoDup l' /\
             forall d, In d l' -> d_c d = c /\ In (mkkey c (d_t d) (d_down d)) (rels m) /\ target_node (d_t d) = n.
Proof. exact node_down_fan_at_most_once. Qed.
Print Assumptions C14_node_down_fan_at_most_once.

(* the first model of this file ([node_down_st]: deliveries by Rel's [send], which fails only for a process that is
   gone) is the special case "every registered process is healthy" of the fan-out model: both give every live process
   the same messages *)
Theorem C14_fan_agrees_with_rel : forall n s m' l mo gl gm c x,
  idx_ok (s_tm s) -> tm_cleanup_node n (s_tm s) = (m', l, mo) ->
  Permutation (flat false gl) (map (pair_dlv false) l) ->
  Permutation (flat true gm) (map (pair_dlv true) mo) ->
  live c s = true ->
  count_occ note_dec (box c (node_down_fan gl gm (wst_of s))) x = cnt x c (node_down_st n s).
Proof. exact fan_agrees_with_rel. Qed.
Print Assumptions C14_fan_agrees_with_rel.

(* the same for RouteTerminate*(t, r) (a Terminate* frame arrived, or a local target terminated) *)
Theorem C14_terminate_fan_exact : forall t r lc mc s c w x,
  NoDup lc -> NoDup mc -> s c = Some w -> able w (mine c (term_dlvs t lc mc)) = true ->
  count_occ note_dec (box c (terminate_fan t r lc mc s)) x
  = (count_occ note_dec (w_box w) x + due_target t r lc mc c x)%nat.
Proof. exact terminate_fan_exact. Qed.
Print Assumptions C14_terminate_fan_exact.

Theorem C14_terminate_fan_order_free : forall t r lc mc lc' mc' s c w,
  Permutation lc lc' -> Permutation mc mc' -> s c = Some w -> able w (mine c (term_dlvs t lc mc)) = true ->
  Permutation (box c (terminate_fan t r lc mc s)) (box c (terminate_fan t r lc' mc' s)).
Proof. exact terminate_fan_order_free. Qed.
Print Assumptions C14_terminate_fan_order_free.

(* refuted: the seeded `if err != nil { return }` in the monitor loop of RouteNodeDown: a zombie met first silences an
   able monitor consumer of ANOTHER target *)
Theorem C14_fan_mon_return_refuted :
  exists gl gm s c w x,
    s c = Some w /\ able w (mine c (flat false gl ++ flat true gm)) = true /\
    In (mkdlv (n_down x) (n_target x) c) (flat false gl ++ flat true gm) /\ n_reason x = r_noconn /\
    count_occ note_dec (box c (node_down_fan gl gm s)) x = 1%nat /\
    count_occ note_dec (box c (node_down_fan_mon_return gl gm s)) x = 0%nat.
Proof. exact fan_mon_return_refuted. Qed.
Print Assumptions C14_fan_mon_return_refuted.

(* the same `return` in the link loop: a full Urgent queue silences later link consumers and every monitor consumer *)
Theorem C14_fan_link_return_refuted :
  exists gl gm s c w x,
    s c = Some w /\ able w (mine c (flat false gl ++ flat true gm)) = true /\
    In (mkdlv (n_down x) (n_target x) c) (flat false gl ++ flat true gm) /\ n_reason x = r_noconn /\
    count_occ note_dec (box c (node_down_fan gl gm s)) x = 1%nat /\
    count_occ note_dec (box c (node_down_fan_link_return gl gm s)) x = 0%nat.
Proof. exact fan_link_return_refuted. Qed.
Print Assumptions C14_fan_link_return_refuted.

(* `break` out of the consumer loop *)
Theorem C14_fan_break_refuted :
  exists gl gm s c w x,
    s c = Some w /\ able w (mine c (flat false gl ++ flat true gm)) = true /\
    In (mkdlv (n_down x) (n_target x) c) (flat false gl ++ flat true gm) /\ n_reason x = r_noconn /\
    count_occ note_dec (box c (node_down_fan gl gm s)) x = 1%nat /\
    count_occ note_dec (box c (node_down_fan_break gl gm s)) x = 0%nat.
Proof. exact fan_break_refuted. Qed.
Print Assumptions C14_fan_break_refuted.

Theorem C14_terminate_break_refuted :
  exists t r lc mc s c w x,
    s c = Some w /\ able w (mine c (term_dlvs t lc mc)) = true /\ due_target t r lc mc c x = 1%nat /\
    count_occ note_dec (box c (terminate_fan t r lc mc s)) x = 1%nat /\
    count_occ note_dec (box c (terminate_fan_break t r lc mc s)) x = 0%nat.
Proof. exact terminate_break_refuted. Qed.
Print Assumptions C14_terminate_break_refuted.
