(* C11 — EDF round trip.  Property theorems only; proofs live in Edf/. (placeholder until Proofs.v) *)
From Ergo Require Import Common.Base Common.Bytes Common.Codec Edf.Model.
