(* C11 — EDF round trip: what encodes, decodes to the same value.
   Property theorems only; definitions in Edf/Model.v, proofs in Edf/Proofs.v. *)
From Ergo Require Import Common.Base Common.Bytes Common.Codec Edf.Model Edf.Proofs.
Local Open Scope N_scope.

(* For every option set a handshake can produce (unique cache ids in their ranges), every type and
   value of the model's universe (primitives, framework identifiers, time, errors, any nesting of
   slices / arrays / maps / interfaces, registered structs and named types), and every continuation
   [rest] of the input: whatever Encode accepts, Decode (with the connection's decoding options)
   returns as the same type and the canonical form of the value, consuming exactly the bytes
   produced.  [supported] is the explicit boolean guard excluding the three known findings. *)
Theorem C11_roundtrip_partial : forall o t v bs rest,
  wf_opts o -> supported o t v = true -> encode o t v = Ok bs ->
  decode (dual o) (bs ++ rest) = Ok (t, canon o v, rest).
Proof. exact roundtrip_partial. Qed.
Print Assumptions C11_roundtrip_partial.

(* the statement without the guard is false for the code as it is: [1][0]int *)
Theorem C11_roundtrip_refuted :
  exists o t v bs, wf_opts o /\ encode o t v = Ok bs /\ decode (dual o) (bs ++ []) <> Ok (t, canon o v, []).
Proof. exact roundtrip_refuted. Qed.
Print Assumptions C11_roundtrip_refuted.

(* map[[2]int8]string *)
Theorem C11_roundtrip_refuted_map_key :
  exists bs, encode o_plain w_key_t w_key_v = Ok bs /\
             decode (dual o_plain) (bs ++ []) <> Ok (w_key_t, canon o_plain w_key_v, []).
Proof. exact roundtrip_refuted_map_key. Qed.
Print Assumptions C11_roundtrip_refuted_map_key.

(* an atom whose mapping target is longer than 255 bytes *)
Theorem C11_roundtrip_refuted_atom_mapping :
  exists bs, encode o_longmap (TPrim PAtom) (VBytes [115]) = Ok bs /\
             decode (dual o_longmap) (bs ++ []) <> Ok (TPrim PAtom, canon o_longmap (VBytes [115]), []).
Proof. exact roundtrip_refuted_atom_mapping. Qed.
Print Assumptions C11_roundtrip_refuted_atom_mapping.

(* nil and empty slices: different bytes, each comes back as sent *)
Theorem C11_nil_vs_empty : forall o t,
  wf_opts o -> desc_ok o (TSlice t) = true -> ty_enc_ok o t = true -> (1 <= o_fuel o)%nat ->
  exists b1 b2, encode o (TSlice t) VNil = Ok b1 /\ encode o (TSlice t) (VList []) = Ok b2 /\ b1 <> b2 /\
    decode (dual o) b1 = Ok (TSlice t, VNil, []) /\ decode (dual o) b2 = Ok (TSlice t, VList [], []).
Proof. exact nil_vs_empty. Qed.
Print Assumptions C11_nil_vs_empty.

(* a registered sentinel error comes back as the same sentinel *)
Theorem C11_sentinel_errors : forall o k txt bs rest,
  wf_opts o -> err_cached o k = true -> encode o (TPrim PError) (VErr (Some k) txt) = Ok bs ->
  decode (dual o) (bs ++ rest) = Ok (TPrim PError, VErr (Some k) txt, rest).
Proof. exact sentinel_errors. Qed.
Print Assumptions C11_sentinel_errors.

(* the encoder's "too long" answer is given only for an over-long string / binary / atom / node or
   process name / error text, and always for over-long strings, binaries and atoms *)
Theorem C11_rejects_unrepresentable : forall o p v,
  enc_prim o p v = Err ETooLong -> prim_overlong p v = true.
Proof. exact rejects_only_overlong. Qed.
Print Assumptions C11_rejects_unrepresentable.

Theorem C11_overlong_rejected : forall o p v,
  match p with PString | PBinary | PAtom => true | _ => false end = true ->
  prim_overlong p v = true -> enc_prim o p v = Err ETooLong.
Proof. exact overlong_rejected. Qed.
Print Assumptions C11_overlong_rejected.

(* ... and for whole values: Encode answers "too long" only if some component of the value (at any
   nesting depth, in any interface, struct field, slice, array or map) is over-long *)
Theorem C11_rejects_unrepresentable_value : forall o t v,
  encode o t v = Err ETooLong -> has_overlong (o_fuel o) o t v = true.
Proof. exact rejects_unrepresentable. Qed.
Print Assumptions C11_rejects_unrepresentable_value.

(* the length check of decodeString as it was before 622a4d5 (sum computed in uint16) rejected
   the encoder's output for 65534 and 65535 byte strings; the repaired check accepts them *)
Theorem C11_string_wrap_before_fix : forall s r,
  blen s = 65534 \/ blen s = 65535 -> get_lp 2 16 (put_lp 2 s ++ r) = Err EData.
Proof. exact string_wrap_before_fix. Qed.
Print Assumptions C11_string_wrap_before_fix.

Theorem C11_string_after_fix : forall s r, blen s <= 65535 -> get_lp 2 64 (put_lp 2 s ++ r) = Ok (s, r).
Proof. exact string_after_fix. Qed.
Print Assumptions C11_string_after_fix.

(* non-vacuity: a registered struct with interface, slice-of-struct, map, error and atom fields under
   atom cache + atom mapping + type cache + error cache meets the hypotheses *)
Example C11_example :
  wf_opts ex_opts /\ supported ex_opts (TReg [35; 82]) ex_val = true /\
  exists bs, encode ex_opts (TReg [35; 82]) ex_val = Ok bs /\ (40 <= length bs)%nat /\
             decode (dual ex_opts) bs = Ok (TReg [35; 82], canon ex_opts ex_val, []).
Proof. exact roundtrip_example. Qed.
Print Assumptions C11_example.
