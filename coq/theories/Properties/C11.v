(* C11 — EDF round trip: what encodes, decodes to the same value.
   Property theorems only; definitions in Edf/Model.v, proofs in Edf/Proofs.v. *)
From Ergo Require Import Common.Base Common.Bytes Common.Codec Edf.Model Edf.Proofs Edf.Negotiate Edf.NegotiateProofs Edf.Flag Edf.FlagProofs Edf.Window Edf.WindowProofs.
Local Open Scope N_scope.

(* For every option set a handshake can produce (unique cache ids in their ranges), every type and
   value of the model's universe (primitives, framework identifiers, time, errors, any nesting of
   slices / arrays / maps / interfaces, registered structs and named types, values of Marshaler
   types), and every continuation [rest] of the input: whatever Encode accepts, Decode (with the
   connection's decoding options) returns as the same type and the canonical form of the value,
   consuming exactly the bytes produced.  [supported] is the explicit boolean guard excluding the
   three known findings; [marsh_inv] is the hypothesis on user code: for every Marshaler type of the
   registry the user's Unmarshal inverts the user's Marshal. *)
Theorem C11_roundtrip_partial : forall o t v bs rest,
  wf_opts o -> marsh_inv o -> supported o t v = true -> encode o t v = Ok bs ->
  decode (dual o) (bs ++ rest) = Ok (t, canon o v, rest).
Proof. exact roundtrip_partial. Qed.
Print Assumptions C11_roundtrip_partial.

(* the statement without the guard is false for the code as it is: [1][0]int *)
Theorem C11_roundtrip_refuted :
  exists o t v bs, wf_opts o /\ encode o t v = Ok bs /\ decode (dual o) (bs ++ []) <> Ok (t, canon o v, []).
Proof. exact roundtrip_refuted. Qed.
Print Assumptions C11_roundtrip_refuted.

(* map[[2]int8]string *)
Theorem C11_roundtrip_refuted_map_key :
  exists bs, encode o_plain w_key_t w_key_v = Ok bs /\
             decode (dual o_plain) (bs ++ []) <> Ok (w_key_t, canon o_plain w_key_v, []).
Proof. exact roundtrip_refuted_map_key. Qed.
Print Assumptions C11_roundtrip_refuted_map_key.

(* an atom whose mapping target is longer than 255 bytes *)
Theorem C11_roundtrip_refuted_atom_mapping :
  exists bs, encode o_longmap (TPrim PAtom) (VBytes [115]) = Ok bs /\
             decode (dual o_longmap) (bs ++ []) <> Ok (TPrim PAtom, canon o_longmap (VBytes [115]), []).
Proof. exact roundtrip_refuted_atom_mapping. Qed.
Print Assumptions C11_roundtrip_refuted_atom_mapping.

(* nil and empty slices: different bytes, each comes back as sent *)
Theorem C11_nil_vs_empty : forall o t,
  wf_opts o -> marsh_inv o -> desc_ok o (TSlice t) = true -> ty_enc_ok o t = true -> (1 <= o_fuel o)%nat ->
  exists b1 b2, encode o (TSlice t) VNil = Ok b1 /\ encode o (TSlice t) (VList []) = Ok b2 /\ b1 <> b2 /\
    decode (dual o) b1 = Ok (TSlice t, VNil, []) /\ decode (dual o) b2 = Ok (TSlice t, VList [], []).
Proof. exact nil_vs_empty. Qed.
Print Assumptions C11_nil_vs_empty.

(* a registered sentinel error comes back as the same sentinel *)
Theorem C11_sentinel_errors : forall o k txt bs rest,
  wf_opts o -> marsh_inv o -> err_cached o k = true -> encode o (TPrim PError) (VErr (Some k) txt) = Ok bs ->
  decode (dual o) (bs ++ rest) = Ok (TPrim PError, VErr (Some k) txt, rest).
Proof. exact sentinel_errors. Qed.
Print Assumptions C11_sentinel_errors.

(* the encoder's "too long" answer is given only for an over-long string / binary / atom / node or
   process name / error text, and always for over-long strings, binaries and atoms *)
Theorem C11_rejects_unrepresentable : forall o p v,
  enc_prim o p v = Err ETooLong -> prim_overlong p v = true.
Proof. exact rejects_only_overlong. Qed.
Print Assumptions C11_rejects_unrepresentable.

Theorem C11_overlong_rejected : forall o p v,
  match p with PString | PBinary | PAtom => true | _ => false end = true ->
  prim_overlong p v = true -> enc_prim o p v = Err ETooLong.
Proof. exact overlong_rejected. Qed.
Print Assumptions C11_overlong_rejected.

(* ... and for whole values: Encode answers "too long" only if some component of the value (at any
   nesting depth, in any interface, struct field, slice, array or map) is over-long *)
Theorem C11_rejects_unrepresentable_value : forall o t v,
  encode o t v = Err ETooLong -> has_overlong (o_fuel o) o t v = true.
Proof. exact rejects_unrepresentable. Qed.
Print Assumptions C11_rejects_unrepresentable_value.

(* the length check of decodeString as it was before 622a4d5 (sum computed in uint16) rejected
   the encoder's output for 65534 and 65535 byte strings; the repaired check accepts them *)
Theorem C11_string_wrap_before_fix : forall s r,
  blen s = 65534 \/ blen s = 65535 -> get_lp 2 16 (put_lp 2 s ++ r) = Err EData.
Proof. exact string_wrap_before_fix. Qed.
Print Assumptions C11_string_wrap_before_fix.

Theorem C11_string_after_fix : forall s r, blen s <= 65535 -> get_lp 2 64 (put_lp 2 s ++ r) = Ok (s, r).
Proof. exact string_after_fix. Qed.
Print Assumptions C11_string_after_fix.

(* non-vacuity: a registered struct with interface, slice-of-struct, map, error and atom fields under
   atom cache + atom mapping + type cache + error cache meets the hypotheses *)
Example C11_example :
  wf_opts ex_opts /\ marsh_inv ex_opts /\ supported ex_opts (TReg [35; 82]) ex_val = true /\
  exists bs, encode ex_opts (TReg [35; 82]) ex_val = Ok bs /\ (40 <= length bs)%nat /\
             decode (dual ex_opts) bs = Ok (TReg [35; 82], canon ex_opts ex_val, []).
Proof. exact roundtrip_example. Qed.
Print Assumptions C11_example.

(* ---- custom marshalers (edf.Marshaler, encoding.BinaryMarshaler) ---------------------------------
   the bytes of a marshaler value: registered-type header, 4-byte big-endian payload length, payload *)
Theorem C11_marshaler_bytes : forall o name m u x p,
  (1 <= o_fuel o)%nat -> lookup_reg o name = Some (RMarsh m u) -> m x = Ok p -> blen p <= maxMarsh ->
  encode o (TReg name) (VMarsh x) = Ok (prefix o (TReg name) ++ put_be 4 (blen p) ++ p).
Proof. exact marshaler_bytes. Qed.
Print Assumptions C11_marshaler_bytes.

(* it comes back as the same state, consuming exactly those bytes (nested positions: the general
   theorem above) *)
Theorem C11_marshaler_roundtrip : forall o name m u x bs rest,
  wf_opts o -> marsh_inv o -> lookup_reg o name = Some (RMarsh m u) ->
  encode o (TReg name) (VMarsh x) = Ok bs ->
  decode (dual o) (bs ++ rest) = Ok (TReg name, VMarsh x, rest).
Proof. exact marshaler_roundtrip. Qed.
Print Assumptions C11_marshaler_roundtrip.

(* a payload longer than 2^32-2 bytes is rejected when encoding *)
Theorem C11_marshaler_overlong_rejected : forall o name m u x p,
  (1 <= o_fuel o)%nat -> lookup_reg o name = Some (RMarsh m u) -> m x = Ok p -> maxMarsh < blen p ->
  encode o (TReg name) (VMarsh x) = Err ETooLong.
Proof. exact marshaler_overlong_rejected. Qed.
Print Assumptions C11_marshaler_overlong_rejected.

(* the hypothesis follows from a per-entry statement, holds for registries without Marshaler types and
   for the harness's own marshaler types (xor 0x5a / byte reversal) *)
Theorem C11_marsh_inv_forall : forall o,
  Forall (fun e => match snd e with RMarsh m u => inverts m u | _ => True end) (o_reg o) -> marsh_inv o.
Proof. exact marsh_inv_forall. Qed.
Print Assumptions C11_marsh_inv_forall.

Theorem C11_harness_marshalers_invert : inverts mar_xor unmar_xor /\ inverts mar_rev unmar_rev.
Proof. exact (conj xor_inverts rev_inverts). Qed.
Print Assumptions C11_harness_marshalers_invert.

(* ... and cannot be dropped: with an Unmarshal that does not invert Marshal the codec still moves the
   payload faithfully but the value comes back different *)
Theorem C11_marsh_hypothesis_needed :
  wf_opts o_badmarsh /\ supported o_badmarsh (TReg [35; 77]) (VMarsh [1]) = true /\
  exists bs, encode o_badmarsh (TReg [35; 77]) (VMarsh [1]) = Ok bs /\
             decode (dual o_badmarsh) bs = Ok (TReg [35; 77], VMarsh [91], []).
Proof. exact marsh_hypothesis_needed. Qed.
Print Assumptions C11_marsh_hypothesis_needed.

Example C11_marshaler_example :
  wf_opts exm_opts /\ marsh_inv exm_opts /\ supported exm_opts (TReg [35; 76]) exm_val = true /\
  exists bs, encode exm_opts (TReg [35; 76]) exm_val = Ok bs /\ (40 <= length bs)%nat /\
             decode (dual exm_opts) bs = Ok (TReg [35; 76], exm_val, []).
Proof. exact marshaler_example. Qed.
Print Assumptions C11_marshaler_example.

(* ---- caches negotiated by two nodes with different registries (net/handshake/handshake.go) ----------
   [g_ta g] / [g_tb g]: the sentinel registries of the sending node A and the receiving node B, entries
   (error object, id, text).  A encodes with the cache made of its own registry, B decodes with the cache
   [make_decode_err_cache] builds from B's registry and the table A announced.
   A registered sentinel travels as its 2-byte id ... *)
Theorem C11_negotiated_sentinel_bytes : forall g obj id txt,
  wf_etable_b (g_ta g) = true -> In (obj, id, txt) (g_ta g) ->
  enc_error (enc_opts g) (Some obj) txt = Ok (put_be 2 id).
Proof. exact neg_sentinel_bytes. Qed.
Print Assumptions C11_negotiated_sentinel_bytes.

(* ... and for EVERY pair of registries (any ids, any registration order, any overlap) B decodes it as the
   error object [k] with the same text, where k is THE sentinel B registered under that text (B's texts
   injective), and the object B received in the announcement when B has no such sentinel *)
Theorem C11_negotiated_sentinel_spec : forall g objA id txt bs r,
  wf_etable_b (g_ta g) = true -> texts_injb (g_tb g) = true -> In (objA, id, txt) (g_ta g) ->
  enc_error (enc_opts g) (Some objA) txt = Ok bs ->
  exists k, dec_error (dec_opts g) (bs ++ r) = Ok (VErr (Some k) txt, r) /\
    (forall objB idB, In (objB, idB, txt) (g_tb g) -> k = objB) /\
    ((forall objB idB, ~ In (objB, idB, txt) (g_tb g)) -> k = foreign id) /\
    strip_foreign (VErr (Some k) txt) = strip_foreign (expect_err (g_tb g) txt).
Proof. exact neg_sentinel_spec. Qed.
Print Assumptions C11_negotiated_sentinel_spec.

(* a decode cache keyed by the numeric id alone returns another sentinel when the two nodes registered
   their errors in a different order *)
Example C11_cache_by_id_wrong :
  err_by_id 32768 (make_decode_err_cache ex_tb (announce ex_ta)) = Some (0, [97]) /\
  err_by_id 32768 (decode_cache_by_id ex_tb (announce ex_ta)) = Some (1, [98]).
Proof. exact by_id_cache_wrong. Qed.
Print Assumptions C11_cache_by_id_wrong.

Example C11_negotiated_example :
  wf_etable_b (g_ta ex_nego) = true /\ texts_injb (g_tb ex_nego) = true /\
  dec_error (dec_opts ex_nego) [128; 0; 7] = Ok (VErr (Some 0) [97], [7]) /\
  dec_error (dec_opts ex_nego) [128; 2] = Ok (VErr (Some (foreign 32770)) [99], []).
Proof. exact neg_example. Qed.
Print Assumptions C11_negotiated_example.

(* ---- the encodeType flag of the encoder's state object (Edf/Flag.v: the encoder with the mutable
   stateEncode chain made explicit; encodeAny sets the flag and never restores it, nine loop positions
   reset it) ------------------------------------------------------------------------------------------
   With every reset in place, the bytes an encoder appends depend on the state object it is handed only
   through that object's own flag - never on what previous siblings left in state.child and below - and
   are those of the functional model [enc_val] the round-trip theorem is stated for *)
Theorem C11_flag_refines : forall f o t v s,
  fl s = false \/ t <> TAny ->
  out (enc_s all_resets f o t v s) = enc_val f o (fl s) t v.
Proof. exact flag_refines. Qed.
Print Assumptions C11_flag_refines.

(* Encode with the explicit state = the Encode of C11_roundtrip_partial *)
Theorem C11_encode_stateful : forall o t v, t <> TAny -> encode_s all_resets o t v = encode o t v.
Proof. exact encode_s_encode. Qed.
Print Assumptions C11_encode_stateful.

Theorem C11_sibling_independent : forall f o t v s1 s2,
  fl s1 = fl s2 -> fl s1 = false \/ t <> TAny ->
  out (enc_s all_resets f o t v s1) = out (enc_s all_resets f o t v s2).
Proof. exact sibling_independent. Qed.
Print Assumptions C11_sibling_independent.

(* the items of a container, whatever the shared child state carries when the loop starts *)
Theorem C11_container_items_clean : forall f o t l c,
  out (loop_s true (enc_s all_resets f o t) l c) = enc_all (enc_val f o false t) l.
Proof. exact container_items_clean. Qed.
Print Assumptions C11_container_items_clean.

(* who changes the flag: nobody but encodeAny (for every variant [d] of the resets) *)
Theorem C11_own_flag_restored : forall d f o t v s b s',
  t <> TAny -> enc_s d f o t v s = Ok (b, s') -> fl s' = fl s.
Proof. exact own_flag_restored. Qed.
Print Assumptions C11_own_flag_restored.

Theorem C11_any_leaks : forall d f o p v s b s',
  enc_s d (S (S f)) o TAny (VAny (TPrim p) v) s = Ok (b, s') -> fl s' = true.
Proof. exact any_leaks. Qed.
Print Assumptions C11_any_leaks.

(* a container encoder that forgets one reset: the statement "the bytes do not depend on what the
   previous sibling left" is false for it ... *)
Theorem C11_flag_independence_refuted :
  exists d f o t v s1 s2, fl s1 = fl s2 /\ t <> TAny /\
    out (enc_s d f o t v s1) <> out (enc_s d f o t v s2).
Proof. exact flag_independence_refuted. Qed.
Print Assumptions C11_flag_independence_refuted.

(* ... and the round trip breaks on a supported value.  register.go:576 (registered map, before the
   value) dropped: type M map[any]int8, M{"k": 5} comes back as M{"k": -110} with one byte unread *)
Theorem C11_reset_needed_regmap_value :
  rt_breaks no_rmapval fw_opts fw_mapval_t fw_mapval_v /\
  exists bs, encode_s no_rmapval fw_opts fw_mapval_t fw_mapval_v = Ok bs /\
             decode (dual fw_opts) bs = Ok (fw_mapval_t, VMap [(any_str [107], VInt (-110))], [5]).
Proof. exact reset_needed_regmap_value. Qed.
Print Assumptions C11_reset_needed_regmap_value.

(* the other eight resets, one witness each: registered map key, registered slice / array item (after a
   sibling []any), struct field, and the four of the unnamed containers *)
Theorem C11_reset_needed_all :
  rt_breaks no_rmapkey fw_opts fw_mapkey_t fw_mapkey_v /\ rt_breaks no_rslice fw_opts fw_rslice_t fw_rslice_v /\
  rt_breaks no_rarray fw_opts fw_rarray_t fw_rarray_v /\ rt_breaks no_field fw_opts fw_field_t fw_field_v /\
  rt_breaks no_mapval fw_opts fw_gmapval_t fw_mapval_v /\ rt_breaks no_mapkey fw_opts fw_gmapkey_t fw_mapkey_v /\
  rt_breaks no_slice fw_opts fw_gslice_t fw_rslice_v /\ rt_breaks no_array fw_opts fw_garray_t fw_rarray_v.
Proof.
  exact (conj reset_needed_regmap_key (conj reset_needed_regslice (conj reset_needed_regarray (conj reset_needed_struct_field
        (conj reset_needed_map_value (conj reset_needed_map_key (conj reset_needed_slice reset_needed_array))))))).
Qed.
Print Assumptions C11_reset_needed_all.

Example C11_flag_example :
  out (enc_s all_resets 8 fw_opts fw_field_t fw_field_v [false; true; true]) = enc_val 8 fw_opts false fw_field_t fw_field_v /\
  enc_val 8 fw_opts false fw_field_t fw_field_v = Ok [141; 0; 1; 120; 0; 1; 121] /\
  enc_s all_resets 8 fw_opts TAny (any_str [120]) [false; false] = Ok ([141; 0; 1; 120], [true]).
Proof. exact flag_example. Qed.
Print Assumptions C11_flag_example.

(* ---- registries growing DURING a handshake (Edf/Window.v; net/handshake/start.go, accept.go) ----------
   A party announces a snapshot of its atom / type-name / error tables and builds its encode caches from
   that snapshot; the peer builds its decode caches from the announcement. For every snapshot and every
   later state of the registry the two ends hold the same association list (the hypothesis of the
   round-trip theorems above), so every id the encoder may emit resolves to the same name at the peer *)
Theorem C11_window_same_list : forall snap later,
  hs_encode_cache snap later = hs_peer_decode_cache snap.
Proof. exact window_same_list. Qed.
Print Assumptions C11_window_same_list.

Theorem C11_window_agree : forall snap later,
  NoDup (map fst snap) -> agree (hs_encode_cache snap later) (hs_peer_decode_cache snap).
Proof. exact window_agree. Qed.
Print Assumptions C11_window_agree.

(* reading the registry again when the options are built is wrong as soon as one registration falls
   between the two reads *)
Theorem C11_window_fresh_refuted :
  exists snap later, extends snap later /\
    ~ agree (hs_encode_cache_fresh snap later) (hs_peer_decode_cache snap).
Proof. exact window_fresh_refuted. Qed.
Print Assumptions C11_window_fresh_refuted.

Example C11_window_nontrivial :
  extends ex_snap ex_later /\ ex_snap <> ex_later /\ agree (hs_encode_cache ex_snap ex_later) (hs_peer_decode_cache ex_snap).
Proof. exact window_agree_nontrivial. Qed.
Print Assumptions C11_window_nontrivial.
