(* C19 - Pool dispatch: each request to exactly one live worker.  Property theorems only; proofs live in Pool/. *)
From Ergo Require Import Common.Base Pool.Model Pool.Proofs Call.Model Call.Proofs.
Local Open Scope Z_scope.

(* exactly one mailbox: for every ring, every state of the workers, every capacity and every outcome of Spawn, a
   dispatch either hands the ORIGINAL message (same sender, same reference) to exactly one worker - appended to the
   mailbox of a live worker with room, or as the only message of a replacement spawned on the spot - and touches nobody
   else, or drops it and touches nobody *)
Theorem C19_one_worker : forall p oracle m v p' o',
  forward p oracle m = (v, p', o') ->
  match v with
  | Delivered pid false =>
      In pid (ring p) /\ takeW (cap p) (ws p) pid = true /\
      ws p' pid = mk_w true (w_box (ws p pid) ++ [m]) /\ forall q, q <> pid -> ws p' q = ws p q
  | Delivered pid true =>
      pid = next p /\ (exists d, In d (ring p) /\ deadW (ws p) d = true) /\
      ws p' pid = mk_w true [m] /\ forall q, q <> pid -> ws p' q = ws p q
  | Dropped => ws p' = ws p
  | Stuck => False
  end.
Proof. exact one_worker. Qed.
Print Assumptions C19_one_worker.

(* ... and it is dropped IF AND ONLY IF every worker of the ring is full or dead with a failed respawn *)
Theorem C19_dropped_iff_all_full : forall p oracle m,
  fst (fst (forward p oracle m)) <> Stuck /\
  (fst (fst (forward p oracle m)) = Dropped <->
   forallb (non_taker (cap p) (ws p)) (ring p) = true /\ fails (ndead (ws p) (ring p)) oracle = true).
Proof. exact drop_iff. Qed.
Print Assumptions C19_dropped_iff_all_full.

(* full workers are skipped (and keep their place, in order); the first live worker with room gets the message *)
Theorem C19_skip_full : forall p oracle m pre pid post,
  ring p = pre ++ pid :: post ->
  forallb (non_taker (cap p) (ws p)) pre = true ->
  fails (ndead (ws p) pre) oracle = true ->
  takeW (cap p) (ws p) pid = true ->
  forward p oracle m =
    (Delivered pid false,
     mk_pool (post ++ alive_of (ws p) pre ++ [pid]) (upd (ws p) pid (mk_w true (w_box (ws p pid) ++ [m])))
             (next p) (cap p) (forwarded p + 1) (restarts p) (unhandled p),
     skipn (ndead (ws p) pre) oracle).
Proof. exact dispatch_take. Qed.
Print Assumptions C19_skip_full.

(* a dead worker met at dispatch is replaced on the spot and the replacement receives the message *)
Theorem C19_respawn : forall p oracle m pre pid post,
  ring p = pre ++ pid :: post ->
  forallb (non_taker (cap p) (ws p)) pre = true ->
  fails (ndead (ws p) pre) oracle = true ->
  deadW (ws p) pid = true ->
  hd false (skipn (ndead (ws p) pre) oracle) = true ->
  forward p oracle m =
    (Delivered (next p) true,
     mk_pool (post ++ alive_of (ws p) pre ++ [next p]) (upd (ws p) (next p) (mk_w true [m]))
             (next p + 1) (cap p) (forwarded p + 1) (restarts p + 1) (unhandled p),
     List.tl (skipn (ndead (ws p) pre) oracle)).
Proof. exact dispatch_respawn. Qed.
Print Assumptions C19_respawn.

Theorem C19_respawn_is_new : forall p oracle m pid p' o',
  WF p -> forward p oracle m = (Delivered pid true, p', o') ->
  ~ In pid (ring p) /\ ws p pid = mk_w false [] /\ ws p' pid = mk_w true [m] /\ In pid (ring p').
Proof. exact respawn_is_new. Qed.
Print Assumptions C19_respawn_is_new.

(* the ring keeps its size when Spawn succeeds and shrinks by exactly the failed spawns *)
Theorem C19_ring_length : forall p oracle m v p' o',
  forward p oracle m = (v, p', o') ->
  exists nfail : nat,
    (length (ring p') + nfail = length (ring p))%nat /\
    o' = skipn (nfail + match v with Delivered _ true => 1 | _ => 0 end) oracle /\
    fails nfail oracle = true.
Proof. exact ring_length. Qed.
Print Assumptions C19_ring_length.

(* for all histories (dispatches, AddWorkers, RemoveWorkers, crashes, worker progress) the ring is duplicate-free and
   holds only pids already handed out *)
Theorem C19_ring_wellformed : forall l size capacity, WF (pl (hrun_from (hinit size capacity 0) l)).
Proof. exact WF_history. Qed.
Print Assumptions C19_ring_wellformed.

(* only Normal-priority Regular / Request / Event traffic is forwarded *)
Theorem C19_only_normal_forwarded : forall prio ty,
  0 <= ty <= 4 ->
  (is_forwarded prio ty = true <->
   (prio <> prio_high /\ prio <> prio_max) /\ (ty = ty_regular \/ ty = ty_request \/ ty = ty_event)).
Proof. exact forwarded_iff. Qed.
Print Assumptions C19_only_normal_forwarded.

(* the worker's reply reaches the caller: the worker finds the caller's own reference in the message it was given, and
   (C07) a caller waiting for that reference returns the reply sent with it *)
Theorem C19_reply_reaches_caller : forall (enc : Z -> Call.Model.ref) p oracle m pid rs p' o' (s : Call.Model.st) k pay,
  forward p oracle m = (Delivered pid rs, p', o') ->
  waiting s = Some (k, enc (m_ref m)) -> killed s = false -> gone s = false -> chan s = [] ->
  exists m', In m' (w_box (ws p' pid)) /\ m' = m /\
    results (run_from s [EResp pid (enc (m_ref m')) pay false; ERecv]) =
      (k, enc (m_ref m), OReply (mk_resp (pos s) (enc (m_ref m)) pid pay false)) :: results s.
Proof.
  intros enc p oracle m pid rs p' o' s k pay H Hw Hk Hg Hc.
  exists m. split; [|split; [reflexivity|]].
  - pose proof (one_worker _ _ _ _ _ _ H) as X. destruct rs.
    + destruct X as (_ & _ & -> & _). left. reflexivity.
    + destruct X as (_ & _ & -> & _). cbn. apply in_or_app. right. left. reflexivity.
  - unfold run_from. cbn [fold_left].
    destruct (resp_accept s pid (enc (m_ref m)) pay false Hg) as [Hacc _].
    assert (Hlt : (length (chan s) < chan_cap)%nat) by (rewrite Hc; cbn; unfold chan_cap; lia).
    destruct (Hacc Hlt) as [Hch _]. rewrite Hc in Hch. cbn [app] in Hch.
    set (s1 := Call.Model.step s (EResp pid (enc (m_ref m)) pay false)) in *.
    assert (Hw1 : waiting s1 = Some (k, enc (m_ref m))).
    { unfold s1, Call.Model.step, step_core. rewrite Hg, Hc. cbn. exact Hw. }
    assert (Hk1 : killed s1 = false).
    { unfold s1, Call.Model.step, step_core. rewrite Hg, Hc. cbn. exact Hk. }
    assert (Hr1 : results s1 = results s).
    { unfold s1, Call.Model.step, step_core. rewrite Hg, Hc. cbn. reflexivity. }
    destruct (recv_match s1 k (enc (m_ref m)) _ [] Hw1 Hch eq_refl Hk1) as (_ & _ & _ & R & _).
    rewrite R, Hr1. reflexivity.
Qed.
Print Assumptions C19_reply_reaches_caller.

(* non-vacuity: ring [0 (full); 1 (dead, respawn fails); 2 (dead, respawn succeeds); 3] with capacity 1 *)
Example C19_example :
  let w := upd (upd (upd (upd dead_ws 0 (mk_w true [mk_msg 9 9 9 0])) 1 (mk_w false [])) 2 (mk_w false [])) 3 (mk_w true []) in
  let p := mk_pool [0; 1; 2; 3] w 4 1 0 0 0 in
  let m := mk_msg 5 77 88 1 in
  let '(v, p', o') := forward p [false; true] m in
  v = Delivered 4 true /\ ring p' = [3; 0; 4] /\ w_box (ws p' 4) = [m] /\ o' = [] /\
  fst (fst (forward (mk_pool [0] w 4 1 0 0 0) [] m)) = Dropped.
Proof. vm_compute. repeat split; reflexivity. Qed.
