(* C12 — Remote delivery integrity: exactly once, to the addressee, unchanged.
   Property theorems only; model in Proto/Model.v, proofs in Proto/Proofs.v. *)
From Ergo Require Import Common.Base Proto.Model Proto.Proofs Proto.Redial Proto.RedialProofs.
From Ergo Require Edf.Model Wire.EndToEnd.
Local Open Scope Z_scope.

(* every field of every message kind (addressee, sender, priority, reference, important flag,
   error code, payload) survives sender layout + receiver layout *)
Theorem C12_layout : forall m, wf m -> parse (build m) = Some m.
Proof. exact parse_build. Qed.
Print Assumptions C12_layout.

(* any segmentation of the stream, any buffer carry-over: exactly the frames that were written *)
Theorem C12_reassembly : forall maxsize frames chunks,
  Forall (good_frame maxsize) frames ->
  concat chunks = concat frames ->
  cut_all maxsize (Open []) chunks = (frames, Open []).
Proof. exact reassembly. Qed.
Print Assumptions C12_reassembly.

(* for arbitrary bytes (malformed streams included) the outcome depends on the stream only *)
Theorem C12_segmentation_irrelevant : forall maxsize c1 c2,
  concat c1 = concat c2 -> cut_all maxsize (Open []) c1 = cut_all maxsize (Open []) c2.
Proof. exact segmentation_irrelevant. Qed.
Print Assumptions C12_segmentation_irrelevant.

(* what Send*/Call* build is accepted as it is by read()/serve() of a peer whose limit it respects *)
Theorem C12_built_frames_are_good : forall maxsize m,
  wf m -> (maxsize <= 0 \/ blen (build m) <= maxsize) -> good_frame maxsize (build m).
Proof. exact good_build. Qed.
Print Assumptions C12_built_frames_are_good.

(* compression envelope over any codec that round-trips: unwrap . wrap = id, order byte kept,
   and the receiver decodes either form of the frame to the message *)
Theorem C12_compress : forall (compress : Z -> bytes -> bytes) (decompress : Z -> bytes -> option bytes),
  (forall t x, valid_ctype t = true -> decompress t (compress t x) = Some x) ->
  (forall t f, valid_ctype t = true -> blen f < 2 ^ 32 -> unwrap decompress (wrap compress t f) = Some f) /\
  (forall t f, nth 6 (wrap compress t f) 0 = nth 6 f 0) /\
  (forall c m, wf m -> recv decompress 2 (wire compress c (build m)) = Some m).
Proof.
  intros compress decompress H. split; [|split].
  - intros t f. now apply unwrap_wrap.
  - intros t f. apply wrap_keeps_order.
  - intros c m. now apply recv_wire.
Qed.
Print Assumptions C12_compress.

(* refused iff beyond the peer's limit; a refused message leaves no byte; an accepted one fits *)
Theorem C12_too_large : forall (compress : Z -> bytes -> bytes) peer_max k c f,
  (send_frame compress peer_max k c f = None <->
   (precheck k = true /\ 0 < peer_max < blen f) \/ (0 < peer_max < blen (wire compress c f))) /\
  (send_frame compress peer_max k c f = None -> emitted (send_frame compress peer_max k c f) = []) /\
  (forall w, send_frame compress peer_max k c f = Some w ->
             w = wire compress c f /\ (peer_max <= 0 \/ blen w <= peer_max)).
Proof.
  intros compress peer_max k c f. split; [|split].
  - exact (too_large_iff compress peer_max k c f).
  - exact (refused_emits_nothing compress peer_max k c f).
  - intros w. exact (accepted_fits compress peer_max k c f w).
Qed.
Print Assumptions C12_too_large.

(* exactly once, unchanged, nothing else: whatever the segmentation of a link's stream, the
   receiver decodes exactly the messages the sender accepted, in order *)
Theorem C12_exactly_once : forall (compress : Z -> bytes -> bytes) (decompress : Z -> bytes -> option bytes),
  (forall t x, valid_ctype t = true -> decompress t (compress t x) = Some x) ->
  forall peer_max (l : list (msg * comp)) chunks,
    Forall (fun mc => wf (fst mc) /\ blen (compress (norm_ctype (c_type (snd mc))) (build (fst mc))) < 2 ^ 31) l ->
    concat chunks = concat (sent_bytes compress peer_max l) ->
    exists frames,
      cut_all peer_max (Open []) chunks = (frames, Open []) /\
      map (recv decompress 2) frames = map Some (accepted_msgs compress peer_max l).
Proof. exact exactly_once. Qed.
Print Assumptions C12_exactly_once.

(* dialing side of a pool link: serve(conn, tail) sees tail ++ socket bytes; every split of that
   stream into (tail, reads) - the tail may end inside a frame - gives the same frames and state *)
Theorem C12_tail_split_irrelevant : forall maxsize e1 e2,
  e_stream e1 = e_stream e2 -> serve_state maxsize e1 = serve_state maxsize e2.
Proof. exact serve_split_irrelevant. Qed.
Print Assumptions C12_tail_split_irrelevant.

(* a socket whose stream is whole frames followed by the beginning of a frame (the drop cut it):
   exactly the whole frames, in order; the cut frame is lost with the link *)
Theorem C12_epoch_frames : forall maxsize e fs,
  (exists p, e_stream e = concat fs ++ p /\ Forall (good_frame maxsize) fs /\
             (exists f q, good_frame maxsize f /\ f = p ++ q /\ q <> [] \/ p = [])) ->
  serve maxsize e = fs.
Proof.
  intros maxsize e fs (p & Hs & Hall & Hp). apply serve_epoch. exists p. split; [exact Hs|]. split; [exact Hall|].
  destruct Hp as (f & q & [(Hf & Hpq & Hq) | ->]).
  - exact (prefix_incomplete maxsize f p q Hf Hpq Hq).
  - apply incomplete_nil.
Qed.
Print Assumptions C12_epoch_frames.

(* Join's re-dial loop, any number of drop / re-dial epochs, any (tail, reads) split of each: the
   link delivers the whole frames of the epochs' streams, each once, in order - up to and including the
   first re-dialed socket that was closed without a whole frame (a refused join ends the loop); if
   there is none, all of them *)
Theorem C12_redial_exactly_once : forall maxsize eps fss,
  Forall2 (epoch_yields maxsize) eps fss ->
  link_received maxsize eps = concat (served false fss) /\
  (Forall (fun fs => fs <> []) (tl fss) -> link_received maxsize eps = concat fss).
Proof.
  intros maxsize eps fss H. split; [now apply redial_exact_general | intros Hne; now apply redial_exact].
Qed.
Print Assumptions C12_redial_exactly_once.

(* the loop that serves the re-dialed socket with the tail of the first join again delivers the first
   frames a second time and drops what the new handshake left over: 1 2 3 4 5 1 2 7 8 *)
Theorem C12_redial_first_tail_refuted :
  exists eps fss, Forall2 (epoch_yields 0) eps fss /\ Forall (fun fs => fs <> []) (tl fss) /\
    link_received_first_tail 0 eps = map fr [1; 2; 3; 4; 5; 1; 2; 7; 8] /\
    link_received_first_tail 0 eps <> concat fss /\ ~ NoDup (link_received_first_tail 0 eps).
Proof. exact redial_first_tail_refuted. Qed.
Print Assumptions C12_redial_first_tail_refuted.

(* important delivery: the acknowledgement names the sender's reference and carries the result *)
Theorem C12_important : forall m code rpay,
  wf m -> m_imp m = true ->
  m_kind m = KPid \/ m_kind m = KName \/ m_kind m = KNameCache \/ m_kind m = KAlias ->
  result_ok code rpay ->
  exists a, ack true m code rpay = Some a /\ wf a /\ parse (build a) = Some a /\
            m_kind a = KResponseError /\
            (m_r0 a, m_r1 a, m_r2 a) = (m_r0 m, 0, 0) /\ m_code a = code /\ m_to a = m_from m.
Proof. exact important_ack. Qed.
Print Assumptions C12_important.

(* the corner excluded by wf: an event (or terminate-by-name) frame with an empty name and a
   one-byte payload is one byte shorter than the receiver's guard; EDF has no one-byte value *)
Theorem C12_layout_short_event_refuted :
  exists m, m_kind m = KEvent /\ m_name m = [] /\ blen (m_payload m) = 1 /\ parse (build m) = None.
Proof. exact short_event_refuted. Qed.
Print Assumptions C12_layout_short_event_refuted.

(* non-vacuity: a concrete important SendPID, its bytes, its field offsets, and a stream of two
   such frames cut at awkward places *)
Example C12_example :
  wf example_msg /\ parse (build example_msg) = Some example_msg /\ offsets example_msg = [8; 16; 17; 25; 33] /\
  (let f := build example_msg in
   cut_all 0 (Open []) [firstn 5 f; skipn 5 f ++ firstn 9 f; skipn 9 f] = ([f; f], Open [])).
Proof.
  split; [exact example_msg_wf|]. split; [apply example_frame|]. split; [apply example_frame|]. exact example_reassembly.
Qed.

(* ---- the payload is not opaque any more: C11's codec composed with the frame / stream layers -------
   value --edf.Encode--> payload --frame--> (compression) --> link bytes --ANY segmentation--> read()
   --> decompress / parse --> edf.Decode --> value.  For every list of application-level sends the
   receiver is handed exactly the accepted ones, in order, each with its header fields unchanged and
   its value equal to the canonical form of the value sent, the payload consumed entirely.  The value
   hypotheses are C11's (supported fragment, registered Marshalers invert), the frame hypotheses
   C12's; the compressor is an abstract round-tripping codec. *)
Theorem C12_end_to_end : forall (compress : Z -> bytes -> bytes) (decompress : Z -> bytes -> option bytes),
  (forall t x, valid_ctype t = true -> decompress t (compress t x) = Some x) ->
  forall o peer_max (l : list Wire.EndToEnd.item) chunks,
    Edf.Model.wf_opts o -> Edf.Model.marsh_inv o -> Forall (Wire.EndToEnd.item_ok compress o) l ->
    concat chunks = concat (sent_bytes compress peer_max (Wire.EndToEnd.framed_all o l)) ->
    exists frames,
      cut_all peer_max (Open []) chunks = (frames, Open []) /\
      map (Wire.EndToEnd.deliver decompress (Edf.Model.dual o)) frames =
        map (Wire.EndToEnd.expected o) (filter (Wire.EndToEnd.went_out compress o peer_max) l) /\
      Forall (fun d => d <> None) (map (Wire.EndToEnd.expected o) (filter (Wire.EndToEnd.went_out compress o peer_max) l)).
Proof. exact Wire.EndToEnd.end_to_end. Qed.
Print Assumptions C12_end_to_end.

Example C12_end_to_end_example :
  Edf.Model.wf_opts Edf.Proofs.o_plain /\ Edf.Model.marsh_inv Edf.Proofs.o_plain /\
  Wire.EndToEnd.item_ok Wire.EndToEnd.id_compress Edf.Proofs.o_plain Wire.EndToEnd.ex_item /\
  Wire.EndToEnd.expected Edf.Proofs.o_plain Wire.EndToEnd.ex_item =
    Some (set_payload [141; 0; 2; 104; 105] Wire.EndToEnd.ex_hdr, Edf.Model.TPrim Edf.Model.PString, Edf.Model.VBytes [104; 105]%N).
Proof. exact Wire.EndToEnd.end_to_end_example. Qed.
