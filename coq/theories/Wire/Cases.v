(* Wire: the composed model (frame layer + EDF codec, Wire/EndToEnd.v) run on what the REAL connection put on
   the wire.  For every frame cut from a link's tap (in the relay's chunking): [deliver] - decompress, parse,
   edf.Decode of the payload with the payload consumed entirely - succeeds, and the model's encoding of the
   decoded value is byte for byte the payload the real encoder produced.  Frames that carry no value
   (response errors with a code) are recognised by their empty payload. *)
From Ergo Require Import Common.Base Proto.Model Proto.Cases Wire.EndToEnd.
From Ergo Require Common.Codec Edf.Model Edf.Proofs.
Local Open Scope Z_scope.

Definition frames_of_link (maxsize : Z) (tap : bytes) (sizes : list Z) : option (list bytes) :=
  match cut_all maxsize (Open []) (split_sizes tap sizes) with
  | (frames, Open []) => Some frames
  | _ => None
  end.

Definition e2e_frame (tab : list (Z * bytes * bytes)) (f : bytes) : bool :=
  match deliver (tab_decompress tab) (E.dual Edf.Proofs.o_plain) f with
  | Some (m, t, v) =>
      match E.encode Edf.Proofs.o_plain t v with
      | C.Ok bs => bytes_eqb (nz bs) (m_payload m)
      | C.Err _ => false
      end
  | None =>
      match recv (tab_decompress tab) 2 f with
      | Some m => match m_payload m with [] => true | _ => false end
      | None => false
      end
  end.

Definition all_frames (c : pcase) : option (list bytes) :=
  match omap (fun p => frames_of_link (p_max c) (fst p) (snd p)) (combine (p_taps c) (p_chunks c)) with
  | Some l => Some (concat l)
  | None => None
  end.

Definition corr_e2e (c : pcase) : bool :=
  match all_frames c with
  | Some fs => forallb (e2e_frame (ztab c)) fs
  | None => false
  end.

(* number of frames that carried a value and went through the whole composed path *)
Definition e2e_values (c : pcase) : nat :=
  match all_frames c with
  | Some fs => length (filter (fun f => match deliver (tab_decompress (ztab c)) (E.dual Edf.Proofs.o_plain) f with Some _ => true | None => false end) fs)
  | None => 0
  end.
Definition premise_e2e (c : pcase) : bool := Nat.ltb 0 (e2e_values c).
