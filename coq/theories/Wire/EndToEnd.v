(* Wire: composition of the EDF codec model (Edf/, property C11) with the frame / stream model
   (Proto/, property C12).  The C12 theorems treat the payload as opaque bytes and the C11 theorems
   speak about one buffer; here the two are put end to end:

     value --edf.Encode--> payload --Send*: header + fields--> frame --send(): compression envelope-->
     link bytes --TCP: ANY segmentation--> read(): reassembly --handleRecvQueue: decompress, parse-->
     message with payload --edf.Decode--> value

   For every list of application-level sends the receiver obtains exactly the accepted ones, in
   order, each with its header fields unchanged and its VALUE equal to the canonical form of the
   value that was sent, with no byte of the payload left over.  The compressor stays an abstract
   round-tripping codec (Section hypothesis, Go's compress/* packages). *)
From Ergo Require Import Common.Base.
From Ergo Require Common.Bytes Common.Codec Edf.Model Edf.Proofs.
From Ergo Require Import Proto.Model Proto.Proofs.
Local Open Scope Z_scope.

Module E := Edf.Model.
Module B := Common.Bytes.
Module C := Common.Codec.

(* EDF bytes are N, frame bytes are Z *)
Definition nz (b : B.bytes) : bytes := map Z.of_N b.
Definition zn (b : bytes) : B.bytes := map Z.to_N b.

Lemma zn_nz b : zn (nz b) = b.
Proof.
  unfold zn, nz. rewrite map_map. induction b as [|x b IH]; cbn [map]; [reflexivity|].
  rewrite N2Z.id, IH. reflexivity.
Qed.

(* one application-level send: the header fields chosen by the Send* / Call* function (a message whose
   payload is still empty), the value with its type, the compression options of the sender *)
Record item := mk_item { i_hdr : msg; i_ty : E.ty; i_val : E.val; i_comp : comp }.

(* the sender: edf.Encode, the payload goes behind the fixed fields *)
Definition framed (o : E.opts) (it : item) : option (msg * comp) :=
  match E.encode o (i_ty it) (i_val it) with
  | C.Ok bs => Some (set_payload (nz bs) (i_hdr it), i_comp it)
  | C.Err _ => None          (* Send* returns the encoder's error, nothing is written *)
  end.

Fixpoint framed_all (o : E.opts) (l : list item) : list (msg * comp) :=
  match l with
  | [] => []
  | it :: tl => match framed o it with Some mc => mc :: framed_all o tl | None => framed_all o tl end
  end.

(* what the receiving process is handed: header fields, type, value *)
Definition delivered := (msg * E.ty * E.val)%type.

Section Wire.
  Variable compress : Z -> bytes -> bytes.
  Variable decompress : Z -> bytes -> option bytes.
  Hypothesis codec_roundtrip : forall t x, valid_ctype t = true -> decompress t (compress t x) = Some x.

  (* the receiver on one frame: handleRecvQueue (decompress, parse), then edf.Decode of the payload,
     which must consume it entirely *)
  Definition deliver (o' : E.opts) (f : bytes) : option delivered :=
    match recv decompress 2 f with
    | None => None
    | Some m =>
        match E.decode o' (zn (m_payload m)) with
        | C.Ok (t, v, []) => Some (m, t, v)
        | _ => None
        end
    end.

  (* what the property promises for an item the sender accepted *)
  Definition expected (o : E.opts) (it : item) : option delivered :=
    match E.encode o (i_ty it) (i_val it) with
    | C.Ok bs => Some (set_payload (nz bs) (i_hdr it), i_ty it, E.canon o (i_val it))
    | C.Err _ => None
    end.

  (* hypotheses on one item: the value is in the supported fragment of the codec (C11), the message
     with its payload is well formed for its kind and the compressed frame fits the length field (C12) *)
  Definition item_ok (o : E.opts) (it : item) : Prop :=
    E.supported o (i_ty it) (i_val it) = true /\
    forall bs, E.encode o (i_ty it) (i_val it) = C.Ok bs ->
      wf (set_payload (nz bs) (i_hdr it)) /\
      blen (compress (norm_ctype (c_type (i_comp it))) (build (set_payload (nz bs) (i_hdr it)))) < 2 ^ 31.

  Lemma payload_set v m : m_payload (set_payload v m) = v.
  Proof. reflexivity. Qed.

  Lemma framed_all_ok o l :
    Forall (item_ok o) l ->
    Forall (fun mc => wf (fst mc) /\ blen (compress (norm_ctype (c_type (snd mc))) (build (fst mc))) < 2 ^ 31)
           (framed_all o l).
  Proof.
    induction l as [|it l IH]; intros H; cbn [framed_all]; [constructor|].
    inversion H as [|? ? [Hs Hi] Hl]; subst. unfold framed.
    destruct (E.encode o (i_ty it) (i_val it)) as [bs|e] eqn:En; [|now apply IH].
    constructor; [|now apply IH]. cbn [fst snd]. now apply Hi.
  Qed.

  (* a framed message came from an item whose value round-trips *)
  Lemma deliver_framed o it mc :
    E.wf_opts o -> E.marsh_inv o -> item_ok o it -> framed o it = Some mc ->
    forall f, recv decompress 2 f = Some (fst mc) -> deliver (E.dual o) f = expected o it.
  Proof.
    intros Hwf Hmi [Hs _] Hf f Hr. unfold framed in Hf. unfold deliver, expected. rewrite Hr.
    destruct (E.encode o (i_ty it) (i_val it)) as [bs|e] eqn:En; [|discriminate].
    injection Hf as <-. cbn [fst]. rewrite payload_set, zn_nz.
    pose proof (Edf.Proofs.roundtrip_partial o (i_ty it) (i_val it) bs [] Hwf Hmi Hs En) as R.
    rewrite app_nil_r in R. rewrite R. reflexivity.
  Qed.

  (* the items whose frames were put on the link: encoded without error and not refused for size *)
  Definition went_out (o : E.opts) (peer_max : Z) (it : item) : bool :=
    match framed o it with
    | Some (m, c) => match send_frame compress peer_max (m_kind m) c (build m) with Some _ => true | None => false end
    | None => false
    end.

  Lemma accepted_framed o peer_max l :
    map Some (accepted_msgs compress peer_max (framed_all o l)) =
    map (fun it => match framed o it with Some mc => Some (fst mc) | None => None end) (filter (went_out o peer_max) l).
  Proof.
    unfold accepted_msgs. induction l as [|it l IH]; [reflexivity|]. cbn [framed_all filter]. unfold went_out at 1.
    destruct (framed o it) as [[m c]|] eqn:F; [|exact IH].
    cbn [filter fst snd]. destruct (send_frame compress peer_max (m_kind m) c (build m)); [|exact IH].
    cbn [map fst]. rewrite F. cbn [fst]. f_equal. exact IH.
  Qed.

  Theorem end_to_end o peer_max (l : list item) chunks :
    E.wf_opts o -> E.marsh_inv o -> Forall (item_ok o) l ->
    concat chunks = concat (sent_bytes compress peer_max (framed_all o l)) ->
    exists frames,
      cut_all peer_max (Open []) chunks = (frames, Open []) /\
      map (deliver (E.dual o)) frames = map (expected o) (filter (went_out o peer_max) l) /\
      Forall (fun d => d <> None) (map (expected o) (filter (went_out o peer_max) l)).
  Proof.
    intros Hwf Hmi Hall Hc.
    destruct (exactly_once compress decompress codec_roundtrip peer_max (framed_all o l) chunks
                (framed_all_ok o l Hall) Hc) as (frames & Hcut & Hrecv).
    exists frames. split; [exact Hcut|]. rewrite accepted_framed in Hrecv. clear Hc Hcut.
    assert (Hsub : Forall (item_ok o) (filter (went_out o peer_max) l)).
    { apply Forall_forall. intros x Hx. apply filter_In in Hx as [Hx _]. revert x Hx. now apply Forall_forall. }
    assert (Hwent : Forall (fun it => went_out o peer_max it = true) (filter (went_out o peer_max) l)).
    { apply Forall_forall. intros x Hx. now apply filter_In in Hx as [_ Hx]. }
    revert frames Hrecv. induction (filter (went_out o peer_max) l) as [|it tl IH]; intros frames Hrecv.
    - destruct frames; [split; constructor | discriminate].
    - destruct frames as [|f frames]; [discriminate|]. cbn [map] in Hrecv. injection Hrecv as Hf Hrest.
      inversion Hsub as [|? ? Hit Htl]; subst. inversion Hwent as [|? ? Hw Hwt]; subst.
      unfold went_out in Hw. destruct (framed o it) as [mc|] eqn:F; [|discriminate].
      destruct (IH Htl Hwt frames Hrest) as [IH1 IH2]. cbn [map]. split.
      + f_equal; [|exact IH1]. eapply deliver_framed; eauto.
      + constructor; [|exact IH2]. unfold expected. unfold framed in F.
        destruct (E.encode o (i_ty it) (i_val it)); [discriminate | discriminate].
  Qed.
End Wire.

(* ---- non-vacuity: an important SendPID carrying the string "hi", identity "compressor" ------------- *)
Definition ex_hdr : msg := mk_msg KPid (order_of_id 1002) 1001 1 true 81985529216486895 0 0 1002 0 0 0 0 [] 0 [].
Definition ex_item : item := mk_item ex_hdr (E.TPrim E.PString) (E.VBytes [104; 105]%N) (mk_comp false 0 0).
Definition id_compress (_ : Z) (x : bytes) : bytes := x.

Example end_to_end_example :
  E.wf_opts Edf.Proofs.o_plain /\ E.marsh_inv Edf.Proofs.o_plain /\ item_ok id_compress Edf.Proofs.o_plain ex_item /\
  expected Edf.Proofs.o_plain ex_item =
    Some (set_payload [141; 0; 2; 104; 105] ex_hdr, E.TPrim E.PString, E.VBytes [104; 105]%N).
Proof.
  split; [reflexivity|]. split; [apply Edf.Proofs.marsh_inv_forall; constructor|]. split; [|vm_compute; reflexivity].
  split; [vm_compute; reflexivity|]. intros bs Hb. vm_compute in Hb. injection Hb as <-.
  split; [|vm_compute; reflexivity].
  unfold wf, ex_hdr, nz, set_payload, u64.
  cbn [m_kind m_order m_from m_prio m_imp m_r0 m_r1 m_r2 m_to m_a0 m_a1 m_a2 m_cache m_name m_code m_payload
       uses layout existsb orb map].
  repeat split; try lia; try reflexivity; try discriminate; try (vm_compute; reflexivity); try (vm_compute; discriminate).
Qed.
