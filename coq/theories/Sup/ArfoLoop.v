(* Closed loop for the all-for-one / rest-for-one supervisor (supARFO, with and without KeepOrder), through the
   DRIVER of Sup/Machine.v (step = the exit branch of ProcessRun + handleAction + the environment):
   for every spec (kind AFO/RFO, any strategy, KeepOrder on/off, significant flags, auto-shutdown, intensity,
   any number of children with distinct non-empty names) and EVERY history of child exits allowed by the
   environment guard [env_ok] (the exit of any live child, in any order, with any reason, at any time -- while a
   restart is in progress, while the supervisor is shutting down, of a child that was told to stop or not, of the
   freshly restarted instances again; exits of pids that are no children; clock shifts; each pid exits once),
   the monitor [spec_prescribed] of Sup/MachineCases.v is TRUE on the run of the model:  at every quiescent
   point the children the machine records as running are exactly [prescribed spec history] (a_step / a_quiesce),
   the supervisor terminates exactly when and why the specification says, and it is quiescent exactly in
   normal mode.  The proof is a loop invariant [Inv] over driver states (one constructor per phase: normal,
   stopping for a restart, shutting down, dead) + the decision lemmas of MachineProofs.v. *)
From Ergo Require Import Common.Base Sup.Intensity Sup.Machine Sup.MachineProofs Sup.OfoLoop Sup.MachineCases.
Local Open Scope Z_scope.

(* ---- small list facts ------------------------------------------------------------------------------------ *)
Definition clr (c : cspec) : cspec := with_pid c 0.

Lemma running_app a b : running (a ++ b) = running a ++ running b.
Proof. unfold running. rewrite filter_app, map_app. reflexivity. Qed.

Lemma running_in l q : In q (running l) <-> exists c, In c l /\ c_pid c = q /\ q <> 0.
Proof.
  unfold running. rewrite in_map_iff. split.
  - intros [c [Hq Hc]]. apply filter_In in Hc as [Hc Hp]. exists c. repeat split; auto.
    apply negb_true_iff, Z.eqb_neq in Hp. congruence.
  - intros [c [Hc [Hq Hz]]]. exists c. split; [exact Hq|]. apply filter_In. split; [exact Hc|].
    apply negb_true_iff, Z.eqb_neq. congruence.
Qed.

Lemma pinsert_in_iff p n l q : ~ In p (map fst l) -> (In q (pinsert (p, n) l) <-> q = (p, n) \/ In q l).
Proof.
  induction l as [|r l IH]; intros Hnin; cbn [pinsert fst].
  - cbn [In]. intuition.
  - cbn [map In] in Hnin. destruct (p <? fst r); [cbn [In]; intuition|].
    destruct (p =? fst r) eqn:E; [apply Z.eqb_eq in E; exfalso; apply Hnin; left; congruence|].
    cbn [In]. rewrite IH by tauto. intuition.
Qed.

Lemma premove_in p l q : In q (premove p l) <-> In q l /\ fst q <> p.
Proof.
  unfold premove. rewrite filter_In. split; intros [H1 H2]; split; auto.
  - apply negb_true_iff, Z.eqb_neq in H2. exact H2.
  - apply negb_true_iff, Z.eqb_neq. exact H2.
Qed.

Lemma lookup_pid_in p l n : lookup_pid p l = Some n -> In (p, n) l.
Proof.
  induction l as [|q l IH]; cbn [lookup_pid]; [discriminate|].
  destruct (fst q =? p) eqn:E.
  - intros H. inversion H; subst. apply Z.eqb_eq in E. left. destruct q; cbn in *; congruence.
  - intros H. right. exact (IH H).
Qed.

Lemma lookup_pid_none p l : lookup_pid p l = None <-> forall n, ~ In (p, n) l.
Proof.
  induction l as [|q l IH]; cbn [lookup_pid].
  - split; [intros _ n []|reflexivity].
  - destruct (fst q =? p) eqn:E.
    + split; [discriminate|]. intros H. exfalso. apply (H (snd q)). left. apply Z.eqb_eq in E.
      destruct q; cbn in *; congruence.
    + rewrite IH. split; intros H n.
      * intros [Hq|Hq]; [subst q; cbn in E; rewrite Z.eqb_refl in E; discriminate | exact (H n Hq)].
      * intros Hq. apply (H n). right. exact Hq.
Qed.

Definition memz (q : Z) (l : list Z) : bool := existsb (fun p => p =? q) l.
Lemma memz_in q l : memz q l = true <-> In q l.
Proof.
  unfold memz. rewrite existsb_exists. split.
  - intros [x [Hx E]]. apply Z.eqb_eq in E. congruence.
  - intros H. exists q. split; [exact H | apply Z.eqb_refl].
Qed.

Lemma zremove_in x y l : In y (zremove x l) <-> In y l /\ y <> x.
Proof.
  unfold zremove. rewrite filter_In. split; intros [H1 H2]; split; auto.
  - apply negb_true_iff, Z.eqb_neq in H2. exact H2.
  - apply negb_true_iff, Z.eqb_neq. exact H2.
Qed.

Lemma nil_iff_no_member (l : list Z) : l = [] <-> forall q, ~ In q l.
Proof. destruct l as [|x l]; split; intros H; try congruence; [intros q []|]. exfalso. apply (H x). left. reflexivity. Qed.

(* ---- exit signals ---------------------------------------------------------------------------------------- *)
Lemma signalled_app ev ev' p : signalled (ev ++ ev') p = signalled ev p || signalled ev' p.
Proof. unfold signalled. apply existsb_app. Qed.

Definition send_all (ps : list Z) (r : Z) (s : sup) : sup := fold_left (fun s p => sup_event s (EvSendExit p r)) ps s.

Lemma send_all_props r : forall ps s,
  let s' := send_all ps r s in
  m s' = m s /\ children s' = children s /\ nextpid s' = nextpid s /\ alive s' = alive s /\
  exitreason s' = exitreason s /\ forall q, signalled (events s') q = signalled (events s) q || memz q ps.
Proof.
  induction ps as [|p ps IH]; intros s; cbn [send_all fold_left].
  - repeat split; auto. intros q. cbn. rewrite orb_false_r. reflexivity.
  - destruct (IH (sup_event s (EvSendExit p r))) as [H1 [H2 [H3 [H4 [H5 H6]]]]]. fold (send_all ps r (sup_event s (EvSendExit p r))).
    unfold send_all in *. rewrite H1, H2, H3, H4, H5. cbn [sup_event m children nextpid alive exitreason]. repeat split; auto.
    intros q. rewrite H6. cbn [sup_event events]. rewrite signalled_app. cbn [signalled existsb memz].
    rewrite orb_false_r, orb_assoc. reflexivity.
Qed.

(* ---- handleAction on the answers that do not start anything ------------------------------------------------ *)
Lemma hA_terminate k fuel fail s r : handleAction k fuel fail s (RAct (Terminate r)) = (s, HErr r).
Proof. destruct fuel; reflexivity. Qed.
Lemma hA_tc_nil k fuel fail s r :
  handleAction k fuel fail s (RAct (TerminateChildren [] r)) = (s, if r =? 0 then HNil else HErr r).
Proof. destruct fuel; reflexivity. Qed.
Lemma hA_tc k fuel fail s ps r : ps <> [] ->
  handleAction k fuel fail s (RAct (TerminateChildren ps r)) = (send_all ps r s, HNil).
Proof. intros H. destruct ps as [|p ps]; [congruence|]. destruct fuel; reflexivity. Qed.

Lemma arfo_terminated k s name pid reason now : is_arfo k = true ->
  childTerminated k s name pid reason now = arfo_childTerminated k s name pid reason now.
Proof. unfold is_arfo, childTerminated. destruct (k_kind k); try discriminate; reflexivity. Qed.
Lemma arfo_started k s i name pid : is_arfo k = true ->
  childStarted k s i name pid = ofo_childStarted true s i name pid.
Proof. unfold childStarted. intros H. rewrite H. unfold is_arfo in H. destruct (k_kind k); try discriminate; reflexivity. Qed.

(* ---- the tracking relation ---------------------------------------------------------------------------------
   G: the spec list with the pids of the live children (the machine's own list in normal mode and while stopping
   for a restart; while shutting down the machine no longer clears pids, then G is the list as it WOULD be);
   ch: s.children of the driver = the live children (pid -> spec name); al: the children of the specification *)
Definition recorded (G : list cspec) (ch : list (Z * Z)) : Prop :=
  forall p n, In (p, n) ch <-> exists c, In c G /\ c_pid c = p /\ p <> 0 /\ c_name c = n.

Record Trk (G : list cspec) (ch : list (Z * Z)) (al : list achild) (next : Z) : Prop := mk_Trk {
  tk_rel : Forall2 rel G al;
  tk_names : NoDup (map c_name G);
  tk_nz : Forall (fun c => c_name c <> 0) G;
  tk_pids : NoDup (running G);
  tk_rng : Forall (fun c => c_pid c = 0 \/ firstpid <= c_pid c < next) G;
  tk_rec : recorded G ch
}.

Lemma recorded_running G ch q : recorded G ch -> (In q (running G) <-> exists n, In (q, n) ch).
Proof.
  intros H. rewrite running_in. split.
  - intros [c [Hc [Hq Hz]]]. exists (c_name c). apply H. exists c. auto.
  - intros [n Hn]. apply H in Hn as [c [Hc [Hq [Hz _]]]]. exists c. auto.
Qed.

Lemma nth_update_same (f : cspec -> cspec) l i c : nth_error l i = Some c -> nth_error (update_nth i f l) i = Some (f c).
Proof. intros H. rewrite nth_update, Nat.eqb_refl, H. reflexivity. Qed.
Lemma nth_update_other (f : cspec -> cspec) l i j : i <> j -> nth_error (update_nth i f l) j = nth_error l j.
Proof. intros H. rewrite nth_update. destruct (Nat.eqb j i) eqn:E; [apply Nat.eqb_eq in E; congruence | reflexivity]. Qed.

Lemma recorded_exit G ch j c :
  recorded G ch -> NoDup (running G) -> nth_error G j = Some c -> c_pid c <> 0 ->
  recorded (update_nth j clr G) (premove (c_pid c) ch).
Proof.
  intros Hrec Hnd Hj Hp p n. rewrite premove_in. cbn [fst]. rewrite (Hrec p n). split.
  - intros [[c' [Hc' [Hq [Hz Hn]]]] Hne]. apply In_nth_error in Hc' as [i Hi].
    assert (i <> j) by (intros ->; rewrite Hj in Hi; inversion Hi; subst; congruence).
    exists c'. split; [|auto]. apply (nth_error_In _ i). rewrite nth_update_other by congruence. exact Hi.
  - intros [c' [Hc' [Hq [Hz Hn]]]]. apply In_nth_error in Hc' as [i Hi].
    destruct (Nat.eq_dec i j) as [->|Hne].
    + rewrite (nth_update_same _ _ _ _ Hj) in Hi. inversion Hi; subst. cbn in Hz. congruence.
    + rewrite nth_update_other in Hi by congruence. split.
      * exists c'. split; [eapply nth_error_In; exact Hi | auto].
      * intros E. apply Hne. apply (nodup_pids_idx G i j c' c Hnd Hi Hj); congruence.
Qed.

Lemma rng_update i p n l : (p = 0 \/ firstpid <= p < n) -> Forall (fun c => c_pid c = 0 \/ firstpid <= c_pid c < n) l ->
  Forall (fun c => c_pid c = 0 \/ firstpid <= c_pid c < n) (update_nth i (fun c => with_pid c p) l).
Proof. intros Hp H. revert i. induction H as [|x l Hx H IH]; intros [|i]; cbn [update_nth]; constructor; auto. Qed.

Lemma nz_update i p l : Forall (fun c => c_name c <> 0) l -> Forall (fun c => c_name c <> 0) (update_nth i (fun c => with_pid c p) l).
Proof. intros H. revert i. induction H as [|x l Hx H IH]; intros [|i]; cbn [update_nth]; constructor; auto. Qed.

(* the exit of a live child: it is recorded at exactly one position j *)
Lemma Trk_exit G ch al next p :
  Trk G ch al next -> lookup_pid p ch <> None ->
  exists j cj aj,
    nth_error G j = Some cj /\ c_pid cj = p /\ p <> 0 /\ lookup_pid p ch = Some (c_name cj) /\
    nth_error al j = Some aj /\ rel cj aj /\ a_up aj = 1%nat /\ only_i (c_name cj) p j G /\
    a_find (c_name cj) al 0 = Some (j, aj) /\
    (forall f, a_update (c_name cj) f al = aupdate_nth j f al) /\
    Trk (update_nth j clr G) (premove p ch) (aupdate_nth j a_dec al) next.
Proof.
  intros [Hrel Hnames Hnz Hpids Hrng Hrec] Hl.
  destruct (lookup_pid p ch) as [n|] eqn:El; [clear Hl|congruence].
  pose proof (lookup_pid_in _ _ _ El) as Hin. apply Hrec in Hin as [cj [Hc [Hq [Hz Hn]]]].
  apply In_nth_error in Hc as [j Hj].
  destruct (rel_nth _ _ _ _ Hrel Hj) as [aj [Haj Hr]].
  assert (HnamesA : NoDup (map a_name al)) by (rewrite (rel_names _ _ Hrel); exact Hnames).
  assert (HnA : a_name aj = c_name cj) by (destruct Hr as [E _]; congruence).
  exists j, cj, aj. subst p n.
  split; [exact Hj|]. split; [reflexivity|]. split; [exact Hz|]. split; [reflexivity|]. split; [exact Haj|].
  split; [exact Hr|]. split.
  { destruct Hr as [_ [_ [_ [_ Hu]]]]. rewrite Hu. destruct (c_pid cj =? 0) eqn:E; [apply Z.eqb_eq in E; congruence | reflexivity]. }
  split; [apply (only_i_of_inv _ _ _ Hnames Hpids Hj Hz)|].
  split; [rewrite (a_find_nth (c_name cj) al j aj 0%nat HnamesA Haj HnA); reflexivity|].
  split; [intros f; apply (a_update_nth (c_name cj) f al j aj HnamesA Haj HnA)|].
  constructor.
  - apply rel_update; [exact Hrel | exact rel_dec].
  - unfold clr. rewrite names_update. exact Hnames.
  - apply nz_update. exact Hnz.
  - apply running_clear_nodup. exact Hpids.
  - apply rng_update; [left; reflexivity | exact Hrng].
  - apply recorded_exit; assumption.
Qed.

(* the exit of a pid that is no child (a pid the node never handed out to this supervisor) *)
Definition foreign (p : Z) : Prop := 0 < p < firstpid.

Lemma Trk_foreign G ch al next p :
  Trk G ch al next -> foreign p ->
  lookup_pid p ch = None /\ (forall c, In c G -> matches 0 p c = false) /\ a_find 0 al 0 = None /\
  (forall f, a_update 0 f al = al).
Proof.
  intros [Hrel Hnames Hnz Hpids Hrng Hrec] [Hp0 Hp1]. split; [|split; [|split]].
  - apply lookup_pid_none. intros n Hin. apply Hrec in Hin as [c [Hc [Hq [Hz _]]]].
    rewrite Forall_forall in Hrng. specialize (Hrng c Hc). lia.
  - intros c Hc. unfold matches. rewrite Forall_forall in Hnz, Hrng. specialize (Hnz c Hc). specialize (Hrng c Hc).
    apply orb_false_iff. split; apply Z.eqb_neq; lia.
  - assert (Hna : Forall (fun a => a_name a <> 0) al).
    { clear -Hrel Hnz. induction Hrel as [|c a l al' [Hn _] _ IH]; constructor; inversion Hnz; subst; [congruence | auto]. }
    clear -Hna. generalize 0%nat. induction Hna as [|x l Hx _ IH]; intros i; [reflexivity|]. cbn [a_find].
    destruct (a_name x =? 0) eqn:E; [apply Z.eqb_eq in E; congruence | apply IH].
  - intros f. assert (Hna : Forall (fun a => a_name a <> 0) al).
    { clear -Hrel Hnz. induction Hrel as [|c a l al' [Hn _] _ IH]; constructor; inversion Hnz; subst; [congruence | auto]. }
    clear -Hna. induction Hna as [|x l Hx _ IH]; [reflexivity|]. cbn [a_update].
    destruct (a_name x =? 0) eqn:E; [apply Z.eqb_eq in E; congruence | rewrite IH; reflexivity].
Qed.

(* ---- the stop list of childrenForTermination and the specification's "range still up" ------------------------- *)
Definition range_t (keep : bool) (r : nat) (G : list cspec) : list Z := cft_rev keep (rev (skipn r G)).

Lemma existsb_rev {A} (f : A -> bool) l : existsb f (rev l) = existsb f l.
Proof.
  induction l as [|x l IH]; [reflexivity|]. cbn [rev existsb]. rewrite existsb_app, IH. cbn [existsb].
  rewrite orb_false_r. apply orb_comm.
Qed.

Lemma cft_rev_is_nil keep l : is_nil (cft_rev keep l) = negb (existsb stoppable l).
Proof.
  induction l as [|c l IH]; [reflexivity|]. cbn [cft_rev existsb]. unfold stoppable at 1.
  destruct (c_dis c); cbn [negb andb orb]; [exact IH|].
  destruct (c_pid c =? 0); cbn [negb orb]; [exact IH|]. destruct keep; reflexivity.
Qed.

Lemma range_t_is_nil keep r G : is_nil (range_t keep r G) = negb (existsb stoppable (skipn r G)).
Proof. unfold range_t. rewrite cft_rev_is_nil, existsb_rev. reflexivity. Qed.

Lemma range_t_in keep r G p : In p (range_t keep r G) -> exists c, In c (skipn r G) /\ c_pid c = p /\ p <> 0.
Proof.
  unfold range_t. intros H. destruct (cft_rev_in _ _ _ H) as [c [Hc [Hp Hs]]]. exists c. rewrite <- in_rev in Hc.
  split; [exact Hc|]. split; [exact Hp|]. unfold stoppable in Hs. apply andb_true_iff in Hs as [_ Hs].
  apply negb_true_iff, Z.eqb_neq in Hs. congruence.
Qed.

Lemma Forall2_skipn {A B} (R : A -> B -> Prop) r : forall l l', Forall2 R l l' -> Forall2 R (skipn r l) (skipn r l').
Proof.
  induction r as [|r IH]; intros l l' H; [exact H|]. destruct H; cbn [skipn]; [constructor | apply IH; assumption].
Qed.

Lemma rel_range_up G al r keep : Forall2 rel G al -> a_range_up r al = negb (is_nil (range_t keep r G)).
Proof.
  intros H. rewrite range_t_is_nil, negb_involutive. unfold a_range_up.
  apply (Forall2_skipn rel r) in H. induction H as [|c a l al' [_ [Hd [Had [_ Hu]]]] _ IH]; [reflexivity|].
  cbn [existsb]. rewrite IH. f_equal. unfold stoppable. rewrite Hd, Had, Hu.
  destruct (c_pid c =? 0); reflexivity.
Qed.

Lemma rel_enabled G al c : Forall2 rel G al -> In c G -> c_dis c = false.
Proof. intros H. induction H as [|c0 a l al' [_ [Hd _]] _ IH]; intros Hc; [destruct Hc|]. destruct Hc as [<-|Hc]; auto. Qed.

Lemma range_down keep r G al :
  Forall2 rel G al -> is_nil (range_t keep r G) = true -> Forall (fun c => c_pid c = 0 /\ c_dis c = false) (skipn r G).
Proof.
  intros Hrel H. rewrite range_t_is_nil in H. apply negb_true_iff in H. apply Forall_forall. intros c Hc.
  assert (Hd : c_dis c = false).
  { apply (rel_enabled G al c Hrel). apply (skipn_In_le G 0 r); [lia | exact Hc]. }
  split; [|exact Hd].
  assert (Hs : stoppable c = false).
  { destruct (stoppable c) eqn:E; [|reflexivity]. rewrite <- H. symmetry. apply existsb_exists. exists c. auto. }
  unfold stoppable in Hs. rewrite Hd in Hs. cbn [negb andb] in Hs. apply negb_false_iff, Z.eqb_eq in Hs. exact Hs.
Qed.

(* ---- the start chain of handleAction for supARFO -------------------------------------------------------------- *)
Lemma arfo_chain k : forall post pre x c s fuel,
  is_arfo k = true ->
  specs (m s) = pre ++ x :: post -> mode (m s) = 1 -> c_i c = length pre -> c_name c = c_name x ->
  Forall fresh_spec post -> (length post < fuel)%nat ->
  (forall q, In q (map fst (children s)) -> q < nextpid s) ->
  exists s', handleAction k fuel 0 s (RAct (StartChild c)) = (s', HNil) /\
     m s' = mk_state (pre ++ assign (x :: post) (nextpid s)) 0 (wait (m s)) (restartI (m s)) (shut (m s))
                     (sreason (m s)) (restarts (m s)) (pids (m s)) /\
     nextpid s' = nextpid s + Z.of_nat (S (length post)) /\ alive s' = alive s /\ exitreason s' = exitreason s /\
     (forall q, In q (children s') <-> In q (children s) \/
                 exists c', In c' (assign (x :: post) (nextpid s)) /\ q = (c_pid c', c_name c')) /\
     (forall q, signalled (events s') q = signalled (events s) q).
Proof.
  induction post as [|y post IH]; intros pre x c s fuel Hk Hsp Hmode Hci Hcn Hfresh Hfuel Hch.
  - destruct fuel as [|fuel]; [lia|]. cbn [handleAction Nat.eqb]. unfold sup_spawn. cbn [m nextpid].
    rewrite (arfo_started k _ _ _ _ Hk). unfold ofo_childStarted. rewrite Hci, Hsp, nth_error_app_mid, Hcn, Z.eqb_refl.
    cbn [negb]. rewrite Hmode. change (negb (1 =? 1)) with false. cbn iota.
    rewrite app_length. cbn [length]. replace (Nat.eqb (S (length pre)) (length pre + 1)) with true
      by (symmetry; apply Nat.eqb_eq; lia).
    rewrite handleAction_nothing. eexists. split; [reflexivity|].
    cbn [sup_log m nextpid alive exitreason children events].
    rewrite update_nth_app. cbn [assign length].
    split; [reflexivity|]. split; [lia|]. split; [reflexivity|]. split; [reflexivity|]. split.
    + intros q. rewrite pinsert_in_iff by (intros Hin; apply Hch in Hin; lia).
      split.
      * intros [->|Hq]; [right; exists (with_pid x (nextpid s)); split; [left; reflexivity | reflexivity] | left; exact Hq].
      * intros [Hq|[c' [[<-|[]] ->]]]; [right; exact Hq | left; reflexivity].
    + intros q. rewrite signalled_app. cbn. apply orb_false_r.
  - destruct fuel as [|fuel]; [cbn [length] in Hfuel; lia|]. cbn [handleAction Nat.eqb]. unfold sup_spawn. cbn [m nextpid].
    rewrite (arfo_started k _ _ _ _ Hk). unfold ofo_childStarted. rewrite Hci, Hsp, nth_error_app_mid, Hcn, Z.eqb_refl.
    cbn [negb]. rewrite Hmode. change (negb (1 =? 1)) with false. cbn iota.
    rewrite app_length. cbn [length]. replace (Nat.eqb (S (length pre)) (length pre + S (S (length post)))) with false
      by (symmetry; apply Nat.eqb_neq; lia).
    cbn [set_specs specs]. rewrite update_nth_app, skipn_app_mid.
    inversion Hfresh as [|? ? [Hy0 Hyd] Hfresh']; subst.
    cbn [next_to_start]. rewrite Hy0. change (negb (0 =? 0)) with false. cbn iota. rewrite Hyd.
    set (s1 := sup_log _ _ _ _).
    set (c' := mk_cspec (c_name y) 0 false (c_sig y) (S (length pre))).
    destruct (IH (pre ++ [with_pid x (nextpid s)]) y c' s1 fuel Hk) as [s' [Hh [Hm [Hn [Ha [He [Hc Hs]]]]]]].
    + subst s1. cbn [sup_log m set_specs specs]. rewrite <- app_assoc. reflexivity.
    + subst s1. cbn [sup_log m set_specs mode]. exact Hmode.
    + subst c'. cbn [c_i]. rewrite app_length. cbn [length]. lia.
    + reflexivity.
    + exact Hfresh'.
    + cbn [length] in Hfuel. lia.
    + subst s1. cbn [sup_log children nextpid]. intros q Hq. apply in_map_iff in Hq as [[q1 q2] [<- Hq]].
      apply pinsert_in_iff in Hq; [|intros Hin; apply Hch in Hin; lia].
      destruct Hq as [Hq|Hq]; [inversion Hq; subst; cbn; lia|].
      assert (q1 < nextpid s) by (apply Hch; apply in_map_iff; exists (q1, q2); auto). cbn. lia.
    + exists s'. cbn [Nat.pred]. split; [exact Hh|].
      subst s1. cbn [sup_log m nextpid alive exitreason children events set_specs wait restartI shut sreason restarts pids] in *.
      rewrite Hm, <- app_assoc. cbn [app assign]. split; [reflexivity|].
      split; [rewrite Hn; cbn [length]; lia|]. split; [exact Ha|]. split; [exact He|]. split.
      * intros q. rewrite Hc. rewrite pinsert_in_iff by (intros Hin; apply Hch in Hin; lia). cbn [assign].
        split.
        -- intros [[->|Hq]|[c0 [Hc0 ->]]].
           ++ right. exists (with_pid x (nextpid s)). split; [left; reflexivity | reflexivity].
           ++ left. exact Hq.
           ++ right. exists c0. split; [right; exact Hc0 | reflexivity].
        -- intros [Hq|[c0 [[<-|Hc0] ->]]].
           ++ left. right. exact Hq.
           ++ left. left. reflexivity.
           ++ right. exists c0. split; [exact Hc0 | reflexivity].
      * intros q. rewrite Hs. rewrite signalled_app. cbn. apply orb_false_r.
Qed.

(* ---- after the chain: the whole range runs again, with fresh pids, in spec order ---------------------------------- *)
Lemma rel_restart p : 0 < p -> forall pre post al,
  Forall2 rel (pre ++ post) al -> Forall2 rel (pre ++ assign post p) (a_restart_from (length pre) al).
Proof.
  intros Hp. induction pre as [|c pre IH]; intros post al H; cbn [app length] in *.
  - revert p Hp al H. induction post as [|c post IH]; intros p Hp al H; inversion H as [|? a ? al' Hr Hl]; subst;
      cbn [assign a_restart_from]; constructor.
    + pose proof Hr as [_ [_ [Had _]]]. rewrite Had. apply rel_one; [lia | exact Hr].
    + apply IH; [lia | exact Hl].
  - inversion H as [|? a ? al' Hr Hl]; subst. cbn [a_restart_from]. constructor; [exact Hr | apply IH; exact Hl].
Qed.

Lemma assign_ci l : forall p, map c_i (assign l p) = map c_i l.
Proof. induction l as [|x l IH]; intros p; cbn [assign map]; [reflexivity|]. rewrite IH. reflexivity. Qed.
Lemma assign_names l : forall p, map c_name (assign l p) = map c_name l.
Proof. induction l as [|x l IH]; intros p; cbn [assign map]; [reflexivity|]. rewrite IH. reflexivity. Qed.
Lemma assign_length l : forall p, length (assign l p) = length l.
Proof. induction l as [|x l IH]; intros p; cbn [assign length]; [reflexivity|]. rewrite IH. reflexivity. Qed.

Lemma indexed_same_ci l l' : map c_i l = map c_i l' -> indexed l -> indexed l'.
Proof.
  intros E H i c' Hi. assert (H1 : nth_error (map c_i l') i = Some (c_i c')) by (apply map_nth_error; exact Hi).
  rewrite <- E in H1. rewrite nth_error_map in H1. destruct (nth_error l i) as [c|] eqn:Ec; [|discriminate].
  cbn in H1. pose proof (H i c Ec). congruence.
Qed.

Lemma nodup_app (a b : list Z) : NoDup a -> NoDup b -> (forall x, In x a -> ~ In x b) -> NoDup (a ++ b).
Proof.
  induction a as [|x a IH]; intros Ha Hb Hd; [exact Hb|]. cbn [app]. inversion Ha; subst. constructor.
  - rewrite in_app_iff. intros [H|H]; [contradiction | apply (Hd x); [left; reflexivity | exact H]].
  - apply IH; auto. intros y Hy. apply Hd. right. exact Hy.
Qed.

Lemma running_down l : Forall (fun c => c_pid c = 0) l -> running l = [].
Proof. induction 1 as [|x l Hx _ IH]; [reflexivity|]. unfold running in *. cbn [filter]. rewrite Hx. exact IH. Qed.

Lemma Trk_chain pre post ch ch' al next :
  Trk (pre ++ post) ch al next -> Forall (fun c => c_pid c = 0) post -> firstpid <= next ->
  (forall q, In q ch' <-> In q ch \/ exists c', In c' (assign post next) /\ q = (c_pid c', c_name c')) ->
  Trk (pre ++ assign post next) ch' (a_restart_from (length pre) al) (next + Z.of_nat (length post)).
Proof.
  intros [Hrel Hnames Hnz Hpids Hrng Hrec] Hdown Hnext Hch.
  assert (Hp : 0 < next) by (unfold firstpid in Hnext; lia).
  destruct (assign_props post next Hp) as [Hf [Hnd Hnm]].
  constructor.
  - apply rel_restart; assumption.
  - rewrite map_app, assign_names, <- map_app. exact Hnames.
  - apply Forall_forall. intros c Hc. rewrite Forall_forall in Hnz.
    assert (Hin : In (c_name c) (map c_name (pre ++ post))).
    { rewrite map_app, <- (assign_names post next), <- map_app. apply in_map. exact Hc. }
    apply in_map_iff in Hin as [c0 [E Hc0]]. rewrite <- E. apply Hnz. exact Hc0.
  - rewrite running_app in *. rewrite (running_down post Hdown), app_nil_r in Hpids.
    apply nodup_app; [exact Hpids | exact Hnd|].
    intros x Hx Hx'. apply running_in in Hx as [c [Hc [Hq Hz]]]. apply running_in in Hx' as [c' [Hc' [Hq' _]]].
    rewrite Forall_forall in Hrng, Hf. specialize (Hrng c (in_or_app _ _ _ (or_introl Hc))). specialize (Hf c' Hc'). lia.
  - apply Forall_app. rewrite Forall_app in Hrng. destruct Hrng as [Hr1 _]. split.
    + eapply Forall_impl; [|exact Hr1]. cbn. intros; lia.
    + eapply Forall_impl; [|exact Hf]. cbn. intros; lia.
  - intros p n. rewrite Hch, (Hrec p n). split.
    + intros [[c [Hc [Hq [Hz Hn]]]]|[c' [Hc' E]]].
      * apply in_app_or in Hc as [Hc|Hc].
        -- exists c. split; [apply in_or_app; left; exact Hc | auto].
        -- rewrite Forall_forall in Hdown. specialize (Hdown c Hc). congruence.
      * inversion E; subst. exists c'. split; [apply in_or_app; right; exact Hc'|].
        rewrite Forall_forall in Hf. specialize (Hf c' Hc'). repeat split; auto. lia.
    + intros [c [Hc [Hq [Hz Hn]]]]. apply in_app_or in Hc as [Hc|Hc].
      * left. exists c. split; [apply in_or_app; left; exact Hc | auto].
      * right. exists c. split; [exact Hc | congruence].
Qed.

Lemma indexed_chain pre post p : indexed (pre ++ post) -> indexed (pre ++ assign post p).
Proof. apply indexed_same_ci. rewrite !map_app, assign_ci. reflexivity. Qed.

Lemma firstn_skipn_mid {A} (l : list A) r x post : skipn r l = x :: post -> l = firstn r l ++ x :: post /\ length (firstn r l) = r.
Proof.
  intros H. split; [rewrite <- H; symmetry; apply firstn_skipn|].
  apply firstn_length_le. assert (r < length l)%nat; [|lia].
  destruct (Nat.lt_ge_cases r (length l)) as [?|Hge]; [assumption|]. rewrite skipn_all2 in H by exact Hge. discriminate.
Qed.

(* ==== the loop invariant over driver states ========================================================================= *)
Record Common (k : config) (s : sup) (a : astate) : Prop := mk_Common {
  cm_alive : alive s = true;
  cm_afo : k_kind k = AFO -> restartI (m s) = 0%nat;
  cm_restarts : restarts (m s) = a_restarts a;
  cm_next : firstpid <= nextpid s;
  cm_sig : forall p, signalled (events s) p = true -> p < nextpid s
}.

Inductive Inv (k : config) (s : sup) (a : astate) : Prop :=
| InvN : Common k s a -> Trk (specs (m s)) (children s) (a_children a) (nextpid s) -> indexed (specs (m s)) ->
         mode (m s) = 0 -> wait (m s) = [] ->
         (forall p n, In (p, n) (children s) -> signalled (events s) p = false) ->
         a_phase a = ANormal -> Inv k s a
| InvR r : Common k s a -> Trk (specs (m s)) (children s) (a_children a) (nextpid s) -> indexed (specs (m s)) ->
         mode (m s) = 2 -> restartI (m s) = r -> (r < length (specs (m s)))%nat -> wait (m s) <> [] ->
         (forall p, In p (wait (m s)) <-> (exists n, In (p, n) (children s)) /\ signalled (events s) p = true) ->
         a_phase a = ARestart r -> Inv k s a
| InvS G why : Common k s a -> Trk G (children s) (a_children a) (nextpid s) ->
         mode (m s) = 3 -> sreason (m s) = why -> wait (m s) <> [] ->
         (forall p, In p (wait (m s)) <-> exists n, In (p, n) (children s)) ->
         (forall p n, In (p, n) (children s) -> signalled (events s) p = true) ->
         a_phase a = AShutting why -> Inv k s a
| InvD : alive s = false -> a_phase a = ADead (exitreason s) -> Inv k s a.

(* the monitor step [agree] of Sup/MachineCases.v, split into the new specification state and the verdict *)
Definition settle (sn : snap) (a : astate) : astate :=
  if negb (sn_alive sn) || is_nil (sn_out sn) then a_quiesce a else a.
Definition chk (k : config) (a : astate) (sn : snap) : bool :=
  if negb (sn_alive sn) then match a_phase a with ADead w => w =? sn_reason sn | _ => false end
  else if is_nil (sn_out sn) then a_normal a && view_eqb (a_view a) (m_view k (sn_state sn))
  else match a_phase a with ADead _ => false | _ => true end.
Lemma agree_settle k a sn : agree k a sn = (chk k (settle sn a) sn, settle sn a).
Proof. unfold agree, chk, settle. destruct (sn_alive sn); cbn [negb orb]; [|reflexivity]. destruct (is_nil (sn_out sn)); reflexivity. Qed.

Lemma view_eqb_refl v : view_eqb v v = true.
Proof.
  unfold view_eqb. induction v as [|x v IH]; [reflexivity|]. cbn [list_eqb]. rewrite Z.eqb_refl, Nat.eqb_refl, IH. reflexivity.
Qed.

Lemma rel_view_arfo k s al : is_arfo k = true -> Forall2 rel (specs s) al -> m_view k s = map (fun c => (a_name c, a_up c)) al.
Proof.
  intros Hk H. unfold m_view.
  replace (match k_kind k with SOFO => _ | _ => map (fun c => (c_name c, if c_pid c =? 0 then 0%nat else 1%nat)) (specs s) end)
    with (map (fun c => (c_name c, if c_pid c =? 0 then 0%nat else 1%nat)) (specs s))
    by (unfold is_arfo in Hk; destruct (k_kind k); try discriminate; reflexivity).
  induction H as [|c a l al' [Hn [_ [_ [_ Hu]]]] _ IH]; [reflexivity|]. cbn [map]. rewrite IH, Hn, Hu. reflexivity.
Qed.

Lemma outstanding_nil s : is_nil (outstanding s) = true <-> forall p n, In (p, n) (children s) -> signalled (events s) p = false.
Proof.
  unfold outstanding. rewrite is_nil_true, filter_nil_forall. split.
  - intros H p n Hin. apply H. apply in_map_iff. exists (p, n). auto.
  - intros H p Hin. apply in_map_iff in Hin as [[p' n] [<- Hin]]. apply (H p' n Hin).
Qed.

Lemma outstanding_busy s p n : In (p, n) (children s) -> signalled (events s) p = true -> is_nil (outstanding s) = false.
Proof.
  intros Hin Hs. destruct (is_nil (outstanding s)) eqn:E; [|reflexivity].
  rewrite outstanding_nil in E. rewrite (E p n Hin) in Hs. discriminate.
Qed.

Lemma wait_member (w : list Z) : w <> [] -> exists p, In p w.
Proof. destruct w as [|p w]; [congruence|]. exists p. left. reflexivity. Qed.

(* what the invariant says at every point of a run *)
Lemma Inv_chk k s a : is_arfo k = true -> Inv k s a -> chk k a (snap_of s) = true.
Proof.
  intros Hk [Hc Ht Hi Hm Hw Hs Hp|r Hc Ht Hi Hm Hr Hl Hw Hws Hp|G why Hc Ht Hm Hr Hw Hws Hs Hp|Ha Hp];
    unfold chk; cbn [snap_of sn_alive sn_out sn_state sn_reason].
  - rewrite (cm_alive _ _ _ Hc). cbn [negb]. rewrite (proj2 (outstanding_nil s) Hs).
    unfold a_normal. rewrite Hp. cbn [andb]. rewrite (rel_view_arfo k (m s) (a_children a) Hk (tk_rel _ _ _ _ Ht)).
    apply view_eqb_refl.
  - rewrite (cm_alive _ _ _ Hc). cbn [negb]. destruct (wait_member _ Hw) as [p Hin]. apply Hws in Hin as [[n Hin] Hsg].
    rewrite (outstanding_busy s p n Hin Hsg), Hp. reflexivity.
  - rewrite (cm_alive _ _ _ Hc). cbn [negb]. destruct (wait_member _ Hw) as [p Hin]. apply Hws in Hin as [n Hin].
    rewrite (outstanding_busy s p n Hin (Hs p n Hin)), Hp. reflexivity.
  - rewrite Ha. cbn [negb]. rewrite Hp. apply Z.eqb_refl.
Qed.


Section Leafs.
  Variable k : config.
  Hypothesis Hk : is_arfo k = true.

  Lemma leaf_dead s x a : a_phase a = ADead x -> Inv k (sup_die s x) a.
  Proof. intros H. apply InvD; [reflexivity | exact H]. Qed.

  Lemma zset_nonempty l : l <> [] -> zset l <> [].
  Proof.
    intros H E. destruct l as [|x l]; [congruence|]. assert (Hin : In x (zset (x :: l))) by (apply zset_in; left; reflexivity).
    rewrite E in Hin. exact Hin.
  Qed.

  (* the machine entered its shutdown: every recorded running child is told to stop and awaited *)
  Lemma leaf_shutdown s1 a G why :
    Common k s1 a -> Trk G (children s1) (a_children a) (nextpid s1) ->
    mode (m s1) = 3 -> sreason (m s1) = why -> wait (m s1) = zset (running G) -> running G <> [] ->
    a_phase a = AShutting why ->
    Inv k (send_all (running G) why s1) a.
  Proof.
    intros [Hal Hafo Hrs Hnx Hsg] Ht Hm Hr Hw Hne Hp.
    destruct (send_all_props why (running G) s1) as [H1 [H2 [H3 [H4 [H5 H6]]]]].
    apply (InvS k _ a G why).
    - constructor; rewrite ?H1, ?H3, ?H4; auto. intros p. rewrite H6. intros E. apply orb_true_iff in E as [E|E]; [auto|].
      apply memz_in in E. apply running_in in E as [c [Hc [Hq Hz]]].
      pose proof (tk_rng _ _ _ _ Ht) as Hrng. rewrite Forall_forall in Hrng. specialize (Hrng c Hc). lia.
    - rewrite H2, H3. exact Ht.
    - rewrite H1. exact Hm.
    - rewrite H1. exact Hr.
    - rewrite H1, Hw. apply zset_nonempty. exact Hne.
    - intros p. rewrite H1, H2, Hw, zset_in. apply recorded_running. exact (tk_rec _ _ _ _ Ht).
    - intros p n Hin. rewrite H2 in Hin. rewrite H6. apply orb_true_iff. right. apply memz_in.
      apply (recorded_running G (children s1) p (tk_rec _ _ _ _ Ht)). exists n. exact Hin.
    - exact Hp.
  Qed.

  (* the machine stops (more) children of the restart range *)
  Lemma leaf_stop s1 a t why r :
    Common k s1 a -> Trk (specs (m s1)) (children s1) (a_children a) (nextpid s1) -> indexed (specs (m s1)) ->
    mode (m s1) = 2 -> restartI (m s1) = r -> (r < length (specs (m s1)))%nat ->
    t <> [] -> (forall q, In q (wait (m s1)) <-> In q t) -> (forall q, In q t -> In q (running (specs (m s1)))) ->
    (forall p n, In (p, n) (children s1) -> signalled (events s1) p = false) ->
    a_phase a = ARestart r ->
    Inv k (send_all t why s1) a.
  Proof.
    intros [Hal Hafo Hrs Hnx Hsg] Ht Hi Hm Hr Hl Hne Hw Hrun Hq Hp.
    destruct (send_all_props why t s1) as [H1 [H2 [H3 [H4 [H5 H6]]]]].
    apply (InvR k _ a r); rewrite ?H1, ?H2, ?H3; auto.
    - constructor; rewrite ?H1, ?H3, ?H4; auto. intros p. rewrite H6. intros E. apply orb_true_iff in E as [E|E]; [auto|].
      apply memz_in in E. apply Hrun in E. apply running_in in E as [c [Hc [Hq' Hz]]].
      pose proof (tk_rng _ _ _ _ Ht) as Hrng. rewrite Forall_forall in Hrng. specialize (Hrng c Hc). lia.
    - intros E. apply Hne. apply nil_iff_no_member. intros q Hin. apply Hw in Hin. rewrite E in Hin. exact Hin.
    - intros p. rewrite Hw, H6. split.
      + intros Hin. split; [apply (recorded_running _ _ p (tk_rec _ _ _ _ Ht)); apply Hrun; exact Hin|].
        apply orb_true_iff. right. apply memz_in. exact Hin.
      + intros [[n Hin] E]. apply orb_true_iff in E as [E|E]; [rewrite (Hq p n Hin) in E; discriminate | apply memz_in; exact E].
  Qed.

  (* the whole restart range is down: the start chain restarts it, in spec order, with fresh pids *)
  Lemma leaf_chain s1 a r x post :
    Common k s1 a -> Trk (specs (m s1)) (children s1) (a_children a) (nextpid s1) -> indexed (specs (m s1)) ->
    mode (m s1) = 1 -> wait (m s1) = [] -> skipn r (specs (m s1)) = x :: post ->
    Forall (fun c => c_pid c = 0 /\ c_dis c = false) (x :: post) ->
    (forall p n, In (p, n) (children s1) -> signalled (events s1) p = false) ->
    exists s', handleAction k (fuel_of s1) 0 s1 (RAct (StartChild x)) = (s', HNil) /\
               Inv k s' (mk_astate (a_restart_from r (a_children a)) ANormal (a_restarts a)).
  Proof.
    intros [Hal Hafo Hrs Hnx Hsg] Ht Hi Hm Hw Hsk Hdown Hq.
    destruct (firstn_skipn_mid _ _ _ _ Hsk) as [Hsp Hlen]. set (pre := firstn r (specs (m s1))) in *.
    assert (Hci : c_i x = length pre).
    { rewrite Hlen. apply Hi. rewrite Hsp, <- Hlen. apply nth_error_app_mid. }
    pose proof (Forall_inv Hdown) as Hx. pose proof (Forall_inv_tail Hdown) as Hpost.
    pose proof (tk_rng _ _ _ _ Ht) as Hrng. rewrite Forall_forall in Hrng.
    assert (Hchb : forall q, In q (map fst (children s1)) -> q < nextpid s1).
    { intros q Hin. apply in_map_iff in Hin as [[q1 q2] [<- Hin]]. apply (tk_rec _ _ _ _ Ht) in Hin as [c [Hc [E [Hz _]]]].
      specialize (Hrng c Hc). cbn. lia. }
    destruct (arfo_chain k post pre x x s1 (fuel_of s1) Hk Hsp Hm Hci eq_refl) as [s' [Hh [Hms [Hn [Ha [He [Hc Hs]]]]]]].
    - eapply Forall_impl; [|exact Hpost]. intros c H. exact H.
    - unfold fuel_of. rewrite Hsp, app_length. cbn [length]. lia.
    - exact Hchb.
    - exists s'. split; [exact Hh|].
      assert (Hdown' : Forall (fun c => c_pid c = 0) (x :: post)) by (eapply Forall_impl; [|exact Hdown]; cbn; tauto).
      apply InvN; rewrite ?Hms; cbn [specs mode wait restartI restarts a_children a_phase a_restarts].
      + constructor; rewrite ?Hms; cbn [restartI restarts a_restarts]; auto; try lia; try congruence.
        intros p E. rewrite Hs in E. apply Hsg in E. lia.
      + rewrite <- Hlen. rewrite Hsp in Ht. replace (nextpid s') with (nextpid s1 + Z.of_nat (length (x :: post))) by (cbn [length]; lia).
        apply (Trk_chain pre (x :: post) (children s1)); auto.
      + apply indexed_chain. rewrite <- Hsp. exact Hi.
      + reflexivity.
      + exact Hw.
      + intros p n Hin. apply Hc in Hin as [Hin|[c' [Hc' E]]]; [rewrite Hs; apply (Hq p n Hin)|].
        injection E as -> ->. destruct (signalled (events s') (c_pid c')) eqn:Es; [|reflexivity].
        rewrite Hs in Es. apply Hsg in Es.
        assert (Hp : 0 < nextpid s1) by (unfold firstpid in Hnx; lia).
        destruct (assign_props (x :: post) (nextpid s1) Hp) as [Hf _]. rewrite Forall_forall in Hf. specialize (Hf c' Hc'). lia.
      + reflexivity.
  Qed.
End Leafs.

(* ==== one operation of the environment ================================================================================ *)
Definition exit_name (s : sup) (pid : Z) : Z := match lookup_pid pid (children s) with Some n => n | None => 0 end.

(* the environment guard: exits of live children (each pid exits once: it is removed from s.children when its exit
   message is taken) or of pids that are no children; no spawn failures; the clock may advance between messages *)
Definition op_ok (s : sup) (o : op) : Prop :=
  match o with
  | OExit pid _ _ fail => fail = 0%nat /\ (lookup_pid pid (children s) <> None \/ foreign pid)
  | OShift _ => True
  | _ => False
  end.

Section Step.
  Variable k : config.
  Hypothesis Hk : is_arfo k = true.

  Definition logged (s : sup) (name pid reason now : Z) (st : state) (r : result) : sup :=
    sup_log (sup_forget s pid) st (CTerminated name pid reason now) r.

  Lemma step_exit s pid name reason now st r :
    alive s = true -> exit_name s pid = name -> arfo_childTerminated k (m s) name pid reason now = (st, r) ->
    step k s (OExit pid reason now 0) =
      let s1 := logged s name pid reason now st r in
      let '(s2, h) := handleAction k (fuel_of s1) 0 s1 r in after_run k s2 h now.
  Proof.
    intros Ha Hn H. unfold step, exit_name in *. rewrite Ha. cbn [negb]. cbn zeta. cbn [sup_forget m].
    rewrite (arfo_terminated k _ _ _ _ _ Hk), Hn, H. reflexivity.
  Qed.

  Lemma step_nothing s pid name reason now st :
    alive s = true -> exit_name s pid = name -> arfo_childTerminated k (m s) name pid reason now = (st, RAct DoNothing) ->
    step k s (OExit pid reason now 0) = logged s name pid reason now st (RAct DoNothing).
  Proof. intros Ha Hn H. rewrite (step_exit _ _ _ _ _ _ _ Ha Hn H). cbn zeta. rewrite handleAction_nothing. reflexivity. Qed.

  Lemma step_terminate s pid name reason now st x :
    alive s = true -> exit_name s pid = name -> arfo_childTerminated k (m s) name pid reason now = (st, RAct (Terminate x)) ->
    step k s (OExit pid reason now 0) = sup_die (logged s name pid reason now st (RAct (Terminate x))) x.
  Proof. intros Ha Hn H. rewrite (step_exit _ _ _ _ _ _ _ Ha Hn H). cbn zeta. rewrite hA_terminate. reflexivity. Qed.

  Lemma step_wait s pid name reason now st :
    alive s = true -> exit_name s pid = name ->
    arfo_childTerminated k (m s) name pid reason now = (st, RAct (TerminateChildren [] 0)) ->
    step k s (OExit pid reason now 0) = logged s name pid reason now st (RAct (TerminateChildren [] 0)).
  Proof. intros Ha Hn H. rewrite (step_exit _ _ _ _ _ _ _ Ha Hn H). cbn zeta. rewrite hA_tc_nil. reflexivity. Qed.

  Lemma step_tc_nil s pid name reason now st x :
    alive s = true -> exit_name s pid = name -> x <> 0 ->
    arfo_childTerminated k (m s) name pid reason now = (st, RAct (TerminateChildren [] x)) ->
    step k s (OExit pid reason now 0) = sup_die (logged s name pid reason now st (RAct (TerminateChildren [] x))) x.
  Proof.
    intros Ha Hn Hx H. rewrite (step_exit _ _ _ _ _ _ _ Ha Hn H). cbn zeta. rewrite hA_tc_nil.
    destruct (x =? 0) eqn:E; [apply Z.eqb_eq in E; congruence | reflexivity].
  Qed.

  Lemma step_tc s pid name reason now st ps x :
    alive s = true -> exit_name s pid = name -> ps <> [] ->
    arfo_childTerminated k (m s) name pid reason now = (st, RAct (TerminateChildren ps x)) ->
    step k s (OExit pid reason now 0) = send_all ps x (logged s name pid reason now st (RAct (TerminateChildren ps x))).
  Proof. intros Ha Hn Hx H. rewrite (step_exit _ _ _ _ _ _ _ Ha Hn H). cbn zeta. rewrite (hA_tc _ _ _ _ _ _ Hx). reflexivity. Qed.

  Lemma step_start s pid name reason now st c s' :
    alive s = true -> exit_name s pid = name ->
    arfo_childTerminated k (m s) name pid reason now = (st, RAct (StartChild c)) ->
    (let s1 := logged s name pid reason now st (RAct (StartChild c)) in
     handleAction k (fuel_of s1) 0 s1 (RAct (StartChild c)) = (s', HNil)) ->
    step k s (OExit pid reason now 0) = s'.
  Proof. intros Ha Hn H Hh. rewrite (step_exit _ _ _ _ _ _ _ Ha Hn H). cbn zeta in *. rewrite Hh. reflexivity. Qed.

  (* ---- the specification side of an exit ---------------------------------------------------------------------------- *)
  Definition a_quiet (a : astate) (reason : Z) : astate :=
    if a_none_up (a_children a) && k_auto k then a_set_phase a (ADead reason) else a.

  Lemma a_exit_child_N a name reason now j aj :
    a_phase a = ANormal -> a_find name (a_children a) 0 = Some (j, aj) -> a_dis aj = false ->
    a_exit k a name reason now =
      let a1 := a_set_children a (a_update name a_dec (a_children a)) in
      if strategy_stops k reason then (if a_sig aj then a_stop a1 reason else a_quiet a1 reason)
      else let '(rs, ex) := check (a_restarts a1) now (k_per k) (k_int k) in
           let a2 := mk_astate (a_children a1) (a_phase a1) rs in
           if ex then a_stop a2 RExceeded
           else let r := match k_kind k with AFO => O | _ => j end in
                if a_range_up r (a_children a2) then a_set_phase a2 (ARestart r)
                else a_set_children a2 (a_restart_from r (a_children a2)).
  Proof.
    intros Hp Hf Hd. unfold a_exit, a_quiet. rewrite Hp, Hf, Hd. unfold is_arfo in Hk.
    destruct (k_kind k); try discriminate; reflexivity.
  Qed.

  Lemma a_exit_child_R a name reason now r j aj :
    a_phase a = ARestart r -> a_find name (a_children a) 0 = Some (j, aj) ->
    a_exit k a name reason now =
      let a1 := a_set_children a (a_update name a_dec (a_children a)) in
      if Nat.ltb j r then a_set_phase a1 (ARestart j) else a1.
  Proof. intros Hp Hf. unfold a_exit. rewrite Hp, Hf. reflexivity. Qed.

  Lemma a_exit_foreign a name reason now :
    (a_phase a = ANormal \/ exists r, a_phase a = ARestart r) -> a_find name (a_children a) 0 = None ->
    a_exit k a name reason now = a_stop a reason.
  Proof. intros [Hp|[r Hp]] Hf; unfold a_exit; rewrite Hp, Hf; reflexivity. Qed.

  Lemma a_exit_S a name reason now why :
    a_phase a = AShutting why -> a_exit k a name reason now = a_set_children a (a_update name a_dec (a_children a)).
  Proof. intros Hp. unfold a_exit. rewrite Hp. reflexivity. Qed.

  (* ---- from the invariant of the new state to the settled specification state ------------------------------------ *)
  Lemma finish_quiet s' a' :
    Inv k s' (a_quiesce a') -> (a_phase (a_quiesce a') = ANormal \/ exists w, a_phase (a_quiesce a') = ADead w) ->
    Inv k s' (settle (snap_of s') a').
  Proof.
    intros HI Hph. unfold settle. cbn [snap_of sn_alive sn_out].
    destruct HI as [Hc Ht Hi Hm Hw Hs Hp|r Hc Ht Hi Hm Hr Hl Hw Hws Hp|G why Hc Ht Hm Hr Hw Hws Hs Hp|Ha Hp].
    - rewrite (cm_alive _ _ _ Hc), (proj2 (outstanding_nil s') Hs). cbn [negb orb]. apply InvN; assumption.
    - exfalso. destruct Hph as [E|[w E]]; congruence.
    - exfalso. destruct Hph as [E|[w E]]; congruence.
    - rewrite Ha. cbn [negb orb]. apply InvD; assumption.
  Qed.

  Lemma finish_busy s' a' :
    Inv k s' a' -> ((exists r, a_phase a' = ARestart r) \/ exists w, a_phase a' = AShutting w) ->
    Inv k s' (settle (snap_of s') a').
  Proof.
    intros HI Hph. unfold settle. cbn [snap_of sn_alive sn_out].
    destruct HI as [Hc Ht Hi Hm Hw Hs Hp|r Hc Ht Hi Hm Hr Hl Hw Hws Hp|G why Hc Ht Hm Hr Hw Hws Hs Hp|Ha Hp].
    - exfalso. destruct Hph as [[r E]|[w E]]; congruence.
    - rewrite (cm_alive _ _ _ Hc). destruct (wait_member _ Hw) as [p Hin]. apply Hws in Hin as [[n Hin] Hsg].
      rewrite (outstanding_busy s' p n Hin Hsg). cbn [negb orb]. eapply InvR; eassumption.
    - rewrite (cm_alive _ _ _ Hc). destruct (wait_member _ Hw) as [p Hin]. apply Hws in Hin as [n Hin].
      rewrite (outstanding_busy s' p n Hin (Hs p n Hin)). cbn [negb orb]. eapply InvS; eassumption.
    - exfalso. destruct Hph as [[r E]|[w E]]; congruence.
  Qed.
End Step.

Section Step2.
  Variable k : config.
  Hypothesis Hk : is_arfo k = true.

  Lemma Common_ext s a a' : Common k s a -> a_restarts a' = a_restarts a -> Common k s a'.
  Proof. intros [H1 H2 H3 H4 H5] E. constructor; auto. congruence. Qed.

  Lemma Common_logged s a a' name pid reason now st r :
    Common k s a -> (k_kind k = AFO -> restartI st = 0%nat) -> restarts st = a_restarts a' ->
    Common k (logged s name pid reason now st r) a'.
  Proof. intros [H1 H2 H3 H4 H5] Hafo Hrs. constructor; cbn; auto. Qed.

  Lemma skipn_nonempty_lt {A} (l : list A) r c : In c (skipn r l) -> (r < length l)%nat.
  Proof.
    intros H. destruct (Nat.lt_ge_cases r (length l)) as [?|Hge]; [assumption|]. rewrite skipn_all2 in H by exact Hge. contradiction.
  Qed.

  Lemma a_quiesce_N a : a_phase a = ANormal -> a_quiesce a = a.
  Proof. intros H. unfold a_quiesce. rewrite H. reflexivity. Qed.
  Lemma a_quiesce_D a w : a_phase a = ADead w -> a_quiesce a = a.
  Proof. intros H. unfold a_quiesce. rewrite H. reflexivity. Qed.

  Lemma stop_dead s1 a1 why G :
    Forall2 rel G (a_children a1) -> running G = [] ->
    Inv k (sup_die s1 why) (settle (snap_of (sup_die s1 why)) (a_stop a1 why)).
  Proof.
    intros Hrel Hrun. unfold a_stop. rewrite (rel_none_up _ _ Hrel), Hrun. cbn [is_nil].
    apply finish_quiet; cbn [a_quiesce a_set_phase a_phase]; [|right; eexists; reflexivity].
    apply leaf_dead. reflexivity.
  Qed.

  Lemma stop_shut s1 a1 why G :
    Common k s1 a1 -> Trk G (children s1) (a_children a1) (nextpid s1) ->
    mode (m s1) = 3 -> sreason (m s1) = why -> wait (m s1) = zset (running G) -> running G <> [] ->
    Inv k (send_all (running G) why s1) (settle (snap_of (send_all (running G) why s1)) (a_stop a1 why)).
  Proof.
    intros Hc Ht Hm Hr Hw Hne. unfold a_stop. rewrite (rel_none_up _ _ (tk_rel _ _ _ _ Ht)).
    destruct (running G) as [|q l] eqn:E; [congruence|]. cbn [is_nil]. rewrite <- E in *.
    apply finish_busy; [|right; eexists; reflexivity].
    apply (leaf_shutdown k s1 _ G why); auto. apply (Common_ext s1 a1); [exact Hc | reflexivity].
  Qed.

  Lemma step_N_child s a pid reason now :
    Common k s a -> Trk (specs (m s)) (children s) (a_children a) (nextpid s) -> indexed (specs (m s)) ->
    mode (m s) = 0 -> wait (m s) = [] ->
    (forall p n, In (p, n) (children s) -> signalled (events s) p = false) ->
    a_phase a = ANormal -> lookup_pid pid (children s) <> None ->
    let s' := step k s (OExit pid reason now 0) in
    Inv k s' (settle (snap_of s') (a_exit k a (exit_name s pid) reason now)).
  Proof.
    intros Hc Ht Hi Hm Hw Hs Hp Hlive.
    destruct (Trk_exit _ _ _ _ _ Ht Hlive) as [j [cj [aj [Hj [Hpid [Hz [Hlk [Haj [Hr [Hup [Honly [Hfind [Hupd Ht1]]]]]]]]]]]]].
    assert (Hname : exit_name s pid = c_name cj) by (unfold exit_name; rewrite Hlk; reflexivity).
    rewrite Hname. set (name := c_name cj) in *.
    pose proof (last_match_only_i _ _ _ _ 0%nat cj Honly Hj) as Hlm. cbn [Nat.add] in Hlm.
    pose proof (clear_only_i _ _ _ _ Honly) as Hclear. fold clr in Hlm, Hclear.
    set (specs1 := update_nth j clr (specs (m s))) in *.
    assert (Hrun : running_others name pid (specs (m s)) = running specs1) by (rewrite <- running_others_clear, Hclear; reflexivity).
    assert (Hm3 : (mode (m s) =? 3) = false) by (rewrite Hm; reflexivity).
    assert (Hm2 : (mode (m s) =? 2) = false) by (rewrite Hm; reflexivity).
    pose proof (arfo_unfold k (m s) name pid reason now j (clr cj) Hm3 Hm2 Hlm) as HU. cbn zeta in HU.
    rewrite Hclear, Hrun, Hw in HU. 
    pose proof Hr as [Hrn [Hrd [Hrad [Hrsig _]]]].
    rewrite (a_exit_child_N k Hk a name reason now j aj Hp Hfind Hrad). cbn zeta. rewrite Hupd.
    cbn [a_children a_phase a_restarts a_set_children].
    change (zremove pid []) with (@nil Z) in HU.
    set (st0 := set_specs (set_wait (m s) []) specs1) in *.
    set (al1 := aupdate_nth j a_dec (a_children a)) in *.
    assert (Hal := cm_alive _ _ _ Hc).
    assert (Hi1 : indexed specs1) by (apply indexed_update; exact Hi).
    assert (Hs1 : forall p n, In (p, n) (premove pid (children s)) -> signalled (events s) p = false).
    { intros p n Hin. apply premove_in in Hin as [Hin _]. exact (Hs p n Hin). }
    replace (c_dis (clr cj)) with false in HU by (cbn; congruence).
    destruct (strategy_stops k reason) eqn:Est.
    - (* not to be restarted *)
      unfold no_restart in HU. replace (c_sig (clr cj)) with (a_sig aj) in HU by (cbn; congruence).
      destruct (a_sig aj).
      + destruct (is_nil (running specs1)) eqn:En.
        * rewrite (step_terminate k Hk _ _ _ _ _ _ _ Hal Hname HU).
          apply (stop_dead _ _ _ specs1); [exact (tk_rel _ _ _ _ Ht1) | apply is_nil_true; exact En].
        * assert (Hne : running specs1 <> []) by (intros E; rewrite E in En; discriminate).
          rewrite (step_tc k Hk _ _ _ _ _ _ _ _ Hal Hname Hne HU).
          apply stop_shut; cbn [logged sup_log sup_forget m children nextpid]; auto.
          apply (Common_logged s a); cbn; auto. exact (cm_afo _ _ _ Hc). exact (cm_restarts _ _ _ Hc).
      + unfold a_quiet. cbn [a_children a_set_children]. rewrite (rel_none_up _ _ (tk_rel _ _ _ _ Ht1)).
        destruct (is_nil (running specs1) && k_auto k) eqn:En.
        * rewrite (step_terminate k Hk _ _ _ _ _ _ _ Hal Hname HU).
          apply finish_quiet; cbn [a_quiesce a_set_phase a_phase]; [|right; eexists; reflexivity].
          apply leaf_dead. reflexivity.
        * rewrite (step_nothing k Hk _ _ _ _ _ _ Hal Hname HU).
          assert (Hp1 : a_phase (a_set_children a al1) = ANormal) by exact Hp.
          apply finish_quiet; rewrite (a_quiesce_N _ Hp1); [|left; exact Hp1].
          apply InvN; cbn [logged sup_log sup_forget m children nextpid events st0 set_specs set_wait specs mode wait a_children a_phase]; auto.
          apply (Common_logged s a); cbn; auto. exact (cm_afo _ _ _ Hc). exact (cm_restarts _ _ _ Hc).
    - (* to be restarted: the intensity check, on the same restart list *)
      rewrite <- (cm_restarts _ _ _ Hc). rewrite Hp.
      destruct (check (restarts (m s)) now (k_per k) (k_int k)) as [rs ex]. destruct ex.
      + (* exceeded *)
        destruct (is_nil (running specs1)) eqn:En.
        * apply is_nil_true in En. rewrite En in HU.
          assert (Hx : RExceeded <> 0) by (unfold RExceeded; lia).
          rewrite (step_tc_nil k Hk _ _ _ _ _ _ _ Hal Hname Hx HU).
          apply (stop_dead _ _ _ specs1); [exact (tk_rel _ _ _ _ Ht1) | exact En].
        * assert (Hne : running specs1 <> []) by (intros E; rewrite E in En; discriminate).
          rewrite (step_tc k Hk _ _ _ _ _ _ _ _ Hal Hname Hne HU).
          apply stop_shut; cbn [logged sup_log sup_forget m children nextpid a_children]; auto.
          apply (Common_logged s a); cbn; auto. exact (cm_afo _ _ _ Hc).
      + (* restart *)
        set (r := match k_kind k with AFO => 0%nat | _ => j end) in *.
        set (s3 := if match k_kind k with RFO => true | _ => false end then set_restartI (set_restarts st0 rs) j
                   else set_restarts st0 rs) in *.
        assert (H3 : specs s3 = specs1 /\ wait s3 = [] /\ restartI s3 = r /\ mode s3 = 0 /\ restarts s3 = rs).
        { subst s3 r st0. pose proof (cm_afo _ _ _ Hc) as Hafo. unfold is_arfo in Hk.
          destruct (k_kind k); try discriminate; cbn; auto. }
        destruct H3 as [H3s [H3w [H3r [H3m H3rs]]]].
        unfold childrenForTermination in HU. rewrite H3s, H3w, H3r in HU. fold (range_t (k_keep k) r specs1) in HU.
        set (t := range_t (k_keep k) r specs1) in *.
        rewrite (rel_range_up specs1 al1 r (k_keep k) (tk_rel _ _ _ _ Ht1)). fold t.
        assert (Hrj : (r <= j)%nat) by (subst r; destruct (k_kind k); lia).
        assert (Hj1 : nth_error specs1 j = Some (clr cj)) by (apply nth_update_same; exact Hj).
        assert (Hafo3 : k_kind k = AFO -> r = 0%nat) by (intros E; subst r; rewrite E; reflexivity).
        destruct (is_nil t) eqn:Et; cbn [negb].
        * (* nothing runs in the range: start it *)
          pose proof (range_down _ _ _ _ (tk_rel _ _ _ _ Ht1) Et) as Hdown.
          destruct (skipn r specs1) as [|x post] eqn:Esk.
          { exfalso. pose proof (nth_error_skipn_In _ _ _ _ Hj1 Hrj) as Hin. rewrite Esk in Hin. exact Hin. }
          pose proof (Forall_inv Hdown) as [Hx0 Hxd].
          assert (Hcfs : childForStart (set_wait s3 (zunion t [])) = Some x).
          { unfold childForStart. cbn [set_wait specs restartI]. rewrite H3s, H3r, Esk. cbn [cfs]. rewrite Hxd, Hx0. reflexivity. }
          rewrite Hcfs in HU.
          apply is_nil_true in Et.
          destruct (leaf_chain k Hk (logged s name pid reason now (set_mode (set_wait s3 (zunion t [])) 1) (RAct (StartChild x)))
                      (mk_astate al1 ANormal rs) r x post) as [s' [Hh HI]];
            cbn [logged sup_log sup_forget m children nextpid events set_mode set_wait specs mode wait a_children]; auto.
          -- apply (Common_logged s a); cbn; auto. rewrite H3r. exact Hafo3.
          -- rewrite H3s. exact Ht1.
          -- rewrite H3s. exact Hi1.
          -- rewrite Et. reflexivity.
          -- rewrite H3s. exact Esk.
          -- rewrite (step_start k Hk _ _ _ _ _ _ _ s' Hal Hname HU Hh).
             apply finish_quiet; [|left; reflexivity]. rewrite a_quiesce_N by reflexivity. exact HI.
        * (* stop the running children of the range first *)
          assert (Hne : t <> []) by (intros E; rewrite E in Et; discriminate).
          rewrite (step_tc k Hk _ _ _ _ _ _ _ _ Hal Hname Hne HU).
          apply finish_busy; [|left; eexists; reflexivity].
          apply (leaf_stop k _ _ t reason r);
            cbn [logged sup_log sup_forget m children nextpid events set_mode set_wait specs mode wait restartI a_children a_set_phase a_phase]; auto.
          -- apply (Common_logged s a); cbn; auto. rewrite H3r. exact Hafo3.
          -- rewrite H3s. exact Ht1.
          -- rewrite H3s. exact Hi1.
          -- rewrite H3s. destruct (wait_member _ Hne) as [q Hq]. apply range_t_in in Hq as [c [Hc' _]].
             apply (skipn_nonempty_lt _ _ _ Hc').
          -- intros q. rewrite zunion_in. cbn [In]. tauto.
          -- intros q Hq. rewrite H3s. apply range_t_in in Hq as [c [Hc' [Hq Hqz]]]. apply running_in. exists c.
             split; [apply (skipn_In_le specs1 0 r); [lia | exact Hc'] | auto].
  Qed.

  (* ---- exit of a pid that is no child, in normal mode or while stopping for a restart --------------------------------- *)
  Lemma arfo_unfold_none s name pid reason now :
    (mode s =? 3) = false -> last_match name pid (specs s) 0 = None ->
    arfo_childTerminated k s name pid reason now =
      let s1 := set_specs (set_wait s (zremove pid (wait s))) (clear_matching name pid (specs s)) in
      let run := running_others name pid (specs s) in
      if is_nil run then (s1, RAct (Terminate reason))
      else (enter_shutdown true s1 run reason, RAct (TerminateChildren run reason)).
  Proof.
    intros Hm3 Hn. unfold arfo_childTerminated. cbn [set_wait mode specs]. rewrite Hm3.
    cbn [set_specs set_wait specs wait mode restartI shut sreason restarts pids]. rewrite Hn. reflexivity.
  Qed.

  Lemma arfo_unfold_3 s name pid reason now :
    mode s = 3 ->
    arfo_childTerminated k s name pid reason now =
      (set_wait s (zremove pid (wait s)),
       RAct (if is_nil (zremove pid (wait s)) then Terminate (sreason s) else TerminateChildren [] 0)).
  Proof.
    intros Hm. unfold arfo_childTerminated. cbn [set_wait mode wait sreason]. rewrite Hm. cbn [Z.eqb Pos.eqb].
    destruct (zremove pid (wait s)); reflexivity.
  Qed.

  Lemma Trk_premove_foreign G ch al next pid : Trk G ch al next -> lookup_pid pid ch = None -> Trk G (premove pid ch) al next.
  Proof.
    intros [H1 H2 H3 H4 H5 H6] Hl. constructor; auto. intros p n. rewrite premove_in. cbn [fst]. rewrite <- (H6 p n).
    split; [tauto|]. intros Hin. split; [exact Hin|]. intros ->. rewrite lookup_pid_none in Hl. exact (Hl n Hin).
  Qed.

  Lemma step_foreign s a pid reason now :
    Common k s a -> Trk (specs (m s)) (children s) (a_children a) (nextpid s) -> (mode (m s) =? 3) = false ->
    (a_phase a = ANormal \/ exists r, a_phase a = ARestart r) -> foreign pid ->
    let s' := step k s (OExit pid reason now 0) in
    Inv k s' (settle (snap_of s') (a_exit k a (exit_name s pid) reason now)).
  Proof.
    intros Hc Ht Hm3 Hp Hf.
    destruct (Trk_foreign _ _ _ _ _ Ht Hf) as [Hl [Hno [Hfind _]]].
    assert (Hname : exit_name s pid = 0) by (unfold exit_name; rewrite Hl; reflexivity).
    rewrite Hname. rewrite (a_exit_foreign k a 0 reason now Hp Hfind).
    pose proof (arfo_unfold_none (m s) 0 pid reason now Hm3 (last_match_none_all _ _ _ _ Hno)) as HU. cbn zeta in HU.
    rewrite (clear_none _ _ _ Hno) in HU.
    assert (Hrun : running_others 0 pid (specs (m s)) = running (specs (m s))).
    { rewrite <- running_others_clear, (clear_none _ _ _ Hno). reflexivity. }
    rewrite Hrun in HU. assert (Hal := cm_alive _ _ _ Hc).
    pose proof (Trk_premove_foreign _ _ _ _ pid Ht Hl) as Ht1.
    destruct (is_nil (running (specs (m s)))) eqn:En.
    - rewrite (step_terminate k Hk _ _ _ _ _ _ _ Hal Hname HU).
      apply (stop_dead _ _ _ (specs (m s))); [exact (tk_rel _ _ _ _ Ht) | apply is_nil_true; exact En].
    - assert (Hne : running (specs (m s)) <> []) by (intros E; rewrite E in En; discriminate).
      rewrite (step_tc k Hk _ _ _ _ _ _ _ _ Hal Hname Hne HU).
      apply stop_shut; cbn [logged sup_log sup_forget m children nextpid]; auto.
      apply (Common_logged s a); cbn; auto. exact (cm_afo _ _ _ Hc). exact (cm_restarts _ _ _ Hc).
  Qed.

  Lemma update_nth_length (f : cspec -> cspec) l : forall i, length (update_nth i f l) = length l.
  Proof. induction l as [|x l IH]; intros [|i]; cbn [update_nth length]; auto. Qed.

  (* ---- exit of a live child while the range is being stopped for a restart --------------------------------------- *)
  Lemma step_R_child s a pid reason now r :
    Common k s a -> Trk (specs (m s)) (children s) (a_children a) (nextpid s) -> indexed (specs (m s)) ->
    mode (m s) = 2 -> restartI (m s) = r -> (r < length (specs (m s)))%nat -> wait (m s) <> [] ->
    (forall p, In p (wait (m s)) <-> (exists n, In (p, n) (children s)) /\ signalled (events s) p = true) ->
    a_phase a = ARestart r -> lookup_pid pid (children s) <> None ->
    let s' := step k s (OExit pid reason now 0) in
    Inv k s' (settle (snap_of s') (a_exit k a (exit_name s pid) reason now)).
  Proof.
    intros Hc Ht Hi Hm Hr Hl Hw Hws Hp Hlive.
    destruct (Trk_exit _ _ _ _ _ Ht Hlive) as [j [cj [aj [Hj [Hpid [Hz [Hlk [Haj [Hrel [Hup [Honly [Hfind [Hupd Ht1]]]]]]]]]]]]].
    assert (Hname : exit_name s pid = c_name cj) by (unfold exit_name; rewrite Hlk; reflexivity).
    rewrite Hname. set (name := c_name cj) in *.
    pose proof (last_match_only_i _ _ _ _ 0%nat cj Honly Hj) as Hlm. cbn [Nat.add] in Hlm.
    pose proof (clear_only_i _ _ _ _ Honly) as Hclear. fold clr in Hlm, Hclear.
    set (specs1 := update_nth j clr (specs (m s))) in *.
    pose proof (arfo_stopping_unfold k (m s) name pid reason now j (clr cj) Hm Hlm) as HU. cbn zeta in HU.
    rewrite Hclear, Hr in HU.
    rewrite (a_exit_child_R k a name reason now r j aj Hp Hfind). cbn zeta. rewrite Hupd.
    set (al1 := aupdate_nth j a_dec (a_children a)) in *.
    set (w := zremove pid (wait (m s))) in *.
    set (r' := if Nat.ltb j r then j else r).
    set (s2 := if Nat.ltb j r then set_restartI (set_specs (set_wait (m s) w) specs1) j
               else set_specs (set_wait (m s) w) specs1) in *.
    assert (H2 : specs s2 = specs1 /\ wait s2 = w /\ restartI s2 = r' /\ mode s2 = 2 /\ restarts s2 = restarts (m s)).
    { subst s2 r'. destruct (Nat.ltb j r); cbn; auto. }
    destruct H2 as [H2s [H2w [H2r [H2m H2rs]]]].
    set (a' := if Nat.ltb j r then a_set_phase (a_set_children a al1) (ARestart j) else a_set_children a al1).
    assert (Ha' : a_children a' = al1 /\ a_phase a' = ARestart r' /\ a_restarts a' = a_restarts a).
    { subst a' r'. destruct (Nat.ltb j r); cbn; auto. }
    destruct Ha' as [Ha'c [Ha'p Ha'r]].
    assert (Hal := cm_alive _ _ _ Hc).
    assert (Hi1 : indexed specs1) by (apply indexed_update; exact Hi).
    assert (Hj1 : nth_error specs1 j = Some (clr cj)) by (apply nth_update_same; exact Hj).
    assert (Hrj : (r' <= j)%nat).
    { subst r'. destruct (Nat.ltb j r) eqn:E; [lia|]. apply Nat.ltb_ge in E. exact E. }
    assert (Hr'l : (r' < length specs1)%nat).
    { subst specs1. rewrite update_nth_length. subst r'. destruct (Nat.ltb j r) eqn:E; [|exact Hl].
      apply nth_error_Some. rewrite Hj. discriminate. }
    assert (Hafo' : k_kind k = AFO -> r' = 0%nat).
    { intros E. pose proof (cm_afo _ _ _ Hc E) as E0. subst r'. rewrite <- Hr, E0. reflexivity. }
    assert (Hchild : forall p, (exists n, In (p, n) (premove pid (children s))) <-> (exists n, In (p, n) (children s)) /\ p <> pid).
    { intros p. split.
      - intros [n Hin]. apply premove_in in Hin as [Hin Hne]. split; [exists n; exact Hin | exact Hne].
      - intros [[n Hin] Hne]. exists n. apply premove_in. auto. }
    assert (Hww : forall p, In p w <-> (exists n, In (p, n) (premove pid (children s))) /\ signalled (events s) p = true).
    { intros p. subst w. rewrite zremove_in, Hws, Hchild. tauto. }
    destruct (is_nil (wait s2)) eqn:Ew; cbn [negb] in HU.
    2:{ (* still waiting for a child that was told to stop *)
      rewrite (step_wait k Hk _ _ _ _ _ _ Hal Hname HU).
      apply finish_busy; [|left; exists r'; exact Ha'p].
      apply (InvR k _ a' r');
        cbn [logged sup_log sup_forget m children nextpid events]; rewrite ?H2s, ?H2w, ?H2r, ?Ha'c; auto.
      - apply (Common_logged s a); auto; [rewrite H2r; exact Hafo' | rewrite H2rs, Ha'r; exact (cm_restarts _ _ _ Hc)].
      - rewrite H2w in Ew. intros E. rewrite E in Ew. discriminate. }
    rewrite H2w in Ew. apply is_nil_true in Ew.
    assert (Hs1 : forall p n, In (p, n) (premove pid (children s)) -> signalled (events s) p = false).
    { intros p n Hin. destruct (signalled (events s) p) eqn:E; [|reflexivity]. exfalso.
      assert (Hin' : In p w) by (apply Hww; split; [exists n; exact Hin | exact E]). rewrite Ew in Hin'. exact Hin'. }
    unfold childrenForTermination in HU. rewrite H2s, H2w, H2r, Ew in HU. fold (range_t (k_keep k) r' specs1) in HU.
    set (t := range_t (k_keep k) r' specs1) in *.
    destruct (is_nil t) eqn:Et; cbn [negb] in HU.
    - (* the range is down: start it *)
      pose proof (range_down _ _ _ _ (tk_rel _ _ _ _ Ht1) Et) as Hdown.
      destruct (skipn r' specs1) as [|x post] eqn:Esk.
      { exfalso. pose proof (nth_error_skipn_In _ _ _ _ Hj1 Hrj) as Hin. rewrite Esk in Hin. exact Hin. }
      pose proof (Forall_inv Hdown) as [Hx0 Hxd].
      assert (Hcfs : childForStart (set_mode (set_wait s2 (zunion t [])) 1) = Some x).
      { unfold childForStart. cbn [set_mode set_wait specs restartI]. rewrite H2s, H2r, Esk. cbn [cfs]. rewrite Hxd, Hx0. reflexivity. }
      rewrite Hcfs in HU. apply is_nil_true in Et.
      destruct (leaf_chain k Hk (logged s name pid reason now (set_restartI (set_mode (set_wait s2 (zunion t [])) 1) 0) (RAct (StartChild x)))
                  (mk_astate al1 ANormal (a_restarts a)) r' x post) as [s' [Hh HI]];
        cbn [logged sup_log sup_forget m children nextpid events set_mode set_wait set_restartI specs mode wait a_children]; auto.
      + apply (Common_logged s a); cbn; auto. rewrite H2rs. exact (cm_restarts _ _ _ Hc).
      + rewrite H2s. exact Ht1.
      + rewrite H2s. exact Hi1.
      + rewrite Et. reflexivity.
      + rewrite H2s. exact Esk.
      + rewrite (step_start k Hk _ _ _ _ _ _ _ s' Hal Hname HU Hh).
        assert (Hq : a_quiesce a' = mk_astate (a_restart_from r' al1) ANormal (a_restarts a)).
        { unfold a_quiesce. rewrite Ha'p, Ha'c, Ha'r. rewrite (rel_range_up specs1 al1 r' (k_keep k) (tk_rel _ _ _ _ Ht1)).
          fold t. rewrite Et. reflexivity. }
        apply finish_quiet; rewrite Hq; [exact HI | left; reflexivity].
    - (* more children of the (possibly widened) range are told to stop *)
      assert (Hne : t <> []) by (intros E; rewrite E in Et; discriminate).
      rewrite (step_tc k Hk _ _ _ _ _ _ _ _ Hal Hname Hne HU).
      apply finish_busy; [|left; exists r'; exact Ha'p].
      apply (leaf_stop k _ _ t reason r');
        cbn [logged sup_log sup_forget m children nextpid events set_mode set_wait specs mode wait restartI]; rewrite ?H2s, ?H2r, ?Ha'c; auto.
      + apply (Common_logged s a); cbn; auto; [rewrite H2r; exact Hafo' | rewrite H2rs, Ha'r; exact (cm_restarts _ _ _ Hc)].
      + intros q. rewrite zunion_in. cbn [In]. tauto.
      + intros q Hq. apply range_t_in in Hq as [c [Hc' [Hq Hqz]]]. apply running_in. exists c.
        split; [apply (skipn_In_le specs1 0 r'); [lia | exact Hc'] | auto].
  Qed.

  (* ---- any exit while the supervisor is shutting down ------------------------------------------------------------------ *)
  Lemma step_S s a pid reason now G why :
    Common k s a -> Trk G (children s) (a_children a) (nextpid s) ->
    mode (m s) = 3 -> sreason (m s) = why -> wait (m s) <> [] ->
    (forall p, In p (wait (m s)) <-> exists n, In (p, n) (children s)) ->
    (forall p n, In (p, n) (children s) -> signalled (events s) p = true) ->
    a_phase a = AShutting why -> (lookup_pid pid (children s) <> None \/ foreign pid) ->
    let s' := step k s (OExit pid reason now 0) in
    Inv k s' (settle (snap_of s') (a_exit k a (exit_name s pid) reason now)).
  Proof.
    intros Hc Ht Hm Hr Hw Hws Hs Hp Hpid.
    rewrite (a_exit_S k a _ reason now why Hp).
    pose proof (arfo_unfold_3 (m s) (exit_name s pid) pid reason now Hm) as HU.
    assert (Hal := cm_alive _ _ _ Hc).
    set (w := zremove pid (wait (m s))) in *.
    (* the specification's children after the exit, tracked by a list G1 *)
    assert (H1 : exists G1, Trk G1 (premove pid (children s)) (a_update (exit_name s pid) a_dec (a_children a)) (nextpid s)).
    { destruct Hpid as [Hlive|Hf].
      - destruct (Trk_exit _ _ _ _ _ Ht Hlive) as [j [cj [aj [Hj [Hpid [Hz [Hlk [Haj [Hrel [Hup [Honly [Hfind [Hupd Ht1]]]]]]]]]]]]].
        exists (update_nth j clr G). unfold exit_name. rewrite Hlk, Hupd. exact Ht1.
      - destruct (Trk_foreign _ _ _ _ _ Ht Hf) as [Hl [Hno [Hfind Hupd]]].
        exists G. unfold exit_name. rewrite Hl, Hupd. apply Trk_premove_foreign; assumption. }
    destruct H1 as [G1 Ht1].
    assert (Hww : forall p, In p w <-> exists n, In (p, n) (premove pid (children s))).
    { intros p. subst w. rewrite zremove_in, Hws. split.
      - intros [[n Hin] Hne]. exists n. apply premove_in. auto.
      - intros [n Hin]. apply premove_in in Hin as [Hin Hne]. split; [exists n; exact Hin | exact Hne]. }
    destruct (is_nil w) eqn:Ew.
    - (* the last awaited child is gone: the supervisor terminates with the stored reason *)
      rewrite (step_terminate k Hk _ _ _ _ _ _ _ Hal eq_refl HU). rewrite Hr.
      assert (Hrun : running G1 = []).
      { apply nil_iff_no_member. intros q Hq. apply (recorded_running _ _ q (tk_rec _ _ _ _ Ht1)) in Hq.
        apply Hww in Hq. apply is_nil_true in Ew. rewrite Ew in Hq. exact Hq. }
      assert (Hq : a_quiesce (a_set_children a (a_update (exit_name s pid) a_dec (a_children a))) =
                   a_set_phase (a_set_children a (a_update (exit_name s pid) a_dec (a_children a))) (ADead why)).
      { unfold a_quiesce. cbn [a_set_children a_phase a_children]. rewrite Hp.
        rewrite (rel_none_up _ _ (tk_rel _ _ _ _ Ht1)), Hrun. reflexivity. }
      apply finish_quiet; rewrite Hq; [|right; eexists; reflexivity]. apply leaf_dead. reflexivity.
    - rewrite (step_wait k Hk _ _ _ _ _ _ Hal eq_refl HU).
      apply finish_busy; [|right; exists why; exact Hp].
      apply (InvS k _ _ G1 why); cbn [logged sup_log sup_forget m children nextpid events set_wait mode sreason wait a_set_children a_children a_phase]; auto.
      + apply (Common_logged s a); cbn; auto. exact (cm_afo _ _ _ Hc). exact (cm_restarts _ _ _ Hc).
      + fold w. intros E. rewrite E in Ew. discriminate.
      + intros p n Hin. apply premove_in in Hin as [Hin _]. exact (Hs p n Hin).
  Qed.

  (* ---- the clock advances ---------------------------------------------------------------------------------------------- *)
  Lemma step_shift s a d : Inv k s a -> Inv k (step k s (OShift d)) (settle (snap_of (step k s (OShift d))) (a_shift a d)).
  Proof.
    intros HI.
    assert (Hcm : forall a0, Common k s a0 -> Common k (sup_log s (shiftRestarts (m s) d) (CShift d) (RAct DoNothing)) (a_shift a0 d)).
    { intros a0 [H1 H2 H3 H4 H5]. constructor; cbn; auto. rewrite H3. reflexivity. }
    destruct HI as [Hc Ht Hi Hm Hw Hs Hp|r Hc Ht Hi Hm Hr Hl Hw Hws Hp|G why Hc Ht Hm Hr Hw Hws Hs Hp|Ha Hp];
      unfold step; rewrite ?(cm_alive _ _ _ Hc), ?Ha; cbn [negb].
    - apply finish_quiet; rewrite (a_quiesce_N (a_shift a d)) by exact Hp; [|left; exact Hp]. apply InvN; cbn; auto.
    - apply finish_busy; [|left; exists r; exact Hp]. apply (InvR k _ _ r); cbn; auto.
    - apply finish_busy; [|right; exists why; exact Hp]. apply (InvS k _ _ G why); cbn; auto.
    - apply finish_quiet; rewrite (a_quiesce_D (a_shift a d) (exitreason s)) by exact Hp; [|right; eexists; exact Hp].
      apply InvD; [exact Ha | exact Hp].
  Qed.

  (* ---- one operation ------------------------------------------------------------------------------------------------------ *)
  Theorem step_ok s a o :
    Inv k s a -> op_ok s o ->
    Inv k (step k s o) (settle (snap_of (step k s o)) (a_step k a (children s) o)).
  Proof.
    intros HI Hop. destruct o as [pid reason now fail|n f|n sg f|n f|n|d]; cbn [op_ok] in Hop; try contradiction.
    - destruct Hop as [-> Hpid]. cbn [a_step]. fold (exit_name s pid).
      destruct HI as [Hc Ht Hi Hm Hw Hs Hp|r Hc Ht Hi Hm Hr Hl Hw Hws Hp|G why Hc Ht Hm Hr Hw Hws Hs Hp|Ha Hp].
      + destruct Hpid as [Hlive|Hf].
        * apply step_N_child; assumption.
        * apply step_foreign; auto. rewrite Hm. reflexivity.
      + destruct Hpid as [Hlive|Hf].
        * apply (step_R_child s a pid reason now r); assumption.
        * apply step_foreign; auto; [rewrite Hm; reflexivity | right; exists r; exact Hp].
      + apply (step_S s a pid reason now G why); assumption.
      + unfold step. rewrite Ha. cbn [negb]. unfold a_exit. rewrite Hp.
        apply finish_quiet; rewrite (a_quiesce_D a (exitreason s)) by exact Hp; [|right; eexists; exact Hp].
        apply InvD; assumption.
    - cbn [a_step]. apply step_shift. exact HI.
  Qed.
End Step2.

(* ==== every history ===================================================================================================== *)
Fixpoint env_ok (k : config) (s : sup) (ops : list op) : Prop :=
  match ops with
  | [] => True
  | o :: tl => op_ok s o /\ env_ok k (step k s o) tl
  end.

Lemma Inv_settle_id k s a : Inv k s a -> settle (snap_of s) a = a.
Proof.
  intros [Hc Ht Hi Hm Hw Hs Hp|r Hc Ht Hi Hm Hr Hl Hw Hws Hp|G why Hc Ht Hm Hr Hw Hws Hs Hp|Ha Hp];
    unfold settle; cbn [snap_of sn_alive sn_out].
  - rewrite (cm_alive _ _ _ Hc), (proj2 (outstanding_nil s) Hs). cbn [negb orb]. unfold a_quiesce. rewrite Hp. reflexivity.
  - rewrite (cm_alive _ _ _ Hc). destruct (wait_member _ Hw) as [p Hin]. apply Hws in Hin as [[n Hin] Hsg].
    rewrite (outstanding_busy s p n Hin Hsg). reflexivity.
  - rewrite (cm_alive _ _ _ Hc). destruct (wait_member _ Hw) as [p Hin]. apply Hws in Hin as [n Hin].
    rewrite (outstanding_busy s p n Hin (Hs p n Hin)). reflexivity.
  - rewrite Ha. cbn [negb orb]. unfold a_quiesce. rewrite Hp. reflexivity.
Qed.

(* the supervisor is quiescent (no exit signal outstanding) exactly in normal mode, and there the recorded children
   are the prescribed ones; otherwise it is stopping children for a restart (mode 2) or shutting down (mode 3) *)
Theorem Inv_quiescent k s a : is_arfo k = true -> Inv k s a -> alive s = true ->
  (is_nil (outstanding s) = true <-> mode (m s) = 0) /\
  (mode (m s) = 0 -> a_phase a = ANormal /\ m_view k (m s) = a_view a /\ wait (m s) = []) /\
  (mode (m s) = 0 \/ mode (m s) = 2 \/ mode (m s) = 3).
Proof.
  intros Hk [Hc Ht Hi Hm Hw Hs Hp|r Hc Ht Hi Hm Hr Hl Hw Hws Hp|G why Hc Ht Hm Hr Hw Hws Hs Hp|Ha Hp] Hal.
  - split; [split; intros _; [exact Hm | apply outstanding_nil; exact Hs]|]. split; [|left; exact Hm].
    intros _. split; [exact Hp|]. split; [|exact Hw]. apply rel_view_arfo; [exact Hk | exact (tk_rel _ _ _ _ Ht)].
  - destruct (wait_member _ Hw) as [p Hin]. apply Hws in Hin as [[n Hin] Hsg].
    rewrite (outstanding_busy s p n Hin Hsg). split; [split; [discriminate | lia]|]. split; [lia | right; left; exact Hm].
  - destruct (wait_member _ Hw) as [p Hin]. apply Hws in Hin as [n Hin].
    rewrite (outstanding_busy s p n Hin (Hs p n Hin)). split; [split; [discriminate | lia]|]. split; [lia | right; right; exact Hm].
  - congruence.
Qed.

Lemma run_snaps_cons k s o tl :
  fst (run_snaps k s (o :: tl)) = snap_of (step k s o) :: fst (run_snaps k (step k s o) tl).
Proof. cbn [run_snaps]. destruct (run_snaps k (step k s o) tl). reflexivity. Qed.

(* the monitor [walk] of Sup/MachineCases.v is true on every run of the driver *)
Theorem arfo_walk k : is_arfo k = true -> forall ops s a,
  Inv k s a -> env_ok k s ops -> walk k a (snap_of s) ops (fst (run_snaps k s ops)) = true.
Proof.
  intros Hk. induction ops as [|o tl IH]; intros s a HI Henv; [reflexivity|].
  destruct Henv as [Hop Henv]. rewrite run_snaps_cons. cbn [walk].
  destruct (negb (sn_alive (snap_of (step k s o))) && (sn_reason (snap_of (step k s o)) =? RSpawnErr)); [reflexivity|].
  cbn [snap_of sn_children]. fold (snap_of (step k s o)). rewrite agree_settle.
  pose proof (step_ok k Hk s a o HI Hop) as HI'.
  rewrite (Inv_chk k _ _ Hk HI'). cbn [andb]. apply IH; assumption.
Qed.

Theorem arfo_run_inv k : is_arfo k = true -> forall ops s a,
  Inv k s a -> env_ok k s ops -> exists a', Inv k (fold_left (step k) ops s) a'.
Proof.
  intros Hk. induction ops as [|o tl IH]; intros s a HI Henv; [exists a; exact HI|].
  destruct Henv as [Hop Henv]. cbn [fold_left]. eapply IH; [apply (step_ok k Hk s a o HI Hop) | exact Henv].
Qed.

(* ==== ProcessInit establishes the invariant, for every child list ======================================================= *)
Definition a_down (cs : list (Z * bool)) : astate :=
  mk_astate (map (fun c => mk_achild (fst c) 0 false (snd c)) cs) ANormal [].

Lemma a_down_restart k cs : is_arfo k = true -> a_restart_from 0 (a_children (a_down cs)) = a_children (a_init k cs).
Proof.
  intros Hk. unfold a_down, a_init. cbn [a_children]. unfold is_arfo in Hk.
  induction cs as [|c cs IH]; [reflexivity|]. cbn [map a_restart_from a_dis]. rewrite IH.
  destruct (k_kind k); try discriminate; reflexivity.
Qed.

Lemma mk_specs_down cs : forall i, Forall2 rel (mk_specs cs i) (a_children (a_down cs)).
Proof.
  induction cs as [|[n sg] cs IH]; intros i; cbn [mk_specs a_down map a_children]; constructor.
  - unfold rel. cbn. repeat split; reflexivity.
  - apply IH.
Qed.

Lemma mk_specs_pid0 cs : forall i, Forall (fun c => c_pid c = 0) (mk_specs cs i).
Proof. induction cs as [|[n sg] cs IH]; intros i; cbn [mk_specs]; constructor; [reflexivity | apply IH]. Qed.

Theorem arfo_start_establishes_invariant k cs :
  is_arfo k = true -> cs <> [] -> NoDup (map fst cs) -> Forall (fun c => fst c <> 0) cs ->
  let s := start k cs 0 in alive s = true /\ Inv k s (a_init k cs).
Proof.
  intros Hk Hcs Hnd Hnz. unfold start, init.
  replace (match k_kind k with SOFO => (set_specs empty_state (mk_specs cs 0), RAct DoNothing)
           | _ => match mk_specs cs 0 with [] => (empty_state, RPanic)
                  | c :: _ => (set_mode (set_specs empty_state (mk_specs cs 0)) 1, RAct (StartChild c)) end end)
    with (match mk_specs cs 0 with [] => (empty_state, RPanic)
          | c :: _ => (set_mode (set_specs empty_state (mk_specs cs 0)) 1, RAct (StartChild c)) end)
    by (unfold is_arfo in Hk; destruct (k_kind k); try discriminate; reflexivity).
  destruct cs as [|[n sg] cs']; [congruence|]. set (cs := (n, sg) :: cs') in *.
  change (mk_specs cs 0) with (mk_cspec n 0 false sg 0 :: mk_specs cs' 1).
  set (x := mk_cspec n 0 false sg 0). set (post := mk_specs cs' 1). cbn iota.
  set (st := set_mode (set_specs empty_state (x :: post)) 1).
  set (s0 := mk_sup st [] firstpid true 0 [mk_obs CInit (RAct (StartChild x)) st] []).
  assert (Hsp : specs (m s0) = mk_specs cs 0) by reflexivity.
  destruct (leaf_chain k Hk s0 (a_down cs) 0 x post) as [s' [Hh HI]].
  - constructor; cbn; auto; try reflexivity; try lia; try (intros p E; discriminate).
  - rewrite Hsp. constructor.
    + apply mk_specs_down.
    + rewrite mk_specs_names. exact Hnd.
    + apply Forall_forall. intros c Hc. assert (Hin : In (c_name c) (map c_name (mk_specs cs 0))) by (apply in_map; exact Hc).
      rewrite mk_specs_names in Hin. apply in_map_iff in Hin as [q [E Hq]]. rewrite Forall_forall in Hnz. rewrite <- E. apply Hnz. exact Hq.
    + rewrite (running_down _ (mk_specs_pid0 cs 0)). constructor.
    + eapply Forall_impl; [|apply (mk_specs_pid0 cs 0)]. cbn. intros c E. left. exact E.
    + intros p n0. cbn [children s0]. split; [intros []|]. intros [c [Hc [Hp [Hz _]]]].
      pose proof (mk_specs_pid0 cs 0) as H0. rewrite Forall_forall in H0. specialize (H0 c Hc). congruence.
  - rewrite Hsp. intros i c Hi. apply (mk_specs_indexed cs 0%nat i c Hi).
  - reflexivity.
  - reflexivity.
  - reflexivity.
  - change (x :: post) with (mk_specs cs 0). pose proof (mk_specs_fresh cs 0) as Hf.
    eapply Forall_impl; [|exact Hf]. intros c H. exact H.
  - intros p n0 [].
  - rewrite Hh. rewrite (a_down_restart k cs Hk) in HI.
    assert (E : mk_astate (a_children (a_init k cs)) ANormal (a_restarts (a_down cs)) = a_init k cs) by reflexivity.
    rewrite E in HI. split; [|exact HI].
    destruct HI as [Hc _ _ _ _ _ _|? Hc _ _ _ _ _ _ _ _|? ? Hc _ _ _ _ _ _ _|Ha Hp]; try exact (cm_alive _ _ _ Hc). discriminate Hp.
Qed.

(* the run of the model as a case of the monitor *)
Definition model_case (k : config) (cs : list (Z * bool)) (ops : list op) : mcase :=
  let s0 := start k cs 0 in
  mk_mcase k cs 0 ops (trace (snd (run_snaps k s0 ops))) (events (snd (run_snaps k s0 ops)))
           (snap_of s0 :: fst (run_snaps k s0 ops)).

(* C08_quiescent_children for all-for-one / rest-for-one, from ProcessInit on, through the driver *)
Theorem arfo_closed_loop_from_init k cs ops :
  is_arfo k = true -> cs <> [] -> NoDup (map fst cs) -> Forall (fun c => fst c <> 0) cs ->
  env_ok k (start k cs 0) ops ->
  spec_prescribed (model_case k cs ops) = true.
Proof.
  intros Hk Hcs Hnd Hnz Henv. destruct (arfo_start_establishes_invariant k cs Hk Hcs Hnd Hnz) as [Hal HI].
  unfold spec_prescribed, model_case. cbn [mc_snaps mc_cfg mc_children mc_ops].
  cbn [snap_of sn_alive]. rewrite Hal. cbn [negb]. fold (snap_of (start k cs 0)).
  rewrite agree_settle, (Inv_settle_id k _ _ HI), (Inv_chk k _ _ Hk HI). cbn [andb].
  apply arfo_walk; assumption.
Qed.

(* ---- the environment guard is decidable, and satisfiable by non-trivial histories ------------------------------------ *)
Definition op_okb (s : sup) (o : op) : bool :=
  match o with
  | OExit pid _ _ fail =>
      Nat.eqb fail 0 && match lookup_pid pid (children s) with Some _ => true | None => (0 <? pid) && (pid <? firstpid) end
  | OShift _ => true
  | _ => false
  end.
Fixpoint env_okb (k : config) (s : sup) (ops : list op) : bool :=
  match ops with
  | [] => true
  | o :: tl => op_okb s o && env_okb k (step k s o) tl
  end.

Lemma env_okb_sound k : forall ops s, env_okb k s ops = true -> env_ok k s ops.
Proof.
  induction ops as [|o tl IH]; intros s H; [exact I|]. cbn [env_okb] in H. apply andb_true_iff in H as [Ho Ht].
  split; [|apply IH; exact Ht]. destruct o as [pid reason now fail|n f|n sg f|n f|n|d]; cbn [op_okb op_ok] in *; try discriminate; [|exact I].
  apply andb_true_iff in Ho as [Hf Hp]. apply Nat.eqb_eq in Hf. split; [exact Hf|].
  destruct (lookup_pid pid (children s)); [left; discriminate | right]. unfold foreign. lia.
Qed.

(* rest-for-one, KeepOrder, Permanent, four children (the history of finding F1): c3 fails -> c4 is told to stop; before
   c4's exit is taken c1 (in front of the range) dies too; then c4, then c2 (stopped one by one, in reverse order);
   all four are restarted in spec order with fresh pids 1005..1008; later the exit of a pid that is no child arrives:
   the supervisor stops all four and terminates with that reason when the last of them is gone *)
Example arfo_closed_loop_example :
  let k := mk_config RFO Permanent true true 3 5 in
  let cs := [(1, false); (2, false); (3, true); (4, false)] in
  let ops := [OExit 1003 10 100 0; OExit 1001 11 200 0; OExit 1004 10 0 0; OExit 1002 10 0 0; OShift 9000;
              OExit 50 1 0 0; OExit 1006 1 0 0; OExit 1008 2 0 0; OExit 1005 1 0 0; OExit 1007 1 0 0] in
  let ops1 := firstn 4 ops in
  env_okb k (start k cs 0) ops && spec_prescribed (model_case k cs ops) &&
  list_eqb cspec_eqb (specs (m (run k cs 0 ops1)))
    [mk_cspec 1 1005 false false 0; mk_cspec 2 1006 false false 1; mk_cspec 3 1007 false true 2; mk_cspec 4 1008 false false 3] &&
  list_eqb event_eqb (skipn 4 (events (run k cs 0 ops1)))
    [EvSendExit 1004 10; EvSendExit 1002 10; EvSpawn 1005 1; EvSpawn 1006 2; EvSpawn 1007 3; EvSpawn 1008 4] &&
  negb (alive (run k cs 0 ops)) && (exitreason (run k cs 0 ops) =? 1) = true.
Proof. vm_compute. reflexivity. Qed.
