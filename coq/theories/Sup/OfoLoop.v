(* Closed loop for the one-for-one supervisor: for EVERY number of children and EVERY history of child exits
   (any child, any reason, any time, also the freshly restarted instance again) the children the machine
   records as running are exactly the ones the specification [a_exit] of Sup/Machine.v prescribes, and the
   machine starts to stop (Terminate / stop list) exactly when and why the specification says so.
   The loop is: exit message of the running instance of spec i -> supOFO.childTerminated ->
   (if it answers a start) Spawn with a fresh pid -> supOFO.childStarted.  *)
From Ergo Require Import Common.Base Sup.Intensity Sup.Machine Sup.MachineProofs.
Local Open Scope Z_scope.

(* ---- list facts -------------------------------------------------------------------------------------- *)
Fixpoint aupdate_nth (i : nat) (f : achild -> achild) (l : list achild) : list achild :=
  match l, i with
  | [], _ => []
  | c :: tl, O => f c :: tl
  | c :: tl, S j => c :: aupdate_nth j f tl
  end.

Lemma a_update_nth name f : forall l i a,
  NoDup (map a_name l) -> nth_error l i = Some a -> a_name a = name ->
  a_update name f l = aupdate_nth i f l.
Proof.
  induction l as [|x l IH]; intros i a Hnd Hn Ha; [destruct i; discriminate|].
  cbn [map] in Hnd. inversion Hnd as [|? ? Hnotin Hnd']; subst.
  destruct i as [|i]; cbn [nth_error] in Hn.
  - inversion Hn; subst. cbn [a_update aupdate_nth]. rewrite Z.eqb_refl. reflexivity.
  - cbn [a_update aupdate_nth]. destruct (a_name x =? a_name a) eqn:E.
    + exfalso. apply Z.eqb_eq in E. apply Hnotin. rewrite E. apply in_map. eapply nth_error_In; exact Hn.
    + f_equal. eapply IH; eauto.
Qed.

Lemma a_find_nth name : forall l i a k0,
  NoDup (map a_name l) -> nth_error l i = Some a -> a_name a = name ->
  a_find name l k0 = Some ((k0 + i)%nat, a).
Proof.
  induction l as [|x l IH]; intros i a k0 Hnd Hn Ha; [destruct i; discriminate|].
  cbn [map] in Hnd. inversion Hnd as [|? ? Hnotin Hnd']; subst.
  destruct i as [|i]; cbn [nth_error] in Hn.
  - inversion Hn; subst. cbn [a_find]. rewrite Z.eqb_refl. f_equal. f_equal. lia.
  - cbn [a_find]. destruct (a_name x =? a_name a) eqn:E.
    + exfalso. apply Z.eqb_eq in E. apply Hnotin. rewrite E. apply in_map. eapply nth_error_In; exact Hn.
    + rewrite (IH i a (S k0) Hnd' Hn eq_refl). f_equal. f_equal. lia.
Qed.

(* which specs match the exit of the running instance of spec i: only spec i *)
Definition only_i (name pid : Z) (i : nat) (l : list cspec) : Prop :=
  forall j c, nth_error l j = Some c -> (matches name pid c = true <-> j = i).

Lemma only_i_tail name pid i x l : only_i name pid (S i) (x :: l) -> matches name pid x = false /\ only_i name pid i l.
Proof.
  intros H. split.
  - destruct (matches name pid x) eqn:E; [|reflexivity]. specialize (H 0%nat x eq_refl). apply H in E. discriminate.
  - intros j c Hj. specialize (H (S j) c Hj). rewrite H. lia.
Qed.

Lemma only_0_tail name pid x l : only_i name pid 0 (x :: l) ->
  matches name pid x = true /\ forall c, In c l -> matches name pid c = false.
Proof.
  intros H. split; [apply (H 0%nat x eq_refl); reflexivity|].
  intros c Hc. apply In_nth_error in Hc as [j Hj]. specialize (H (S j) c Hj).
  destruct (matches name pid c); [|reflexivity]. assert (S j = 0)%nat by (apply H; reflexivity). discriminate.
Qed.

Lemma clear_none name pid l : (forall c, In c l -> matches name pid c = false) -> clear_matching name pid l = l.
Proof.
  intros H. unfold clear_matching. induction l as [|x l IH]; [reflexivity|]. cbn [map].
  rewrite (H x (or_introl eq_refl)). f_equal. apply IH. intros c Hc. apply H. right. exact Hc.
Qed.

Lemma last_match_none_all name pid l k0 : (forall c, In c l -> matches name pid c = false) -> last_match name pid l k0 = None.
Proof.
  revert k0. induction l as [|x l IH]; intros k0 H; [reflexivity|]. cbn [last_match].
  rewrite IH by (intros c Hc; apply H; right; exact Hc). rewrite (H x (or_introl eq_refl)). reflexivity.
Qed.

Lemma clear_only_i name pid : forall l i,
  only_i name pid i l -> clear_matching name pid l = update_nth i (fun c => with_pid c 0) l.
Proof.
  induction l as [|x l IH]; intros i H; [destruct i; reflexivity|].
  destruct i as [|i].
  - destruct (only_0_tail _ _ _ _ H) as [Hx Hl]. unfold clear_matching. cbn [map update_nth]. rewrite Hx. f_equal.
    apply (clear_none name pid l Hl).
  - destruct (only_i_tail _ _ _ _ _ H) as [Hx Hl]. unfold clear_matching. cbn [map update_nth]. rewrite Hx. f_equal.
    apply IH. exact Hl.
Qed.

Lemma last_match_only_i name pid : forall l i k0 ci,
  only_i name pid i l -> nth_error l i = Some ci ->
  last_match name pid l k0 = Some ((k0 + i)%nat, with_pid ci 0).
Proof.
  induction l as [|x l IH]; intros i k0 ci H Hn; [destruct i; discriminate|].
  destruct i as [|i]; cbn [nth_error] in Hn.
  - inversion Hn; subst. destruct (only_0_tail _ _ _ _ H) as [Hx Hl]. cbn [last_match].
    rewrite (last_match_none_all name pid l (S k0) Hl), Hx. f_equal. f_equal. lia.
  - destruct (only_i_tail _ _ _ _ _ H) as [Hx Hl]. cbn [last_match].
    rewrite (IH i (S k0) ci Hl Hn). f_equal. f_equal. lia.
Qed.

(* ---- the invariant ------------------------------------------------------------------------------------- *)
Definition rel (c : cspec) (a : achild) : Prop :=
  c_name c = a_name a /\ c_dis c = false /\ a_dis a = false /\ c_sig c = a_sig a /\
  a_up a = if c_pid c =? 0 then 0%nat else 1%nat.

Definition indexed (l : list cspec) : Prop := forall i c, nth_error l i = Some c -> c_i c = i.

Record Iv (k : config) (s : state) (a : astate) (next : Z) : Prop := mk_Iv {
  iv_kind : k_kind k = OFO;
  iv_shut : shut s = false;
  iv_mode : mode s = 0;
  iv_phase : a_phase a = ANormal;
  iv_rel : Forall2 rel (specs s) (a_children a);
  iv_names : NoDup (map c_name (specs s));
  iv_pids : NoDup (running (specs s));
  iv_fresh : Forall (fun c => c_pid c < next) (specs s);
  iv_idx : indexed (specs s);
  iv_restarts : restarts s = a_restarts a;
  iv_pos : 0 < next
}.

Lemma rel_names l al : Forall2 rel l al -> map a_name al = map c_name l.
Proof. induction 1 as [|c a l al [Hn _] _ IH]; cbn [map]; [reflexivity|]. rewrite IH, Hn. reflexivity. Qed.

Lemma rel_none_up l al : Forall2 rel l al -> a_none_up al = is_nil (running l).
Proof.
  induction 1 as [|c a l al [_ [_ [_ [_ Hu]]]] _ IH]; [reflexivity|].
  unfold a_none_up, running in *. cbn [forallb filter map]. rewrite Hu.
  destruct (c_pid c =? 0); cbn [negb Nat.eqb andb map is_nil]; [exact IH | reflexivity].
Qed.

Lemma rel_view k s al : k_kind k = OFO -> Forall2 rel (specs s) al ->
  m_view k s = map (fun c => (a_name c, a_up c)) al.
Proof.
  intros Hk H. unfold m_view. rewrite Hk. induction H as [|c a l al [Hn [_ [_ [_ Hu]]]] _ IH]; [reflexivity|].
  cbn [map]. rewrite IH, Hn, Hu. reflexivity.
Qed.

Lemma rel_nth l al i c : Forall2 rel l al -> nth_error l i = Some c -> exists a, nth_error al i = Some a /\ rel c a.
Proof.
  intros H. revert i. induction H as [|c0 a0 l al Hr _ IH]; intros i Hn; [destruct i; discriminate|].
  destruct i as [|i]; cbn [nth_error] in *; [inversion Hn; subst; eauto | apply IH; exact Hn].
Qed.

Lemma rel_update l al i f g :
  Forall2 rel l al -> (forall c a, rel c a -> rel (f c) (g a)) ->
  Forall2 rel (update_nth i f l) (aupdate_nth i g al).
Proof.
  intros H Hfg. revert i. induction H as [|c a l al Hr H IH]; intros i; [destruct i; constructor|].
  destruct i as [|i]; cbn [update_nth aupdate_nth]; constructor; auto.
Qed.

(* name / pid uniqueness: only spec i matches the exit of its own running instance *)
Lemma nodup_names_idx l i j c c' :
  NoDup (map c_name l) -> nth_error l i = Some c -> nth_error l j = Some c' -> c_name c = c_name c' -> i = j.
Proof.
  intros Hnd Hi Hj He.
  assert (Hi' : nth_error (map c_name l) i = Some (c_name c)) by (apply map_nth_error; exact Hi).
  assert (Hj' : nth_error (map c_name l) j = Some (c_name c)) by (rewrite He; apply map_nth_error; exact Hj).
  rewrite <- Hj' in Hi'. apply (proj1 (NoDup_nth_error (map c_name l)) Hnd); [|exact Hi'].
  apply nth_error_Some. rewrite Hi'. rewrite Hj'. discriminate.
Qed.

Lemma nodup_pids_idx : forall l i j c c',
  NoDup (running l) -> nth_error l i = Some c -> nth_error l j = Some c' ->
  c_pid c = c_pid c' -> c_pid c <> 0 -> i = j.
Proof.
  induction l as [|x l IH]; intros i j c c' Hnd Hi Hj He Hp; [destruct i; discriminate|].
  unfold running in Hnd. cbn [filter] in Hnd.
  assert (Hin : forall n y, nth_error l n = Some y -> c_pid y <> 0 -> In (c_pid y) (running l)).
  { intros n y Hy Hy0. unfold running. apply in_map. apply filter_In. split; [eapply nth_error_In; exact Hy|].
    apply negb_true_iff. apply Z.eqb_neq. exact Hy0. }
  destruct i as [|i]; destruct j as [|j]; cbn [nth_error] in *; [reflexivity| | |].
  - inversion Hi; subst. exfalso.
    assert (E0 : (c_pid c =? 0) = false) by (apply Z.eqb_neq; exact Hp). rewrite E0 in Hnd. cbn [negb map] in Hnd.
    inversion Hnd as [|? ? Hnot _]; subst. apply Hnot. rewrite He. apply (Hin j c' Hj). congruence.
  - inversion Hj; subst. exfalso.
    assert (E0 : (c_pid c' =? 0) = false) by (apply Z.eqb_neq; congruence). rewrite E0 in Hnd. cbn [negb map] in Hnd.
    inversion Hnd as [|? ? Hnot _]; subst. apply Hnot. rewrite <- He. apply (Hin i c Hi Hp).
  - f_equal. apply (IH i j c c'); auto.
    destruct (negb (c_pid x =? 0)); cbn [map] in Hnd; [inversion Hnd; assumption | exact Hnd].
Qed.

Lemma only_i_of_inv l i ci :
  NoDup (map c_name l) -> NoDup (running l) -> nth_error l i = Some ci -> c_pid ci <> 0 ->
  only_i (c_name ci) (c_pid ci) i l.
Proof.
  intros Hn Hp Hi H0 j c Hj. split.
  - unfold matches. intros H. apply orb_true_iff in H as [H|H]; apply Z.eqb_eq in H.
    + symmetry. eapply nodup_names_idx; eauto.
    + symmetry. eapply (nodup_pids_idx l i j ci c); eauto.
  - intros ->. rewrite Hi in Hj. inversion Hj; subst. unfold matches. rewrite Z.eqb_refl. reflexivity.
Qed.

(* ---- updates keep the invariant's ingredients --------------------------------------------------------------- *)
Lemma names_update i p l : map c_name (update_nth i (fun c => with_pid c p) l) = map c_name l.
Proof. revert i. induction l as [|x l IH]; intros [|i]; cbn [update_nth map]; try reflexivity. f_equal. apply IH. Qed.

Lemma nth_update {f : cspec -> cspec} : forall l i j,
  nth_error (update_nth i f l) j = if Nat.eqb j i then option_map f (nth_error l j) else nth_error l j.
Proof.
  induction l as [|x l IH]; intros i j.
  - destruct i; destruct j; cbn; try reflexivity; destruct (Nat.eqb j i); reflexivity.
  - destruct i as [|i]; destruct j as [|j]; cbn [update_nth nth_error Nat.eqb option_map]; try reflexivity. apply IH.
Qed.

Lemma indexed_update i p l : indexed l -> indexed (update_nth i (fun c => with_pid c p) l).
Proof.
  unfold indexed. intros H j c Hj. rewrite nth_update in Hj. destruct (Nat.eqb j i).
  - destruct (nth_error l j) as [c0|] eqn:E; cbn [option_map] in Hj; [|discriminate].
    inversion Hj; subst. cbn [with_pid c_i]. apply (H j c0 E).
  - apply (H j c Hj).
Qed.

Lemma fresh_update i p n l : p < n -> Forall (fun c => c_pid c < n) l ->
  Forall (fun c => c_pid c < n) (update_nth i (fun c => with_pid c p) l).
Proof.
  intros Hp H. revert i. induction H as [|x l Hx H IH]; intros [|i]; cbn [update_nth]; constructor; auto.
Qed.

Lemma fresh_weaken n m l : n <= m -> Forall (fun c => c_pid c < n) l -> Forall (fun c => c_pid c < m) l.
Proof. intros Hnm H. eapply Forall_impl; [|exact H]. cbn. intros; lia. Qed.

Lemma running_clear_nodup i l : NoDup (running l) -> NoDup (running (update_nth i (fun c => with_pid c 0) l)).
Proof.
  unfold running. revert i. induction l as [|x l IH]; intros i H; [destruct i; exact H|].
  cbn [filter] in H. destruct i as [|i]; cbn [update_nth filter with_pid c_pid].
  - cbn [Z.eqb negb]. destruct (negb (c_pid x =? 0)); cbn [map] in H; [inversion H; assumption | exact H].
  - destruct (negb (c_pid x =? 0)) eqn:E; cbn [map] in *.
    + inversion H as [|? ? Hnot Hnd]; subst. constructor; [|apply IH; exact Hnd].
      intros Hin. apply Hnot. clear -Hin. revert i Hin. induction l as [|y l IHl]; intros i Hin; [destruct i; exact Hin|].
      destruct i as [|i]; cbn [update_nth filter with_pid c_pid] in Hin.
      * cbn [Z.eqb negb] in Hin. cbn [filter]. destruct (negb (c_pid y =? 0)); cbn [map In]; [right|]; exact Hin.
      * cbn [filter]. destruct (negb (c_pid y =? 0)); cbn [map In] in *; [destruct Hin as [?|Hin]; [left; assumption | right; eapply IHl; exact Hin] | eapply IHl; exact Hin].
    + apply IH. exact H.
Qed.

Lemma running_in_update i p l q : In q (running (update_nth i (fun c => with_pid c p) l)) -> q = p \/ In q (running l).
Proof.
  unfold running. revert i. induction l as [|x l IH]; intros i H; [destruct i; contradiction|].
  destruct i as [|i]; cbn [update_nth filter with_pid c_pid] in H.
  - cbn [filter]. destruct (negb (p =? 0)); cbn [map In] in H.
    + destruct H as [<-|H]; [left; reflexivity|]. right. destruct (negb (c_pid x =? 0)); cbn [map In]; [right|]; exact H.
    + right. destruct (negb (c_pid x =? 0)); cbn [map In]; [right|]; exact H.
  - cbn [filter]. destruct (negb (c_pid x =? 0)); cbn [map In] in *.
    + destruct H as [H|H]; [right; left; exact H|]. destruct (IH i H) as [?|?]; [left|right; right]; assumption.
    + apply IH in H. exact H.
Qed.

Lemma running_lt n l q : Forall (fun c => c_pid c < n) l -> In q (running l) -> q < n.
Proof.
  intros H Hin. unfold running in Hin. apply in_map_iff in Hin as [c [<- Hc]]. apply filter_In in Hc as [Hc _].
  rewrite Forall_forall in H. apply H. exact Hc.
Qed.

Lemma running_set_nodup i n l :
  Forall (fun c => c_pid c < n) l -> NoDup (running l) ->
  NoDup (running (update_nth i (fun c => with_pid c n) (update_nth i (fun c => with_pid c 0) l))).
Proof.
  intros Hf Hnd. revert i. induction l as [|x l IH]; intros i; [destruct i; constructor|].
  inversion Hf as [|? ? Hx Hl]; subst.
  assert (Hnd' : NoDup (running l)).
  { unfold running in *. cbn [filter] in Hnd. destruct (negb (c_pid x =? 0)); cbn [map] in Hnd; [inversion Hnd; assumption|exact Hnd]. }
  destruct i as [|i]; cbn [update_nth].
  - unfold running. cbn [filter with_pid c_pid]. destruct (negb (n =? 0)); cbn [map]; [|exact Hnd'].
    constructor; [|exact Hnd']. intros Hin. apply (running_lt n l n Hl) in Hin. lia.
  - unfold running. cbn [filter]. destruct (negb (c_pid x =? 0)) eqn:E; cbn [map]; [|apply IH; assumption].
    constructor; [|apply IH; assumption].
    intros Hin. change (In (c_pid x) (running (update_nth i (fun c => with_pid c n) (update_nth i (fun c => with_pid c 0) l)))) in Hin.
    apply running_in_update in Hin as [Hin|Hin]; [lia|].
    apply running_in_update in Hin as [Hin|Hin].
    + rewrite Hin in E. discriminate.
    + unfold running in Hnd. cbn [filter] in Hnd. rewrite E in Hnd. cbn [map] in Hnd. inversion Hnd; subst. contradiction.
Qed.

Lemma anames_update i g al : (forall a, a_name (g a) = a_name a) -> map a_name (aupdate_nth i g al) = map a_name al.
Proof.
  intros Hg. revert i. induction al as [|x al IH]; intros [|i]; cbn [aupdate_nth map]; try reflexivity.
  - rewrite Hg. reflexivity.
  - f_equal. apply IH.
Qed.

Lemma anth_update g : forall al i a, nth_error al i = Some a -> nth_error (aupdate_nth i g al) i = Some (g a).
Proof.
  induction al as [|x al IH]; intros i a H; [destruct i; discriminate|].
  destruct i as [|i]; cbn [nth_error aupdate_nth] in *; [inversion H; reflexivity | apply IH; exact H].
Qed.

Lemma rel_length l al : Forall2 rel l al -> length l = length al.
Proof. induction 1; cbn [length]; congruence. Qed.

(* ---- the loop -------------------------------------------------------------------------------------------------- *)
Record hev := mk_hev { h_i : nat; h_reason : Z; h_now : Z }.

(* implementation side: exit of the running instance of spec i, then the spawn + childStarted if asked for.
   Third component: the stop action, once the supervisor starts to stop (then the loop ends; the shutdown phase is
   covered by shutdown_terminates). *)
Definition ofo_loop_step (k : config) (s : state) (next : Z) (e : hev) : state * Z * option action :=
  match nth_error (specs s) (h_i e) with
  | None => (s, next, None)
  | Some ci =>
      if c_pid ci =? 0 then (s, next, None)                 (* no running instance: nothing can exit *)
      else
        match ofo_childTerminated k s (c_name ci) (c_pid ci) (h_reason e) (h_now e) with
        | (s1, RAct (StartChild c)) => (fst (ofo_childStarted false s1 (c_i c) (c_name c) next), next + 1, None)
        | (s1, RAct DoNothing) => (s1, next, None)
        | (s1, RAct a) => (s1, next, Some a)
        | (s1, _) => (s1, next, Some DoNothing)
        end
  end.

(* specification side *)
Definition a_loop_step (k : config) (a : astate) (e : hev) : astate :=
  match nth_error (a_children a) (h_i e) with
  | None => a
  | Some ai => if Nat.eqb (a_up ai) 0 then a else a_exit k a (a_name ai) (h_reason e) (h_now e)
  end.

Definition stop_ok (s' : state) (a' : astate) (st : action) : Prop :=
  match st with
  | Terminate r => a_phase a' = ADead r /\ running (specs s') = []
  | TerminateChildren run r =>
      a_phase a' = (if is_nil run then ADead r else AShutting r) /\ run = running (specs s') /\
      wait s' = zset run /\ shut s' = true /\ sreason s' = r /\ Forall2 rel (specs s') (a_children a')
  | _ => False
  end.

Lemma rel_dec c a : rel c a -> rel (with_pid c 0) (a_dec a).
Proof. intros [H1 [H2 [H3 [H4 H5]]]]. unfold rel. cbn. repeat split; auto. rewrite H5. destruct (c_pid c =? 0); reflexivity. Qed.

Lemma rel_one n c a : n <> 0 -> rel c a -> rel (with_pid c n) (a_one a).
Proof.
  intros Hn [H1 [H2 [H3 [H4 H5]]]]. unfold rel. cbn. repeat split; auto.
  destruct (n =? 0) eqn:E; [apply Z.eqb_eq in E; contradiction | reflexivity].
Qed.

Lemma ofo_loop_step_ok k s a next e :
  Iv k s a next ->
  let '(s', next', st) := ofo_loop_step k s next e in
  let a' := a_loop_step k a e in
  match st with
  | None => Iv k s' a' next'
  | Some act => stop_ok s' a' act
  end.
Proof.
  intros [Hk Hshut Hmode Hph Hrel Hnames Hpids Hfresh Hidx Hrs Hpos].
  unfold ofo_loop_step, a_loop_step. set (i := h_i e).
  destruct (nth_error (specs s) i) as [ci|] eqn:Hci.
  2:{ (* no such spec on either side *)
    assert (Hnone : nth_error (a_children a) i = None).
    { apply nth_error_None. rewrite <- (rel_length _ _ Hrel). apply nth_error_None. exact Hci. }
    rewrite Hnone. constructor; assumption. }
  destruct (rel_nth _ _ _ _ Hrel Hci) as [ai [Hai Hr]]. rewrite Hai.
  pose proof Hr as [Hrn [Hrd [Hrad [Hrsig Hrup]]]].
  destruct (c_pid ci =? 0) eqn:Ep.
  { rewrite Hrup. cbn [Nat.eqb]. constructor; assumption. }
  rewrite Hrup. cbn [Nat.eqb].
  assert (Hp0 : c_pid ci <> 0) by (apply Z.eqb_neq; exact Ep).
  pose proof (only_i_of_inv _ _ _ Hnames Hpids Hci Hp0) as Honly.
  pose proof (last_match_only_i _ _ _ _ 0%nat ci Honly Hci) as Hlm. cbn [Nat.add] in Hlm.
  pose proof (clear_only_i _ _ _ _ Honly) as Hclear.
  set (name := c_name ci) in *. set (pid := c_pid ci) in *. set (sp := with_pid ci 0) in *.
  rewrite (ofo_unfold k s name pid (h_reason e) (h_now e) i sp Hshut Hlm). cbn zeta.
  set (specs1 := update_nth i (fun c => with_pid c 0) (specs s)) in *.
  assert (Hrun : running_others name pid (specs s) = running specs1).
  { rewrite <- running_others_clear, Hclear. reflexivity. }
  rewrite Hrun, Hclear. fold specs1.
  set (s1 := set_specs (set_wait s (zremove pid (wait s))) specs1).
  (* specification side *)
  assert (HnamesA : NoDup (map a_name (a_children a))) by (rewrite (rel_names _ _ Hrel); exact Hnames).
  assert (HnA : a_name ai = name) by (subst name; congruence).
  rewrite HnA. unfold a_exit. rewrite Hph. rewrite (a_find_nth name _ i ai 0%nat HnamesA Hai HnA). cbn [Nat.add].
  rewrite (a_update_nth name a_dec _ i ai HnamesA Hai HnA).
  set (al1 := aupdate_nth i a_dec (a_children a)).
  assert (Hrel1 : Forall2 rel specs1 al1) by (apply rel_update; [exact Hrel | exact rel_dec]).
  assert (Hnone1 : a_none_up al1 = is_nil (running specs1)) by (apply rel_none_up; exact Hrel1).
  cbn [a_set_children a_children a_phase a_restarts]. rewrite Hk.
  replace (c_dis sp) with false by (subst sp; cbn; congruence). rewrite Hrad.
  assert (Hnames1 : NoDup (map c_name specs1)) by (subst specs1; rewrite names_update; exact Hnames).
  assert (Hpids1 : NoDup (running specs1)) by (apply running_clear_nodup; exact Hpids).
  assert (Hfresh1 : Forall (fun c => c_pid c < next) specs1) by (apply fresh_update; assumption).
  assert (Hidx1 : indexed specs1) by (apply indexed_update; exact Hidx).
  replace (c_sig sp) with (a_sig ai) by (subst sp; cbn; congruence).
  destruct (strategy_stops k (h_reason e)) eqn:Est.
  - (* not to be restarted *)
    unfold no_restart. replace (c_sig sp) with (a_sig ai) by (subst sp; cbn; congruence).
    destruct (a_sig ai).
    + (* significant: the supervisor stops *)
      unfold a_stop. cbn [a_children a_set_children]. rewrite Hnone1.
      destruct (is_nil (running specs1)) eqn:En.
      * cbn [stop_ok a_phase a_set_phase]. split; [reflexivity|]. apply is_nil_true. exact En.
      * unfold enter_shutdown. cbn [stop_ok a_phase a_set_phase a_children a_set_children].
        rewrite En. cbn. repeat split; auto.
    + (* not significant: auto-shutdown or nothing *)
      cbn [a_children a_set_children]. rewrite Hnone1.
      destruct (is_nil (running specs1) && k_auto k) eqn:En.
      * cbn [stop_ok a_phase a_set_phase]. split; [reflexivity|]. apply andb_true_iff in En as [En _].
        apply is_nil_true. exact En.
      * constructor; cbn; auto.
  - (* to be restarted: the intensity check, on the same restart list *)
    rewrite <- Hrs. destruct (check (restarts s) (h_now e) (k_per k) (k_int k)) as [rs ex].
    destruct ex; cbn [negb].
    + (* exceeded *)
      unfold a_stop, enter_shutdown. cbn [a_children a_phase a_set_phase]. rewrite Hnone1.
      cbn [stop_ok specs set_restarts set_specs set_wait set_shut wait shut sreason s1].
      subst s1. cbn [specs set_specs set_wait]. repeat split; auto.
    + (* restart: spawn with the fresh pid, childStarted *)
      cbn [c_i c_name sp with_pid]. replace (c_i ci) with i by (symmetry; apply (Hidx i ci Hci)).
      set (s2 := set_restarts s1 rs).
      assert (Hsp : nth_error (specs s2) i = Some sp).
      { subst s2 s1 specs1. cbn [specs set_restarts set_specs]. rewrite nth_update, Nat.eqb_refl, Hci. reflexivity. }
      unfold ofo_childStarted. rewrite Hsp. subst sp. cbn [c_name with_pid]. fold name. rewrite Z.eqb_refl. cbn [negb].
      replace (mode s2) with 0 by (subst s2 s1; cbn; congruence). change (negb (0 =? 1)) with true. cbn iota. cbn [fst].
      rewrite (a_update_nth name a_one al1 i (a_dec ai)).
      2:{ subst al1. rewrite anames_update by reflexivity. exact HnamesA. }
      2:{ subst al1. apply anth_update. exact Hai. }
      2:{ cbn. exact HnA. }
      assert (Hn0 : next <> 0) by lia.
      constructor; cbn [specs set_specs set_restarts set_wait shut mode a_phase a_children a_restarts a_set_children restarts];
        auto; try lia.
      * subst al1. apply rel_update; [exact Hrel1 | intros c0 a0; apply rel_one; exact Hn0].
      * rewrite names_update. exact Hnames1.
      * subst specs1. apply running_set_nodup; assumption.
      * apply fresh_update; [lia|]. eapply fresh_weaken; [|exact Hfresh1]. lia.
      * apply indexed_update. exact Hidx1.
Qed.

Fixpoint ofo_loop (k : config) (s : state) (next : Z) (a : astate) (h : list hev) : state * astate * option action :=
  match h with
  | [] => (s, a, None)
  | e :: tl =>
      let '(s', next', st) := ofo_loop_step k s next e in
      let a' := a_loop_step k a e in
      match st with
      | None => ofo_loop k s' next' a' tl
      | Some act => (s', a', Some act)
      end
  end.

(* C08_quiescent_children for one-for-one: after ANY history of child exits, as long as the supervisor has not
   started to stop, the children recorded as running are exactly the prescribed ones; and when it starts to stop
   (significant child, auto-shutdown, intensity exceeded) it does so exactly when the specification does, with the
   same reason, telling every running child to stop. *)
Theorem ofo_closed_loop k : forall h s a next,
  Iv k s a next ->
  let '(s', a', st) := ofo_loop k s next a h in
  match st with
  | None => a_phase a' = ANormal /\ m_view k s' = a_view a' /\ shut s' = false /\ mode s' = 0
  | Some act => stop_ok s' a' act
  end.
Proof.
  induction h as [|e h IH]; intros s a next Hiv; cbn [ofo_loop].
  - destruct Hiv as [Hk Hshut Hmode Hph Hrel _ _ _ _ _ _]. repeat split; auto.
    unfold a_view. apply rel_view; assumption.
  - pose proof (ofo_loop_step_ok k s a next e Hiv) as Hstep.
    destruct (ofo_loop_step k s next e) as [[s' next'] st]. cbn zeta in Hstep.
    destruct st as [act|]; [exact Hstep|]. apply IH. exact Hstep.
Qed.

(* ---- the hypothesis is satisfiable: a decidable version of Iv, sound, and true of the state the driver reaches
   after ProcessInit ------------------------------------------------------------------------------------------- *)
Fixpoint nodupb (l : list Z) : bool :=
  match l with
  | [] => true
  | x :: tl => negb (existsb (Z.eqb x) tl) && nodupb tl
  end.
Lemma nodupb_sound l : nodupb l = true -> NoDup l.
Proof.
  induction l as [|x l IH]; cbn [nodupb]; intros H; constructor.
  - apply andb_true_iff in H as [H _]. apply negb_true_iff in H. intros Hin.
    assert (E : existsb (Z.eqb x) l = true) by (apply existsb_exists; exists x; split; [exact Hin | apply Z.eqb_refl]).
    congruence.
  - apply IH. apply andb_true_iff in H. tauto.
Qed.

Definition relb (c : cspec) (a : achild) : bool :=
  (c_name c =? a_name a) && negb (c_dis c) && negb (a_dis a) && Bool.eqb (c_sig c) (a_sig a) &&
  Nat.eqb (a_up a) (if c_pid c =? 0 then 0%nat else 1%nat).
Fixpoint forall2b {A B} (f : A -> B -> bool) (l : list A) (m : list B) : bool :=
  match l, m with
  | [], [] => true
  | x :: l', y :: m' => f x y && forall2b f l' m'
  | _, _ => false
  end.
Lemma relb_sound c a : relb c a = true -> rel c a.
Proof.
  unfold relb, rel. intros H. repeat (apply andb_true_iff in H as [H ?]).
  apply Z.eqb_eq in H. apply negb_true_iff in H3, H2. apply eqb_prop in H1. apply Nat.eqb_eq in H0. auto.
Qed.
Lemma forall2b_sound l m : forall2b relb l m = true -> Forall2 rel l m.
Proof.
  revert m. induction l as [|x l IH]; intros [|y m] H; cbn [forall2b] in H; try discriminate; constructor.
  - apply relb_sound. apply andb_true_iff in H. tauto.
  - apply IH. apply andb_true_iff in H. tauto.
Qed.
Fixpoint indexedb (l : list cspec) (i : nat) : bool :=
  match l with
  | [] => true
  | c :: tl => Nat.eqb (c_i c) i && indexedb tl (S i)
  end.
Lemma indexedb_sound l k0 : indexedb l k0 = true -> forall i c, nth_error l i = Some c -> c_i c = (k0 + i)%nat.
Proof.
  revert k0. induction l as [|x l IH]; intros k0 H i c Hn; [destruct i; discriminate|].
  cbn [indexedb] in H. apply andb_true_iff in H as [H1 H2].
  destruct i as [|i]; cbn [nth_error] in Hn.
  - inversion Hn; subst. apply Nat.eqb_eq in H1. lia.
  - rewrite (IH (S k0) H2 i c Hn). lia.
Qed.

Definition iv_b (k : config) (s : state) (a : astate) (next : Z) : bool :=
  match k_kind k with OFO => true | _ => false end && negb (shut s) && (mode s =? 0) &&
  a_normal a && forall2b relb (specs s) (a_children a) && nodupb (map c_name (specs s)) &&
  nodupb (running (specs s)) && forallb (fun c => c_pid c <? next) (specs s) && indexedb (specs s) 0 &&
  zlist_eqb (restarts s) (a_restarts a) && (0 <? next).

Lemma iv_b_sound k s a next : iv_b k s a next = true -> Iv k s a next.
Proof.
  unfold iv_b. intros H. repeat (apply andb_true_iff in H as [H ?]).
  constructor.
  - destruct (k_kind k); try discriminate; reflexivity.
  - apply negb_true_iff. assumption.
  - apply Z.eqb_eq. assumption.
  - unfold a_normal in *. destruct (a_phase a); try discriminate; reflexivity.
  - apply forall2b_sound. assumption.
  - apply nodupb_sound. assumption.
  - apply nodupb_sound. assumption.
  - apply Forall_forall. intros c Hc. rewrite forallb_forall in H3. specialize (H3 c Hc). lia.
  - intros i c Hn. apply (indexedb_sound _ 0%nat H2 i c Hn).
  - apply zlist_eqb_eq. assumption.
  - lia.
Qed.

(* the state after ProcessInit (driver [start]: init + handleAction) of a 4-children supervisor meets the invariant,
   for every strategy / flags (instances; the general statement for every child list is covered by the
   correspondence check only) *)
Example ofo_start_meets_invariant :
  forallb (fun k => let s := start k [(1, false); (2, true); (3, false); (4, false)] 0 in
                    iv_b k (m s) (a_init k [(1, false); (2, true); (3, false); (4, false)]) (nextpid s))
    [mk_config OFO Transient false true 3 5; mk_config OFO Temporary false false 3 5;
     mk_config OFO Permanent true true 1 1] = true.
Proof. vm_compute. reflexivity. Qed.

(* and a concrete non-trivial history through the theorem: child 3 fails twice, child 1 exits normally, the
   significant child 2 exits normally -> the supervisor stops the two others with reason normal *)
Example ofo_closed_loop_example :
  let k := mk_config OFO Transient false true 3 5 in
  let cs := [(1, false); (2, true); (3, false); (4, false)] in
  let s := start k cs 0 in
  match ofo_loop k (m s) (nextpid s) (a_init k cs)
          [mk_hev 2 10 100; mk_hev 2 11 200; mk_hev 0 1 300; mk_hev 1 1 400] with
  | (s', a', Some (TerminateChildren run r)) => (run, r, a_phase a') = ([1006; 1004], 1, AShutting 1)
  | _ => False
  end.
Proof. vm_compute. reflexivity. Qed.

(* ==== ProcessInit establishes the invariant, for every child list ==================================================
   the start chain of handleAction (init answers the start of spec 0 in starting mode; every childStarted answers
   the start of the next spec) gives the children consecutive fresh pids and ends in normal mode *)
Fixpoint assign (l : list cspec) (p : Z) : list cspec :=
  match l with
  | [] => []
  | c :: tl => with_pid c p :: assign tl (p + 1)
  end.

Lemma update_nth_app pre x post f : update_nth (length pre) f (pre ++ x :: post) = pre ++ f x :: post.
Proof. induction pre as [|y pre IH]; cbn [length update_nth app]; [reflexivity | f_equal; exact IH]. Qed.

Lemma nth_error_app_mid pre (x : cspec) post : nth_error (pre ++ x :: post) (length pre) = Some x.
Proof. induction pre as [|y pre IH]; cbn [length nth_error app]; [reflexivity | exact IH]. Qed.

Lemma skipn_app_mid pre (x : cspec) post : skipn (S (length pre)) (pre ++ x :: post) = post.
Proof. induction pre as [|y pre IH]; cbn [length skipn app]; [reflexivity | exact IH]. Qed.

Definition fresh_spec (c : cspec) : Prop := c_pid c = 0 /\ c_dis c = false.

Lemma handleAction_nothing k fuel fail s : handleAction k fuel fail s (RAct DoNothing) = (s, HNil).
Proof. destruct fuel; reflexivity. Qed.

Lemma start_chain k : forall post pre x c s fuel,
  k_kind k = OFO ->
  specs (m s) = pre ++ x :: post -> mode (m s) = 1 ->
  c_i c = length pre -> c_name c = c_name x -> Forall fresh_spec post -> (length post < fuel)%nat ->
  exists s', handleAction k fuel 0 s (RAct (StartChild c)) = (s', HNil) /\
             specs (m s') = pre ++ assign (x :: post) (nextpid s) /\ mode (m s') = 0 /\
             nextpid s' = nextpid s + Z.of_nat (S (length post)) /\ alive s' = alive s /\
             shut (m s') = shut (m s) /\ restarts (m s') = restarts (m s).
Proof.
  induction post as [|y post IH]; intros pre x c s fuel Hk Hsp Hmode Hci Hcn Hfresh Hfuel.
  - destruct fuel as [|fuel]; [lia|]. cbn [handleAction Nat.eqb]. unfold sup_spawn. cbn [m nextpid].
    unfold childStarted. rewrite Hk. unfold ofo_childStarted. rewrite Hci, Hsp, nth_error_app_mid, Hcn, Z.eqb_refl.
    cbn [negb]. rewrite Hmode. change (negb (1 =? 1)) with false. cbn iota.
    rewrite app_length. cbn [length]. replace (Nat.eqb (S (length pre)) (length pre + 1)) with true
      by (symmetry; apply Nat.eqb_eq; lia).
    rewrite handleAction_nothing. eexists. split; [reflexivity|].
    cbn [sup_log m nextpid alive set_mode set_specs specs mode shut restarts Nat.pred].
    rewrite update_nth_app. cbn [assign length]. repeat split; auto; lia.
  - destruct fuel as [|fuel]; [cbn [length] in Hfuel; lia|]. cbn [handleAction Nat.eqb]. unfold sup_spawn. cbn [m nextpid].
    unfold childStarted. rewrite Hk. unfold ofo_childStarted. rewrite Hci, Hsp, nth_error_app_mid, Hcn, Z.eqb_refl.
    cbn [negb]. rewrite Hmode. change (negb (1 =? 1)) with false. cbn iota.
    rewrite app_length. cbn [length]. replace (Nat.eqb (S (length pre)) (length pre + S (S (length post)))) with false
      by (symmetry; apply Nat.eqb_neq; lia).
    cbn [set_specs specs]. rewrite update_nth_app, skipn_app_mid.
    inversion Hfresh as [|? ? [Hy0 Hyd] Hfresh']; subst.
    cbn [next_to_start]. rewrite Hy0. change (negb (0 =? 0)) with false. cbn iota. rewrite Hyd.
    set (s1 := sup_log _ _ _ _).
    set (c' := mk_cspec (c_name y) 0 false (c_sig y) (S (length pre))).
    destruct (IH (pre ++ [with_pid x (nextpid s)]) y c' s1 fuel Hk) as [s' [Hh [Hs [Hm [Hn [Ha [Hsh Hr]]]]]]].
    + subst s1. cbn [sup_log m set_specs specs]. rewrite <- app_assoc. reflexivity.
    + subst s1. cbn [sup_log m set_specs mode]. exact Hmode.
    + subst c'. cbn [c_i]. rewrite app_length. cbn [length]. lia.
    + reflexivity.
    + exact Hfresh'.
    + cbn [length] in Hfuel. lia.
    + exists s'. cbn [Nat.pred]. split; [exact Hh|].
      subst s1. cbn [sup_log m nextpid alive set_specs shut restarts] in *.
      rewrite Hs, <- app_assoc. cbn [app assign]. repeat split; auto.
      rewrite Hn. cbn [length]. lia.
Qed.

(* the pids of [assign l p] are p, p+1, ... *)
Lemma assign_props : forall l p,
  0 < p ->
  Forall (fun c => p <= c_pid c < p + Z.of_nat (length l)) (assign l p) /\
  NoDup (running (assign l p)) /\ map c_name (assign l p) = map c_name l.
Proof.
  induction l as [|x l IH]; intros p Hp; cbn [assign length map].
  - repeat split; constructor.
  - destruct (IH (p + 1)) as [Hf [Hnd Hnm]]; [lia|]. split; [|split].
    + constructor; [cbn; lia|]. eapply Forall_impl; [|exact Hf]. cbn. intros; lia.
    + unfold running. cbn [filter with_pid c_pid]. destruct (p =? 0) eqn:E; [apply Z.eqb_eq in E; lia|].
      cbn [negb map]. constructor; [|exact Hnd]. intros Hin.
      unfold running in Hin. apply in_map_iff in Hin as [c [Hc Hin]]. apply filter_In in Hin as [Hin _].
      rewrite Forall_forall in Hf. specialize (Hf c Hin). cbn [with_pid c_pid] in Hc. lia.
    + cbn. f_equal. exact Hnm.
Qed.

Lemma mk_specs_indexed cs k0 : forall i c, nth_error (mk_specs cs k0) i = Some c -> c_i c = (k0 + i)%nat.
Proof.
  revert k0. induction cs as [|[n sg] cs IH]; intros k0 i c H; [destruct i; discriminate|].
  destruct i as [|i]; cbn [mk_specs nth_error] in H; [inversion H; subst; cbn; lia|].
  rewrite (IH (S k0) i c H). lia.
Qed.

Lemma assign_indexed l k0 p :
  (forall i c, nth_error l i = Some c -> c_i c = (k0 + i)%nat) ->
  forall i c, nth_error (assign l p) i = Some c -> c_i c = (k0 + i)%nat.
Proof.
  revert k0 p. induction l as [|x l IH]; intros k0 p H i c Hn; [destruct i; discriminate|].
  destruct i as [|i]; cbn [assign nth_error] in Hn.
  - inversion Hn; subst. cbn. apply (H 0%nat x eq_refl).
  - rewrite (IH (S k0) (p + 1)) with (i := i) (c := c); [lia| |exact Hn].
    intros j d Hj. rewrite (H (S j) d Hj). lia.
Qed.

Lemma mk_specs_fresh cs k0 : Forall fresh_spec (mk_specs cs k0).
Proof. revert k0. induction cs as [|[n sg] cs IH]; intros k0; cbn [mk_specs]; constructor; [split; reflexivity | apply IH]. Qed.

Lemma mk_specs_names cs k0 : map c_name (mk_specs cs k0) = map fst cs.
Proof. revert k0. induction cs as [|[n sg] cs IH]; intros k0; cbn [mk_specs map]; [reflexivity|]. cbn. f_equal. apply IH. Qed.

Lemma assign_rel k : forall cs k0 p, 0 < p -> k_kind k = OFO ->
  Forall2 rel (assign (mk_specs cs k0) p) (a_children (a_init k cs)).
Proof.
  intros cs k0 p Hp Hk. unfold a_init. cbn [a_children]. rewrite Hk.
  revert k0 p Hp. induction cs as [|[n sg] cs IH]; intros k0 p Hp; cbn [mk_specs assign map]; constructor.
  - unfold rel. cbn. destruct (p =? 0) eqn:E; [apply Z.eqb_eq in E; lia|]. repeat split; reflexivity.
  - apply IH. lia.
Qed.

Theorem ofo_start_establishes_invariant k cs :
  k_kind k = OFO -> cs <> [] -> NoDup (map fst cs) ->
  let s := start k cs 0 in
  alive s = true /\ Iv k (m s) (a_init k cs) (nextpid s).
Proof.
  intros Hk Hcs Hnd. unfold start, init. rewrite Hk.
  destruct cs as [|[n sg] cs]; [congruence|]. cbn [mk_specs].
  set (x := mk_cspec n 0 false sg 0).
  set (s0 := mk_sup _ _ _ _ _ _ _).
  destruct (start_chain k (mk_specs cs 1) [] x x s0 (fuel_of s0) Hk) as [s' [Hh [Hs [Hm [Hn [Ha [Hsh Hr]]]]]]].
  - reflexivity.
  - reflexivity.
  - reflexivity.
  - reflexivity.
  - apply mk_specs_fresh.
  - subst s0. unfold fuel_of. cbn [m specs set_mode set_specs length]. lia.
  - rewrite Hh. cbn [app] in Hs. subst s0. cbn [nextpid alive m shut restarts set_mode set_specs empty_state] in *.
    split; [exact Ha|].
    change (x :: mk_specs cs 1) with (mk_specs ((n, sg) :: cs) 0) in Hs.
    destruct (assign_props (mk_specs ((n, sg) :: cs) 0) firstpid) as [Hf [Hnd' Hnm]]; [unfold firstpid; lia|].
    constructor.
    + exact Hk.
    + exact Hsh.
    + exact Hm.
    + reflexivity.
    + rewrite Hs. apply assign_rel; [unfold firstpid; lia | exact Hk].
    + rewrite Hs, Hnm, mk_specs_names. exact Hnd.
    + rewrite Hs. exact Hnd'.
    + rewrite Hs, Hn. eapply Forall_impl; [|exact Hf]. cbn. intros c Hc.
      cbn [mk_specs length] in Hc. rewrite ?Nat2Z.inj_succ in *. cbn [length]. lia.
    + rewrite Hs. intros i c Hi. apply (assign_indexed _ 0%nat firstpid (mk_specs_indexed _ 0%nat) i c Hi).
    + rewrite Hr. reflexivity.
    + rewrite Hn. unfold firstpid. lia.
Qed.

(* from ProcessInit on: every one-for-one supervisor (any strategy, flags, child list with distinct names), every
   history of child exits *)
Theorem ofo_closed_loop_from_init k cs h :
  k_kind k = OFO -> cs <> [] -> NoDup (map fst cs) ->
  let s := start k cs 0 in
  alive s = true /\
  let '(s', a', st) := ofo_loop k (m s) (nextpid s) (a_init k cs) h in
  match st with
  | None => a_phase a' = ANormal /\ m_view k s' = a_view a' /\ shut s' = false /\ mode s' = 0
  | Some act => stop_ok s' a' act
  end.
Proof.
  intros Hk Hcs Hnd. destruct (ofo_start_establishes_invariant k cs Hk Hcs Hnd) as [Ha Hiv].
  split; [exact Ha|]. apply ofo_closed_loop. exact Hiv.
Qed.
