(* Closed loop for the one-for-one supervisor: for EVERY number of children and EVERY history of child exits
   (any child, any reason, any time, also the freshly restarted instance again) the children the machine
   records as running are exactly the ones the specification [a_exit] of Sup/Machine.v prescribes, and the
   machine starts to stop (Terminate / stop list) exactly when and why the specification says so.
   The loop is: exit message of the running instance of spec i -> supOFO.childTerminated ->
   (if it answers a start) Spawn with a fresh pid -> supOFO.childStarted.  *)
From Ergo Require Import Common.Base Sup.Intensity Sup.Machine Sup.MachineProofs.
Local Open Scope Z_scope.

(* ---- list facts -------------------------------------------------------------------------------------- *)
Fixpoint aupdate_nth (i : nat) (f : achild -> achild) (l : list achild) : list achild :=
  match l, i with
  | [], _ => []
  | c :: tl, O => f c :: tl
  | c :: tl, S j => c :: aupdate_nth j f tl
  end.

Lemma a_update_nth name f : forall l i a,
  NoDup (map a_name l) -> nth_error l i = Some a -> a_name a = name ->
  a_update name f l = aupdate_nth i f l.
Proof.
  induction l as [|x l IH]; intros i a Hnd Hn Ha; [destruct i; discriminate|].
  cbn [map] in Hnd. inversion Hnd as [|? ? Hnotin Hnd']; subst.
  destruct i as [|i]; cbn [nth_error] in Hn.
  - inversion Hn; subst. cbn [a_update aupdate_nth]. rewrite Z.eqb_refl. reflexivity.
  - cbn [a_update aupdate_nth]. destruct (a_name x =? a_name a) eqn:E.
    + exfalso. apply Z.eqb_eq in E. apply Hnotin. rewrite E. apply in_map. eapply nth_error_In; exact Hn.
    + f_equal. eapply IH; eauto.
Qed.

Lemma a_find_nth name : forall l i a k0,
  NoDup (map a_name l) -> nth_error l i = Some a -> a_name a = name ->
  a_find name l k0 = Some ((k0 + i)%nat, a).
Proof.
  induction l as [|x l IH]; intros i a k0 Hnd Hn Ha; [destruct i; discriminate|].
  cbn [map] in Hnd. inversion Hnd as [|? ? Hnotin Hnd']; subst.
  destruct i as [|i]; cbn [nth_error] in Hn.
  - inversion Hn; subst. cbn [a_find]. rewrite Z.eqb_refl. f_equal. f_equal. lia.
  - cbn [a_find]. destruct (a_name x =? a_name a) eqn:E.
    + exfalso. apply Z.eqb_eq in E. apply Hnotin. rewrite E. apply in_map. eapply nth_error_In; exact Hn.
    + rewrite (IH i a (S k0) Hnd' Hn eq_refl). f_equal. f_equal. lia.
Qed.

(* which specs match the exit of the running instance of spec i: only spec i *)
Definition only_i (name pid : Z) (i : nat) (l : list cspec) : Prop :=
  forall j c, nth_error l j = Some c -> (matches name pid c = true <-> j = i).

Lemma only_i_tail name pid i x l : only_i name pid (S i) (x :: l) -> matches name pid x = false /\ only_i name pid i l.
Proof.
  intros H. split.
  - destruct (matches name pid x) eqn:E; [|reflexivity]. specialize (H 0%nat x eq_refl). apply H in E. discriminate.
  - intros j c Hj. specialize (H (S j) c Hj). rewrite H. lia.
Qed.

Lemma only_0_tail name pid x l : only_i name pid 0 (x :: l) ->
  matches name pid x = true /\ forall c, In c l -> matches name pid c = false.
Proof.
  intros H. split; [apply (H 0%nat x eq_refl); reflexivity|].
  intros c Hc. apply In_nth_error in Hc as [j Hj]. specialize (H (S j) c Hj).
  destruct (matches name pid c); [|reflexivity]. assert (S j = 0)%nat by (apply H; reflexivity). discriminate.
Qed.

Lemma clear_none name pid l : (forall c, In c l -> matches name pid c = false) -> clear_matching name pid l = l.
Proof.
  intros H. unfold clear_matching. induction l as [|x l IH]; [reflexivity|]. cbn [map].
  rewrite (H x (or_introl eq_refl)). f_equal. apply IH. intros c Hc. apply H. right. exact Hc.
Qed.

Lemma last_match_none_all name pid l k0 : (forall c, In c l -> matches name pid c = false) -> last_match name pid l k0 = None.
Proof.
  revert k0. induction l as [|x l IH]; intros k0 H; [reflexivity|]. cbn [last_match].
  rewrite IH by (intros c Hc; apply H; right; exact Hc). rewrite (H x (or_introl eq_refl)). reflexivity.
Qed.

Lemma clear_only_i name pid : forall l i,
  only_i name pid i l -> clear_matching name pid l = update_nth i (fun c => with_pid c 0) l.
Proof.
  induction l as [|x l IH]; intros i H; [destruct i; reflexivity|].
  destruct i as [|i].
  - destruct (only_0_tail _ _ _ _ H) as [Hx Hl]. unfold clear_matching. cbn [map update_nth]. rewrite Hx. f_equal.
    apply (clear_none name pid l Hl).
  - destruct (only_i_tail _ _ _ _ _ H) as [Hx Hl]. unfold clear_matching. cbn [map update_nth]. rewrite Hx. f_equal.
    apply IH. exact Hl.
Qed.

Lemma last_match_only_i name pid : forall l i k0 ci,
  only_i name pid i l -> nth_error l i = Some ci ->
  last_match name pid l k0 = Some ((k0 + i)%nat, with_pid ci 0).
Proof.
  induction l as [|x l IH]; intros i k0 ci H Hn; [destruct i; discriminate|].
  destruct i as [|i]; cbn [nth_error] in Hn.
  - inversion Hn; subst. destruct (only_0_tail _ _ _ _ H) as [Hx Hl]. cbn [last_match].
    rewrite (last_match_none_all name pid l (S k0) Hl), Hx. f_equal. f_equal. lia.
  - destruct (only_i_tail _ _ _ _ _ H) as [Hx Hl]. cbn [last_match].
    rewrite (IH i (S k0) ci Hl Hn). f_equal. f_equal. lia.
Qed.

(* ---- the invariant ------------------------------------------------------------------------------------- *)
Definition rel (c : cspec) (a : achild) : Prop :=
  c_name c = a_name a /\ c_dis c = false /\ a_dis a = false /\ c_sig c = a_sig a /\
  a_up a = (if c_pid c =? 0 then 0 else 1)%nat.

Definition indexed (l : list cspec) : Prop := forall i c, nth_error l i = Some c -> c_i c = i.

Record Iv (k : config) (s : state) (a : astate) (next : Z) : Prop := mk_Iv {
  iv_kind : k_kind k = OFO;
  iv_shut : shut s = false;
  iv_mode : mode s = 0;
  iv_phase : a_phase a = ANormal;
  iv_rel : Forall2 rel (specs s) (a_children a);
  iv_names : NoDup (map c_name (specs s));
  iv_pids : NoDup (running (specs s));
  iv_fresh : Forall (fun c => c_pid c < next) (specs s);
  iv_idx : indexed (specs s);
  iv_restarts : restarts s = a_restarts a
}.

Lemma rel_names l al : Forall2 rel l al -> map a_name al = map c_name l.
Proof. induction 1 as [|c a l al [Hn _] _ IH]; cbn [map]; [reflexivity|]. rewrite IH, Hn. reflexivity. Qed.

Lemma rel_none_up l al : Forall2 rel l al -> a_none_up al = is_nil (running l).
Proof.
  induction 1 as [|c a l al [_ [_ [_ [_ Hu]]]] _ IH]; [reflexivity|].
  unfold a_none_up, running in *. cbn [forallb filter map]. rewrite Hu.
  destruct (c_pid c =? 0); cbn [negb Nat.eqb andb map is_nil]; [exact IH | reflexivity].
Qed.

Lemma rel_view k s al : k_kind k = OFO -> Forall2 rel (specs s) al ->
  m_view k s = map (fun c => (a_name c, a_up c)) al.
Proof.
  intros Hk H. unfold m_view. rewrite Hk. induction H as [|c a l al [Hn [_ [_ [_ Hu]]]] _ IH]; [reflexivity|].
  cbn [map]. rewrite IH, Hn, Hu. reflexivity.
Qed.

Lemma rel_nth l al i c : Forall2 rel l al -> nth_error l i = Some c -> exists a, nth_error al i = Some a /\ rel c a.
Proof.
  intros H. revert i. induction H as [|c0 a0 l al Hr _ IH]; intros i Hn; [destruct i; discriminate|].
  destruct i as [|i]; cbn [nth_error] in *; [inversion Hn; subst; eauto | apply IH; exact Hn].
Qed.

Lemma rel_update l al i f g :
  Forall2 rel l al -> (forall c a, rel c a -> rel (f c) (g a)) ->
  Forall2 rel (update_nth i f l) (aupdate_nth i g al).
Proof.
  intros H Hfg. revert i. induction H as [|c a l al Hr H IH]; intros i; [destruct i; constructor|].
  destruct i as [|i]; cbn [update_nth aupdate_nth]; constructor; auto.
Qed.

(* name / pid uniqueness: only spec i matches the exit of its own running instance *)
Lemma nodup_names_idx l i j c c' :
  NoDup (map c_name l) -> nth_error l i = Some c -> nth_error l j = Some c' -> c_name c = c_name c' -> i = j.
Proof.
  intros Hnd Hi Hj He.
  assert (Hi' : nth_error (map c_name l) i = Some (c_name c)) by (apply map_nth_error; exact Hi).
  assert (Hj' : nth_error (map c_name l) j = Some (c_name c)) by (rewrite He; apply map_nth_error; exact Hj).
  rewrite <- Hj' in Hi'. apply (proj1 (NoDup_nth_error (map c_name l)) Hnd); [|exact Hi'].
  apply nth_error_Some. rewrite Hi'. rewrite Hj'. discriminate.
Qed.

Lemma nodup_pids_idx : forall l i j c c',
  NoDup (running l) -> nth_error l i = Some c -> nth_error l j = Some c' ->
  c_pid c = c_pid c' -> c_pid c <> 0 -> i = j.
Proof.
  induction l as [|x l IH]; intros i j c c' Hnd Hi Hj He Hp; [destruct i; discriminate|].
  unfold running in Hnd. cbn [filter] in Hnd.
  assert (Hin : forall n y, nth_error l n = Some y -> c_pid y <> 0 -> In (c_pid y) (running l)).
  { intros n y Hy Hy0. unfold running. apply in_map. apply filter_In. split; [eapply nth_error_In; exact Hy|].
    apply negb_true_iff. apply Z.eqb_neq. exact Hy0. }
  destruct i as [|i]; destruct j as [|j]; cbn [nth_error] in *; [reflexivity| | |].
  - inversion Hi; subst. exfalso.
    assert (E0 : (c_pid c =? 0) = false) by (apply Z.eqb_neq; exact Hp). rewrite E0 in Hnd. cbn [negb map] in Hnd.
    inversion Hnd as [|? ? Hnot _]; subst. apply Hnot. rewrite He. apply (Hin j c' Hj). congruence.
  - inversion Hj; subst. exfalso.
    assert (E0 : (c_pid c' =? 0) = false) by (apply Z.eqb_neq; congruence). rewrite E0 in Hnd. cbn [negb map] in Hnd.
    inversion Hnd as [|? ? Hnot _]; subst. apply Hnot. rewrite <- He. apply (Hin i c Hi Hp).
  - f_equal. apply (IH i j c c'); auto.
    destruct (negb (c_pid x =? 0)); cbn [map] in Hnd; [inversion Hnd; assumption | exact Hnd].
Qed.

Lemma only_i_of_inv l i ci :
  NoDup (map c_name l) -> NoDup (running l) -> nth_error l i = Some ci -> c_pid ci <> 0 ->
  only_i (c_name ci) (c_pid ci) i l.
Proof.
  intros Hn Hp Hi H0 j c Hj. split.
  - unfold matches. intros H. apply orb_true_iff in H as [H|H]; apply Z.eqb_eq in H.
    + symmetry. eapply nodup_names_idx; eauto.
    + symmetry. eapply (nodup_pids_idx l i j ci c); eauto.
  - intros ->. rewrite Hi in Hj. inversion Hj; subst. unfold matches. rewrite Z.eqb_refl. reflexivity.
Qed.
