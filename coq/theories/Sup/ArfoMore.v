(* Additions to the closed loop of Sup/ArfoLoop.v:
   (1) the order of the spawns of a group restart (spec order, consecutive fresh pids, nothing skipped), as a statement
       about the event log of the driver;
   (2) the known finding C08-stale-exit as a witness theorem: with DisableChild + EnableChild in one callback (the exit of
       the old instance still queued) the loop invariant of ArfoLoop.v is FALSE for the code: a live child is not
       recorded by the machine at a quiescent point.  This is why [op_ok] allows no management calls. *)
From Ergo Require Import Common.Base Sup.Intensity Sup.Machine Sup.MachineProofs Sup.OfoLoop Sup.MachineCases Sup.ArfoLoop.
Local Open Scope Z_scope.

Definition spawn_events (l : list cspec) : list event := map (fun c => EvSpawn (c_pid c) (c_name c)) l.

Lemma arfo_chain_events k : forall post pre x c s fuel,
  is_arfo k = true ->
  specs (m s) = pre ++ x :: post -> mode (m s) = 1 -> c_i c = length pre -> c_name c = c_name x ->
  Forall fresh_spec post -> (length post < fuel)%nat ->
  events (fst (handleAction k fuel 0 s (RAct (StartChild c)))) =
    events s ++ spawn_events (assign (x :: post) (nextpid s)).
Proof.
  induction post as [|y post IH]; intros pre x c s fuel Hk Hsp Hmode Hci Hcn Hfresh Hfuel.
  - destruct fuel as [|fuel]; [lia|]. cbn [handleAction Nat.eqb]. unfold sup_spawn. cbn [m nextpid].
    rewrite (arfo_started k _ _ _ _ Hk). unfold ofo_childStarted. rewrite Hci, Hsp, nth_error_app_mid, Hcn, Z.eqb_refl.
    cbn [negb]. rewrite Hmode. change (negb (1 =? 1)) with false. cbn iota.
    rewrite app_length. cbn [length]. replace (Nat.eqb (S (length pre)) (length pre + 1)) with true
      by (symmetry; apply Nat.eqb_eq; lia).
    rewrite handleAction_nothing. reflexivity.
  - destruct fuel as [|fuel]; [cbn [length] in Hfuel; lia|]. cbn [handleAction Nat.eqb]. unfold sup_spawn. cbn [m nextpid].
    rewrite (arfo_started k _ _ _ _ Hk). unfold ofo_childStarted. rewrite Hci, Hsp, nth_error_app_mid, Hcn, Z.eqb_refl.
    cbn [negb]. rewrite Hmode. change (negb (1 =? 1)) with false. cbn iota.
    rewrite app_length. cbn [length]. replace (Nat.eqb (S (length pre)) (length pre + S (S (length post)))) with false
      by (symmetry; apply Nat.eqb_neq; lia).
    cbn [set_specs specs]. rewrite update_nth_app, skipn_app_mid.
    inversion Hfresh as [|? ? [Hy0 Hyd] Hfresh']; subst.
    cbn [next_to_start]. rewrite Hy0. change (negb (0 =? 0)) with false. cbn iota. rewrite Hyd.
    set (s1 := sup_log _ _ _ _).
    set (c' := mk_cspec (c_name y) 0 false (c_sig y) (S (length pre))).
    cbn [Nat.pred].
    rewrite (IH (pre ++ [with_pid x (nextpid s)]) y c' s1 fuel Hk).
    + subst s1. cbn [sup_log events nextpid assign spawn_events map with_pid c_pid c_name]. rewrite <- app_assoc. reflexivity.
    + subst s1. cbn [sup_log m set_specs specs]. rewrite <- app_assoc. reflexivity.
    + subst s1. cbn [sup_log m set_specs mode]. exact Hmode.
    + subst c'. cbn [c_i]. rewrite app_length. cbn [length]. lia.
    + reflexivity.
    + exact Hfresh'.
    + cbn [length] in Hfuel. lia.
Qed.

(* group restart in spec order: in ANY driver state in starting mode whose restart range [r..] is down and enabled, the
   start chain of handleAction spawns exactly the specs of the range, in spec order r, r+1, ..., with consecutive
   fresh pids, and records them at their positions; nothing in front of the range is touched *)
Theorem arfo_restart_in_spec_order k s r x post :
  is_arfo k = true -> indexed (specs (m s)) -> mode (m s) = 1 -> skipn r (specs (m s)) = x :: post ->
  Forall (fun c => c_pid c = 0 /\ c_dis c = false) (x :: post) ->
  (forall q, In q (map fst (children s)) -> q < nextpid s) ->
  let res := handleAction k (fuel_of s) 0 s (RAct (StartChild x)) in
  snd res = HNil /\
  events (fst res) = events s ++ spawn_events (assign (x :: post) (nextpid s)) /\
  specs (m (fst res)) = firstn r (specs (m s)) ++ assign (x :: post) (nextpid s) /\
  mode (m (fst res)) = 0.
Proof.
  intros Hk Hi Hm Hsk Hdown Hch.
  destruct (firstn_skipn_mid _ _ _ _ Hsk) as [Hsp Hlen]. set (pre := firstn r (specs (m s))) in *.
  assert (Hci : c_i x = length pre).
  { rewrite Hlen. apply Hi. rewrite Hsp, <- Hlen. apply nth_error_app_mid. }
  assert (Hfresh : Forall fresh_spec post).
  { pose proof (Forall_inv_tail Hdown) as H. eapply Forall_impl; [|exact H]. intros c Hc. exact Hc. }
  assert (Hfuel : (length post < fuel_of s)%nat) by (unfold fuel_of; rewrite Hsp, app_length; cbn [length]; lia).
  pose proof (arfo_chain_events k post pre x x s (fuel_of s) Hk Hsp Hm Hci eq_refl Hfresh Hfuel) as Hev.
  destruct (arfo_chain k post pre x x s (fuel_of s) Hk Hsp Hm Hci eq_refl Hfresh Hfuel Hch) as [s' [Hh [Hms _]]].
  cbn zeta. rewrite Hh in *. cbn [fst snd] in *. split; [reflexivity|]. split; [exact Hev|]. rewrite Hms. split; reflexivity.
Qed.

(* ---- the known finding C08-stale-exit ------------------------------------------------------------------------------------
   all-for-one, Transient, two children; in one callback DisableChild(c1) then EnableChild(c1): the machine starts a
   new instance (pid 1003) while the exit message of the old one (pid 1001) is still queued; when that exit is taken it is
   matched BY NAME and clears the record of 1003.  Afterwards the supervisor is alive, quiescent and in normal mode, but
   the live child 1003 is in no spec: the clause "every live child is recorded" of the invariant (hence the statement
   "recorded running children = live children") is false.  The theorems exclude such histories by the guard [op_ok]. *)
Definition stale_cfg := mk_config AFO Transient false true 3 5.
Definition stale_children : list (Z * bool) := [(1, false); (2, false)].
Definition stale_ops := [ODisableChild 1; OEnableChild 1 0; OExit 1001 2 0 0].

Definition unrecorded_live_child (s : sup) : bool :=
  existsb (fun q => forallb (fun c => negb (c_pid c =? fst q)) (specs (m s))) (children s).

Theorem arfo_stale_exit_refuted :
  exists k cs ops,
    is_arfo k = true /\
    let s := run k cs 0 ops in
    alive s = true /\ is_nil (outstanding s) = true /\ mode (m s) = 0 /\ unrecorded_live_child s = true /\
    (* the name-based specification cannot see it: the monitor spec_prescribed still says true *)
    spec_prescribed (model_case k cs ops) = true.
Proof. exists stale_cfg, stale_children, stale_ops. vm_compute. repeat split; reflexivity. Qed.

(* consequently no invariant Inv holds after that history: the closed-loop theorem cannot be extended to
   DisableChild + EnableChild without the environment guard *)
Theorem arfo_stale_exit_breaks_invariant :
  forall a, ~ Inv stale_cfg (run stale_cfg stale_children 0 stale_ops) a.
Proof.
  intros a HI.
  assert (Hch : In (1003, 1) (children (run stale_cfg stale_children 0 stale_ops))) by (vm_compute; auto).
  assert (Hsp : specs (m (run stale_cfg stale_children 0 stale_ops)) = [mk_cspec 1 0 false false 0; mk_cspec 2 1002 false false 1])
    by (vm_compute; reflexivity).
  assert (Hmode : mode (m (run stale_cfg stale_children 0 stale_ops)) = 0) by (vm_compute; reflexivity).
  assert (Hal : alive (run stale_cfg stale_children 0 stale_ops) = true) by (vm_compute; reflexivity).
  destruct HI as [Hc Ht Hi Hm Hw Hs Hp|r Hc Ht Hi Hm Hr Hl Hw Hws Hp|G why Hc Ht Hm Hr Hw Hws Hs Hp|Ha Hp].
  - apply (tk_rec _ _ _ _ Ht) in Hch as [c [Hc' [Hpid _]]]. rewrite Hsp in Hc'.
    destruct Hc' as [<-|[<-|[]]]; cbn in Hpid; discriminate.
  - rewrite Hmode in Hm. discriminate.
  - rewrite Hmode in Hm. discriminate.
  - rewrite Hal in Ha. discriminate.
Qed.

(* while stopping for a restart the machine's wait set IS the set of outstanding exit signals (live children that were
   told to stop); together with arfo_stopping_waits (nothing is sent while the wait set is non-empty) and
   keeporder_stops_reverse_one_by_one (the next stop list is the LAST running child of the range) this is "stopping in
   reverse order, one by one": with KeepOrder the next child is told to stop only when no signal is outstanding *)
Theorem arfo_stopping_wait_is_outstanding k s a :
  Inv k s a -> alive s = true -> mode (m s) = 2 ->
  (forall p, In p (wait (m s)) <-> In p (outstanding s)) /\
  exists r, a_phase a = ARestart r /\ restartI (m s) = r.
Proof.
  intros [Hc Ht Hi Hm Hw Hs Hp|r Hc Ht Hi Hm Hr Hl Hw Hws Hp|G why Hc Ht Hm Hr Hw Hws Hs Hp|Ha Hp] Hal H2.
  - rewrite Hm in H2. discriminate.
  - split; [|exists r; auto]. intros p. rewrite Hws. unfold outstanding. rewrite filter_In, in_map_iff. split.
    + intros [[n Hin] Hsg]. split; [exists (p, n); auto | exact Hsg].
    + intros [[[p' n] [E Hin]] Hsg]. cbn in E. subst p'. split; [exists n; exact Hin | exact Hsg].
  - rewrite Hm in H2. discriminate.
  - rewrite Hal in Ha. discriminate.
Qed.
