(* Model of act/supervisor.go supCheckRestartIntensity (definitions only).

   func supCheckRestartIntensity(restarts []int64, period int, intensity int) ([]int64, bool) {
       now := time.Now().UnixMilli()
       restarts = append(restarts, now)
       if len(restarts) <= intensity { return restarts, false }
       periodMillis := int64(period) * 1000
       for len(restarts) > 0 && now-restarts[0] > periodMillis { restarts = restarts[1:] }
       if len(restarts) > intensity { return restarts, true }
       return restarts, false
   }

   The wall clock is an explicit argument [now]. period and intensity are uint16 in the
   callers, so no wrap-around is possible in the arithmetic. *)
From Ergo Require Import Common.Base.

Fixpoint prune (now pm : Z) (l : list Z) : list Z :=
  match l with
  | [] => []
  | x :: tl => if (now - x >? pm)%Z then prune now pm tl else l
  end.

Definition zlen (l : list Z) : Z := Z.of_nat (length l).

Definition check (restarts : list Z) (now period intensity : Z) : list Z * bool :=
  let r := restarts ++ [now] in
  if (zlen r <=? intensity)%Z then (r, false)
  else let r' := prune now (period * 1000) r in
       (r', (intensity <? zlen r')%Z).

(* A supervisor's life: successive restart requests at times ts (first = oldest),
   starting from the empty list.  Returns final list and the exceeded flag of every call. *)
Fixpoint run_checks (st : list Z) (ts : list Z) (period intensity : Z) : list Z * list bool :=
  match ts with
  | [] => (st, [])
  | t :: ts' =>
      let '(st', ex) := check st t period intensity in
      let '(stf, exs) := run_checks st' ts' period intensity in
      (stf, ex :: exs)
  end.

(* ---- the specification the property states ---------------------------------------- *)

(* number of restart requests (including the current one at [now]) that lie within the
   last [period] seconds *)
Definition in_window (now pm t : Z) : bool := (now - t <=? pm)%Z.
Definition count_window (hist : list Z) (now pm : Z) : Z :=
  zlen (filter (in_window now pm) hist).

(* spec_exceeded hist now: the request at [now], after the earlier requests [hist],
   would be the (intensity+1)-th (or later) within the period *)
Definition spec_exceeded (hist : list Z) (now period intensity : Z) : bool :=
  (intensity <? count_window (hist ++ [now]) now (period * 1000))%Z.

(* spec over a whole history, used both in the theorem and as the monitor over
   implementation observations *)
Fixpoint spec_run (hist : list Z) (ts : list Z) (period intensity : Z) : list bool :=
  match ts with
  | [] => []
  | t :: ts' => spec_exceeded hist t period intensity :: spec_run (hist ++ [t]) ts' period intensity
  end.

Fixpoint sorted (l : list Z) : bool :=
  match l with
  | [] => true
  | x :: tl => match tl with [] => true | y :: _ => (x <=? y)%Z && sorted tl end
  end.

Fixpoint blist_eqb (a b : list bool) : bool :=
  match a, b with
  | [], [] => true
  | x :: a', y :: b' => Bool.eqb x y && blist_eqb a' b'
  | _, _ => false
  end.
