(* Correspondence + monitor definitions evaluated over implementation observations written by
   go/harness/cmd/sup (sub-command machine): the real supOFO/supARFO/supSOFO driven through
   act/verif_export.go. *)
From Ergo Require Import Common.Base Sup.Intensity Sup.Machine.
Local Open Scope Z_scope.

(* ---- equality tests ------------------------------------------------------------------------------ *)
Definition cspec_eqb (a b : cspec) : bool :=
  (c_name a =? c_name b) && (c_pid a =? c_pid b) && Bool.eqb (c_dis a) (c_dis b) &&
  Bool.eqb (c_sig a) (c_sig b) && Nat.eqb (c_i a) (c_i b).
Fixpoint list_eqb {A} (f : A -> A -> bool) (a b : list A) : bool :=
  match a, b with
  | [], [] => true
  | x :: a', y :: b' => f x y && list_eqb f a' b'
  | _, _ => false
  end.
Definition pair_eqb (a b : Z * Z) : bool := (fst a =? fst b) && (snd a =? snd b).
Definition state_eqb (a b : state) : bool :=
  list_eqb cspec_eqb (specs a) (specs b) && (mode a =? mode b) && zlist_eqb (wait a) (wait b) &&
  Nat.eqb (restartI a) (restartI b) && Bool.eqb (shut a) (shut b) && (sreason a =? sreason b) &&
  zlist_eqb (restarts a) (restarts b) && list_eqb pair_eqb (pids a) (pids b).
(* a start action is compared on spec name and index (the export shows exactly these) *)
Definition action_eqb (a b : action) : bool :=
  match a, b with
  | DoNothing, DoNothing => true
  | StartChild x, StartChild y => (c_name x =? c_name y) && Nat.eqb (c_i x) (c_i y)
  | TerminateChildren p r, TerminateChildren q r' => zlist_eqb p q && (r =? r')
  | Terminate r, Terminate r' => r =? r'
  | _, _ => false
  end.
Definition result_eqb (a b : result) : bool :=
  match a, b with
  | RAct x, RAct y => action_eqb x y
  | RErr x, RErr y => x =? y
  | RPanic, RPanic => true
  | _, _ => false
  end.
Definition call_eqb (a b : call) : bool :=
  match a, b with
  | CInit, CInit => true
  | CStarted i n p, CStarted i' n' p' => Nat.eqb i i' && (n =? n') && (p =? p')
  | CTerminated n p r t, CTerminated n' p' r' t' => (n =? n') && (p =? p') && (r =? r') && (t =? t')
  | CSpec n, CSpec n' => n =? n'
  | CAdd n s, CAdd n' s' => (n =? n') && Bool.eqb s s'
  | CEnable n, CEnable n' => n =? n'
  | CDisable n, CDisable n' => n =? n'
  | CShift d, CShift d' => d =? d'
  | _, _ => false
  end.
Definition obs_eqb (a b : obs) : bool :=
  call_eqb (o_call a) (o_call b) && result_eqb (o_res a) (o_res b) && state_eqb (o_state a) (o_state b).
Definition event_eqb (a b : event) : bool :=
  match a, b with
  | EvSpawn p n, EvSpawn p' n' => (p =? p') && (n =? n')
  | EvSpawnFail n, EvSpawnFail n' => n =? n'
  | EvSendExit p r, EvSendExit p' r' => (p =? p') && (r =? r')
  | EvTerminated r, EvTerminated r' => r =? r'
  | _, _ => false
  end.
Definition snap_eqb (a b : snap) : bool :=
  state_eqb (sn_state a) (sn_state b) && list_eqb pair_eqb (sn_children a) (sn_children b) &&
  zlist_eqb (sn_out a) (sn_out b) && Bool.eqb (sn_alive a) (sn_alive b) && (sn_reason a =? sn_reason b).

(* ---- one observed supervisor life ------------------------------------------------------------------
   mc_snaps: one snapshot after ProcessInit and one after every operation *)
Record mcase := mk_mcase { mc_cfg : config; mc_children : list (Z * bool); mc_fail : nat;
                           mc_ops : list op; mc_trace : list obs; mc_events : list event;
                           mc_snaps : list snap }.
Arguments mk_mcase _ _ _%nat _ _ _ _.

(* model = implementation: every machine call (arguments, answer, state afterwards), every spawn and
   exit signal of handleAction, and the snapshot after every operation *)
Definition corr_machine (c : mcase) : bool :=
  let s0 := start (mc_cfg c) (mc_children c) (mc_fail c) in
  let '(sn, sf) := run_snaps (mc_cfg c) s0 (mc_ops c) in
  list_eqb obs_eqb (trace sf) (mc_trace c) &&
  list_eqb event_eqb (events sf) (mc_events c) &&
  list_eqb snap_eqb (snap_of s0 :: sn) (mc_snaps c).

(* ---- C08 monitor: at every quiescent point the recorded children are the prescribed ones -----------
   evaluated on the OBSERVED snapshots.  The walk stops (accepting) when the supervisor died because a
   Spawn failed (the environment refused to start a child: nothing is prescribed then). *)
Definition view_eqb (a b : list (Z * nat)) : bool :=
  list_eqb (fun x y => (fst x =? fst y) && Nat.eqb (snd x) (snd y)) a b.

Definition quiescent (sn : snap) : bool := sn_alive sn && is_nil (sn_out sn).

Definition agree (k : config) (a : astate) (sn : snap) : bool * astate :=
  if negb (sn_alive sn) then
    (* dead: the specification must say dead with the same reason *)
    let a := a_quiesce a in
    (match a_phase a with ADead w => w =? sn_reason sn | _ => false end, a)
  else if is_nil (sn_out sn) then
    let a := a_quiesce a in
    (a_normal a && view_eqb (a_view a) (m_view k (sn_state sn)), a)
  else
    (match a_phase a with ADead _ => false | _ => true end, a).

Fixpoint walk (k : config) (a : astate) (prev : snap) (ops : list op) (sns : list snap) : bool :=
  match ops, sns with
  | [], [] => true
  | o :: ops', sn :: sns' =>
      if negb (sn_alive sn) && (sn_reason sn =? RSpawnErr) then true
      else
        let a := a_step k a (sn_children prev) o in
        let '(ok, a) := agree k a sn in
        ok && walk k a sn ops' sns'
  | _, _ => false
  end.

Definition spec_prescribed (c : mcase) : bool :=
  match mc_snaps c with
  | [] => false
  | s0 :: sns =>
      if negb (sn_alive s0) then true        (* ProcessInit failed (spawn failure) *)
      else
        let '(ok, a) := agree (mc_cfg c) (a_init (mc_cfg c) (mc_children c)) s0 in
        ok && walk (mc_cfg c) a s0 (mc_ops c) sns
  end.

(* ---- C08 monitor: keeporder stops in reverse order, one by one --------------------------------------
   every non-empty stop list answered by an ARFO machine while (re)starting (mode 2 afterwards) with
   KeepOrder has exactly one pid, and no enabled spec behind it is still running *)
Fixpoint index_of_pid (pid : Z) (l : list cspec) (i : nat) : option nat :=
  match l with
  | [] => None
  | c :: tl => if c_pid c =? pid then Some i else index_of_pid pid tl (S i)
  end.
Definition none_running_after (i : nat) (l : list cspec) : bool :=
  forallb (fun c => c_dis c || (c_pid c =? 0)) (skipn (S i) l).
Definition keeporder_obs (k : config) (o : obs) : bool :=
  match o_call o, o_res o with
  | CTerminated _ _ _ _, RAct (TerminateChildren (p :: tl) _) =>
      if is_arfo k && k_keep k && (mode (o_state o) =? 2) then
        is_nil tl && match index_of_pid p (specs (o_state o)) 0 with
                     | Some i => none_running_after i (specs (o_state o))
                     | None => false
                     end
      else true
  | _, _ => true
  end.
Definition spec_keeporder (c : mcase) : bool := forallb (keeporder_obs (mc_cfg c)) (mc_trace c).

(* ---- C08 monitor: children are started in spec order ------------------------------------------------
   within one handleAction loop the indices of the started specs increase *)
Fixpoint starts_increasing (last : option nat) (l : list obs) : bool :=
  match l with
  | [] => true
  | o :: tl =>
      match o_call o with
      | CStarted i _ _ =>
          match last with
          | Some j => Nat.ltb j i && starts_increasing (Some i) tl
          | None => starts_increasing (Some i) tl
          end
      | _ => starts_increasing None tl
      end
  end.
Definition spec_start_order (c : mcase) : bool := starts_increasing None (mc_trace c).

(* ---- C08 monitor: every exit is noticed ---------------------------------------------------------------
   after childTerminated(name, pid, ..) the pid is in no wait set and no SOFO instance record; unless
   the machine was already shutting down before the call (then the spec list is no longer maintained)
   no spec holds that pid *)
Definition shutting (k : config) (s : state) : bool := if is_arfo k then mode s =? 3 else shut s.
Definition noticed_obs (k : config) (prev : state) (o : obs) : bool :=
  match o_call o with
  | CTerminated _ pid _ _ =>
      (shutting k prev || forallb (fun c => negb (c_pid c =? pid)) (specs (o_state o))) &&
      forallb (fun q => negb (fst q =? pid)) (pids (o_state o)) &&
      forallb (fun p => negb (p =? pid)) (wait (o_state o))
  | _ => true
  end.
Fixpoint noticed_from (k : config) (prev : state) (l : list obs) : bool :=
  match l with
  | [] => true
  | o :: tl => noticed_obs k prev o && noticed_from k (o_state o) tl
  end.
Definition spec_noticed (c : mcase) : bool := noticed_from (mc_cfg c) empty_state (mc_trace c).

(* ---- C09 monitor: giving up ------------------------------------------------------------------------------
   whenever the restart-intensity check said "exceeded" (the answer carries ErrSupervisorRestartsExceeded)
   every recorded running child is in the stop list, the machine is shutting down, and the supervisor
   finally terminates with the exceeded reason (checked on the final snapshot: the harness drains the
   outstanding exits at the end of every case) *)
Definition recorded_running (k : config) (s : state) : list Z :=
  match k_kind k with SOFO => map fst (pids s) | _ => running (specs s) end.
Definition subset (a b : list Z) : bool := forallb (fun x => existsb (Z.eqb x) b) a.
Definition gives_up_obs (k : config) (o : obs) : bool :=
  match o_res o with
  | RAct (TerminateChildren ps r) =>
      if r =? RExceeded then
        subset (recorded_running k (o_state o)) ps && subset ps (recorded_running k (o_state o)) &&
        (is_nil ps || (shutting k (o_state o) && (sreason (o_state o) =? RExceeded) &&
                       zlist_eqb (wait (o_state o)) (zset ps)))
      else true
  | _ => true
  end.
Definition gave_up (c : mcase) : bool :=
  existsb (fun o => match o_res o with RAct (TerminateChildren _ r) => r =? RExceeded | _ => false end) (mc_trace c).
Definition spec_gives_up (c : mcase) : bool :=
  forallb (gives_up_obs (mc_cfg c)) (mc_trace c) &&
  (negb (gave_up c) ||
   match last (mc_snaps c) (mk_snap empty_state [] [] true 0) with
   | sn => negb (sn_alive sn) && ((sn_reason sn =? RExceeded) || (sn_reason sn =? RSpawnErr))
           || negb (is_nil (sn_out sn))
   end).

(* ---- C09 monitor: every restart counts --------------------------------------------------------------------
   whenever the machine answers a child's termination by beginning a restart (one_for_one / simple_one_for_one:
   it asks for the child to be started again; all_for_one / rest_for_one in normal mode: it starts the child
   again at once or begins to stop the group for the restart), whatever the strategy and the exit reason that
   made the restart necessary, the restart was put on the record the intensity check counts
   (the [restarts] list changed: pruned entries go, the new timestamp is appended) *)
Definition begins_restart (k : config) (prev : state) (o : obs) : bool :=
  match o_call o with
  | CTerminated _ _ _ _ =>
      negb (shutting k prev) &&
      (if is_arfo k then mode prev =? 0 else true) &&
      match o_res o with
      | RAct (StartChild _) => true
      | RAct (TerminateChildren _ r) => negb (r =? RExceeded) && is_arfo k && (mode (o_state o) =? 2)
      | RAct DoNothing => is_arfo k && ((mode (o_state o) =? 2) || (mode (o_state o) =? 1))
      | _ => false
      end
  | _ => false
  end.
Fixpoint counted_from (k : config) (prev : state) (l : list obs) : bool :=
  match l with
  | [] => true
  | o :: tl => (negb (begins_restart k prev o) || negb (zlist_eqb (restarts (o_state o)) (restarts prev))) &&
               counted_from k (o_state o) tl
  end.
Definition spec_restart_counted (c : mcase) : bool := counted_from (mc_cfg c) empty_state (mc_trace c).
Fixpoint any_restart (k : config) (prev : state) (l : list obs) : bool :=
  match l with
  | [] => false
  | o :: tl => begins_restart k prev o || any_restart k (o_state o) tl
  end.
Definition premise_restarted (c : mcase) : bool := any_restart (mc_cfg c) empty_state (mc_trace c).

(* ---- C05 monitor: the reason reflects the cause ---------------------------------------------------------------
   a supervisor that is shutting down (an exit signal it received, a significant child, the restart intensity)
   and terminates when the last awaited child has gone terminates with the RECORDED cause of the shutdown,
   whatever reason that last child died with *)
Definition reason_obs (k : config) (prev : state) (o : obs) : bool :=
  match o_res o with
  | RAct (Terminate r) => negb (shutting k prev) || (r =? sreason prev)
  | _ => true
  end.
Fixpoint reason_from (k : config) (prev : state) (l : list obs) : bool :=
  match l with
  | [] => true
  | o :: tl => reason_obs k prev o && reason_from k (o_state o) tl
  end.
Definition spec_reason_is_cause (c : mcase) : bool := reason_from (mc_cfg c) empty_state (mc_trace c).
Fixpoint ended_shutdown (k : config) (prev : state) (l : list obs) : bool :=
  match l with
  | [] => false
  | o :: tl => (match o_res o with RAct (Terminate _) => shutting k prev | _ => false end) || ended_shutdown k (o_state o) tl
  end.
Definition premise_ended_shutdown (c : mcase) : bool := ended_shutdown (mc_cfg c) empty_state (mc_trace c).

(* ---- C10 monitor: the supervisor takes its children along ------------------------------------------------
   whenever the observed supervisor terminated through an action of its machine (any reason except a
   failed Spawn, whose error leaves ProcessRun directly), no child it started is still alive.
   Guard (see C10_sup_ofo_start_during_shutdown_refuted): supOFO accepts StartChild/AddChild/EnableChild
   while it is shutting down; such a child is not waited for and dies through its parent link only. *)
Definition started_in_shutdown (c : mcase) : bool :=
  existsb (fun o => match o_call o with
                    | CStarted _ _ _ => shutting (mc_cfg c) (o_state o)
                    | _ => false
                    end) (mc_trace c).
Definition spec_no_orphans (c : mcase) : bool :=
  started_in_shutdown c ||
  forallb (fun sn => sn_alive sn || (sn_reason sn =? RSpawnErr) || is_nil (sn_children sn)) (mc_snaps c).

(* ---- premises: non-vacuity counters -------------------------------------------------------------------- *)
(* the case reached at least one quiescent point after a child exit and the supervisor was started *)
Definition premise_quiescent (c : mcase) : bool :=
  match mc_snaps c with
  | s0 :: sns => sn_alive s0 && existsb quiescent sns
  | [] => false
  end.
Definition premise_gave_up (c : mcase) : bool := gave_up c.
Definition premise_terminated (c : mcase) : bool :=
  negb (started_in_shutdown c) &&
  existsb (fun sn => negb (sn_alive sn) && negb (sn_reason sn =? RSpawnErr)) (mc_snaps c).

(* ==== end-to-end observations (sub-command e2e: real node, real act.Supervisor, instrumented children) =====
   ec_ops    : the exit messages in the order the supervisor took them from its mailbox and the management
               calls in the order it executed them (pids renumbered in spawn order, as the model allocates)
   ec_spawns : every child start the supervisor made, in order: (pid, spec name)
   ec_obs    : at quiescent points: number of operations processed so far, is the supervisor alive, the
               termination reason its monitor saw, Supervisor.Children() as (spec, running instances),
               how many of the children it ever started are alive although it is gone, did the poll settle *)
Record eobs := mk_eobs { e_nops : nat; e_alive : bool; e_reason : Z; e_view : list (Z * nat);
                         e_orphans : nat; e_settled : bool }.
Arguments mk_eobs _%nat _ _%Z _ _%nat _.
Record ecase := mk_ecase { ec_cfg : config; ec_children : list (Z * bool); ec_ops : list op;
                           ec_spawns : list (Z * Z); ec_obs : list eobs }.

Definition spawns_of (ev : list event) : list (Z * Z) :=
  flat_map (fun e => match e with EvSpawn p n => [(p, n)] | _ => [] end) ev.

(* the supervisor was killed from outside (Node.Kill): not an operation of the model *)
Definition killed (o : eobs) : bool := negb (e_alive o) && (e_reason o =? RKill).

Definition corr_e2e_obs (c : ecase) (o : eobs) : bool :=
  if negb (e_settled o) || killed o then true else
  let s := run (ec_cfg c) (ec_children c) 0 (firstn (e_nops o) (ec_ops c)) in
  Bool.eqb (alive s) (e_alive o) &&
  (* a settled observation: every exit signal of handleAction has been obeyed (the instrumented children
     always terminate when told to), so nothing may be outstanding in the model either *)
  (if alive s then view_eqb (m_view (ec_cfg c) (m s)) (e_view o) && is_nil (outstanding s)
   else exitreason s =? e_reason o).
Definition corr_e2e (c : ecase) : bool :=
  forallb (corr_e2e_obs c) (ec_obs c) &&
  (existsb killed (ec_obs c) ||
   list_eqb pair_eqb (spawns_of (events (run (ec_cfg c) (ec_children c) 0 (ec_ops c)))) (ec_spawns c)).

(* the property on the implementation's observations: the specification walks over the operations
   (a group restart / shutdown completes as soon as the specification itself sees all children of the
   range down) and must agree with every settled observation *)
Fixpoint a_walk (k : config) (a : astate) (chs : list (Z * Z)) (ops : list op) : astate :=
  match ops with
  | [] => a_quiesce a
  | o :: tl => a_walk k (a_step k (a_quiesce a) chs o) chs tl
  end.
Definition spec_e2e_obs (c : ecase) (o : eobs) : bool :=
  if negb (e_settled o) || killed o then true else
  let a := a_walk (ec_cfg c) (a_init (ec_cfg c) (ec_children c)) (ec_spawns c) (firstn (e_nops o) (ec_ops c)) in
  if e_alive o then a_normal a && view_eqb (a_view a) (e_view o)
  else match a_phase a with ADead w => w =? e_reason o | _ => false end.
Definition spec_e2e_prescribed (c : ecase) : bool := forallb (spec_e2e_obs c) (ec_obs c).

(* C09 end to end: if the specification says the intensity was exceeded, the monitor of the supervisor saw
   the exceeded reason (implied by spec_e2e_prescribed; kept separate for the C09 check) *)
Definition spec_e2e_exceeded (c : ecase) : bool :=
  forallb (fun o => if negb (e_settled o) || killed o then true else
     let a := a_walk (ec_cfg c) (a_init (ec_cfg c) (ec_children c)) (ec_spawns c) (firstn (e_nops o) (ec_ops c)) in
     match a_phase a with
     | ADead w => if w =? RExceeded then negb (e_alive o) && (e_reason o =? RExceeded) else true
     | _ => negb (negb (e_alive o) && (e_reason o =? RExceeded))
     end) (ec_obs c).

(* C10 end to end: once the supervisor is gone (any reason, also killed) no child it started is alive *)
Definition spec_e2e_no_orphans (c : ecase) : bool :=
  forallb (fun o => e_alive o || negb (e_settled o) || Nat.eqb (e_orphans o) 0) (ec_obs c).

Definition premise_e2e_settled (c : ecase) : bool :=
  negb (is_nil (ec_obs c)) && forallb e_settled (ec_obs c).
Definition premise_e2e_dead (c : ecase) : bool := existsb (fun o => negb (e_alive o)) (ec_obs c).
Definition premise_e2e_exceeded (c : ecase) : bool :=
  existsb (fun o => negb (e_alive o) && (e_reason o =? RExceeded)) (ec_obs c).
