From Ergo Require Import Common.Base Sup.Intensity.
From Coq Require Import Sorting.Sorted.
Local Open Scope Z_scope.

(* Prop-level sortedness *)
Definition SortedZ (l : list Z) : Prop := StronglySorted Z.le l.

Lemma sorted_SortedZ l : sorted l = true -> SortedZ l.
Proof.
  induction l as [|x tl IH]; intros H; [constructor|].
  cbn [sorted] in H. destruct tl as [|y tl'].
  - constructor; [constructor|constructor].
  - apply andb_true_iff in H as [Hxy Ht]. specialize (IH Ht).
    constructor; [exact IH|].
    inversion IH as [|? ? Hs Hall]; subst.
    constructor; [lia|].
    eapply Forall_impl; [|exact Hall]. cbn; intros; lia.
Qed.

Lemma SortedZ_app_inv l1 l2 : SortedZ (l1 ++ l2) ->
  SortedZ l1 /\ SortedZ l2 /\ (forall a b, In a l1 -> In b l2 -> a <= b).
Proof.
  induction l1 as [|x l1 IH]; cbn [app]; intros H.
  - split; [constructor|]. split; [exact H|]. intros a b [].
  - inversion H as [|? ? Hs Hall]; subst. destruct (IH Hs) as (H1 & H2 & H3).
    rewrite Forall_app in Hall. destruct Hall as [Ha Hb].
    split; [constructor; assumption|]. split; [exact H2|].
    intros a b [<-|Ha'] Hb'.
    + rewrite Forall_forall in Hb. apply Hb; exact Hb'.
    + apply H3; assumption.
Qed.

Lemma zlen_app a b : zlen (a ++ b) = zlen a + zlen b.
Proof. unfold zlen. rewrite app_length. lia. Qed.

Lemma zlen_nonneg a : 0 <= zlen a.
Proof. unfold zlen. lia. Qed.

Lemma zlen_filter_le (f : Z -> bool) l : zlen (filter f l) <= zlen l.
Proof.
  unfold zlen. induction l as [|x l IH]; cbn [filter length]; [lia|].
  destruct (f x); cbn [length]; lia.
Qed.

Lemma filter_all_true (f : Z -> bool) l : (forall x, In x l -> f x = true) -> filter f l = l.
Proof.
  induction l as [|x l IH]; intros H; cbn [filter]; [reflexivity|].
  rewrite (H x (or_introl eq_refl)). f_equal. apply IH. intros y Hy. apply H. right; exact Hy.
Qed.

Lemma filter_all_false (f : Z -> bool) l : (forall x, In x l -> f x = false) -> filter f l = [].
Proof.
  induction l as [|x l IH]; intros H; cbn [filter]; [reflexivity|].
  rewrite (H x (or_introl eq_refl)). apply IH. intros y Hy. apply H. right; exact Hy.
Qed.

(* On a sorted list, dropping the too-old prefix is the same as keeping exactly the
   entries inside the window. *)
Lemma prune_filter now pm l : SortedZ l -> prune now pm l = filter (in_window now pm) l.
Proof.
  induction l as [|x l IH]; intros Hs; [reflexivity|].
  inversion Hs as [|? ? Hs' Hall]; subst.
  cbn [prune filter]. unfold in_window at 1.
  destruct (now - x >? pm) eqn:Hgt.
  - replace (now - x <=? pm) with false by lia. apply IH; exact Hs'.
  - replace (now - x <=? pm) with true by lia.
    f_equal. symmetry. apply filter_all_true. intros y Hy.
    rewrite Forall_forall in Hall. specialize (Hall y Hy). unfold in_window. lia.
Qed.

Lemma prune_suffix now pm l : exists d, l = d ++ prune now pm l /\ (forall x, In x d -> now - x > pm).
Proof.
  induction l as [|x l IH]; cbn [prune].
  - exists []. split; [reflexivity|]. intros ? [].
  - destruct (now - x >? pm) eqn:Hgt.
    + destruct IH as (d & Hd & Hold). exists (x :: d). split.
      * cbn [app]. f_equal. exact Hd.
      * intros y [<-|Hy]; [lia|apply Hold; exact Hy].
    + exists []. split; [reflexivity|]. intros ? [].
Qed.

(* Invariant tying the kept list to the full history of restart requests: it is a
   suffix of the history and everything dropped is already out of every future window. *)
Definition Inv (pm : Z) (hist st : list Z) : Prop :=
  exists dropped, hist = dropped ++ st /\
    forall d, In d dropped -> exists h, In h hist /\ h - d > pm.

Lemma Inv_init pm : Inv pm [] [].
Proof. exists []. split; [reflexivity|]. intros ? []. Qed.

Lemma count_window_split dropped st now pm :
  (forall d, In d dropped -> now - d > pm) ->
  count_window (dropped ++ st) now pm = count_window st now pm.
Proof.
  intros H. unfold count_window. rewrite filter_app.
  rewrite filter_all_false; [reflexivity|].
  intros x Hx. specialize (H x Hx). unfold in_window. lia.
Qed.

Lemma check_step period intensity hist st now :
  0 <= period ->
  Inv (period * 1000) hist st -> SortedZ (hist ++ [now]) ->
  let '(st', ex) := check st now period intensity in
  ex = spec_exceeded hist now period intensity /\ Inv (period * 1000) (hist ++ [now]) st'.
Proof.
  intros Hp (dropped & Hh & Hold) Hs.
  set (pm := period * 1000) in *.
  assert (Hle : forall h, In h hist -> h <= now).
  { apply SortedZ_app_inv in Hs as (_ & _ & H3). intros h Hin. apply H3; [exact Hin|left; reflexivity]. }
  assert (Hold' : forall d, In d dropped -> now - d > pm).
  { intros d Hd. destruct (Hold d Hd) as (h & Hin & Hgt). specialize (Hle h Hin). lia. }
  assert (Hs2 : SortedZ (st ++ [now])).
  { subst hist. rewrite <- app_assoc in Hs. apply SortedZ_app_inv in Hs as (_ & H2 & _). exact H2. }
  unfold check, spec_exceeded. fold pm.
  assert (Hcw : count_window (hist ++ [now]) now pm = count_window (st ++ [now]) now pm).
  { subst hist. rewrite <- app_assoc. apply count_window_split. exact Hold'. }
  rewrite Hcw.
  destruct (zlen (st ++ [now]) <=? intensity) eqn:Hlen.
  - split.
    + unfold count_window. pose proof (zlen_filter_le (in_window now pm) (st ++ [now])). lia.
    + exists dropped. split; [subst hist; rewrite app_assoc; reflexivity|].
      intros d Hd. exists now. split; [apply in_or_app; right; left; reflexivity|].
      specialize (Hold' d Hd). lia.
  - split.
    + rewrite prune_filter by exact Hs2. reflexivity.
    + destruct (prune_suffix now pm (st ++ [now])) as (d2 & Hd2 & Hold2).
      exists (dropped ++ d2). split.
      * subst hist. rewrite <- !app_assoc. f_equal. exact Hd2.
      * intros d Hd. exists now. split; [apply in_or_app; right; left; reflexivity|].
        apply in_app_or in Hd as [Hd|Hd]; [specialize (Hold' d Hd)|specialize (Hold2 d Hd)]; lia.
Qed.

Lemma run_checks_spec period intensity ts : forall hist st,
  0 <= period ->
  Inv (period * 1000) hist st -> SortedZ (hist ++ ts) ->
  snd (run_checks st ts period intensity) = spec_run hist ts period intensity.
Proof.
  induction ts as [|t ts IH]; intros hist st Hp HI Hs; [reflexivity|].
  cbn [run_checks spec_run].
  assert (Hs1 : SortedZ (hist ++ [t])).
  { change (t :: ts) with ([t] ++ ts) in Hs. rewrite app_assoc in Hs.
    apply SortedZ_app_inv in Hs as (H1 & _ & _). exact H1. }
  pose proof (check_step period intensity hist st t Hp HI Hs1) as Hstep.
  destruct (check st t period intensity) as [st' ex]. destruct Hstep as [Hex HI'].
  specialize (IH (hist ++ [t]) st' Hp HI').
  destruct (run_checks st' ts period intensity) as [stf exs]. cbn [snd] in *.
  rewrite Hex. f_equal. apply IH.
  rewrite <- app_assoc. exact Hs.
Qed.

(* The statement of C09 (decision part): for every intensity, every period and every
   non-decreasing timing pattern of restart requests, the k-th request is reported as
   exceeding exactly when it is the (intensity+1)-th or later request within the last
   period seconds, counting itself. *)
Theorem intensity_exact period intensity ts :
  0 <= period -> sorted ts = true ->
  snd (run_checks [] ts period intensity) = spec_run [] ts period intensity.
Proof.
  intros Hp Hs. apply run_checks_spec; [exact Hp|apply Inv_init|].
  cbn [app]. apply sorted_SortedZ. exact Hs.
Qed.

(* Restarts older than the period do not count: requests that are all more than a period
   apart never exceed, whatever (positive) intensity. *)
Lemma spec_exceeded_far hist now period intensity :
  1 <= intensity -> (forall h, In h hist -> now - h > period * 1000) ->
  spec_exceeded hist now period intensity = false.
Proof.
  intros Hi Hfar. unfold spec_exceeded.
  rewrite count_window_split by exact Hfar.
  unfold count_window, zlen. cbn [filter]. destruct (in_window _ _ _); cbn [length]; lia.
Qed.

(* At or below the limit it keeps restarting: the first [intensity] requests never exceed. *)
Lemma spec_exceeded_few hist now period intensity :
  zlen hist < intensity -> spec_exceeded hist now period intensity = false.
Proof.
  intros Hlen. unfold spec_exceeded, count_window.
  pose proof (zlen_filter_le (in_window now (period * 1000)) (hist ++ [now])) as H.
  rewrite zlen_app in H. change (zlen [now]) with 1 in H. lia.
Qed.

(* A burst: intensity+1 requests inside one period do exceed (at the last one). *)
Lemma spec_exceeded_burst hist now period intensity :
  0 <= intensity -> zlen hist >= intensity ->
  (forall h, In h hist -> now - h <= period * 1000) -> 0 <= period ->
  spec_exceeded hist now period intensity = true.
Proof.
  intros Hi Hlen Hnear Hp. unfold spec_exceeded, count_window.
  rewrite filter_all_true.
  - rewrite zlen_app. change (zlen [now]) with 1. lia.
  - intros x Hx. apply in_app_or in Hx as [Hx|[<-|[]]]; unfold in_window.
    + specialize (Hnear x Hx). lia.
    + lia.
Qed.

(* ---- every call leaves a mark on the record (the monitor spec_restart_counted of Sup/MachineCases.v looks for it):
   whatever is pruned, the list returned by the check differs from the list it was given *)
Lemma rot_eq (rs : list Z) : forall x now, x :: rs = rs ++ [now] -> x = now.
Proof.
  induction rs as [|y t IH]; intros x now H.
  - inversion H. reflexivity.
  - cbn [app] in H. inversion H as [[Hxy Ht]]. subst y. exact (IH x now Ht).
Qed.

Lemma check_records rs now period intensity :
  0 <= period -> fst (check rs now period intensity) <> rs.
Proof.
  intros Hp. unfold check.
  destruct (zlen (rs ++ [now]) <=? intensity) eqn:Hle; cbn [fst].
  - intros H. apply (f_equal (@length Z)) in H. rewrite app_length in H. cbn in H. lia.
  - destruct (prune_suffix now (period * 1000) (rs ++ [now])) as [d [Hd Hold]].
    intros H. rewrite H in Hd.
    assert (Hlen : length d = 1%nat).
    { apply (f_equal (@length Z)) in Hd. rewrite !app_length in Hd. cbn in Hd. lia. }
    destruct d as [|x [|? ?]]; try discriminate.
    cbn [app] in Hd. symmetry in Hd. apply rot_eq in Hd. subst x.
    specialize (Hold now (or_introl eq_refl)). lia.
Qed.
